#!/usr/bin/env python3
"""Imports and verifies independently written breaking changes (seeds).

  seed.py import <srcdir> <prop> <name>
      srcdir holds patch.diff, meta.json and the demonstration file named in
      meta.json["demo_file"] (basename).  In a fresh scratch worktree of /repo
      the script checks: patch applies; go build + go vet + full test suite
      pass WITHOUT the demo; the demo FAILS with the patch and PASSES without
      it.  Only then is the seed stored under /verif/seeded/<prop>-<name>/.
      Finally every property check is run against the patched tree and the
      verdicts are recorded in meta.json ("detection").
  seed.py check [<prop>-<name> ...]
      re-runs all property checks against every stored seed and rewrites
      their "detection" entries; prints a table.
"""
import json, os, shutil, subprocess, sys, tempfile, re, concurrent.futures
VERIF = os.path.dirname(os.path.dirname(os.path.abspath(__file__)))
REPO = "/repo"
ENV = dict(os.environ, PATH="/opt/veriftools/go1.26.8/bin:" + os.environ["PATH"], GOFLAGS="-mod=mod", GOPROXY="off", GOSUMDB="off", GOTOOLCHAIN="local")
ENV.pop("GOWORK", None)
PROPS = [json.loads(l)["id"] for l in open(os.path.join(VERIF, "properties.jsonl"))]

def sh(cmd, cwd=None, shell=False, timeout=900):
    try:
        r = subprocess.run(cmd, cwd=cwd, env=ENV, stdout=subprocess.PIPE, stderr=subprocess.STDOUT, text=True, shell=shell, timeout=timeout)
        return r.returncode, r.stdout
    except subprocess.TimeoutExpired as e:
        return 124, "timeout"

import threading
GITLOCK = threading.Lock()

def scratch(rev="HEAD"):
    d = tempfile.mkdtemp(prefix="setecseed."); os.rmdir(d)
    with GITLOCK:
        rc, out = sh(["git", "-C", REPO, "worktree", "add", "-q", "--detach", d, rev])
    assert rc == 0, out
    return d

def drop(d):
    with GITLOCK:
        sh(["git", "-C", REPO, "worktree", "remove", "--force", d])
    shutil.rmtree(d, ignore_errors=True)

def vet_all(d):
    rc, out = sh([os.path.join(VERIF, "bin/setecvet"), "-prop", "all", "-repo", d, "-verif", d + "/.verif-out"])
    res = {}
    chunk = []
    for line in out.splitlines():
        m = re.match(r"RESULT property=(\S+) exit=(\d+)", line)
        if m:
            txt = "\n".join(chunk); chunk = []
            res[m.group(1)] = {"exit": int(m.group(2)), "rules": sorted(set(re.findall(r"violated (R-[A-Z0-9-]+)", txt))), "undecided": sorted(set(re.findall(r"UNDECIDED property=\S+ rule=(\S+)", txt)))}
        else:
            chunk.append(line)
    if len(res) == len(PROPS):
        return res
    # fall back to one process per property (e.g. the checker crashed)
    def one(prop):
        rc, out = sh([os.path.join(VERIF, "bin/setecvet"), "-prop", prop, "-repo", d, "-verif", d + "/.verif-out"])
        rules = sorted(set(re.findall(r"violated (R-[A-Z0-9-]+)", out)))
        und = sorted(set(re.findall(r"UNDECIDED property=\S+ rule=(\S+)", out)))
        return prop, {"exit": rc, "rules": rules, "undecided": und}
    with concurrent.futures.ThreadPoolExecutor(max_workers=6) as ex:
        return dict(ex.map(one, PROPS))

def detection(d, prop):
    res = vet_all(d)
    fired = {p: v for p, v in res.items() if v["exit"] != 0}
    own = res[prop]
    return {"own_property": own, "caught_by_own_check": own["exit"] == 1, "other_checks_firing": {p: v for p, v in fired.items() if p != prop}}

def cmd_import(src, prop, name):
    meta = json.load(open(os.path.join(src, "meta.json")))
    patch = os.path.join(src, "patch.diff")
    demo_rel = meta["demo_file"]
    demo_src = None
    for f in os.listdir(src):
        if f.endswith(".go") and (f == os.path.basename(demo_rel) or demo_src is None):
            demo_src = os.path.join(src, f)
    demo_cmd = meta["demo_cmd"]
    d = scratch()
    log = []
    try:
        rc, out = sh(["git", "-C", d, "apply", patch])
        if rc: print("REJECT: patch does not apply\n" + out); return 1
        for cmd in (["go", "build", "./..."], ["go", "vet", "./..."], ["go", "test", "-count=1", "-timeout", "180s", "./..."]):
            rc, out = sh(cmd, cwd=d)
            log.append("%s -> %d" % (" ".join(cmd), rc))
            if rc: print("REJECT: %s fails with the patch\n%s" % (" ".join(cmd), out[-1500:])); return 1
        shutil.copy(demo_src, os.path.join(d, demo_rel))
        rc, out = sh(demo_cmd, cwd=d, shell=True)
        log.append("demo with patch: %s -> %d" % (demo_cmd, rc))
        if rc == 0: print("REJECT: demo passes WITH the patch"); return 1
        os.remove(os.path.join(d, demo_rel))
        det = detection(d, prop)
        rc, out = sh(["git", "-C", d, "apply", "-R", patch])
        shutil.copy(demo_src, os.path.join(d, demo_rel))
        rc, out = sh(demo_cmd, cwd=d, shell=True)
        log.append("demo without patch: %s -> %d" % (demo_cmd, rc))
        if rc != 0: print("REJECT: demo fails WITHOUT the patch\n" + out[-1500:]); return 1
        dst = os.path.join(VERIF, "seeded", "%s-%s" % (prop, name))
        os.makedirs(dst, exist_ok=True)
        shutil.copy(patch, os.path.join(dst, "patch.diff"))
        shutil.copy(demo_src, os.path.join(dst, os.path.basename(demo_rel)))
        meta.update({"round": os.environ.get("SEED_ROUND", "round 1"), "base": sh(["git", "-C", REPO, "rev-parse", "--short", "HEAD"])[1].strip(), "property": prop, "origin": "written by an independent sub-agent given only the property text and a scratch worktree", "verified": log, "detection": det})
        json.dump(meta, open(os.path.join(dst, "meta.json"), "w"), indent=1)
        meta["first_contact"] = "own" if det["caught_by_own_check"] else (("other (%s)" % ",".join(sorted(det["other_checks_firing"]))) if det["other_checks_firing"] else "missed") + ("; own undecided" if det["own_property"]["exit"] == 2 else "")
        json.dump(meta, open(os.path.join(dst, "meta.json"), "w"), indent=1)
        verdict = "CAUGHT" if det["caught_by_own_check"] else ("caught-by-other:" + ",".join(det["other_checks_firing"]) if det["other_checks_firing"] else "MISSED")
        print("KEPT %s-%s  %s  own=%s" % (prop, name, verdict, det["own_property"]))
        return 0
    finally:
        drop(d)

def cmd_check(names):
    root = os.path.join(VERIF, "seeded")
    todo = []
    for s in sorted(os.listdir(root)):
        if names and s not in names: continue
        if os.path.exists(os.path.join(root, s, "meta.json")): todo.append(s)
    with concurrent.futures.ThreadPoolExecutor(max_workers=int(os.environ.get("SEED_JOBS", "6"))) as ex:
        rows = [r for rs in ex.map(lambda s: check_one(root, s), todo) for r in rs]
    for r in rows: print("%-12s %s" % r)
    return 0

def check_one(root, s):
    rows = []
    if True:
        mp = os.path.join(root, s, "meta.json")
        meta = json.load(open(mp))
        d = scratch()
        try:
            rc, out = sh(["git", "-C", d, "apply", os.path.join(root, s, "patch.diff")])
            note = ""
            if rc and meta.get("base"):
                # written against an earlier commit of /repo (before a later fix touched the same lines)
                drop(d); d = scratch(meta["base"])
                rc, out = sh(["git", "-C", d, "apply", os.path.join(root, s, "patch.diff")])
                note = " [applied at base %s]" % meta["base"]
            if rc:
                rows.append((s, "SKIPPED (patch no longer applies)")); return rows
            det = detection(d, meta["property"])
            meta["detection"] = det
            json.dump(meta, open(mp, "w"), indent=1)
            v = "CAUGHT " + ",".join(det["own_property"]["rules"]) if det["caught_by_own_check"] else ("other: " + ",".join("%s%s" % (p, v["rules"]) for p, v in det["other_checks_firing"].items()) if det["other_checks_firing"] else "MISSED")
            if det["own_property"]["exit"] == 2: v += " (own check UNDECIDED: %s)" % det["own_property"]["undecided"]
            rows.append((s, v + note))
        finally:
            drop(d)
    return rows

if __name__ == "__main__":
    if sys.argv[1] == "import": sys.exit(cmd_import(*sys.argv[2:5]))
    if sys.argv[1] == "check": sys.exit(cmd_check(sys.argv[2:]))
