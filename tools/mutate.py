#!/usr/bin/env python3
"""Sensitivity mutants for setecvet.

  mutate.py new <prop> <name> <relfile> <expect-rule>   (reads "OLD\n=====\nNEW" from stdin)
      creates /verif/mutants/<prop>/<name>.diff after checking that the mutant
      compiles and passes the pinned test suite; prints whether setecvet fires.
  mutate.py run [<prop> ...] [-j N]
      applies every stored mutant to a scratch worktree of /repo's HEAD +
      working tree under $TMPDIR, runs setecvet on it, removes the worktree.
      Exit 0 iff every applicable mutant is reported with its expected rule.

Mutants never touch /repo; nothing is kept under /tmp afterwards.
"""
import re, json, os, subprocess, sys, tempfile, shutil, concurrent.futures, re

VERIF = os.path.dirname(os.path.dirname(os.path.abspath(__file__)))
REPO = os.environ.get("SETEC_REPO", "/repo")
ENV = dict(os.environ, PATH="/opt/veriftools/go1.26.8/bin:" + os.environ["PATH"], GOFLAGS="-mod=mod",
           GOPROXY="off", GOSUMDB="off", GOTOOLCHAIN="local")
ENV.pop("GOWORK", None)

def sh(cmd, cwd=None, check=True):
    r = subprocess.run(cmd, cwd=cwd, env=ENV, stdout=subprocess.PIPE, stderr=subprocess.STDOUT, text=True)
    if check and r.returncode != 0:
        raise RuntimeError("%s failed:\n%s" % (cmd, r.stdout))
    return r

import threading
GITLOCK = threading.Lock()

def scratch():
    d = tempfile.mkdtemp(prefix="setecmut.")
    os.rmdir(d)
    # copy of the working tree (tracked files as they are now), not just HEAD
    with GITLOCK:
        sh(["git", "-C", REPO, "worktree", "add", "-q", "--detach", d, "HEAD"])
    diff = sh(["git", "-C", REPO, "diff", "HEAD"]).stdout
    if diff.strip():
        p = subprocess.run(["git", "-C", d, "apply"], input=diff, text=True, env=ENV)
    return d

def drop(d):
    with GITLOCK:
        sh(["git", "-C", REPO, "worktree", "remove", "--force", d], check=False)
    shutil.rmtree(d, ignore_errors=True)

def vet(d, prop):
    r = sh([os.path.join(VERIF, "bin/setecvet"), "-prop", prop, "-repo", d, "-verif", d + "/.verif-out"], check=False)
    rules = sorted(set(re.findall(r"violated (R-[A-Z0-9-]+)", r.stdout)))
    und = sorted(set(re.findall(r"UNDECIDED property=\S+ rule=(\S+)", r.stdout)))
    return r.returncode, rules, und, r.stdout

def cmd_new(prop, name, rel, expect):
    hunks = sys.stdin.read().split("\n#####\n")
    d = scratch()
    try:
        p = os.path.join(d, rel)
        s = open(p).read()
        for h in hunks:
            old, new = h.split("\n=====", 1)
            new = new.lstrip("\n").rstrip("\n")
            old = old.rstrip("\n")
            if s.count(old) != 1:
                print("OLD text occurs %d times in %s" % (s.count(old), rel)); return 1
            s = s.replace(old, new)
        open(p, "w").write(s)
        r = sh(["go", "build", "./..."], cwd=d, check=False)
        if r.returncode != 0:
            print("mutant does not compile:\n" + r.stdout); return 1
        r = sh(["go", "vet", "./..."], cwd=d, check=False)
        vetnote = "" if r.returncode == 0 else " (go vet complains)"
        r = sh(["go", "test", "-count=1", "-timeout", "120s", "./..."], cwd=d, check=False)
        if r.returncode != 0:
            print("mutant FAILS the pinned suite (not kept):\n" + r.stdout[-1500:]); return 1
        diff = sh(["git", "-C", d, "diff"]).stdout
        code, rules, und, out = vet(d, prop)
        os.makedirs(os.path.join(VERIF, "mutants", prop), exist_ok=True)
        open(os.path.join(VERIF, "mutants", prop, name + ".diff"), "w").write(diff)
        meta = {"property": prop, "expect_rule": expect, "file": rel}
        open(os.path.join(VERIF, "mutants", prop, name + ".json"), "w").write(json.dumps(meta, indent=1) + "\n")
        verdict = "CAUGHT" if (code == 1 and (expect in rules or expect == "*")) else "MISSED"
        print("%s %s/%s: exit=%d rules=%s undecided=%s%s" % (verdict, prop, name, code, rules, und, vetnote))
        if verdict == "MISSED":
            print(out[-3000:])
        return 0
    finally:
        drop(d)

def run_one(prop, name):
    if name.startswith("seed:"):
        sd = os.path.join(VERIF, "seeded", name[5:])
        meta = {"expect_rule": "*"}
        base = None
        patch = os.path.join(sd, "patch.diff")
    else:
        base = os.path.join(VERIF, "mutants", prop, name)
        meta = json.load(open(base + ".json"))
        patch = base + ".diff"
    d = scratch()
    try:
        r = subprocess.run(["git", "-C", d, "apply", patch], env=ENV, stdout=subprocess.PIPE, stderr=subprocess.STDOUT, text=True)
        if r.returncode != 0:
            return (prop, name, "SKIPPED", "patch no longer applies", [])
        r = sh(["go", "build", "./..."], cwd=d, check=False)
        if r.returncode != 0:
            return (prop, name, "SKIPPED", "does not compile on this tree", [])
        code, rules, und, out = vet(d, prop)
        ok = code == 1 and (meta["expect_rule"] in rules or meta["expect_rule"] == "*")
        return (prop, name, "CAUGHT" if ok else "MISSED", "exit=%d expect=%s" % (code, meta["expect_rule"]), rules)
    finally:
        drop(d)

def cmd_run(args):
    j = 4
    props = []
    it = iter(args)
    for a in it:
        if a == "-j":
            j = int(next(it))
        else:
            props.append(a)
    jobs = []
    root = os.path.join(VERIF, "mutants")
    for prop in sorted(os.listdir(root)):
        if props and prop not in props:
            continue
        for f in sorted(os.listdir(os.path.join(root, prop))):
            if f.endswith(".diff"):
                jobs.append((prop, f[:-5]))
    # independently written seeds of the same properties (any rule of the property's own check counts)
    sroot = os.path.join(VERIF, "seeded")
    if os.path.isdir(sroot):
        for sd in sorted(os.listdir(sroot)):
            mp = os.path.join(sroot, sd, "meta.json")
            if not os.path.exists(mp):
                continue
            sp = json.load(open(mp))["property"]
            if props and sp not in props:
                continue
            jobs.append((sp, "seed:" + sd))
    res = []
    with concurrent.futures.ThreadPoolExecutor(max_workers=j) as ex:
        for r in ex.map(lambda a: run_one(*a), jobs):
            res.append(r)
            print("%-8s %s/%s  %s  %s" % (r[2], r[0], r[1], r[3], r[4]))
    caught = sum(1 for r in res if r[2] == "CAUGHT")
    missed = sum(1 for r in res if r[2] == "MISSED")
    skipped = sum(1 for r in res if r[2] == "SKIPPED")
    print("sensitivity: %d/%d caught, %d missed, %d skipped" % (caught, caught + missed, missed, skipped))
    json.dump({"caught": caught, "missed": missed, "skipped": skipped,
               "results": [{"property": r[0], "mutant": r[1], "verdict": r[2], "detail": r[3], "rules": r[4]} for r in res]},
              open(os.path.join(VERIF, "out", "sensitivity-%s.json" % ("-".join(props) or "all")), "w"), indent=1)
    return 0 if missed == 0 else 1

def cmd_benign(args):
    """Applies every behaviour-preserving patch in /verif/benign to a scratch
    copy and runs ALL property checks on it: every check must exit 0."""
    root = os.path.join(VERIF, "benign")
    props = [json.loads(l)["id"] for l in open(os.path.join(VERIF, "properties.jsonl"))]
    bad = 0
    only = [a for a in args if not a.startswith("-")]
    for f in sorted(os.listdir(root)):
        if not f.endswith(".diff") or (only and f[:-5] not in only):
            continue
        d = scratch()
        try:
            r = subprocess.run(["git", "-C", d, "apply", os.path.join(root, f)], env=ENV, stdout=subprocess.PIPE, stderr=subprocess.STDOUT, text=True)
            if r.returncode != 0:
                print("SKIPPED %s: patch does not apply: %s" % (f, r.stdout.strip()[:200])); continue
            r = sh(["go", "build", "./..."], cwd=d, check=False)
            if r.returncode != 0:
                print("SKIPPED %s: does not compile\n%s" % (f, r.stdout[-500:])); continue
            r = sh(["go", "test", "-count=1", "-timeout", "120s", "./..."], cwd=d, check=False)
            if r.returncode != 0:
                print("SKIPPED %s: fails the pinned suite (not benign)" % f); continue
            r = sh([os.path.join(VERIF, "bin/setecvet"), "-prop", "all", "-repo", d, "-verif", d + "/.verif-out"], check=False)
            res, chunk = [], []
            for line in r.stdout.splitlines():
                m = re.match(r"RESULT property=(\S+) exit=(\d+)", line)
                if m:
                    txt = "\n".join(chunk); chunk = []
                    res.append((m.group(1), int(m.group(2)), sorted(set(re.findall(r"violated (R-[A-Z0-9-]+)", txt))), sorted(set(re.findall(r"UNDECIDED property=\S+ rule=(\S+)", txt)))))
                else:
                    chunk.append(line)
            if len(res) != len(props):
                res = [("all", 2, [], ["checker did not finish: " + r.stdout[-300:]])]
            alarms = [(p, c, rl, u) for (p, c, rl, u) in res if c != 0]
            if alarms:
                bad += 1
                print("FALSE-ALARM %s: %s" % (f, alarms))
            else:
                print("QUIET       %s (all %d checks exit 0)" % (f, len(props)))
        finally:
            drop(d)
    return 1 if bad else 0

def cmd_newbenign(name, rel):
    hunks = sys.stdin.read().split("\n#####\n")
    d = scratch()
    try:
        files = rel.split(",")
        for h in hunks:
            old, new = h.split("\n=====", 1)
            new = new.lstrip("\n").rstrip("\n"); old = old.rstrip("\n")
            done = False
            for fl in files:
                p = os.path.join(d, fl)
                s = open(p).read()
                if s.count(old) == 1:
                    open(p, "w").write(s.replace(old, new)); done = True; break
            if not done:
                print("OLD text not found exactly once:\n" + old[:200]); return 1
        sh(["gofmt", "-l", "."], cwd=d, check=False)
        diff = sh(["git", "-C", d, "diff"]).stdout
        os.makedirs(os.path.join(VERIF, "benign"), exist_ok=True)
        open(os.path.join(VERIF, "benign", name + ".diff"), "w").write(diff)
        print("stored benign/%s.diff" % name)
        return 0
    finally:
        drop(d)

if __name__ == "__main__":
    os.makedirs(os.path.join(VERIF, "out"), exist_ok=True)
    if sys.argv[1] == "new":
        sys.exit(cmd_new(*sys.argv[2:6]))
    elif sys.argv[1] == "run":
        sys.exit(cmd_run(sys.argv[2:]))
    elif sys.argv[1] == "benign":
        sys.exit(cmd_benign(sys.argv[2:]))
    elif sys.argv[1] == "newbenign":
        sys.exit(cmd_newbenign(sys.argv[2], sys.argv[3]))
