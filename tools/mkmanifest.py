#!/usr/bin/env python3
"""Regenerates /verif/MANIFEST.json from the table below (one row per claimed
property) and validates it against the schema if jsonschema is importable."""
import json, os, sys
VERIF = os.path.dirname(os.path.dirname(os.path.abspath(__file__)))

# id -> (technique, level text, level note, DESIGN section)
CLAIMS = {
 "C01": ("SSA edge-dominance of every secrets-state access by a successful permission check (same caller, documented action, same name); path-enumerated nil-return summary of the check helper; identity value-flow in the server",
         "Structural necessary condition, decided for all inputs and paths: no db.DB operation can read or change the secrets state, and List cannot emit an entry, except on control-flow edges where the permission check for the documented action succeeded for that caller and that name; the check helper cannot return nil unless Allow was true; the server passes the WhoIs identity through unchanged. Does not decide what Allow answers on strings (C07) nor behaviour on concrete databases.",
         "go/types+go/ssa of x/tools v0.50.0; multierr.New/errors.Join nil iff all elements nil; sentinel errors non-nil; docs/api.md is the oracle for the action table", "4/C01"),
 "C06": ("SSA edge-dominance of every mutation and every value return by the nil edge of the audit-writing permission helper; path-enumerated fail-closed summary of the helper; must-pass-through (record on every path, refusal branches, nothing on the not-modified path); value identity of the record's fields; error discipline and sink wiring of audit.Writer; constant open flags",
         "Structural necessary conditions, decided on all paths: no mutation takes effect and no secret value is returned except after the audit-writing helper returned nil for that caller/action/name; the helper writes a record on every path (also when denying) and cannot return nil if the write failed; the unchanged conditional get writes nothing; the record's fields are the request's; the Writer returns every Encode error, reports success only through Sync of the very sink it encodes to, unbuffered; the audit file is O_APPEND, never truncated, owner-only. Does not decide interleaving of concurrent appends on a real file.",
         "json.Encoder.Encode = one Write per record; O_APPEND atomic per write(2); multierr.New nil iff all nil", "4/C06"),
 "C12": ("inter-procedural must-held lock-set analysis (type-level lock identity, inferred entry states of helpers, tabled pre-publication region ending where the *Store escapes), effect reachability of blocking/service operations from every call made under the lock, who-may-write on SecretValue, edge-dominance of removals by the handle-map check",
         "Structural conditions decided for every schedule: all accesses to the active maps and cached entries are ordered by one mutex (the standard sufficient condition for absence of data races on them); nothing that can wait for the service, the network, a timer or another goroutine is reachable while the mutex is held, so a handle never waits for a request; installed values are replaced, never mutated (no torn value); a name with a handle is never removed and only non-nil fetched values are installed, so the handle's unchecked dereference is safe; the read path has no panic site. Does not decide the order of values readers observe nor replace race-detector runs.",
         "Go memory model; Cache.Write is local persistence; logf/timeNow function values do not block on the service", "4/C12"),
 "C14": ("inter-procedural must-held lock-set analysis over package db (constructor chain tabled as pre-publication), single-critical-section path check per operation, type- and value-level escape check of shared state, who-may-write on server.Server, key/version value identity",
         "For the data part a sufficient condition, decided for every schedule: every access to kv/secret state lies inside db.DB.mu; each operation's accesses form one critical section between invocation and response; nothing aliasing shared state leaves it (values copied by conversion, no map/*secret results); the server layer is stateless after New; a value's reported version is the key its bytes were read under. Hence operations are linearizable w.r.t. the sequential code (C02). Does not search concurrent histories; the audit writer (outside DB.mu) is not part of the claim.",
         "Go memory model; one DB per kv; calls through function values do not reach db's private state", "4/C14"),
 "C07": ("sanitizer flow (Split -> QuoteMeta on every piece of a full-range loop -> Join -> constant format) plus regexp-template analysis with regexp/syntax on the extracted constants; loop/boolean-structure recognition of Rules.Allow and Rule.Allow; panic-site enumeration over the call graph",
         "Decided for all valid-UTF-8 patterns and names, up to regexp's conformance to regexp/syntax: the expression compiled for any pattern is ^L1(any char incl. newline)*L2...$ with every literal piece quoted, text anchors at both ends, no case folding; a star-free pattern matches only the identical name; a rule set allows iff one single rule lists the action and has a matching pattern (empty set allows nothing, monotone); evaluation has no reachable panic site. Does not decide matching on concrete strings beyond what the template proves.",
         "regexp implements regexp/syntax semantics; QuoteMeta(x) matches exactly x; Split/Join inverse", "4/C07"),
 "C17": ("cycle-must-contain analysis on the backup task's CFG (every cycle passes a blocking select on the task context's Done() whose branch returns), constant evaluation of the timer, edge-dominance of the upload by generation != last, phi-source analysis of the loop-carried generation, value-flow of the uploaded body, who-may-call on the task",
         "Structural necessary conditions, decided for all timelines: the backup task blocks in every loop cycle on cancellation or a >= 1 minute timer (quiescent, cancellable, at most one upload a minute); an upload happens only when the write generation read in that iteration differs from the last successfully uploaded one, which is updated only after a successful upload; the generation is read before the file; the body is the unmodified file content and failures are reported; the task is started once under the server's context. Does not decide S3 behaviour or wall-clock timing; snapshot consistency rests on C04.",
         "time.After(d) fires no earlier than d; os.ReadFile sees one version of a file that is only replaced by rename", "4/C17"),
 "C02": ("effect sets per public operation over the module call graph against a who-may-write table; contradiction rule on version-map reads (comma-ok, value used only under ok); arithmetic shape of every store to the version counter and key identity of inserts/returns (memory-aware); edge-dominance of deletes/activations and of input guards",
         "Structural necessary conditions, decided on all paths (not the model equivalence): each operation can only write the locations its documentation allows (put never re-activates, only activate changes the default); a missing version is never read as an empty value; version numbers only move by +1 from the counter (never recomputed, so never reused), new values are stored under and returned as that number, the dedupe short-cut applies only while that version exists with equal bytes; the active version exists and cannot be deleted; empty/reserved names and version 0 never reach a mutation; values are immutable copies; operations touch only their own name. Does not decide equality with the map model over histories.",
         "calls outside the module do not touch db's private state", "4/C02"),
 "C11": ("path analysis of the poll loop (fetch-or-skip, deciding branch of every skip path) with backward data/control-dependence slicing through the snapshot's struct field to the handle map; edge-dominance of apply by poll's nil error; error-flow of every fetch error into the returned join; value identity of name/version/value pairings; single-flight key constants; effect set of poll",
         "Structural necessary conditions, decided on all paths: a poll fetches every name the store keeps (a skip must depend on the handle map, because names with handles are never forgotten); nothing is applied after a failed poll and no fetch error is dropped; the name fetched, the version sent, the value recorded and the entry installed are the same snapshot entry; installs happen in one critical section followed by a cache flush; poll rounds are single-flighted under a key disjoint from lookups and Refresh is the only route to them; poll itself writes nothing. Does not decide freshness against the service's history, cadence +/-10%, or convergence.",
         "singleflight runs one function per key at a time; errors.Join nil iff all nil", "4/C11"),
 "C16": ("edge-dominance of every lookup call by the policy flag; who-may-call on service requests; containment of the fetch in the single-flight literal with key/name identity; typestate of the install (fetch ok => install => flush => handle, failure writes nothing); phi-source analysis of the fetch context with constant timeout; dependence slicing of every retry edge (winner witness or bounded counter); edge-cut reachability for 'only context errors are retried'",
         "Structural necessary conditions, decided on all paths: with lookups disabled no lookup or request is reachable and unknown names are reported (or panic in Secret); a lookup's request runs only inside the per-name single-flight; a fetched secret is installed only on success, then flushed, and every waiter gets a handle for it; a failed lookup installs nothing and is not retried unless it is a context error while the caller's own context is alive; a caller without deadline gets a <= 5 minute derived timeout, and the retry edge can tell the caller whose own timeout fired from a waiter (so the 5-minute limit holds). Does not decide behaviour over virtual time.",
         "singleflight.Do runs fn synchronously in the winner and hands every caller the same result", "4/C16"),
 "C13": ("must-pass-through from every change of the active set to a cache write before the lock is released; phi-source analysis of NewStore's want-flush flag; value identity of the flushed document (live map, one Write); who-may-write files in the client library with constant modes; JSON wire signatures of cache writer and file-client reader computed from go/types; control-dependence of NewStore's error returns; edge analysis of the validity gate",
         "Structural necessary conditions, decided on all paths: whenever the store installs, replaces or removes a value, and when its poller shuts down, the whole live map is marshalled and handed to the cache in one write; the file cache is replaced atomically with owner-only permissions; cache writer and file-backed reader agree on the record format (documented shape); NewStore never fails because of the cache and clears a partially decoded or invalid map before use; the validity gate rejects exactly the nil levels later code dereferences unchecked. Does not decide what encoding/json does with arbitrary bytes.",
         "encoding/json does not panic on malformed input; atomicfile.WriteFile is atomic (C04)", "4/C13"),
 "C19": ("who-may-write on the active set (single post-publication removal site) with edge-dominance by the nil-marker and no-handle conditions; dependence of the expired flag on the expiry predicate; guard structure and operand identity of the predicate's comparison; must-pass-through of the access stamp in every handle read under the lock; JSON tags from go/types; who-may-write on Declared restricted to the pre-publication region",
         "Structural necessary conditions, decided on all paths: a secret can leave the store only in the apply phase of a poll, only when the poll marked it expired and no handle exists; the mark is set only when the expiry predicate said so; the predicate can be true only for undeclared entries with a positive expiry age and then compares store-clock minus the entry's last access with the age, strictly; every read stamps the entry it returns; the stamp is persisted and the declaration is not; only configured names are ever marked declared, and only by the constructor. Does not decide clock arithmetic over histories.",
         "time.Time.Sub / time.Unix as documented", "4/C19"),
 "C15": ("constant capacity of every watcher channel and non-blocking send shape of notify; dominance of notify by the install of the same name inside one critical section; value-flow of the registered watcher's handle and of NewUpdater's initial read; lock-set discipline on Updater fields; edge-dominance and load/store ordering of rebuild, Close and err in Updater.Get",
         "Structural necessary conditions, decided on all paths: notifications are level-triggered (buffered >= 1, never blocking), sent only after the new value is installed and under the same lock, for the watchers of that name; a watcher wraps the live handle of the name it is registered under and an updater's first value is read after registration; Updater state is guarded by its mutex; Get rebuilds only when signalled, replaces and closes only on success, closes only the previous value and at most once, always records the outcome, and returns the field's current value. Does not decide sequences of values over histories.",
         "buffered channel + non-blocking send keeps one pending notification", "4/C15"),
 "C10": ("edge-dominance and assumption-pruned reachability of the Store's construction (validation first); cycle-must-contain with verified waiter summaries and finite-iteration back edges excluded; must-pass-through of the ctx.Err() test after a failed fetch; interval reasoning on the loop-carried back-off (phi sources, doubling under v < C); phi-edge analysis of the missing counter; edge-dominance by the file-client type test",
         "Structural necessary conditions, decided on all paths: the Store is built only from a validated configuration and every declared name is checked for emptiness; every retry round passes a wait that blocks on the context or a timer; after a failed fetch the context is consulted before anything else and a dead context returns an error; the pause stays below 2C <= 10 s; only missing names are fetched, a success installs the value before moving on, every failure is counted, and nil is returned only when nothing is missing; a file-backed client never waits. Does not decide wall-clock promptness.",
         "time.After(d) fires after d; iteration over a finite collection terminates", "4/C10"),
 "C20": ("alias/taint flow from Secret invocations to reflect.ValueOf with copying operations as sanitizers; sibling agreement of the name computation in Secrets and Apply (same callee, same operands) and of the validation and assignment type switches; loop-exit and error-flow analysis of Fields.Apply; edge-dominance of reflective accesses by the kind tests",
         "Structural necessary conditions, decided on all paths: bytes owned by the store never reach caller memory without a copy; the names declared to the store are exactly the names later looked up (prefix/name via path.Join in both places); Apply attempts every field and reports every failure; the types accepted up front are exactly the types the assignment handles, everything else (empty names, non-structs, untagged structs, unsupported types) is rejected with an error; configured structs are applied before NewStore returns and their names are declared; strings are conversions of the bytes, Secret fields get the live handle. Does not decide behaviour over arbitrary run-time struct shapes.",
         "bytes.Clone/slices.Clone/string(b) copy; BinaryUnmarshaler copies by contract", "4/C20"),
 "C03": ("typestate on SSA CFG paths (mutation => save => tested error before any return), value-flow of the bytes handed to the file writer, edge-dominance on the open path, JSON wire-signature computed from go/types against the frozen v1 signature, reader/writer sibling agreement",
         "Structural necessary conditions, decided on all paths: no mutator of the persistent state can return without having called the file-writing save and tested its error; what is saved is the live map, wrapped as documented; opening writes only when the file does not exist; the v1 wire layout (keys, encodings, AEAD contexts, key template, schema constant) is unchanged and reader and writer agree. Does not decide state equality after arbitrary histories nor decoding of real old files.",
         "encoding/json encodes according to the computed shape; tink keyset reader/writer are inverse; the v1 layout is the one documented on db.kv", "4/C03"),
 "C04": ("who-may-write over resolved callees (file-mutating calls in package db), ordered edge-dominance inside the dependency's atomicfile.WriteFile, rollback typestate matching each forward write with its inverse on the failed-save edge (memory-aware value identity), edge-dominance of the generation bump",
         "Structural necessary conditions, decided on all paths: the database file is only ever replaced through atomicfile.WriteFile, whose create-temp/write/sync/close/rename order is checked in the source the build resolves; after a failed save every mutator undoes each of its writes and reports an error; the write generation moves only after a successful write; creation fails rather than serve an unsaved store. Does not decide POSIX crash semantics nor partial writes inside package os.",
         "rename within a directory is atomic, fsync is durable (POSIX); os.File.Write reports short writes; calls outside the module do not touch db's private state", "4/C04"),
}

def main():
    props = [json.loads(l) for l in open(os.path.join(VERIF, "properties.jsonl"))]
    ids = [p["id"] for p in props]
    checks = []
    for pid in ids:
        if pid not in CLAIMS:
            continue
        tech, text, note, ref = CLAIMS[pid]
        checks.append({
            "property_id": pid,
            "quick_cmd": "./run %s quick" % pid,
            "thorough_cmd": "./run %s thorough" % pid,
            "evidence_file": "evidence/%s.json" % pid,
            "replay_cmd_template": "./run %s replay {path}" % pid,
            "engine": "setecvet",
            "level_claimed": {"category": "other", "text": text, "design_ref": "DESIGN.md section " + ref},
            "level_note": note,
            "technique": tech,
        })
    na = [{"property_id": pid, "reason": "check not yet registered (framework under construction)"} for pid in ids if pid not in CLAIMS]
    m = {
        "version": 1,
        "setup_cmd": "./setup.sh",
        "hooks": {
            "guard": "verif",
            "enable": "none needed: the analysis reads unexported code directly from source; no hook commits exist",
            "baseline_off_cmd": "cd /repo && go test -mod=mod -json -vet=off -count=1 -timeout 25m ./...",
            "source_commits": [],
            "add_only": True,
        },
        "engines": [{"name": "setecvet", "path": "checker", "serves_properties": sorted(CLAIMS),
                     "kind_free_text": "repository-specific static analyser over go/types + go/ssa: edge-dominance facts, typestate on CFG paths, lock sets, effect sets over the module call graph, value identity/taint, regexp-template and wire-signature analysis; never executes setec code"}],
        "checks": checks,
        "not_applicable": na,
        "notes": "All claims are at level 'other': each check decides named structural clauses that are necessary conditions of the property (for C12/C14 data part: sufficient), for every input/path/schedule, and says in its evidence what it does not decide. Exit 2 + 'UNDECIDED' (no VIOLATION line) means a rule could not be applied to an edited tree. Genuine defects of the pinned tree were repaired by 'fix:' commits in /repo, listed in known-findings.txt.",
    }
    json.dump(m, open(os.path.join(VERIF, "MANIFEST.json"), "w"), indent=1)
    try:
        import jsonschema
        jsonschema.validate(m, json.load(open("/root/.vp/MANIFEST.schema.json")))
        print("MANIFEST.json valid; %d checks, %d not_applicable" % (len(checks), len(na)))
    except ImportError:
        print("written (jsonschema not importable with this python; use python3-vt)")

if __name__ == "__main__":
    main()
