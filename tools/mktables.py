#!/usr/bin/env python3
"""Regenerates the detection table in DESIGN.md from mutants/ and seeded/."""
import json, os, glob, re
VERIF = os.path.dirname(os.path.dirname(os.path.abspath(__file__)))
rows = ["| change | property | what it does | needs | caught by (own check) | other checks firing | first contact |", "|---|---|---|---|---|---|---|"]
for d in sorted(glob.glob(os.path.join(VERIF, "seeded", "*"))):
    mp = os.path.join(d, "meta.json")
    if not os.path.exists(mp): continue
    m = json.load(open(mp))
    det = m.get("detection", {})
    own = det.get("own_property", {})
    others = ", ".join("%s %s" % (p, "/".join(v["rules"])) for p, v in sorted(det.get("other_checks_firing", {}).items()))
    caught = "/".join(own.get("rules", [])) if own.get("exit") == 1 else ("UNDECIDED" if own.get("exit") == 2 else "**missed**")
    first = m.get("first_contact", "")
    def esc(s): return str(s).replace("|", "\\|").replace("\n", " ")[:230]
    rows.append("| seed %s (%s) | %s | %s | %s | %s | %s | %s |" % (os.path.basename(d), m.get("round", "round 1"), m["property"], esc(m.get("summary", "")), esc(m.get("needs", "")), caught, others, first))
own_rows = ["| mutant | expected rule |", "|---|---|"]
for mp in sorted(glob.glob(os.path.join(VERIF, "mutants", "*", "*.json"))):
    m = json.load(open(mp))
    own_rows.append("| %s/%s | %s |" % (m["property"], os.path.basename(mp)[:-5], m["expect_rule"]))
text = "\nIndependent seeds (written without access to /verif; verdicts from `tools/seed.py check` on the current tree):\n\n" + "\n".join(rows) + \
    "\n\nOwn sensitivity mutants (each compiles and passes the pinned suite; `tools/mutate.py run` requires the expected rule to fire; `*` = any rule of the property):\n\n" + "\n".join(own_rows) + "\n"
p = os.path.join(VERIF, "DESIGN.md")
s = open(p).read()
s = re.sub(r"<!-- BEGIN DETECTION TABLE -->.*<!-- END DETECTION TABLE -->", "<!-- BEGIN DETECTION TABLE -->" + text.replace("\\", "\\\\") + "<!-- END DETECTION TABLE -->", s, flags=re.S)
open(p, "w").write(s)
print("table: %d seeds, %d mutants" % (len(rows) - 2, len(own_rows) - 2))
