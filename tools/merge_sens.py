#!/usr/bin/env python3
"""Adds the sensitivity self-test result (tools/mutate.py run <prop>) to the
evidence file of a property.  The self-test is evidence about the checker; it
never changes the verdict."""
import json, os, sys
VERIF = os.path.dirname(os.path.dirname(os.path.abspath(__file__)))
prop = sys.argv[1]
ev = os.path.join(VERIF, "evidence", prop + ".json")
sens = os.path.join(VERIF, "out", "sensitivity-%s.json" % prop)
if not (os.path.exists(ev) and os.path.exists(sens)):
    print("sensitivity: not available"); sys.exit(0)
e = json.load(open(ev)); s = json.load(open(sens))
e["coverage"]["sensitivity"] = {
    "rule": "stored mutants (each compiles and passes the pinned suite) applied one at a time to a scratch copy of the current tree; caught = the check exits 1 naming the expected rule",
    "caught": s["caught"], "missed": s["missed"], "skipped_not_applicable": s["skipped"],
    "mutants": s["results"],
}
json.dump(e, open(ev, "w"), indent=1)
print("sensitivity %s: %d/%d caught, %d skipped" % (prop, s["caught"], s["caught"] + s["missed"], s["skipped"]))
