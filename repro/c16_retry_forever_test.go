package setec_test

// Repro for C16 defect: a caller without a deadline that itself ran the lookup
// fetch and hit the fallback timeout retries forever (ctx.Err()==nil).
// The fallback timeout (5 min) is simulated by a client that reports
// context.DeadlineExceeded, which is what the real client returns when the
// derived context's timeout fires.
// Copy to /repo/client/setec/ and run: go test ./client/setec -run TestReproC16

import (
	"context"
	"fmt"
	"sync/atomic"
	"testing"
	"time"

	"github.com/tailscale/setec/client/setec"
	"github.com/tailscale/setec/types/api"
)

type hangClient struct {
	calls  atomic.Int32
	cancel context.CancelFunc
}

func (h *hangClient) Get(ctx context.Context, name string) (*api.SecretValue, error) {
	if name == "decl" {
		return &api.SecretValue{Value: []byte("x"), Version: 1}, nil
	}
	if h.calls.Add(1) >= 5 {
		h.cancel() // break the endless retry so the test terminates
	}
	return nil, fmt.Errorf("Get %q: %w", name, context.DeadlineExceeded)
}

func (h *hangClient) GetIfChanged(ctx context.Context, name string, v api.SecretVersion) (*api.SecretValue, error) {
	return nil, api.ErrValueNotChanged
}

// noDeadline hides the cancellation deadline (there is none) but lets us stop
// the loop from the test.
func TestReproC16(t *testing.T) {
	ctx, cancel := context.WithCancel(context.Background())
	defer cancel()
	hc := &hangClient{cancel: cancel}
	st, err := setec.NewStore(ctx, setec.StoreConfig{
		Client:       hc,
		Secrets:      []string{"decl"},
		AllowLookup:  true,
		PollInterval: -1,
	})
	if err != nil {
		t.Fatal(err)
	}
	defer st.Close()
	done := make(chan error, 1)
	go func() { _, err := st.LookupSecret(ctx, "u"); done <- err }()
	select {
	case <-done:
	case <-time.After(10 * time.Second):
		t.Fatal("lookup did not return")
	}
	if n := hc.calls.Load(); n != 1 {
		t.Fatalf("lookup fetched %d times after its own fallback timeout; want 1 (no automatic retry)", n)
	}
}
