package acl_test

// Repro for C07 defect: '*' does not match newline.
// Copy to /repo/acl/ and run: go test ./acl -run TestReproC07

import (
	"testing"

	"github.com/tailscale/setec/acl"
)

func TestReproC07(t *testing.T) {
	if !acl.Secret("*").Match("a\nb") {
		t.Fatal(`Secret("*") does not match "a\nb"`)
	}
	if !acl.Secret("a*b").Match("a\n\nb") {
		t.Fatal(`Secret("a*b") does not match "a\n\nb"`)
	}
}
