package setec_test

// Repro for C20 defect: []byte field aliases the store's bytes.
// Copy to /repo/client/setec/ and run: go test ./client/setec -run TestReproC20

import (
	"context"
	"net/http/httptest"
	"testing"

	"github.com/tailscale/setec/client/setec"
	"github.com/tailscale/setec/setectest"
)

func TestReproC20(t *testing.T) {
	d := setectest.NewDB(t, nil)
	d.MustPut(d.Superuser, "x", "hello")
	ts := setectest.NewServer(t, d, nil)
	hs := httptest.NewServer(ts.Mux)
	defer hs.Close()
	var v struct {
		X []byte `setec:"x"`
	}
	st, err := setec.NewStore(context.Background(), setec.StoreConfig{
		Client:       setec.Client{Server: hs.URL, DoHTTP: hs.Client().Do},
		Structs:      []setec.Struct{{Value: &v}},
		PollInterval: -1,
	})
	if err != nil {
		t.Fatal(err)
	}
	defer st.Close()
	v.X[0] = 'J'
	if got := string(st.Secret("x").Get()); got != "hello" {
		t.Fatalf("store now serves %q after caller mutated its field", got)
	}
}
