package setec_test

// Repro for C11 defect: a secret with an outstanding handle that is "expired"
// is skipped by poll forever, although Refresh reports success.
// Copy to /repo/client/setec/ and run: go test ./client/setec -run TestReproC11

import (
	"context"
	"net/http/httptest"
	"testing"
	"time"

	"github.com/tailscale/setec/client/setec"
	"github.com/tailscale/setec/setectest"
)

func TestReproC11(t *testing.T) {
	d := setectest.NewDB(t, nil)
	d.MustPut(d.Superuser, "decl", "x")
	d.MustPut(d.Superuser, "u", "old")
	ts := setectest.NewServer(t, d, nil)
	hs := httptest.NewServer(ts.Mux)
	defer hs.Close()
	ctx := context.Background()
	now := time.Unix(1000, 0)
	st, err := setec.NewStore(ctx, setec.StoreConfig{
		Client:       setec.Client{Server: hs.URL, DoHTTP: hs.Client().Do},
		Secrets:      []string{"decl"},
		AllowLookup:  true,
		ExpiryAge:    30 * time.Second,
		PollInterval: -1,
		TimeNow:      func() time.Time { return now },
	})
	if err != nil {
		t.Fatal(err)
	}
	defer st.Close()
	h, err := st.LookupSecret(ctx, "u")
	if err != nil {
		t.Fatal(err)
	}
	if got := string(h.Get()); got != "old" {
		t.Fatalf("got %q", got)
	}
	now = now.Add(time.Hour) // not read for longer than the expiry age
	v := d.MustPut(d.Superuser, "u", "new")
	d.MustActivate(d.Superuser, "u", v)
	if err := st.Refresh(ctx); err != nil {
		t.Fatal(err)
	}
	// The poll succeeded; the store still knows "u" (it has a handle), so it
	// must now yield the server's active version.
	if err := st.Refresh(ctx); err != nil {
		t.Fatal(err)
	}
	if got := string(h.Get()); got != "new" {
		t.Fatalf("after successful Refresh handle yields %q, want %q", got, "new")
	}
}
