package setec_test

// Repro for C13/C10 defect: a cache whose content is the JSON document `null`
// decodes "successfully" into a nil map; NewStore then panics with
// "assignment to entry in nil map" when it stubs the declared names.
// (Found by two independent sub-agents while writing seeded changes.)
// Copy to /repo/client/setec/ and run: go test ./client/setec -run TestReproC13Null

import (
	"context"
	"testing"

	"github.com/tailscale/setec/client/setec"
	"github.com/tailscale/setec/types/api"
)

type oneClient struct{}

func (oneClient) Get(ctx context.Context, name string) (*api.SecretValue, error) {
	return &api.SecretValue{Value: []byte("v"), Version: 1}, nil
}
func (oneClient) GetIfChanged(ctx context.Context, name string, v api.SecretVersion) (*api.SecretValue, error) {
	return nil, api.ErrValueNotChanged
}

func TestReproC13Null(t *testing.T) {
	for _, doc := range []string{"null", " null\n"} {
		st, err := setec.NewStore(context.Background(), setec.StoreConfig{
			Client:       oneClient{},
			Secrets:      []string{"a"},
			Cache:        setec.NewMemCache(doc),
			PollInterval: -1,
		})
		if err != nil {
			t.Fatalf("cache %q: NewStore failed: %v", doc, err)
		}
		if got := string(st.Secret("a").Get()); got != "v" {
			t.Fatalf("cache %q: got %q", doc, got)
		}
		st.Close()
	}
}
