package db_test

// Repro for C02 defect: kv.put dedupe conflates "missing" with "empty".
// Copy to /repo/db/ and run: go test ./db -run TestReproC02

import (
	"testing"

	"github.com/tailscale/setec/setectest"
)

func TestReproC02(t *testing.T) {
	d := setectest.NewDB(t, nil)
	su := d.Superuser
	d.MustPut(su, "a", "v1")
	v2 := d.MustPut(su, "a", "v2")
	if err := d.Actual.DeleteVersion(su, "a", v2); err != nil {
		t.Fatal(err)
	}
	v, err := d.Actual.Put(su, "a", []byte{})
	if err != nil {
		t.Fatal(err)
	}
	got, err := d.Actual.GetVersion(su, "a", v)
	if err != nil {
		t.Fatalf("Put returned version %d but GetVersion fails: %v", v, err)
	}
	if len(got.Value) != 0 {
		t.Fatalf("got %q", got.Value)
	}
}
