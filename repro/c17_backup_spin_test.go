package server

// Repro for C17 defect: after the first successful upload, periodicBackup
// spins on db.WriteGen() without blocking and never observes cancellation.
// Copy to /repo/server/ and run: go test ./server -run TestReproC17

import (
	"context"
	"io"
	"net/http"
	"path/filepath"
	"strings"
	"sync/atomic"
	"testing"
	"time"

	"github.com/aws/aws-sdk-go-v2/aws"
	"github.com/aws/aws-sdk-go-v2/service/s3"
	"github.com/tailscale/setec/audit"
	"github.com/tailscale/setec/db"
	"github.com/tink-crypto/tink-go/v2/testutil"
)

type okHTTP struct{ n atomic.Int32 }

func (o *okHTTP) Do(r *http.Request) (*http.Response, error) {
	if r.Body != nil {
		io.Copy(io.Discard, r.Body)
	}
	o.n.Add(1)
	return &http.Response{StatusCode: 200, Header: http.Header{}, Body: io.NopCloser(strings.NewReader("")), Request: r}, nil
}

func TestReproC17(t *testing.T) {
	d, err := db.Open(filepath.Join(t.TempDir(), "db"), &testutil.DummyAEAD{Name: "k"}, audit.New(io.Discard))
	if err != nil {
		t.Fatal(err)
	}
	hc := &okHTTP{}
	s := &Server{
		db:           d,
		backupBucket: "b",
		backupClient: s3.New(s3.Options{
			Region:       "us-east-1",
			HTTPClient:   hc,
			Credentials:  aws.AnonymousCredentials{},
			BaseEndpoint: aws.String("http://127.0.0.1:1"),
			UsePathStyle: true,
		}),
	}
	ctx, cancel := context.WithCancel(context.Background())
	done := make(chan struct{})
	go func() { defer close(done); s.periodicBackup(ctx) }()
	// wait for the first upload
	for i := 0; i < 200 && hc.n.Load() == 0; i++ {
		time.Sleep(10 * time.Millisecond)
	}
	if hc.n.Load() == 0 {
		t.Fatal("no upload happened")
	}
	// Now nothing changes.  The wait after the first upload is one minute
	// (a constant in the code); once it has elapsed the defective loop never
	// blocks again: it spins on WriteGen and ignores ctx.  (Takes 62 s.)
	time.Sleep(62 * time.Second)
	cancel()
	select {
	case <-done:
	case <-time.After(3 * time.Second):
		t.Fatal("periodicBackup did not terminate after cancellation")
	}
}
