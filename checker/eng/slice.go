package eng

import (
	"go/token"

	"golang.org/x/tools/go/ssa"
)

// BackwardSlice visits every value v may depend on: operands (data
// dependence), the stores feeding loads of local cells and literal fields,
// the branch conditions that select among a phi's incoming edges (control
// dependence), and -- through module callees, to a bounded depth -- the values
// a called function returns.
func (p *Prog) BackwardSlice(v ssa.Value, visit func(ssa.Value)) {
	seen := map[ssa.Value]bool{}
	var rec func(v ssa.Value, depth int)
	rec = func(v ssa.Value, depth int) {
		if v == nil || seen[v] {
			return
		}
		seen[v] = true
		visit(v)
		switch x := v.(type) {
		case *ssa.Phi:
			b := x.Block()
			own := map[*ssa.If]bool{}
			for _, f := range BlockFacts(b) {
				own[f.If] = true
			}
			for i, e := range x.Edges {
				rec(e, depth)
				pred := b.Preds[i]
				for _, f := range BlockFacts(pred) {
					if !own[f.If] {
						rec(f.If.Cond, depth)
					}
				}
				if ifi, ok := pred.Instrs[len(pred.Instrs)-1].(*ssa.If); ok {
					rec(ifi.Cond, depth)
				}
			}
		case *ssa.UnOp:
			rec(x.X, depth)
			if x.Op == token.MUL {
				// stores feeding this load
				switch a := x.X.(type) {
				case *ssa.Alloc:
					for _, st := range cellStores(a) {
						rec(st.Val, depth)
					}
				case *ssa.FreeVar:
					if cell := cellOf(a); cell != nil {
						for _, st := range cellStores(cell) {
							rec(st.Val, depth)
						}
					}
				case *ssa.FieldAddr:
					if al, ok := a.X.(*ssa.Alloc); ok {
						if refs := al.Referrers(); refs != nil {
							for _, r := range *refs {
								if fa, ok := r.(*ssa.FieldAddr); ok && fa.Field == a.Field {
									for _, rr := range *fa.Referrers() {
										if st, ok := rr.(*ssa.Store); ok && st.Addr == ssa.Value(fa) {
											rec(st.Val, depth)
										}
									}
								}
							}
						}
						// whole-struct stores into the cell
						for _, st := range cellStores(al) {
							rec(st.Val, depth)
						}
					}
				}
			}
		case *ssa.Call:
			for _, a := range CallArgs(&x.Call) {
				rec(a, depth)
			}
			if !x.Call.IsInvoke() {
				rec(x.Call.Value, depth)
			}
			if cal := Callee(&x.Call); cal != nil && depth < 3 {
				cal = Unwrap(cal)
				if p.isModuleFunc(cal) {
					for _, r := range Returns(cal) {
						for _, rv := range RetVals(r) {
							rec(rv, depth+1)
						}
					}
				}
			}
		default:
			if in, ok := v.(ssa.Instruction); ok {
				for _, op := range in.Operands(nil) {
					if *op != nil {
						rec(*op, depth)
					}
				}
			}
		}
	}
	rec(v, 0)
}

// DependsOn reports whether the backward slice of v contains a value
// satisfying pred.
func (p *Prog) DependsOn(v ssa.Value, pred func(ssa.Value) bool) bool {
	found := false
	p.BackwardSlice(v, func(x ssa.Value) {
		if !found && pred(x) {
			found = true
		}
	})
	return found
}
