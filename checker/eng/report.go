package eng

import (
	"encoding/json"
	"fmt"
	"go/token"
	"os"
	"path/filepath"
	"sort"
	"strings"
	"time"

	"golang.org/x/tools/go/ssa"
)

// Status of an obligation.
type Status string

const (
	Discharged Status = "discharged"
	Violated   Status = "violated"
	Undecided  Status = "undecided"
)

// Ob is one obligation generated from the program.
type Ob struct {
	Rule   string `json:"rule"`
	Fn     string `json:"fn"`
	Site   string `json:"site"`             // the construct, normalised (no line numbers)
	Pos    string `json:"pos"`              // file:line:col, for the reader only
	Want   string `json:"want,omitempty"`   // what the rule requires here
	Detail string `json:"detail,omitempty"` // what was found / why it fails
	Status Status `json:"status"`
	Known  bool   `json:"known_finding,omitempty"`
}

// Key identifies an obligation independent of line numbers.
func (o Ob) Key() string { return o.Rule + "|" + o.Fn + "|" + o.Site }

// Ctx collects the obligations of one property run.
type Ctx struct {
	P      *Prog
	Prop   string
	Obs    []Ob
	floors map[string]int
	extra  map[string]int // additional weight of sites in shared helpers, per rule
	Notes  []string
}

func NewCtx(p *Prog, prop string) *Ctx {
	return &Ctx{P: p, Prop: prop, floors: map[string]int{}}
}

func (c *Ctx) add(st Status, rule string, fn *ssa.Function, pos token.Pos, site, want, detail string) {
	c.Obs = append(c.Obs, Ob{Rule: rule, Fn: FName(fn), Site: site, Pos: c.P.Pos(pos), Want: want, Detail: detail, Status: st})
	// a site inside an unexported helper shared by k callers stands for k
	// sites of the code before the helper was extracted: the instance floors
	// (a guard against vacuous rules, counted on the pinned tree) weigh it so
	if fn != nil {
		g := Outer(fn)
		if obj := g.Object(); obj != nil && !obj.Exported() && g.Blocks != nil {
			if k := len(StaticCallSites(g)); k > 1 {
				if c.extra == nil {
					c.extra = map[string]int{}
				}
				c.extra[rule] += k - 1
			}
		}
	}
}

// Ok records a discharged obligation.
func (c *Ctx) Ok(rule string, fn *ssa.Function, pos token.Pos, site, want string) {
	c.add(Discharged, rule, fn, pos, site, want, "")
}

// Bad records a violated obligation.
func (c *Ctx) Bad(rule string, fn *ssa.Function, pos token.Pos, site, want, detail string) {
	c.add(Violated, rule, fn, pos, site, want, detail)
}

// Check records Ok or Bad depending on ok.
func (c *Ctx) Check(ok bool, rule string, fn *ssa.Function, pos token.Pos, site, want, detail string) bool {
	if ok {
		c.Ok(rule, fn, pos, site, want)
	} else {
		c.Bad(rule, fn, pos, site, want, detail)
	}
	return ok
}

// Undecided records that a rule could not be applied.
func (c *Ctx) Undecided(rule string, fn *ssa.Function, pos token.Pos, site, reason string) {
	c.add(Undecided, rule, fn, pos, site, "", reason)
}

// Floor requires at least n obligations (any status) under rule; fewer means
// the rule would pass vacuously and is reported as undecided.
func (c *Ctx) Floor(rule string, n int) { c.floors[rule] = n }

// Count returns the number of obligations recorded under rule.
func (c *Ctx) Count(rule string) int {
	n := 0
	for _, o := range c.Obs {
		if o.Rule == rule {
			n++
		}
	}
	return n
}

// Evidence is the JSON written to /verif/evidence/<id>.json.
type Evidence struct {
	PropertyID  string         `json:"property_id"`
	Tier        string         `json:"tier"`
	Seed        int            `json:"seed"`
	Level       string         `json:"level"`
	Coverage    map[string]any `json:"coverage"`
	Assumptions []string       `json:"assumptions"`
	WallS       float64        `json:"wall_s"`
	Violations  int            `json:"violations"`
}

// Finding is a known-findings entry.
type Finding struct {
	Prop, Rule, Fn, Site, What string
}

// LoadKnownFindings parses /verif/known-findings.txt: lines
//
//	finding: property=<id> rule=<r> fn=<fn> site=<site> :: <what fails>
//
// "fixed:" lines are documentation only and suppress nothing.
func LoadKnownFindings(path string) []Finding {
	bs, err := os.ReadFile(path)
	if err != nil {
		return nil
	}
	var out []Finding
	for _, ln := range strings.Split(string(bs), "\n") {
		ln = strings.TrimSpace(ln)
		if !strings.HasPrefix(ln, "finding:") {
			continue
		}
		body := strings.TrimSpace(strings.TrimPrefix(ln, "finding:"))
		what := ""
		if i := strings.Index(body, " :: "); i >= 0 {
			what = body[i+4:]
			body = body[:i]
		}
		f := Finding{What: what}
		// fields separated by " rule=", " fn=", " site=" in that order
		get := func(key string, next []string) string {
			i := strings.Index(body, key)
			if i < 0 {
				return ""
			}
			rest := body[i+len(key):]
			end := len(rest)
			for _, n := range next {
				if j := strings.Index(rest, n); j >= 0 && j < end {
					end = j
				}
			}
			return strings.TrimSpace(rest[:end])
		}
		f.Prop = get("property=", []string{" rule="})
		f.Rule = get("rule=", []string{" fn="})
		f.Fn = get("fn=", []string{" site="})
		f.Site = get("site=", nil)
		out = append(out, f)
	}
	return out
}

// Result of finishing a run.
type Result struct {
	Exit      int
	Violated  []Ob
	Undecided []Ob
	Known     []Ob
}

// Finish sorts obligations, applies floors and known findings, writes the
// evidence and replay files and prints the verdict lines.  verifDir is /verif.
func (c *Ctx) Finish(verifDir, tier string, seed int, t0 time.Time, explanation string, notDecided string, trusted []string, assumptions []string, extra map[string]any) Result {
	for rule, n := range c.floors {
		if got := c.Count(rule) + c.extra[rule]; got < n {
			c.Obs = append(c.Obs, Ob{Rule: rule, Fn: "-", Site: "instance floor", Pos: "-", Status: Undecided,
				Detail: fmt.Sprintf("rule ranged over %d sites, expected at least %d (confirmed by hand on the pinned tree); a rule matching fewer sites would pass vacuously", got, n)})
		}
	}
	sort.SliceStable(c.Obs, func(i, j int) bool {
		a, b := c.Obs[i], c.Obs[j]
		if a.Rule != b.Rule {
			return ruleLess(a.Rule, b.Rule)
		}
		if a.Fn != b.Fn {
			return a.Fn < b.Fn
		}
		return posLess(a.Pos, b.Pos)
	})
	known := LoadKnownFindings(filepath.Join(verifDir, "known-findings.txt"))
	var res Result
	nd := 0
	perRule := map[string][3]int{}
	for i := range c.Obs {
		o := &c.Obs[i]
		pr := perRule[o.Rule]
		switch o.Status {
		case Discharged:
			nd++
			pr[0]++
		case Violated:
			pr[1]++
			matched := false
			for _, k := range known {
				if k.Prop == c.Prop && k.Rule == o.Rule && k.Fn == o.Fn && k.Site == o.Site {
					matched = true
					o.Known = true
					fmt.Printf("KNOWN-FINDING: property=%s %s [%s %s %s]\n", c.Prop, k.What, o.Rule, o.Fn, o.Pos)
					res.Known = append(res.Known, *o)
				}
			}
			if !matched {
				res.Violated = append(res.Violated, *o)
			}
		case Undecided:
			pr[2]++
			res.Undecided = append(res.Undecided, *o)
		}
		perRule[o.Rule] = pr
	}
	rules := map[string]any{}
	for r, v := range perRule {
		rules[r] = map[string]int{"discharged": v[0], "violated": v[1], "undecided": v[2]}
	}
	// evidence
	samples := make([]any, 0, len(c.Obs))
	for _, o := range c.Obs {
		samples = append(samples, o)
	}
	nf, ni := 0, 0
	for _, f := range c.P.AllFuncs() {
		nf++
		for _, b := range f.Blocks {
			ni += len(b.Instrs)
		}
	}
	cov := map[string]any{
		"explanation":            explanation,
		"not_decided":            notDecided,
		"obligations":            len(c.Obs),
		"discharged":             nd,
		"violated":               len(res.Violated) + len(res.Known),
		"violated_known_finding": len(res.Known),
		"undecided":              len(res.Undecided),
		"per_rule":               rules,
		"samples":                samples,
		"checker_cmd":            fmt.Sprintf("bin/setecvet -prop %s -tier %s (go/packages+go/ssa over /repo working tree)", c.Prop, tier),
		"trusted_base":           trusted,
		"packages_loaded":        c.P.NPkgs,
		"module_packages":        len(c.P.Mod),
		"module_functions":       nf,
		"module_ssa_instrs":      ni,
		"ignored_files":          c.P.Ignored,
		"load_s":                 c.P.LoadSecs,
		"notes":                  c.Notes,
	}
	for k, v := range extra {
		cov[k] = v
	}
	ev := Evidence{PropertyID: c.Prop, Tier: tier, Seed: seed, Level: "other", Coverage: cov,
		Assumptions: assumptions, WallS: time.Since(t0).Seconds(), Violations: len(res.Violated)}
	os.MkdirAll(filepath.Join(verifDir, "evidence"), 0o755)
	bs, _ := json.MarshalIndent(ev, "", " ")
	if err := os.WriteFile(filepath.Join(verifDir, "evidence", c.Prop+".json"), append(bs, '\n'), 0o644); err != nil {
		fmt.Fprintln(os.Stderr, "writing evidence:", err)
		res.Exit = 2
	}
	// verdict
	fmt.Printf("setecvet %s tier=%s: %d obligations, %d discharged, %d violated (%d known), %d undecided; %d pkgs, %d fns, %.1fs\n",
		c.Prop, tier, len(c.Obs), nd, len(res.Violated)+len(res.Known), len(res.Known), len(res.Undecided), c.P.NPkgs, nf, time.Since(t0).Seconds())
	for _, o := range res.Undecided {
		fmt.Printf("UNDECIDED property=%s rule=%s fn=%s site=%q pos=%s reason=%s\n", c.Prop, o.Rule, o.Fn, o.Site, o.Pos, o.Detail)
	}
	if len(res.Violated) > 0 {
		dir := filepath.Join(verifDir, "out", c.Prop)
		os.MkdirAll(dir, 0o755)
		rp := filepath.Join(dir, "violations.json")
		rb, _ := json.MarshalIndent(map[string]any{"property": c.Prop, "tier": tier, "violations": res.Violated}, "", " ")
		os.WriteFile(rp, append(rb, '\n'), 0o644)
		for _, o := range res.Violated {
			fmt.Printf("  violated %s at %s in %s: %s\n      want: %s\n      found: %s\n", o.Rule, o.Pos, o.Fn, o.Site, o.Want, o.Detail)
		}
		fmt.Printf("VIOLATION property=%s replay=%s\n", c.Prop, rp)
		res.Exit = 1
		return res
	}
	if len(res.Undecided) > 0 && res.Exit == 0 {
		res.Exit = 2
	}
	return res
}

func ruleLess(a, b string) bool {
	// R-C01-10 after R-C01-9
	ai, bi := strings.LastIndex(a, "-"), strings.LastIndex(b, "-")
	if ai > 0 && bi > 0 && a[:ai] == b[:bi] {
		var x, y int
		fmt.Sscanf(a[ai+1:], "%d", &x)
		fmt.Sscanf(b[bi+1:], "%d", &y)
		if x != y {
			return x < y
		}
	}
	return a < b
}

func posLess(a, b string) bool {
	pa, pb := strings.Split(a, ":"), strings.Split(b, ":")
	if len(pa) < 3 || len(pb) < 3 {
		return a < b
	}
	if pa[0] != pb[0] {
		return pa[0] < pb[0]
	}
	var la, lb, ca, cb int
	fmt.Sscanf(pa[1], "%d", &la)
	fmt.Sscanf(pb[1], "%d", &lb)
	fmt.Sscanf(pa[2], "%d", &ca)
	fmt.Sscanf(pb[2], "%d", &cb)
	if la != lb {
		return la < lb
	}
	return ca < cb
}
