package eng

import (
	"go/token"
	"go/types"
	"sync"

	"golang.org/x/tools/go/ssa"
)

// Helper transparency.  A maintainer who extracts part of a function into an
// unexported helper of the same package changes no behaviour; rules that
// follow control flow, facts or values inside one function use the X variants
// below so that such a helper is looked through:
//
//   - SearchX descends into the body of a called helper (and, when the
//     function being searched is itself a helper with a single static call
//     site, continues after that call site when it reaches a return);
//   - FactsX adds the facts that hold at the single call site (and at the
//     creation site of a function literal);
//   - OriginX maps a parameter of a single-call-site helper to the argument
//     passed there.
//
// A helper is a declared function or method of the same package with a body,
// whose object is not exported (the package's API is never looked through:
// its callers are unknown).

var (
	sitesMu     sync.Mutex
	siteIndex   map[*ssa.Function][]ssa.CallInstruction
	usedAsValue = map[*ssa.Function]bool{}
	theProg     *Prog // the program under analysis (set by Load)
)

// IsHelper reports whether callee is an unexported same-package function with a body.
func IsHelper(caller, callee *ssa.Function) bool {
	if callee == nil || callee.Blocks == nil || caller == nil {
		return false
	}
	cp, hp := pkgOf(caller), pkgOf(callee)
	if cp == nil || hp == nil || cp != hp {
		return false
	}
	if callee.Parent() != nil {
		return true // a function literal of the package
	}
	obj := callee.Object()
	if obj == nil {
		if o := callee.Origin(); o != nil {
			obj = o.Object()
		}
	}
	return obj != nil && !obj.Exported()
}

func pkgOf(f *ssa.Function) *ssa.Package {
	for f != nil {
		if f.Pkg != nil {
			return f.Pkg
		}
		if o := f.Origin(); o != nil && o != f {
			f = o
			continue
		}
		f = f.Parent()
	}
	return nil
}

// StaticCallSites lists the static calls (call, go, defer) of f in the module.
func StaticCallSites(f *ssa.Function) []ssa.CallInstruction {
	sitesMu.Lock()
	defer sitesMu.Unlock()
	if siteIndex == nil {
		siteIndex = map[*ssa.Function][]ssa.CallInstruction{}
		if theProg != nil {
			for _, g := range theProg.AllFuncs() {
				if o := g.Origin(); o != nil && o != g {
					continue // an instantiation repeats the call sites of its generic body
				}
				for _, b := range g.Blocks {
					for _, in := range b.Instrs {
						for _, op := range in.Operands(nil) {
							if fv, isF := (*op).(*ssa.Function); isF {
								if ci, isCall := in.(ssa.CallInstruction); !isCall || ci.Common().Value != ssa.Value(fv) {
									usedAsValue[fv] = true
								}
							}
						}
						if ci, ok := in.(ssa.CallInstruction); ok {
							if cal := Callee(ci.Common()); cal != nil {
								siteIndex[cal] = append(siteIndex[cal], ci)
								if o := cal.Origin(); o != nil && o != cal {
									siteIndex[o] = append(siteIndex[o], ci)
								}
							}
						}
					}
				}
			}
		}
	}
	return siteIndex[f]
}

// UniqueCallSite returns the single static call of helper f in its package,
// if f is an unexported declared function called from exactly one place (and
// never used as a value).
func UniqueCallSite(f *ssa.Function) ssa.CallInstruction {
	if f == nil || f.Parent() != nil || f.Blocks == nil {
		return nil
	}
	if obj := f.Object(); obj == nil || obj.Exported() {
		return nil
	}
	if refs := f.Referrers(); refs != nil && len(*refs) > 0 {
		// referrers are only recorded for anonymous functions; declared ones are checked below
		_ = refs
	}
	sites := StaticCallSites(f)
	if len(sites) != 1 || usedAsValue[f] {
		return nil
	}
	if _, isCall := sites[0].(*ssa.Call); !isCall {
		return nil // go / defer: not a continuation point
	}
	if sites[0].Parent() == f {
		return nil
	}
	return sites[0]
}

// ctxRoot, when set, is the operation a rule is currently judging: a helper
// called from several operations is then resolved at its single call site
// inside this one (context-sensitive by one level of root).
var ctxRoot *ssa.Function

// WithRoot runs fn with root as the context for OriginX / SameX / FactsX.
func WithRoot(root *ssa.Function, fn func()) {
	old := ctxRoot
	ctxRoot = root
	defer func() { ctxRoot = old }()
	fn()
}

// SetRoot sets (or with nil clears) the context root; see WithRoot.
func SetRoot(root *ssa.Function) { ctxRoot = root }

// ContextCallSite is UniqueCallSite, or (under WithRoot) the single static
// call of the helper f inside the root operation and its literals.
func ContextCallSite(f *ssa.Function) ssa.CallInstruction {
	if cs := UniqueCallSite(f); cs != nil {
		return cs
	}
	if ctxRoot == nil || f == nil || f.Parent() != nil || f.Blocks == nil || usedAsValue[f] {
		return nil
	}
	if obj := f.Object(); obj == nil || obj.Exported() {
		return nil
	}
	var found ssa.CallInstruction
	for _, cs := range StaticCallSites(f) {
		if Outer(cs.Parent()) != ctxRoot {
			continue
		}
		if _, isCall := cs.(*ssa.Call); !isCall || found != nil {
			return nil
		}
		found = cs
	}
	if found != nil {
		return found
	}
	// ... or the single call inside the helpers the root operation reaches
	// (a guard helper called by the permission helper the operation calls)
	region := rootRegion()
	for _, cs := range StaticCallSites(f) {
		if !region[Outer(cs.Parent())] {
			continue
		}
		if _, isCall := cs.(*ssa.Call); !isCall || found != nil {
			return nil
		}
		found = cs
	}
	return found
}

var (
	regionOf   *ssa.Function
	regionFuns map[*ssa.Function]bool
)

// rootRegion: the functions InstrsDeep(ctxRoot) visits (cached per root).
func rootRegion() map[*ssa.Function]bool {
	if regionOf == ctxRoot && regionFuns != nil {
		return regionFuns
	}
	regionOf, regionFuns = ctxRoot, map[*ssa.Function]bool{}
	if ctxRoot != nil {
		InstrsDeep(ctxRoot, func(g *ssa.Function, _ ssa.Instruction) { regionFuns[Outer(g)] = true })
	}
	return regionFuns
}

// OriginX is Origin extended through parameters of single-call-site helpers.
func OriginX(v ssa.Value) ssa.Value {
	for i := 0; i < 6; i++ {
		v = Origin(v)
		prm, ok := v.(*ssa.Parameter)
		if !ok {
			return v
		}
		f := prm.Parent()
		cs := ContextCallSite(f)
		if cs == nil {
			return v
		}
		args := cs.Common().Args
		if cs.Common().IsInvoke() || len(args) != len(f.Params) {
			return v
		}
		idx := -1
		for j, q := range f.Params {
			if q == prm {
				idx = j
			}
		}
		if idx < 0 {
			return v
		}
		v = args[idx]
	}
	return v
}

// SameX: Same, also across the parameter boundary of single-call-site helpers.
func SameX(a, b ssa.Value) bool {
	if a == nil || b == nil {
		return false
	}
	if Same(a, b) {
		return true
	}
	oa, ob := OriginX(a), OriginX(b)
	return oa == ob || Same(oa, ob)
}

// ImpliedByResult returns the branch conditions common to every path of the
// boolean helper called by call that returns `want` (what is known in the
// caller on the corresponding edge of a test of the call's result).
func ImpliedByResult(call *ssa.Call, want bool) []Cond { return ImpliedByResultAt(call, 0, want) }

// ImpliedByResultAt: the same for boolean result #idx of a helper returning
// several values (`v, ok := helper(...)`).
func ImpliedByResultAt(call *ssa.Call, idx int, want bool) []Cond {
	if idx < 0 {
		idx = 0 // the call's single result
	}
	cal := Callee(&call.Call)
	if cal == nil || cal.Blocks == nil || !IsHelper(call.Parent(), cal) {
		return nil
	}
	paths, ok := EnumPaths(cal, 1, 256)
	if !ok {
		return nil
	}
	type key struct {
		ifi   *ssa.If
		taken bool
	}
	var common map[key]Cond
	n := 0
	for _, pa := range paths {
		ret, isR := pa.Last().(*ssa.Return)
		if !isR {
			continue
		}
		rv := RetVals(ret)
		if len(rv) <= idx {
			return nil
		}
		if !pa.Feasible() {
			continue
		}
		res := pa.Resolve(rv[idx])
		k, isC := res.(*ssa.Const)
		if isC && k.Value != nil && (k.Value.String() == "true") != want {
			continue // this path returns the other answer
		}
		cur := map[key]Cond{}
		for i := 0; i+1 < len(pa.Blocks); i++ {
			b := pa.Blocks[i]
			ifi, isIf := b.Instrs[len(b.Instrs)-1].(*ssa.If)
			if !isIf || b.Succs[0] == b.Succs[1] {
				continue
			}
			taken := pa.Blocks[i+1] == b.Succs[0]
			cd := CondOf(ifi.Cond, taken)
			cd.If = ifi
			cur[key{ifi, taken}] = cd
		}
		if !isC {
			// the result is a computed value: its own truth is one more condition
			cd := CondOf(res, want)
			cur[key{nil, want}] = cd
		}
		n++
		if common == nil {
			common = cur
			continue
		}
		for kk := range common {
			if _, has := cur[kk]; !has {
				delete(common, kk)
			}
		}
	}
	if n == 0 {
		return nil
	}
	var out []Cond
	for _, cd := range common {
		out = append(out, cd)
	}
	return out
}

// FactsX: the conditions holding at in, plus those holding at the single call
// site of the helper containing it and at the creation site of an enclosing
// function literal (facts are about immutable SSA values), plus what a
// boolean helper's answer implies where that answer was tested.
func FactsX(in ssa.Instruction) []Cond { return ExpandConds(factsX(in)) }

// EdgeFactsX: FactsX at the end of block from, plus the condition of the
// edge from -> to when from ends in a branch.
func EdgeFactsX(from, to *ssa.BasicBlock) []Cond {
	last := from.Instrs[len(from.Instrs)-1]
	out := factsX(last)
	if ifi, ok := last.(*ssa.If); ok && len(from.Succs) == 2 && from.Succs[0] != from.Succs[1] {
		cd := CondOf(ifi.Cond, from.Succs[0] == to)
		cd.If = ifi
		out = append(out, cd)
	}
	return ExpandConds(out)
}

// ExpandConds adds what the tested answers of boolean helpers and the nil
// errors of helpers imply.
func ExpandConds(out []Cond) []Cond {
	for i := 0; i < len(out) && i < 64; i++ {
		if call, idx, truth, isCall := out[i].BoolCall(); isCall {
			out = append(out, ImpliedByResultAt(call, idx, truth)...)
		}
		if v, isNil, isE := out[i].ErrCheck(); isE && isNil {
			if call, _ := TupleCall(v); call != nil {
				out = append(out, ImpliedByNilError(call)...)
				// a helper that only hands on the error of one call: that call succeeded
				if ev := ForwardedError(call); ev != nil {
					out = append(out, Cond{Op: token.EQL, X: ev, Y: ssa.NewConst(nil, ev.Type())})
				}
			}
		}
	}
	return out
}

func factsX(in ssa.Instruction) []Cond {
	out := FactsAt(in)
	f := in.Parent()
	for depth := 0; f != nil && depth < 5; depth++ {
		if par := f.Parent(); par != nil {
			var mk *ssa.MakeClosure
			Instrs(par, func(x ssa.Instruction) {
				if mc, ok := x.(*ssa.MakeClosure); ok && mc.Fn == f {
					mk = mc
				}
			})
			if mk == nil {
				break
			}
			out = append(out, FactsAt(mk)...)
			// a literal handed to a helper that only calls it: what holds
			// where the helper calls it holds when it runs
			if cu := CallbackOf(mk); cu != nil && len(cu.Calls) == 1 {
				out = append(out, FactsAt(cu.Calls[0])...)
			}
			f = par
			continue
		}
		cs := ContextCallSite(f)
		if cs == nil {
			break
		}
		out = append(out, FactsAt(cs)...)
		f = cs.Parent()
	}
	return out
}

// SearchX is Search with helper transparency (see the comment at the top of
// this file).  target and stop are applied to the instructions of helpers
// too, except that a Return inside a called helper is never a target or a
// stop (it is not an exit of the function being searched).
func SearchX(fn *ssa.Function, from ssa.Instruction, edges EdgeFilter, stop, target func(ssa.Instruction) bool) (ssa.Instruction, []*ssa.BasicBlock) {
	return searchX(fn, from, edges, stop, target, 0, map[*ssa.Function]bool{fn: true}, true)
}

func searchX(fn *ssa.Function, from ssa.Instruction, edges EdgeFilter, stop, target func(ssa.Instruction) bool, depth int, active map[*ssa.Function]bool, top bool) (ssa.Instruction, []*ssa.BasicBlock) {
	type deep struct {
		hit  ssa.Instruction
		path []*ssa.BasicBlock
	}
	deepHits := map[ssa.Instruction]deep{}
	noRet := func(p func(ssa.Instruction) bool) func(ssa.Instruction) bool {
		if p == nil {
			return nil
		}
		return func(x ssa.Instruction) bool {
			if _, isR := x.(*ssa.Return); isR {
				return false
			}
			return p(x)
		}
	}
	memo := map[ssa.Instruction][2]bool{}
	classify := func(in ssa.Instruction) [2]bool {
		if v, ok := memo[in]; ok {
			return v
		}
		var res [2]bool
		switch {
		case target != nil && target(in):
			res[0] = true
		case stop != nil && stop(in):
			res[1] = true
		default:
			ci, ok := in.(*ssa.Call)
			if !ok || depth >= 3 {
				break
			}
			cal := Callee(&ci.Call)
			if !IsHelper(fn, cal) || active[cal] {
				break
			}
			active[cal] = true
			if h, hp := searchX(cal, nil, edges, noRet(stop), noRet(target), depth+1, active, false); h != nil {
				deepHits[in] = deep{h, hp}
				res[0] = true
			} else if r, _ := searchX(cal, nil, edges, noRet(stop), IsReturn, depth+1, active, false); r == nil {
				res[1] = true // every path through the helper is stopped
			}
			delete(active, cal)
		}
		memo[in] = res
		return res
	}
	var cont ssa.CallInstruction
	if top {
		cont = UniqueCallSite(fn)
	}
	reachedReturn := false
	// the returns of a single-call-site helper are not exits of the operation:
	// they are neither targets nor stops, the search goes on after the call
	tgt := func(in ssa.Instruction) bool {
		if _, isR := in.(*ssa.Return); isR && cont != nil {
			reachedReturn = true
			return false
		}
		return classify(in)[0]
	}
	stp := func(in ssa.Instruction) bool {
		if _, isR := in.(*ssa.Return); isR && cont != nil {
			return false
		}
		return classify(in)[1]
	}
	h, p := Search(fn, from, edges, stp, tgt)
	if h != nil {
		if d, ok := deepHits[h]; ok {
			return d.hit, append(append([]*ssa.BasicBlock{}, p...), d.path...)
		}
		return h, p
	}
	if cont != nil && reachedReturn && depth < 3 && !active[cont.Parent()] {
		active[cont.Parent()] = true
		defer delete(active, cont.Parent())
		return searchX(cont.Parent(), cont, edges, stop, target, depth+1, active, true)
	}
	return nil, nil
}

// HelperRoot climbs from a single-call-site helper to the function that
// (transitively) calls it, as long as keep(f) is false; it returns the first
// function for which keep holds, or the outermost one.
func HelperRoot(f *ssa.Function, keep func(*ssa.Function) bool) *ssa.Function {
	for i := 0; i < 4 && !keep(f); i++ {
		cs := UniqueCallSite(f)
		if cs == nil {
			break
		}
		f = cs.Parent()
	}
	return f
}

// InstrsDeep visits the instructions of fn, of its function literals and of
// the helpers it calls (transitively, each function once).
func InstrsDeep(fn *ssa.Function, f func(*ssa.Function, ssa.Instruction)) {
	seen := map[*ssa.Function]bool{}
	var visit func(g *ssa.Function, depth int)
	visit = func(g *ssa.Function, depth int) {
		if g == nil || seen[g] || depth > 4 {
			return
		}
		seen[g] = true
		Instrs(g, func(in ssa.Instruction) {
			f(g, in)
			if ci, ok := in.(ssa.CallInstruction); ok {
				if cal := Callee(ci.Common()); IsHelper(g, cal) {
					visit(cal, depth+1)
				}
			}
		})
		for _, a := range g.AnonFuncs {
			visit(a, depth)
		}
	}
	visit(fn, 0)
}

// BoolHelperUnder evaluates a call of a boolean helper under the assumption
// that every comparison value for which assumedFalse holds is false: it
// enumerates the helper's paths that respect the assumption and reports which
// results remain possible.  Unknown results count as both.
func BoolHelperUnder(call *ssa.Call, assumedFalse func(ssa.Value) bool) (canTrue, canFalse bool) {
	return BoolHelperAssume(call, func(v ssa.Value) (bool, bool) {
		if assumedFalse(v) {
			return false, true
		}
		return false, false
	})
}

// BoolHelperAssume is BoolHelperUnder for assumptions of either truth:
// assume reports, for a boolean value inside the helper, the truth it is
// assumed to have (known=false: nothing assumed).
func BoolHelperAssume(call *ssa.Call, assume func(ssa.Value) (truth, known bool)) (canTrue, canFalse bool) {
	cal := Callee(&call.Call)
	if cal == nil || cal.Blocks == nil {
		return true, true
	}
	paths, ok := EnumPaths(cal, 1, 128)
	if !ok || len(paths) == 0 {
		return true, true
	}
	idx := 0
	if refs := call.Referrers(); refs != nil && cal.Signature.Results().Len() > 1 {
		// the boolean among several results
		for i := 0; i < cal.Signature.Results().Len(); i++ {
			if b, isB := cal.Signature.Results().At(i).Type().Underlying().(*types.Basic); isB && b.Kind() == types.Bool {
				idx = i
			}
		}
	}
	for _, pa := range paths {
		ret, isR := pa.Last().(*ssa.Return)
		if !isR {
			continue
		}
		feasible := true
		for i := 0; i+1 < len(pa.Blocks); i++ {
			b := pa.Blocks[i]
			ifi, isIf := b.Instrs[len(b.Instrs)-1].(*ssa.If)
			if !isIf || b.Succs[0] == b.Succs[1] {
				continue
			}
			taken := pa.Blocks[i+1] == b.Succs[0]
			v := Origin(ifi.Cond)
			for {
				u, isU := v.(*ssa.UnOp)
				if !isU || u.Op != token.NOT {
					break
				}
				v, taken = Origin(u.X), !taken
			}
			if t, known := assume(v); known && t != taken {
				feasible = false
			}
		}
		if !feasible {
			continue
		}
		rvs := RetVals(ret)
		if idx >= len(rvs) {
			return true, true
		}
		rv := pa.Resolve(rvs[idx])
		neg := false
		for {
			u, isU := rv.(*ssa.UnOp)
			if !isU || u.Op != token.NOT {
				break
			}
			rv, neg = Origin(u.X), !neg
		}
		if t, known := assume(rv); known {
			if t != neg {
				canTrue = true
			} else {
				canFalse = true
			}
			continue
		}
		if k, isC := rv.(*ssa.Const); isC && k.Value != nil {
			if (k.Value.String() == "true") != neg {
				canTrue = true
			} else {
				canFalse = true
			}
		} else {
			canTrue, canFalse = true, true
		}
	}
	return
}

// CallbackUse describes a function literal handed directly to a module
// function that does nothing with the corresponding parameter but call it.
type CallbackUse struct {
	Site   *ssa.Call      // the call passing the literal
	Callee *ssa.Function  // the function receiving it
	Param  *ssa.Parameter // its parameter
	Calls  []*ssa.Call    // the calls of the parameter inside Callee
}

// CallbackOf reports how the literal created by mc is used, if its only use
// is to be passed as an argument to a statically known module function whose
// parameter is only ever called (not stored, passed on, deferred or run as a
// goroutine).
func CallbackOf(mc *ssa.MakeClosure) *CallbackUse {
	refs := mc.Referrers()
	if refs == nil {
		return nil
	}
	var use *CallbackUse
	for _, r := range *refs {
		switch u := r.(type) {
		case *ssa.DebugRef:
		case *ssa.Call:
			cal := Callee(&u.Call)
			if cal == nil || cal.Blocks == nil || use != nil || u.Call.Value == ssa.Value(mc) {
				return nil
			}
			idx := -1
			for i, a := range u.Call.Args {
				if a == ssa.Value(mc) {
					if idx >= 0 {
						return nil
					}
					idx = i
				}
			}
			if idx < 0 || idx >= len(cal.Params) {
				return nil
			}
			prm := cal.Params[idx]
			cu := &CallbackUse{Site: u, Callee: cal, Param: prm}
			prefs := prm.Referrers()
			if prefs == nil {
				return nil
			}
			for _, pr := range *prefs {
				switch pu := pr.(type) {
				case *ssa.DebugRef:
				case *ssa.Call:
					if pu.Call.Value != ssa.Value(prm) {
						return nil
					}
					for _, a := range pu.Call.Args {
						if a == ssa.Value(prm) {
							return nil
						}
					}
					cu.Calls = append(cu.Calls, pu)
				default:
					return nil
				}
			}
			use = cu
		default:
			return nil
		}
	}
	return use
}

// MakeClosureOf finds the instruction creating literal f in its parent.
func MakeClosureOf(f *ssa.Function) *ssa.MakeClosure {
	par := f.Parent()
	if par == nil {
		return nil
	}
	var mk *ssa.MakeClosure
	Instrs(par, func(x ssa.Instruction) {
		if mc, ok := x.(*ssa.MakeClosure); ok && mc.Fn == f {
			mk = mc
		}
	})
	return mk
}

// LiteralThroughHelper returns the fields of the struct literal v denotes:
// a literal built in place, or the single literal a module helper builds and
// returns.  mapv translates a value of the helper's body into the caller's
// terms (a parameter of the helper becomes the argument of this call; other
// values are returned as their Origin).
func LiteralThroughHelper(v ssa.Value) (fields map[string]ssa.Value, mapv func(ssa.Value) ssa.Value, ok bool) {
	ident := func(x ssa.Value) ssa.Value { return Origin(x) }
	if f, _, isLit := LiteralFields(Origin(v)); isLit {
		return f, ident, true
	}
	call, idx := TupleCall(v)
	if call == nil {
		return nil, nil, false
	}
	cal := Callee(&call.Call)
	if cal == nil || cal.Blocks == nil || !IsHelper(call.Parent(), cal) {
		return nil, nil, false
	}
	inner, _ := ThroughHelper(v, func(g *ssa.Function) bool { return g == cal })
	if inner == nil {
		return nil, nil, false
	}
	_ = idx
	f, _, isLit := LiteralFields(Origin(inner))
	if !isLit {
		return nil, nil, false
	}
	mapv = func(x ssa.Value) ssa.Value {
		o := Origin(x)
		if al, isAl := o.(*ssa.Alloc); isAl {
			// a spilled parameter (value receiver whose field is addressed)
			if sts := CellStores(al); len(sts) == 1 {
				o = Origin(sts[0].Val)
			}
		}
		if prm, isP := o.(*ssa.Parameter); isP && prm.Parent() == cal {
			for i, q := range cal.Params {
				if q == prm && i < len(call.Call.Args) {
					return Origin(call.Call.Args[i])
				}
			}
		}
		return o
	}
	return f, mapv, true
}

// ImpliedByNilError returns the branch conditions common to every path of
// the helper called by call on which its error result may be nil (what is
// known in the caller on the nil-error edge of that call).
func ImpliedByNilError(call *ssa.Call) []Cond {
	cal := Callee(&call.Call)
	if cal == nil || cal.Blocks == nil || !IsHelper(call.Parent(), cal) {
		return nil
	}
	res := cal.Signature.Results()
	ei := -1
	for i := 0; i < res.Len(); i++ {
		if IsErrorType(res.At(i).Type()) {
			ei = i
		}
	}
	if ei < 0 {
		return nil
	}
	paths, ok := EnumPaths(cal, 1, 256)
	if !ok {
		return nil
	}
	type key struct {
		ifi   *ssa.If
		taken bool
	}
	var common map[key]Cond
	n := 0
	for _, pa := range paths {
		ret, isR := pa.Last().(*ssa.Return)
		if !isR {
			continue
		}
		rv := RetVals(ret)
		if ei >= len(rv) || !pa.Feasible() || pa.IsNil(rv[ei]) == No {
			continue
		}
		cur := map[key]Cond{}
		for i := 0; i+1 < len(pa.Blocks); i++ {
			b := pa.Blocks[i]
			ifi, isIf := b.Instrs[len(b.Instrs)-1].(*ssa.If)
			if !isIf || b.Succs[0] == b.Succs[1] {
				continue
			}
			taken := pa.Blocks[i+1] == b.Succs[0]
			cd := CondOf(pa.Resolve(ifi.Cond), taken)
			cd.If = ifi
			cur[key{ifi, taken}] = cd
		}
		n++
		if common == nil {
			common = cur
			continue
		}
		for kk := range common {
			if _, has := cur[kk]; !has {
				delete(common, kk)
			}
		}
	}
	if n == 0 {
		return nil
	}
	var out []Cond
	for _, cd := range common {
		out = append(out, cd)
	}
	return out
}

// StructTable reads a slice literal of structs ([]struct{...}{{a, b}, ...}):
// one map field-index -> value per element, in index order.  ok is false if
// v is not such a literal.
func StructTable(v ssa.Value) (rows []map[int]ssa.Value, ok bool) {
	sl, isSl := Origin(v).(*ssa.Slice)
	if !isSl || sl.Low != nil || sl.High != nil {
		return nil, false
	}
	al, isAl := sl.X.(*ssa.Alloc)
	if !isAl || al.Referrers() == nil {
		return nil, false
	}
	byIdx := map[int64]map[int]ssa.Value{}
	for _, r := range *al.Referrers() {
		ia, isIA := r.(*ssa.IndexAddr)
		if !isIA {
			continue
		}
		k, isK := ConstInt(ia.Index)
		if !isK || ia.Referrers() == nil {
			return nil, false
		}
		collect := func(base ssa.Value) {
			refs := base.Referrers()
			if refs == nil {
				return
			}
			for _, rr := range *refs {
				fa, isFA := rr.(*ssa.FieldAddr)
				if !isFA || fa.Referrers() == nil {
					continue
				}
				for _, rrr := range *fa.Referrers() {
					if st, isSt := rrr.(*ssa.Store); isSt && st.Addr == ssa.Value(fa) {
						if byIdx[k] == nil {
							byIdx[k] = map[int]ssa.Value{}
						}
						byIdx[k][fa.Field] = st.Val
					}
				}
			}
		}
		// the element is filled in place, or copied from a local composite literal
		collect(ia)
		for _, rr := range *ia.Referrers() {
			if st, isSt := rr.(*ssa.Store); isSt && st.Addr == ssa.Value(ia) {
				if u, isU := st.Val.(*ssa.UnOp); isU {
					if al2, isAl2 := u.X.(*ssa.Alloc); isAl2 {
						collect(al2)
					}
				}
			}
		}
		for _, rr := range *ia.Referrers() {
			fa, isFA := rr.(*ssa.FieldAddr)
			if !isFA || fa.Referrers() == nil || true {
				continue
			}
			for _, rrr := range *fa.Referrers() {
				if st, isSt := rrr.(*ssa.Store); isSt && st.Addr == ssa.Value(fa) {
					if byIdx[k] == nil {
						byIdx[k] = map[int]ssa.Value{}
					}
					byIdx[k][fa.Field] = st.Val
				}
			}
		}
	}
	if len(byIdx) == 0 {
		return nil, false
	}
	for i := int64(0); i < int64(len(byIdx)); i++ {
		row, has := byIdx[i]
		if !has {
			return nil, false
		}
		rows = append(rows, row)
	}
	return rows, true
}

// ResolveWithin resolves v across the parameter boundary of helpers using only
// the call sites that lie inside the region InstrsDeep(root) visits: the
// values v can stand for when root runs.  A value that is no parameter (or a
// parameter of root itself) resolves to itself.
func ResolveWithin(root *ssa.Function, v ssa.Value) []ssa.Value {
	region := map[*ssa.Function]bool{}
	var sites []ssa.CallInstruction
	InstrsDeep(root, func(f *ssa.Function, in ssa.Instruction) {
		region[f] = true
		if ci, ok := in.(ssa.CallInstruction); ok {
			sites = append(sites, ci)
		}
	})
	var out []ssa.Value
	var res func(v ssa.Value, depth int)
	res = func(v ssa.Value, depth int) {
		v = Origin(v)
		prm, ok := v.(*ssa.Parameter)
		if !ok || prm.Parent() == root || depth > 4 {
			out = append(out, v)
			return
		}
		f := prm.Parent()
		idx := -1
		for j, q := range f.Params {
			if q == prm {
				idx = j
			}
		}
		n := 0
		for _, ci := range sites {
			if Callee(ci.Common()) != f || ci.Common().IsInvoke() || len(ci.Common().Args) != len(f.Params) || idx < 0 {
				continue
			}
			n++
			res(ci.Common().Args[idx], depth+1)
		}
		if n == 0 {
			out = append(out, v)
		}
	}
	res(v, 0)
	return out
}

// TableColumn: v reads field F of the element of a full-range loop over a
// local slice literal of structs (`for _, row := range []struct{...}{{..},..}`):
// the values the literal gives that field, one per row, in row order.
func TableColumn(v ssa.Value) (vals []ssa.Value, ok bool) {
	fr, base, isF := LoadedField(v)
	if !isF || base == nil {
		return nil, false
	}
	in, isIn := Origin(v).(ssa.Instruction)
	if !isIn || in.Parent() == nil {
		return nil, false
	}
	for _, l := range RangeLoops(in.Parent()) {
		if !l.ElemOf(base) {
			continue
		}
		rows, isT := StructTable(l.Slice)
		if !isT || len(rows) == 0 {
			return nil, false
		}
		st, isSt := Deref(fr.Owner).Underlying().(*types.Struct)
		if !isSt {
			return nil, false
		}
		idx := -1
		for i := 0; i < st.NumFields(); i++ {
			if st.Field(i).Name() == fr.Name {
				idx = i
			}
		}
		if idx < 0 {
			return nil, false
		}
		for _, row := range rows {
			val, has := row[idx]
			if !has {
				return nil, false // zero value: not given explicitly
			}
			vals = append(vals, val)
		}
		return vals, true
	}
	return nil, false
}

// ErrorSource: when call invokes a helper whose error result is, on every
// return, nil or the error of one and the same inner call, that inner call
// (the helper's error IS that call's error); nil otherwise.
func ErrorSource(call *ssa.Call) *ssa.Call {
	h := Callee(&call.Call)
	if h == nil || h.Blocks == nil || !IsHelper(call.Parent(), h) {
		return nil
	}
	res := h.Signature.Results()
	ei := -1
	for i := 0; i < res.Len(); i++ {
		if IsErrorType(res.At(i).Type()) {
			ei = i
		}
	}
	if ei < 0 {
		return nil
	}
	var src *ssa.Call
	for _, r := range Returns(h) {
		rv := RetVals(r)
		if ei >= len(rv) {
			return nil
		}
		e := Origin(rv[ei])
		if IsNilConst(e) {
			continue
		}
		ic, _ := TupleCall(e)
		if ic == nil || (src != nil && src != ic) {
			return nil
		}
		src = ic
	}
	// (through instantiation wrappers and further forwarding helpers)
	for i := 0; i < 3 && src != nil; i++ {
		inner := errorSource1(src)
		if inner == nil {
			break
		}
		src = inner
	}
	return src
}

func errorSource1(call *ssa.Call) *ssa.Call {
	h := Callee(&call.Call)
	if h == nil || h.Blocks == nil || !IsHelper(call.Parent(), h) {
		return nil
	}
	res := h.Signature.Results()
	ei := -1
	for i := 0; i < res.Len(); i++ {
		if IsErrorType(res.At(i).Type()) {
			ei = i
		}
	}
	if ei < 0 {
		return nil
	}
	var src *ssa.Call
	for _, r := range Returns(h) {
		rv := RetVals(r)
		if ei >= len(rv) {
			return nil
		}
		e := Origin(rv[ei])
		if IsNilConst(e) {
			continue
		}
		ic, _ := TupleCall(e)
		if ic == nil || (src != nil && src != ic) {
			return nil
		}
		src = ic
	}
	return src
}

// ForwardedError: call invokes a helper (a function literal of the caller
// included) whose error result is, on every return, the error of one and the
// same inner call -- or nil where that error is known to be nil.  It returns
// that inner error value (nil if the helper is not of this form): the
// helper's result is nil exactly when the inner call's is.
func ForwardedError(call *ssa.Call) ssa.Value {
	h := Callee(&call.Call)
	if h == nil || h.Blocks == nil || !IsHelper(call.Parent(), h) {
		return nil
	}
	res := h.Signature.Results()
	ei := -1
	for i := 0; i < res.Len(); i++ {
		if IsErrorType(res.At(i).Type()) {
			ei = i
		}
	}
	if ei < 0 {
		return nil
	}
	var src ssa.Value
	var nilRets []*ssa.Return
	for _, r := range Returns(h) {
		rv := RetVals(r)
		if ei >= len(rv) {
			return nil
		}
		e := Origin(rv[ei])
		if IsNilConst(e) {
			nilRets = append(nilRets, r)
			continue
		}
		if ic, _ := TupleCall(e); ic == nil || (src != nil && src != e) {
			return nil
		}
		src = e
	}
	if src == nil {
		return nil
	}
	for _, r := range nilRets {
		ok := false
		for _, cd := range FactsAt(r) {
			if v, isNil, isE := cd.ErrCheck(); isE && isNil && Origin(v) == src {
				ok = true
			}
		}
		if !ok {
			return nil
		}
	}
	return src
}
