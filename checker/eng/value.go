package eng

import (
	"go/constant"
	"go/token"
	"go/types"
	"strings"

	"golang.org/x/tools/go/ssa"
)

// Origin looks through value-preserving wrappers to find where a value comes
// from: ChangeType, MakeInterface, ChangeInterface, loads of a cell (Alloc or
// FreeVar) that is stored exactly once in the whole enclosing function tree
// (parameter spills, captured variables).  Conversions are NOT looked through
// unless conv is true (string<->[]byte<->named forms copy or rename a value
// without changing its bytes).
func Origin(v ssa.Value) ssa.Value { return origin(v, false, 0, nil) }

// OriginConv is Origin that also looks through Convert.
func OriginConv(v ssa.Value) ssa.Value { return origin(v, true, 0, nil) }

func origin(v ssa.Value, conv bool, depth int, seen map[*ssa.Phi]bool) ssa.Value {
	for depth < 64 {
		depth++
		switch x := v.(type) {
		case *ssa.ChangeType:
			v = x.X
		case *ssa.MakeInterface:
			v = x.X
		case *ssa.ChangeInterface:
			v = x.X
		case *ssa.Convert:
			if !conv {
				return v
			}
			v = x.X
		case *ssa.UnOp:
			if x.Op != token.MUL {
				return v
			}
			cell := cellOf(x.X)
			if cell == nil {
				return v
			}
			st := uniqueStoreFor(cell, x)
			if st == nil {
				st = localReachingStore(cell, x)
			}
			if st == nil {
				return v
			}
			v = st.Val
		case *ssa.Phi:
			// phi of identical origins; phis currently being resolved
			// (cycles through loop headers) are ignored as self-references
			if seen[x] {
				return v
			}
			if seen == nil {
				seen = map[*ssa.Phi]bool{}
			}
			if len(seen) > 24 {
				return v
			}
			seen[x] = true
			var first ssa.Value
			same := true
			for _, e := range x.Edges {
				o := origin(e, conv, depth, seen)
				if o == x {
					continue
				}
				if p2, ok := o.(*ssa.Phi); ok && seen[p2] && p2 != x {
					continue // in progress further up: a cycle back to it
				}
				if first == nil {
					first = o
				} else if first != o {
					same = false
					break
				}
			}
			delete(seen, x)
			if !same || first == nil {
				return v
			}
			return first
		default:
			return v
		}
	}
	return v
}

// cellOf maps an address value to the Alloc it denotes, following FreeVar
// bindings up to the defining function.  Returns nil for anything else
// (fields, elements, globals).
func cellOf(addr ssa.Value) *ssa.Alloc {
	switch a := addr.(type) {
	case *ssa.Alloc:
		return a
	case *ssa.FreeVar:
		fn := a.Parent()
		par := fn.Parent()
		if par == nil {
			return nil
		}
		idx := -1
		for i, fv := range fn.FreeVars {
			if fv == a {
				idx = i
			}
		}
		if idx < 0 {
			return nil
		}
		// find the MakeClosure in the parent
		for _, b := range par.Blocks {
			for _, in := range b.Instrs {
				if mc, ok := in.(*ssa.MakeClosure); ok && mc.Fn == fn && idx < len(mc.Bindings) {
					return cellOf(mc.Bindings[idx])
				}
			}
		}
	}
	return nil
}

// CellOf is the exported form of cellOf.
func CellOf(addr ssa.Value) *ssa.Alloc { return cellOf(addr) }

// cellStores returns all stores to an Alloc cell in its function and in every
// closure (transitively) that captures it.
func cellStores(cell *ssa.Alloc) []*ssa.Store {
	var out []*ssa.Store
	var visit func(fn *ssa.Function)
	visit = func(fn *ssa.Function) {
		for _, b := range fn.Blocks {
			for _, in := range b.Instrs {
				if st, ok := in.(*ssa.Store); ok {
					if cellOf(st.Addr) == cell {
						out = append(out, st)
					}
				}
			}
		}
		for _, a := range fn.AnonFuncs {
			visit(a)
		}
	}
	visit(cell.Parent())
	return out
}

// CellStores is the exported form.
func CellStores(cell *ssa.Alloc) []*ssa.Store { return cellStores(cell) }

// cellEscapes reports whether the cell's address is used other than by
// load/store/closure binding (e.g. passed to a call, stored somewhere).
func cellEscapes(cell *ssa.Alloc) bool {
	esc := false
	var visitAddr func(addr ssa.Value)
	visitAddr = func(addr ssa.Value) {
		for _, r := range *addr.Referrers() {
			switch u := r.(type) {
			case *ssa.Store:
				if u.Val == addr {
					esc = true
				}
			case *ssa.UnOp:
			case *ssa.DebugRef:
			case *ssa.FieldAddr:
				// reading a field of the cell is fine; writing one or
				// passing its address on is treated as an escape
				if !readOnlyAddr(u) {
					esc = true
				}
			case *ssa.MakeClosure:
				for i, bnd := range u.Bindings {
					if bnd == addr {
						fn := u.Fn.(*ssa.Function)
						visitAddr(fn.FreeVars[i])
					}
				}
			default:
				esc = true
			}
		}
	}
	visitAddr(cell)
	return esc
}

func uniqueStore(cell *ssa.Alloc) *ssa.Store {
	if cellEscapes(cell) {
		return nil
	}
	sts := cellStores(cell)
	if len(sts) != 1 {
		return nil
	}
	return sts[0]
}

// Same reports whether two values are the same after Origin.
func Same(a, b ssa.Value) bool {
	if a == nil || b == nil {
		return false
	}
	if a == b {
		return true
	}
	oa, ob := Origin(a), Origin(b)
	if oa == ob {
		return true
	}
	// two constants with equal value and type
	ca, ok1 := oa.(*ssa.Const)
	cb, ok2 := ob.(*ssa.Const)
	if ok1 && ok2 && types.Identical(ca.Type(), cb.Type()) {
		if ca.Value == nil || cb.Value == nil {
			return ca.Value == nil && cb.Value == nil
		}
		return constant.Compare(ca.Value, token.EQL, cb.Value)
	}
	// loads of the same field path with the same base
	if pa, ok := fieldLoadPath(oa); ok {
		if pb, ok := fieldLoadPath(ob); ok {
			if !pa.equal(pb) {
				return false
			}
			// only when nothing in the enclosing function tree stores to
			// that field (otherwise use MemSame with explicit points)
			ia, ok1 := oa.(ssa.Instruction)
			if !ok1 {
				return false
			}
			return !fieldStoredIn(Outer(ia.Parent()), pa)
		}
	}
	return false
}

// fieldStoredIn reports whether any function in the tree rooted at fn stores
// to the last field of path p (matched by owner type and index).
func fieldStoredIn(fn *ssa.Function, p fpath) bool {
	found := false
	var visit func(f *ssa.Function)
	visit = func(f *ssa.Function) {
		for _, b := range f.Blocks {
			for _, in := range b.Instrs {
				st, ok := in.(*ssa.Store)
				if !ok {
					continue
				}
				q, ok := FieldAddrPath(st.Addr)
				if !ok {
					continue
				}
				if len(q.fields) > 0 && len(p.fields) > 0 && q.fields[len(q.fields)-1] == p.fields[len(p.fields)-1] {
					fa := st.Addr.(*ssa.FieldAddr)
					_ = fa
					found = true // conservative: same trailing index
				}
			}
		}
		for _, a := range f.AnonFuncs {
			visit(a)
		}
	}
	visit(fn)
	return found
}

// SameConv is Same that also looks through conversions.
func SameConv(a, b ssa.Value) bool {
	if Same(a, b) {
		return true
	}
	return Same(OriginConv(a), OriginConv(b))
}

type fpath struct {
	base   ssa.Value
	fields []int
}

func (p fpath) equal(q fpath) bool {
	if !Same(p.base, q.base) && p.base != q.base {
		return false
	}
	if len(p.fields) != len(q.fields) {
		return false
	}
	for i := range p.fields {
		if p.fields[i] != q.fields[i] {
			return false
		}
	}
	return true
}

// fieldLoadPath recognises *(&base.f1.f2) and base.f (Field on struct value)
// NOTE: equality of two loads of the same path is only meaningful when no
// store to that path intervenes; callers that need that use MemSame.
func fieldLoadPath(v ssa.Value) (fpath, bool) {
	switch x := v.(type) {
	case *ssa.UnOp:
		if x.Op == token.MUL {
			return FieldAddrPath(x.X)
		}
	case *ssa.Field:
		if in, ok := fieldLoadPath(x.X); ok {
			in.fields = append(append([]int{}, in.fields...), x.Field)
			return in, true
		}
		return fpath{base: Origin(x.X), fields: []int{x.Field}}, true
	}
	return fpath{}, false
}

// FieldAddrPath decomposes &base.f1.f2... into base and the field indexes.
func FieldAddrPath(addr ssa.Value) (fpath, bool) {
	var fields []int
	for {
		fa, ok := addr.(*ssa.FieldAddr)
		if !ok {
			break
		}
		fields = append([]int{fa.Field}, fields...)
		addr = fa.X
	}
	if len(fields) == 0 {
		return fpath{}, false
	}
	return fpath{base: Origin(addr), fields: fields}, true
}

// FieldRef describes a field access by owner type and field name.
type FieldRef struct {
	Owner types.Type // struct type (named if possible) that declares the field
	Name  string
}

// FieldOfAddr returns the (owner type, field name) of a FieldAddr value, or
// ok=false.
func FieldOfAddr(v ssa.Value) (FieldRef, bool) {
	fa, ok := v.(*ssa.FieldAddr)
	if !ok {
		return FieldRef{}, false
	}
	t := Deref(fa.X.Type())
	return FieldRef{Owner: t, Name: FieldName(t, fa.Field)}, true
}

// LoadedField: if v is a load of a struct field (via FieldAddr+load or Field
// on a struct value), return the field ref and the base value.
func LoadedField(v ssa.Value) (FieldRef, ssa.Value, bool) {
	v = Origin(v)
	switch x := v.(type) {
	case *ssa.UnOp:
		if x.Op == token.MUL {
			if fa, ok := x.X.(*ssa.FieldAddr); ok {
				fr, _ := FieldOfAddr(fa)
				return fr, fa.X, true
			}
		}
	case *ssa.Field:
		t := x.X.Type()
		return FieldRef{Owner: t, Name: FieldName(t, x.Field)}, x.X, true
	}
	return FieldRef{}, nil, false
}

// IsFieldOf reports whether fr is field `name` of named type pkg.typ.
func (fr FieldRef) Is(pkg, typ, name string) bool {
	return fr.Name == name && IsNamed(fr.Owner, pkg, typ)
}

// ConstString returns the string value of a constant (after Origin/Conv).
func ConstString(v ssa.Value) (string, bool) {
	c, ok := OriginConv(v).(*ssa.Const)
	if !ok || c.Value == nil || c.Value.Kind() != constant.String {
		return "", false
	}
	return constant.StringVal(c.Value), true
}

// ConstInt returns the integer value of a constant.
func ConstInt(v ssa.Value) (int64, bool) {
	c, ok := OriginConv(v).(*ssa.Const)
	if !ok || c.Value == nil {
		return 0, false
	}
	if c.Value.Kind() != constant.Int {
		return 0, false
	}
	i, exact := constant.Int64Val(c.Value)
	return i, exact
}

// IsNilConst reports whether v is the nil constant.
func IsNilConst(v ssa.Value) bool {
	c, ok := v.(*ssa.Const)
	return ok && c.Value == nil
}

// IsErrorType reports whether t is the predeclared error interface.
func IsErrorType(t types.Type) bool {
	return types.Identical(t, types.Universe.Lookup("error").Type())
}

// IsErrorSlice: t is []error.
func IsErrorSlice(t types.Type) bool {
	sl, ok := t.Underlying().(*types.Slice)
	return ok && IsErrorType(sl.Elem())
}

// Global returns the *ssa.Global if v is a load of a package-level variable.
func GlobalLoad(v ssa.Value) *ssa.Global {
	v = Origin(v)
	if u, ok := v.(*ssa.UnOp); ok && u.Op == token.MUL {
		if g, ok := u.X.(*ssa.Global); ok {
			return g
		}
	}
	return nil
}

// IsGlobal reports whether v loads the package-level variable pkgpath.name.
func IsGlobalLoad(v ssa.Value, pkgrel, name string) bool {
	g := GlobalLoad(v)
	if g == nil || g.Pkg == nil {
		return false
	}
	pp := g.Pkg.Pkg.Path()
	return g.Name() == name && (pp == pkgrel || pp == ModulePath+"/"+pkgrel)
}

// TupleCall: if v is Extract(call, i) return the call and index; if v is a
// call itself return (call, -1).
func TupleCall(v ssa.Value) (*ssa.Call, int) {
	v = Origin(v)
	switch x := v.(type) {
	case *ssa.Extract:
		if c, ok := x.Tuple.(*ssa.Call); ok {
			return c, x.Index
		}
	case *ssa.Call:
		return x, -1
	}
	return nil, -1
}

// Callee returns the statically known callee of a call: a declared function,
// a method, or the function literal of a directly invoked closure.
func Callee(cc *ssa.CallCommon) *ssa.Function {
	if f := cc.StaticCallee(); f != nil {
		// inside a generic body a call of another generic function with the
		// enclosing type parameters names an instance without a body: its
		// generic origin is what runs
		if f.Blocks == nil {
			if o := f.Origin(); o != nil && o.Blocks != nil {
				return o
			}
		}
		return f
	}
	if cc.IsInvoke() {
		return nil
	}
	v := Origin(cc.Value)
	switch x := v.(type) {
	case *ssa.MakeClosure:
		if f, ok := x.Fn.(*ssa.Function); ok {
			return f
		}
	case *ssa.Function:
		return x
	}
	return nil
}

// CalleeIs reports whether the call's static callee is pkgpath.name where
// name is "Func" or "(*T).M" / "T.M" as printed by go/ssa RelString.
func CalleeIs(cc *ssa.CallCommon, pkgpath, name string) bool {
	f := Callee(cc)
	if f == nil {
		return false
	}
	if o := f.Origin(); o != nil {
		f = o
	}
	return FuncIs(f, pkgpath, name)
}

// FuncIs reports whether f is pkgpath.name (module-relative paths accepted).
func FuncIs(f *ssa.Function, pkgpath, name string) bool {
	if f == nil {
		return false
	}
	if o := f.Origin(); o != nil {
		f = o
	}
	var pk *types.Package
	if f.Pkg != nil {
		pk = f.Pkg.Pkg
	} else if f.Object() != nil {
		pk = f.Object().Pkg()
	}
	if pk == nil {
		return false
	}
	if pk.Path() != pkgpath && pk.Path() != ModulePath+"/"+pkgpath {
		return false
	}
	return normFn(f.RelString(pk)) == normFn(name)
}

// normFn strips the parentheses go/ssa puts around receivers so that
// "(*T).M", "*T.M", "(T).M" and "T.M" compare by receiver form and name.
func normFn(s string) string {
	s = strings.ReplaceAll(s, "(", "")
	s = strings.ReplaceAll(s, ")", "")
	return s
}

// InvokeIs reports whether the call is an interface method invocation of the
// named method on an interface type named pkg.iface ("" iface: any).
func InvokeIs(cc *ssa.CallCommon, method string) bool {
	return cc.IsInvoke() && cc.Method.Name() == method
}

// CallArgs returns receiver+args uniformly (receiver first for methods and
// invokes).
func CallArgs(cc *ssa.CallCommon) []ssa.Value {
	if cc.IsInvoke() {
		return append([]ssa.Value{cc.Value}, cc.Args...)
	}
	return cc.Args
}

// localReachingStore: the store to cell that precedes load in the same basic
// block (same function as the cell), provided nothing in between can write
// the cell: the cell's address does not escape, and if a closure capturing
// it stores to it, no call lies in between.
func localReachingStore(cell *ssa.Alloc, load *ssa.UnOp) *ssa.Store {
	if load.Parent() != cell.Parent() || cellEscapes(cell) {
		return nil
	}
	closureWrites := false
	for _, st := range cellStores(cell) {
		if st.Parent() != cell.Parent() {
			closureWrites = true
		}
	}
	b := load.Block()
	var last *ssa.Store
	for _, in := range b.Instrs {
		if in == ssa.Instruction(load) {
			return last
		}
		switch x := in.(type) {
		case *ssa.Store:
			if x.Addr == ssa.Value(cell) {
				last = x
			}
		case ssa.CallInstruction:
			if closureWrites {
				last = nil
			}
		case *ssa.RunDefers:
			if closureWrites {
				last = nil
			}
		}
	}
	return nil
}

// LiteralFields returns the field values of a struct built in place: v is a
// load of a local struct cell (T{...}) or the cell / pointer itself (&T{...}).
// Fields never stored are absent (zero).  ok=false if v is not such a literal
// or a field is stored more than once.
func LiteralFields(v ssa.Value) (map[string]ssa.Value, *ssa.Alloc, bool) {
	var al *ssa.Alloc
	switch x := v.(type) {
	case *ssa.Alloc:
		al = x
	case *ssa.UnOp:
		if x.Op == token.MUL {
			al, _ = x.X.(*ssa.Alloc)
		}
	case *ssa.MakeInterface:
		return LiteralFields(x.X)
	case *ssa.ChangeType:
		return LiteralFields(x.X)
	}
	if al == nil {
		return nil, nil, false
	}
	if _, isStruct := Deref(al.Type()).Underlying().(*types.Struct); !isStruct {
		return nil, nil, false
	}
	out := map[string]ssa.Value{}
	refs := al.Referrers()
	if refs == nil {
		return out, al, true
	}
	for _, r := range *refs {
		switch u := r.(type) {
		case *ssa.FieldAddr:
			name := FieldName(al.Type(), u.Field)
			for _, rr := range *u.Referrers() {
				if st, ok := rr.(*ssa.Store); ok && st.Addr == ssa.Value(u) {
					if _, dup := out[name]; dup {
						return nil, al, false
					}
					out[name] = st.Val
				}
			}
		case *ssa.Store:
			if u.Addr == ssa.Value(al) {
				// whole-struct store (e.g. parameter spill): not a literal
				return nil, al, false
			}
		}
	}
	return out, al, true
}

// readOnlyAddr: the derived address is only loaded from (possibly through
// further field addresses).
func readOnlyAddr(a ssa.Value) bool {
	refs := a.Referrers()
	if refs == nil {
		return true
	}
	for _, r := range *refs {
		switch u := r.(type) {
		case *ssa.UnOp, *ssa.DebugRef:
		case *ssa.FieldAddr:
			if !readOnlyAddr(u) {
				return false
			}
		default:
			return false
		}
	}
	return true
}

// uniqueStoreFor: the cell's only store, provided it certainly executes
// before the load (otherwise the load may see the zero value): the store is
// in the cell's own function and dominates the load, or -- for a load inside a
// closure -- dominates every MakeClosure that captures the cell.
func uniqueStoreFor(cell *ssa.Alloc, load *ssa.UnOp) *ssa.Store {
	st := uniqueStore(cell)
	if st == nil || st.Parent() != cell.Parent() {
		return nil
	}
	if load.Parent() == cell.Parent() {
		if instrDominates(st, load) {
			return st
		}
		return nil
	}
	ok := true
	found := false
	for _, b := range cell.Parent().Blocks {
		for _, in := range b.Instrs {
			mc, isMC := in.(*ssa.MakeClosure)
			if !isMC {
				continue
			}
			for _, bnd := range mc.Bindings {
				if bnd == ssa.Value(cell) {
					found = true
					if !instrDominates(st, mc) {
						ok = false
					}
				}
			}
		}
	}
	if found && ok {
		return st
	}
	// captured transitively (closure inside closure): accept when the store
	// is in the entry block of the cell's function
	if !found && st.Block() == cell.Parent().Blocks[0] {
		return st
	}
	return nil
}

func instrDominates(a, b ssa.Instruction) bool {
	if a.Parent() != b.Parent() {
		return false
	}
	if a.Block() == b.Block() {
		for _, in := range a.Block().Instrs {
			if in == a {
				return true
			}
			if in == b {
				return false
			}
		}
		return false
	}
	return a.Block().Dominates(b.Block())
}

// ThroughHelper resolves a value that is result #i of a call to a function
// with a body (accepted by ok) to the value that function returns there:
// the unique non-nil value among its returns (error paths return nil/zero).
// It returns nil when v is not such a result or the callee returns more than
// one distinct value.
func ThroughHelper(v ssa.Value, ok func(*ssa.Function) bool) (ssa.Value, *ssa.Call) {
	call, idx := TupleCall(v)
	if call == nil {
		return nil, nil
	}
	cal := Callee(&call.Call)
	if cal == nil || cal.Blocks == nil || !ok(cal) {
		return nil, nil
	}
	if idx < 0 {
		idx = 0
	}
	var res ssa.Value
	for _, r := range Returns(cal) {
		rv := RetVals(r)
		if idx >= len(rv) {
			return nil, nil
		}
		o := Origin(rv[idx])
		if IsNilConst(o) {
			continue
		}
		if c, isC := o.(*ssa.Const); isC && c.Value == nil {
			continue // zero value
		}
		if res != nil && Origin(res) != o {
			return nil, nil
		}
		res = rv[idx]
	}
	return res, call
}
