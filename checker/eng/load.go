// Package eng is the analysis engine of setecvet: loading, SSA, dominance
// facts, value identity, lock sets, effect sets and reporting.
package eng

import (
	"fmt"
	"go/token"
	"go/types"
	"os"
	"sort"
	"strings"
	"time"

	"golang.org/x/tools/go/packages"
	"golang.org/x/tools/go/ssa"
	"golang.org/x/tools/go/ssa/ssautil"
)

// ModulePath is the module under analysis.
const ModulePath = "github.com/tailscale/setec"

// Prog is the loaded, type-checked program in SSA form.
type Prog struct {
	Dir      string
	Fset     *token.FileSet
	Roots    []*packages.Package
	All      map[string]*packages.Package // by import path
	SSA      *ssa.Program
	Mod      []*ssa.Package // module packages (SSA)
	LoadSecs float64
	NPkgs    int
	Ignored  []string // files excluded by build constraints in module packages
}

// Load loads ./... in dir with full syntax and builds SSA for everything.
func Load(dir string) (*Prog, error) {
	t0 := time.Now()
	os.Unsetenv("GOWORK")
	cfg := &packages.Config{
		Mode:  packages.LoadAllSyntax,
		Dir:   dir,
		Tests: false,
		Env:   append(os.Environ(), "GOWORK=off"),
	}
	roots, err := packages.Load(cfg, "./...")
	if err != nil {
		return nil, fmt.Errorf("load: %w", err)
	}
	if len(roots) == 0 {
		return nil, fmt.Errorf("load: zero packages in %s", dir)
	}
	p := &Prog{Dir: dir, Roots: roots, All: map[string]*packages.Package{}}
	var errs []string
	packages.Visit(roots, nil, func(pk *packages.Package) {
		p.All[pk.PkgPath] = pk
		for _, e := range pk.Errors {
			errs = append(errs, pk.PkgPath+": "+e.Error())
		}
		if strings.HasPrefix(pk.PkgPath, ModulePath) {
			p.Ignored = append(p.Ignored, pk.IgnoredFiles...)
		}
	})
	if len(errs) > 0 {
		sort.Strings(errs)
		if len(errs) > 10 {
			errs = errs[:10]
		}
		return nil, fmt.Errorf("type errors:\n  %s", strings.Join(errs, "\n  "))
	}
	p.NPkgs = len(p.All)
	p.Fset = roots[0].Fset
	prog, _ := ssautil.AllPackages(roots, ssa.InstantiateGenerics)
	prog.Build()
	p.SSA = prog
	for _, r := range roots {
		if sp := prog.Package(r.Types); sp != nil {
			p.Mod = append(p.Mod, sp)
		}
	}
	sort.Slice(p.Mod, func(i, j int) bool { return p.Mod[i].Pkg.Path() < p.Mod[j].Pkg.Path() })
	p.LoadSecs = time.Since(t0).Seconds()
	theProg = p
	siteIndex = nil
	return p, nil
}

// Pkg returns the SSA package with the given path relative to the module
// ("db", "client/setec", ...), or an absolute import path.
func (p *Prog) Pkg(rel string) *ssa.Package {
	path := rel
	if !strings.Contains(rel, ".") {
		path = ModulePath + "/" + rel
	}
	pk := p.All[path]
	if pk == nil {
		return nil
	}
	return p.SSA.Package(pk.Types)
}

// TypesPkg returns the go/types package.
func (p *Prog) TypesPkg(rel string) *types.Package {
	if sp := p.Pkg(rel); sp != nil {
		return sp.Pkg
	}
	return nil
}

// Pos renders a position relative to the repo directory.
func (p *Prog) Pos(pos token.Pos) string {
	if !pos.IsValid() {
		return "-"
	}
	ps := p.Fset.Position(pos)
	f := strings.TrimPrefix(ps.Filename, p.Dir+"/")
	return fmt.Sprintf("%s:%d:%d", f, ps.Line, ps.Column)
}
