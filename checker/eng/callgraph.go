package eng

import (
	"go/types"
	"sort"

	"golang.org/x/tools/go/ssa"
)

// Edge is one call-graph edge of the module call graph.
type Edge struct {
	Caller *ssa.Function
	Site   ssa.Instruction // Call/Go/Defer, or MakeClosure for "creates"
	Callee *ssa.Function
	Kind   string // "static", "closure" (literal created here), "invoke" (interface, CHA within module), "bound"
}

// CG is the module call graph: static calls, function literals created in a
// function (assumed callable from it), and interface invocations resolved by
// class hierarchy among module types.
type CG struct {
	p   *Prog
	Out map[*ssa.Function][]Edge
	In  map[*ssa.Function][]Edge
}

// Unwrap resolves synthetic wrappers (bound method closures, thunks,
// promoted-method wrappers) to the declared function they call.
func Unwrap(f *ssa.Function) *ssa.Function {
	for i := 0; i < 4 && f != nil && f.Synthetic != "" && f.Origin() == nil; i++ {
		var next *ssa.Function
		for _, b := range f.Blocks {
			for _, in := range b.Instrs {
				if c, ok := in.(ssa.CallInstruction); ok {
					if g := c.Common().StaticCallee(); g != nil {
						next = g
					}
				}
			}
		}
		if next == nil {
			return f
		}
		f = next
	}
	return f
}

func (p *Prog) isModuleFunc(f *ssa.Function) bool {
	if f == nil {
		return false
	}
	pk := FuncPkg(f)
	if pk == nil {
		return false
	}
	for _, m := range p.Mod {
		if m.Pkg == pk {
			return true
		}
	}
	return false
}

var cgCache = map[*Prog]*CG{}

// CallGraph builds (once) the module call graph.
func (p *Prog) CallGraph() *CG {
	if g, ok := cgCache[p]; ok {
		return g
	}
	g := &CG{p: p, Out: map[*ssa.Function][]Edge{}, In: map[*ssa.Function][]Edge{}}
	add := func(e Edge) {
		g.Out[e.Caller] = append(g.Out[e.Caller], e)
		g.In[e.Callee] = append(g.In[e.Callee], e)
	}
	// module named types for CHA
	var concrete []types.Type
	for _, sp := range p.Mod {
		for _, m := range sp.Members {
			if t, ok := m.(*ssa.Type); ok {
				if _, isIface := t.Type().Underlying().(*types.Interface); !isIface {
					concrete = append(concrete, t.Type(), types.NewPointer(t.Type()))
				}
			}
		}
	}
	for _, f := range p.AllFuncs() {
		for _, b := range f.Blocks {
			for _, in := range b.Instrs {
				switch x := in.(type) {
				case ssa.CallInstruction:
					cc := x.Common()
					if cc.IsInvoke() {
						iface, _ := cc.Value.Type().Underlying().(*types.Interface)
						if iface == nil {
							continue
						}
						for _, ct := range concrete {
							if !types.Implements(ct, iface) {
								continue
							}
							sel := p.SSA.MethodSets.MethodSet(ct).Lookup(cc.Method.Pkg(), cc.Method.Name())
							if sel == nil {
								continue
							}
							if m := Unwrap(p.SSA.MethodValue(sel)); m != nil && p.isModuleFunc(m) && m.Blocks != nil {
								dup := false
								for _, e := range g.Out[f] {
									if e.Site == in && e.Callee == m {
										dup = true
									}
								}
								if !dup {
									add(Edge{Caller: f, Site: in, Callee: m, Kind: "invoke"})
								}
							}
						}
						continue
					}
					if cal := Callee(cc); cal != nil {
						cal = Unwrap(cal)
						if p.isModuleFunc(cal) && cal.Blocks != nil {
							add(Edge{Caller: f, Site: in, Callee: cal, Kind: "static"})
							if o := cal.Origin(); o != nil && o != cal && o.Blocks != nil {
								add(Edge{Caller: f, Site: in, Callee: o, Kind: "static"})
							}
						}
					}
				case *ssa.MakeClosure:
					fn, _ := x.Fn.(*ssa.Function)
					if fn == nil {
						continue
					}
					kind := "closure"
					if fn.Synthetic != "" {
						fn = Unwrap(fn)
						kind = "bound"
					}
					if p.isModuleFunc(fn) && fn.Blocks != nil {
						add(Edge{Caller: f, Site: in, Callee: fn, Kind: kind})
					}
				}
			}
		}
		// plain function values used as operands (e.g. passing a declared
		// function as an argument)
		for _, b := range f.Blocks {
			for _, in := range b.Instrs {
				if _, isCall := in.(ssa.CallInstruction); isCall {
					ci := in.(ssa.CallInstruction)
					for _, a := range ci.Common().Args {
						if fv, ok := a.(*ssa.Function); ok {
							fv = Unwrap(fv)
							if p.isModuleFunc(fv) && fv.Blocks != nil {
								add(Edge{Caller: f, Site: in, Callee: fv, Kind: "funcvalue"})
							}
						}
					}
				}
			}
		}
	}
	cgCache[p] = g
	return g
}

// Reach returns the set of module functions reachable from root (including
// root) following all edge kinds; skip, if non-nil, prunes edges.
func (g *CG) Reach(root *ssa.Function, skip func(Edge) bool) map[*ssa.Function]bool {
	seen := map[*ssa.Function]bool{root: true}
	work := []*ssa.Function{root}
	for len(work) > 0 {
		f := work[0]
		work = work[1:]
		for _, e := range g.Out[f] {
			if skip != nil && skip(e) {
				continue
			}
			if !seen[e.Callee] {
				seen[e.Callee] = true
				work = append(work, e.Callee)
			}
		}
	}
	return seen
}

// Hit is an instruction found in a function reachable from a root.
type Hit struct {
	Fn *ssa.Function
	In ssa.Instruction
}

// FindReachable lists the instructions satisfying pred in every function
// reachable from root.
func (g *CG) FindReachable(root *ssa.Function, skip func(Edge) bool, pred func(ssa.Instruction) bool) []Hit {
	var out []Hit
	fs := g.Reach(root, skip)
	var list []*ssa.Function
	for f := range fs {
		list = append(list, f)
	}
	sort.Slice(list, func(i, j int) bool { return list[i].Pos() < list[j].Pos() })
	for _, f := range list {
		Instrs(f, func(in ssa.Instruction) {
			if pred(in) {
				out = append(out, Hit{f, in})
			}
		})
	}
	return out
}

// CallersOf returns the call edges into f (static, invoke, closure...).
func (g *CG) CallersOf(f *ssa.Function) []Edge { return g.In[f] }

// PathTo returns one call chain root -> ... -> target as function names.
func (g *CG) PathTo(root, target *ssa.Function) []string {
	prev := map[*ssa.Function]*ssa.Function{root: nil}
	work := []*ssa.Function{root}
	for len(work) > 0 {
		f := work[0]
		work = work[1:]
		if f == target {
			var out []string
			for x := f; x != nil; x = prev[x] {
				out = append([]string{FName(x)}, out...)
			}
			return out
		}
		for _, e := range g.Out[f] {
			if _, ok := prev[e.Callee]; !ok {
				prev[e.Callee] = f
				work = append(work, e.Callee)
			}
		}
	}
	return nil
}
