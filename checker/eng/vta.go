package eng

import (
	"sort"

	"golang.org/x/tools/go/callgraph"
	"golang.org/x/tools/go/callgraph/cha"
	"golang.org/x/tools/go/callgraph/vta"
	"golang.org/x/tools/go/ssa"
)

var vtaCache = map[*Prog]*callgraph.Graph{}

// WholeProgramGraph builds (once) the VTA call graph over every function of
// the program, dependencies included (thorough tier only: ~10 s).
func (p *Prog) WholeProgramGraph() *callgraph.Graph {
	if g, ok := vtaCache[p]; ok {
		return g
	}
	all := ssautilAllFunctions(p.SSA)
	g := vta.CallGraph(all, cha.CallGraph(p.SSA))
	vtaCache[p] = g
	return g
}

// WPReach searches the whole-program graph from roots for a function
// satisfying target, not descending into functions for which prune is true.
// It returns one call chain (function names) or nil.
func (p *Prog) WPReach(roots []*ssa.Function, prune, target func(*ssa.Function) bool) []string {
	g := p.WholeProgramGraph()
	type item struct {
		n    *callgraph.Node
		prev *item
	}
	seen := map[*callgraph.Node]bool{}
	var work []*item
	for _, r := range roots {
		if n := g.Nodes[r]; n != nil && !seen[n] {
			seen[n] = true
			work = append(work, &item{n: n})
		}
	}
	for len(work) > 0 {
		it := work[0]
		work = work[1:]
		f := it.n.Func
		if f != nil && target(f) {
			var chain []string
			for x := it; x != nil; x = x.prev {
				chain = append([]string{x.n.Func.String()}, chain...)
			}
			return chain
		}
		if f != nil && prune != nil && prune(f) {
			continue
		}
		outs := append([]*callgraph.Edge{}, it.n.Out...)
		sort.Slice(outs, func(i, j int) bool { return outs[i].Callee.ID < outs[j].Callee.ID })
		for _, e := range outs {
			if !seen[e.Callee] {
				seen[e.Callee] = true
				work = append(work, &item{n: e.Callee, prev: it})
			}
		}
	}
	return nil
}

// WPCount returns the number of functions reachable from roots.
func (p *Prog) WPCount(roots []*ssa.Function, prune func(*ssa.Function) bool) int {
	g := p.WholeProgramGraph()
	seen := map[*callgraph.Node]bool{}
	var work []*callgraph.Node
	for _, r := range roots {
		if n := g.Nodes[r]; n != nil && !seen[n] {
			seen[n] = true
			work = append(work, n)
		}
	}
	for len(work) > 0 {
		n := work[0]
		work = work[1:]
		if n.Func != nil && prune != nil && prune(n.Func) {
			continue
		}
		for _, e := range n.Out {
			if !seen[e.Callee] {
				seen[e.Callee] = true
				work = append(work, e.Callee)
			}
		}
	}
	return len(seen)
}
