package eng

import (
	"fmt"
	"go/types"
	"sort"
	"strings"

	"golang.org/x/tools/go/ssa"
)

// LockKey names a mutex by type-level access path, e.g.
// "setec.Store.active.Mutex" or "db.DB.mu".
type LockKey string

// LockState is the set of mutexes that MUST be held: W (exclusive), R (read),
// and V (virtually held: the owner object is not yet published).
type LockState struct {
	W, R, V uint32
	Top     bool // unreached / unknown-all
}

func (s LockState) meet(o LockState) LockState {
	if s.Top {
		return o
	}
	if o.Top {
		return s
	}
	w := s.W & o.W
	held := (s.W | s.V) & (o.W | o.V)
	return LockState{W: w, R: s.R & o.R, V: held &^ w}
}

func (s LockState) eq(o LockState) bool { return s == o }

// LockProblem is a misuse found during the analysis.
type LockProblem struct {
	Fn   *ssa.Function
	In   ssa.Instruction
	What string
}

// LockCfg configures the lock-set analysis.
type LockCfg struct {
	// Prepub lists functions that run before the owner object is published;
	// their entry state virtually holds the listed keys.
	Prepub map[*ssa.Function][]LockKey
	// Publishes decides whether an instruction in a prepub function
	// publishes the object guarded by key (drops the virtual hold before it).
	Publishes func(fn *ssa.Function, in ssa.Instruction, key LockKey) bool
	// EmptyEntry forces entry state {} for these functions (entry points
	// called from outside the module, goroutine bodies...).  Exported
	// functions and methods are always treated so.
}

// Locks is the result of the lock-set analysis.
type Locks struct {
	p        *Prog
	cfg      LockCfg
	keys     []LockKey
	keyIdx   map[LockKey]int
	entry    map[*ssa.Function]LockState
	blockIn  map[*ssa.BasicBlock]LockState
	exit     map[*ssa.Function]LockState
	Problems []LockProblem
	funcs    []*ssa.Function
	deferred map[*ssa.Function]uint32 // keys with a deferred Unlock in fn
	delta    map[*ssa.Function]lockDelta
}

func (l *Locks) bit(k LockKey) uint32 {
	i, ok := l.keyIdx[k]
	if !ok {
		i = len(l.keys)
		if i >= 32 {
			panic("too many lock keys")
		}
		l.keys = append(l.keys, k)
		l.keyIdx[k] = i
	}
	return 1 << uint(i)
}

// MutexKey computes the LockKey for the receiver argument of a
// sync.(RW)Mutex method call: a chain of FieldAddr from a pointer to a named
// struct.  ok=false when the receiver is not such a path (local mutex...).
func MutexKey(recv ssa.Value) (LockKey, ssa.Value, bool) {
	var names []string
	v := recv
	for {
		fa, ok := v.(*ssa.FieldAddr)
		if !ok {
			break
		}
		names = append([]string{FieldName(fa.X.Type(), fa.Field)}, names...)
		v = fa.X
	}
	if len(names) == 0 {
		return "", nil, false
	}
	t := Deref(v.Type())
	n, ok := types.Unalias(t).(*types.Named)
	if !ok {
		return "", nil, false
	}
	if o := n.Origin(); o != nil {
		n = o
	}
	pk := ""
	if n.Obj().Pkg() != nil {
		pk = n.Obj().Pkg().Name() + "."
	}
	return LockKey(pk + n.Obj().Name() + "." + strings.Join(names, ".")), Origin(v), true
}

// lockOp classifies a call as a mutex operation.
func lockOp(cc *ssa.CallCommon) (op string, key LockKey, ok bool) {
	f := cc.StaticCallee()
	if f == nil && !cc.IsInvoke() {
		// a method value of a mutex called through a variable:
		// `unlock := mu.Unlock; ...; unlock()`, also when the method value was
		// returned by a helper (`kv, unlock := db.lockedKV()`)
		v := Origin(cc.Value)
		if inner, _ := ThroughHelper(v, func(g *ssa.Function) bool { return g.Blocks != nil }); inner != nil {
			v = Origin(inner)
		}
		if mc, isMC := v.(*ssa.MakeClosure); isMC && len(mc.Bindings) == 1 {
			if bf, isF := mc.Fn.(*ssa.Function); isF && strings.HasSuffix(bf.Name(), "$bound") && bf.Object() != nil {
				if mo, isM := bf.Object().(*types.Func); isM && mo.Pkg() != nil && mo.Pkg().Path() == "sync" {
					switch mo.Name() {
					case "Lock", "Unlock", "RLock", "RUnlock":
						if k, _, okK := MutexKey(mc.Bindings[0]); okK {
							return mo.Name(), k, true
						}
						return mo.Name(), "", true
					}
				}
			}
		}
		return "", "", false
	}
	if f == nil || f.Pkg == nil || f.Pkg.Pkg.Path() != "sync" {
		return "", "", false
	}
	name := f.Name()
	switch name {
	case "Lock", "Unlock", "RLock", "RUnlock", "TryLock", "TryRLock":
	default:
		return "", "", false
	}
	recv := f.Signature.Recv()
	if recv == nil || len(cc.Args) == 0 {
		return "", "", false
	}
	rt := Deref(recv.Type())
	if !IsNamed(rt, "sync", "Mutex") && !IsNamed(rt, "sync", "RWMutex") {
		return "", "", false
	}
	k, _, ok := MutexKey(cc.Args[0])
	if !ok {
		return name, "", true // a mutex we cannot name
	}
	return name, k, true
}

// LockOp exposes lockOp.
func LockOp(cc *ssa.CallCommon) (op string, key LockKey, ok bool) { return lockOp(cc) }

// AnalyzeLocks runs the must-held analysis over all module functions.
func (p *Prog) AnalyzeLocks(cfg LockCfg) *Locks {
	l := &Locks{p: p, cfg: cfg, keyIdx: map[LockKey]int{}, entry: map[*ssa.Function]LockState{},
		blockIn: map[*ssa.BasicBlock]LockState{}, exit: map[*ssa.Function]LockState{}, deferred: map[*ssa.Function]uint32{}, delta: map[*ssa.Function]lockDelta{}}
	l.funcs = p.AllFuncs()
	g := p.CallGraph()

	// pre-register keys and deferred unlocks
	for _, f := range l.funcs {
		Instrs(f, func(in ssa.Instruction) {
			if ci, ok := in.(ssa.CallInstruction); ok {
				if op, k, ok := lockOp(ci.Common()); ok && k != "" {
					b := l.bit(k)
					if _, isDefer := in.(*ssa.Defer); isDefer && (op == "Unlock" || op == "RUnlock") {
						l.deferred[f] |= b
					}
				}
			}
		})
	}
	for _, ks := range cfg.Prepub {
		for _, k := range ks {
			l.bit(k)
		}
	}

	// classify how each function is entered
	fixedEmpty := map[*ssa.Function]bool{}
	for _, f := range l.funcs {
		if _, pre := cfg.Prepub[f]; pre {
			continue
		}
		if f.Parent() == nil {
			// declared function: exported ones can be called from outside
			if obj := f.Object(); obj != nil && obj.Exported() {
				if recvExported(f) {
					fixedEmpty[f] = true
				}
			}
			if f.Name() == "main" || f.Name() == "init" {
				fixedEmpty[f] = true
			}
			if len(g.In[f]) == 0 {
				fixedEmpty[f] = true
			}
			for _, e := range g.In[f] {
				switch e.Kind {
				case "bound", "funcvalue", "invoke":
					// may be called from anywhere the value flows
					if e.Kind != "invoke" {
						fixedEmpty[f] = true
					}
				}
				if _, isGo := e.Site.(*ssa.Go); isGo {
					fixedEmpty[f] = true
				}
			}
		}
	}

	for _, f := range l.funcs {
		if ks, pre := cfg.Prepub[f]; pre {
			var v uint32
			for _, k := range ks {
				v |= l.bit(k)
			}
			l.entry[f] = LockState{V: v}
		} else if fixedEmpty[f] {
			l.entry[f] = LockState{}
		} else {
			l.entry[f] = LockState{Top: true}
		}
	}

	// fixpoint
	lastExit := ""
	for iter := 0; iter < 50; iter++ {
		changed := false
		l.Problems = nil
		newEntry := map[*ssa.Function]LockState{}
		contribute1 := func(f *ssa.Function, st LockState) {
			if cur, ok := newEntry[f]; ok {
				newEntry[f] = cur.meet(st)
			} else {
				newEntry[f] = st
			}
		}
		// a call of an instantiation inside a generic body is also a call of
		// the generic function it instantiates (the body rules look at)
		contribute := func(f *ssa.Function, st LockState) {
			contribute1(f, st)
			if o := f.Origin(); o != nil && o != f {
				contribute1(o, st)
			}
		}
		for _, f := range l.funcs {
			l.analyzeFunc(f, contribute)
		}
		for _, f := range l.funcs {
			if _, pre := cfg.Prepub[f]; pre || fixedEmpty[f] {
				// prepub/fixed keep their entry, but a contribution from a
				// call site is still checked by rules through HeldBefore.
				continue
			}
			ne, ok := newEntry[f]
			if !ok {
				ne = LockState{} // no known caller: assume nothing held
			}
			if !ne.eq(l.entry[f]) {
				l.entry[f] = ne
				changed = true
			}
		}
		exitSig := fmt.Sprint(l.delta)
		if !changed && iter >= 2 && exitSig == lastExit {
			break
		}
		lastExit = exitSig
	}
	return l
}

func recvExported(f *ssa.Function) bool {
	recv := f.Signature.Recv()
	if recv == nil {
		return true
	}
	t := Deref(recv.Type())
	if n, ok := types.Unalias(t).(*types.Named); ok {
		return n.Obj().Exported()
	}
	return false
}

// transfer applies one instruction to the state.
func (l *Locks) transfer(f *ssa.Function, in ssa.Instruction, st LockState, report bool, contribute func(*ssa.Function, LockState)) LockState {
	// publication drops virtual holds
	if st.V != 0 && l.cfg.Publishes != nil {
		for i, k := range l.keys {
			b := uint32(1) << uint(i)
			if st.V&b != 0 && l.cfg.Publishes(f, in, k) {
				st.V &^= b
			}
		}
	}
	switch x := in.(type) {
	case *ssa.Call:
		cc := x.Common()
		if op, k, ok := lockOp(cc); ok {
			if k == "" {
				return st
			}
			b := l.bit(k)
			switch op {
			case "Lock":
				if st.W&b != 0 || st.R&b != 0 {
					if report {
						l.Problems = append(l.Problems, LockProblem{f, in, fmt.Sprintf("Lock of %s while it is already held (self-deadlock)", k)})
					}
				}
				st.W |= b
			case "RLock":
				if st.W&b != 0 {
					if report {
						l.Problems = append(l.Problems, LockProblem{f, in, fmt.Sprintf("RLock of %s while it is already held", k)})
					}
				}
				st.R |= b
			case "Unlock":
				if st.W&b == 0 && report {
					l.Problems = append(l.Problems, LockProblem{f, in, fmt.Sprintf("Unlock of %s which is not held on every path", k)})
				}
				st.W &^= b
			case "RUnlock":
				if st.R&b == 0 && report {
					l.Problems = append(l.Problems, LockProblem{f, in, fmt.Sprintf("RUnlock of %s which is not read-held on every path", k)})
				}
				st.R &^= b
			}
			return st
		}
		if prm, isP := cc.Value.(*ssa.Parameter); isP && !cc.IsInvoke() && contribute != nil {
			// a callback parameter being called: the literals handed in for it run here
			for _, cs := range StaticCallSites(f) {
				idx := -1
				for i, q := range f.Params {
					if q == prm {
						idx = i
					}
				}
				if idx < 0 || idx >= len(cs.Common().Args) {
					continue
				}
				if mc, isMC := cs.Common().Args[idx].(*ssa.MakeClosure); isMC {
					if cu := CallbackOf(mc); cu != nil && cu.Callee == f {
						if lit, ok := mc.Fn.(*ssa.Function); ok {
							contribute(lit, st)
						}
					}
				}
			}
		}
		if ph, isPhi := cc.Value.(*ssa.Phi); isPhi && !cc.IsInvoke() && contribute != nil {
			// one of several literals remembered in a local function variable
			// and called here: each of them runs with what is held here
			for _, e := range ph.Edges {
				if mc, isMC := e.(*ssa.MakeClosure); isMC && selectedAndCalled(mc) == ph {
					if lit, ok := mc.Fn.(*ssa.Function); ok && l.p.isModuleFunc(lit) {
						contribute(lit, st)
					}
				}
			}
		}
		if cal := Callee(cc); cal != nil {
			cal = Unwrap(cal)
			if l.p.isModuleFunc(cal) && cal.Blocks != nil {
				if contribute != nil {
					contribute(cal, st)
				}
				// apply net effect of callee, if known
				if d, ok := l.delta[cal]; ok {
					st.W = (st.W &^ d.relW) | d.acqW
					st.R = (st.R &^ d.relR) | d.acqR
				}
			}
		}
	case *ssa.Defer:
		cc := x.Common()
		if _, _, ok := lockOp(cc); ok {
			return st // handled at exit
		}
		if cal := Callee(cc); cal != nil {
			cal = Unwrap(cal)
			if l.p.isModuleFunc(cal) && cal.Blocks != nil && contribute != nil {
				// runs at function exit: anything with a deferred unlock in
				// this function may already have been released
				d := l.deferred[f]
				contribute(cal, LockState{W: st.W &^ d, R: st.R &^ d, V: st.V})
			}
		}
	case *ssa.Go:
		cc := x.Common()
		if cal := Callee(cc); cal != nil {
			cal = Unwrap(cal)
			if l.p.isModuleFunc(cal) && contribute != nil {
				contribute(cal, LockState{})
			}
		}
	case *ssa.MakeClosure:
		fn, _ := x.Fn.(*ssa.Function)
		if fn != nil && contribute != nil {
			fn = Unwrap(fn)
			if !l.p.isModuleFunc(fn) {
				return st
			}
			// a literal that is only ever called directly right here gets
			// the state of its call sites (handled at the Call); any other
			// use means it may run anywhere: nothing held.
			if !onlyCalledDirectly(x) && CallbackOf(x) == nil && selectedAndCalled(x) == nil {
				contribute(fn, LockState{})
			}
		}
	}
	return st
}

// onlyCalledDirectly: every use of the closure value is as the callee of a
// Call or Defer instruction in the same function.
func onlyCalledDirectly(mc *ssa.MakeClosure) bool {
	refs := mc.Referrers()
	if refs == nil {
		return false
	}
	n := 0
	for _, r := range *refs {
		switch u := r.(type) {
		case *ssa.Call:
			if u.Call.Value != mc {
				return false
			}
			for _, a := range u.Call.Args {
				if a == mc {
					return false
				}
			}
			n++
		case *ssa.Defer:
			if u.Call.Value != mc {
				return false
			}
			n++
		case *ssa.DebugRef:
		default:
			return false
		}
	}
	return n > 0
}

func (l *Locks) analyzeFunc(f *ssa.Function, contribute func(*ssa.Function, LockState)) {
	if len(f.Blocks) == 0 {
		return
	}
	en := l.entry[f]
	if en.Top {
		// not yet reached from any caller in this iteration order; analyse
		// with nothing held but do not report problems
		en = LockState{}
	}
	in := map[*ssa.BasicBlock]LockState{}
	for _, b := range f.Blocks {
		in[b] = LockState{Top: true}
	}
	in[f.Blocks[0]] = en
	work := []*ssa.BasicBlock{f.Blocks[0]}
	inWork := map[*ssa.BasicBlock]bool{f.Blocks[0]: true}
	outState := map[*ssa.BasicBlock]LockState{}
	for len(work) > 0 {
		b := work[0]
		work = work[1:]
		inWork[b] = false
		st := in[b]
		for _, ins := range b.Instrs {
			st = l.transfer(f, ins, st, false, nil)
		}
		outState[b] = st
		for _, s := range b.Succs {
			n := in[s].meet(st)
			if !n.eq(in[s]) {
				in[s] = n
				if !inWork[s] {
					work = append(work, s)
					inWork[s] = true
				}
			}
		}
	}
	// final pass: record block-in states, report problems, contribute to callees
	exit := LockState{Top: true}
	for _, b := range f.Blocks {
		l.blockIn[b] = in[b]
		if in[b].Top {
			continue // unreachable
		}
		st := in[b]
		for _, ins := range b.Instrs {
			if _, ok := ins.(*ssa.Return); ok {
				ex := st
				// deferred lock ops run now
				ex = l.applyDefers(f, ex)
				exit = exit.meet(ex)
			}
			st = l.transfer(f, ins, st, !l.entry[f].Top, contribute)
		}
	}
	if !exit.Top {
		l.exit[f] = exit
		l.delta[f] = lockDelta{acqW: exit.W &^ en.W, relW: en.W &^ exit.W, acqR: exit.R &^ en.R, relR: en.R &^ exit.R}
	}
}

// lockDelta is the net effect of a function on the held set.
type lockDelta struct{ acqW, relW, acqR, relR uint32 }

// applyDefers applies deferred Lock/Unlock calls of f (all of them: must
// analysis treats a deferred unlock as releasing, a deferred Lock as
// acquiring only if it is registered on every path -- approximated by
// "registered in a block that dominates every return", else ignored).
func (l *Locks) applyDefers(f *ssa.Function, st LockState) LockState {
	Instrs(f, func(in ssa.Instruction) {
		d, ok := in.(*ssa.Defer)
		if !ok {
			return
		}
		op, k, ok := lockOp(d.Common())
		if !ok || k == "" {
			return
		}
		b := l.bit(k)
		switch op {
		case "Unlock":
			st.W &^= b
		case "RUnlock":
			st.R &^= b
		case "Lock":
			st.W |= b
		case "RLock":
			st.R |= b
		}
	})
	return st
}

// HeldBefore returns the must-held state just before instruction in.
func (l *Locks) HeldBefore(in ssa.Instruction) LockState {
	b := in.Block()
	f := b.Parent()
	st, ok := l.blockIn[b]
	if !ok || st.Top {
		return LockState{}
	}
	for _, ins := range b.Instrs {
		if ins == in {
			// publication affects the instruction itself
			if st.V != 0 && l.cfg.Publishes != nil {
				for i, k := range l.keys {
					bb := uint32(1) << uint(i)
					if st.V&bb != 0 && l.cfg.Publishes(f, in, k) {
						st.V &^= bb
					}
				}
			}
			return st
		}
		st = l.transfer(f, ins, st, false, nil)
	}
	return st
}

// Holds reports whether key is held (exclusive, or virtually) in st.
func (l *Locks) Holds(st LockState, k LockKey) bool {
	i, ok := l.keyIdx[k]
	if !ok {
		return false
	}
	b := uint32(1) << uint(i)
	return st.W&b != 0 || st.V&b != 0
}

// HoldsReal reports whether key is really (not virtually) held exclusively.
func (l *Locks) HoldsReal(st LockState, k LockKey) bool {
	i, ok := l.keyIdx[k]
	if !ok {
		return false
	}
	return st.W&(uint32(1)<<uint(i)) != 0
}

// HoldsRead reports whether key is held for reading at least.
func (l *Locks) HoldsRead(st LockState, k LockKey) bool {
	i, ok := l.keyIdx[k]
	if !ok {
		return false
	}
	b := uint32(1) << uint(i)
	return st.W&b != 0 || st.V&b != 0 || st.R&b != 0
}

// Entry returns the computed entry state of f.
func (l *Locks) Entry(f *ssa.Function) LockState { return l.entry[f] }

// StateStr renders a state.
func (l *Locks) StateStr(st LockState) string {
	var parts []string
	for i, k := range l.keys {
		b := uint32(1) << uint(i)
		switch {
		case st.W&b != 0:
			parts = append(parts, string(k))
		case st.R&b != 0:
			parts = append(parts, string(k)+"(read)")
		case st.V&b != 0:
			parts = append(parts, string(k)+"(unpublished)")
		}
	}
	sort.Strings(parts)
	if len(parts) == 0 {
		return "{}"
	}
	return "{" + strings.Join(parts, ", ") + "}"
}

// Keys lists the mutexes discovered.
func (l *Locks) Keys() []LockKey { return append([]LockKey{}, l.keys...) }

// selectedAndCalled: the literal's only use is as an edge of one phi (a local
// function variable assigned per branch), all of whose edges are literals and
// whose only uses are direct calls in the same function.  It returns that phi.
func selectedAndCalled(mc *ssa.MakeClosure) *ssa.Phi {
	refs := mc.Referrers()
	if refs == nil {
		return nil
	}
	var ph *ssa.Phi
	for _, r := range *refs {
		switch u := r.(type) {
		case *ssa.Phi:
			if ph != nil && ph != u {
				return nil
			}
			ph = u
		case *ssa.DebugRef:
		default:
			return nil
		}
	}
	if ph == nil || ph.Referrers() == nil {
		return nil
	}
	for _, e := range ph.Edges {
		if _, ok := e.(*ssa.MakeClosure); !ok {
			return nil
		}
	}
	n := 0
	for _, r := range *ph.Referrers() {
		switch u := r.(type) {
		case *ssa.Call:
			if u.Call.Value != ssa.Value(ph) {
				return nil
			}
			for _, a := range u.Call.Args {
				if a == ssa.Value(ph) {
					return nil
				}
			}
			n++
		case *ssa.DebugRef:
		default:
			return nil
		}
	}
	if n == 0 {
		return nil
	}
	return ph
}
