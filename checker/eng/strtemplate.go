package eng

import (
	"go/constant"
	"go/token"
	"go/types"
	"strconv"
	"strings"

	"golang.org/x/tools/go/ssa"
)

// StrTemplate evaluates a string- or []byte-valued expression to the text it
// denotes, with every non-constant integer operand rendered as "%d" and every
// other unknown operand as "%?": constants, conversions, concatenation,
// fmt.Sprintf / fmt.Appendf(nil, ...) with a constant format, and calls of
// module helpers with a single return (their parameters bound to the
// arguments).  vars receives the non-constant integer operands in order.
func StrTemplate(v ssa.Value) (text string, vars []ssa.Value, ok bool) {
	t, ok := strTemplate(v, nil, 0, &vars)
	return t, vars, ok
}

func strTemplate(v ssa.Value, bind map[*ssa.Parameter]ssa.Value, depth int, vars *[]ssa.Value) (string, bool) {
	if depth > 6 || v == nil {
		return "", false
	}
	o := OriginConv(v)
	for {
		if prm, isP := o.(*ssa.Parameter); isP && bind != nil {
			if a, has := bind[prm]; has {
				o = OriginConv(a)
				continue
			}
		}
		break
	}
	switch x := o.(type) {
	case *ssa.Parameter:
		// an unbound string parameter: a variable part
		if b, isB := x.Type().Underlying().(*types.Basic); isB && b.Info()&types.IsString != 0 {
			*vars = append(*vars, x)
			return "%s", true
		}
		return "", false
	case *ssa.Const:
		if x.Value == nil {
			return "", true // nil []byte
		}
		switch x.Value.Kind() {
		case constant.String:
			return constant.StringVal(x.Value), true
		case constant.Int:
			return x.Value.ExactString(), true
		}
		return "", false
	case *ssa.BinOp:
		if x.Op == token.ADD {
			a, ok1 := strTemplate(x.X, bind, depth+1, vars)
			b, ok2 := strTemplate(x.Y, bind, depth+1, vars)
			return a + b, ok1 && ok2
		}
	case *ssa.Call:
		call := x
		var fmtArgs []ssa.Value
		switch {
		case CalleeIs(&call.Call, "fmt", "Sprintf"):
			fmtArgs = call.Call.Args
		case CalleeIs(&call.Call, "fmt", "Appendf"):
			if pre, ok := strTemplate(call.Call.Args[0], bind, depth+1, vars); ok {
				rest, ok2 := fmtTemplate(call, call.Call.Args[1:], bind, depth, vars)
				return pre + rest, ok2
			}
			return "", false
		case CalleeIs(&call.Call, "strconv", "Itoa") || CalleeIs(&call.Call, "strconv", "FormatUint") || CalleeIs(&call.Call, "strconv", "FormatInt"):
			return intTemplate(call.Call.Args[0], bind, vars), true
		}
		if fmtArgs != nil {
			return fmtTemplate(call, fmtArgs, bind, depth, vars)
		}
		// a helper of the module with one returned value
		cal := Callee(&call.Call)
		if cal != nil && cal.Blocks != nil && theProg != nil && theProg.isModuleFunc(cal) {
			rets := Returns(cal)
			if len(rets) != 1 {
				return "", false
			}
			nb := map[*ssa.Parameter]ssa.Value{}
			for i, q := range cal.Params {
				if i < len(call.Call.Args) {
					a := call.Call.Args[i]
					// resolve the argument in the caller's binding first
					if prm, isP := OriginConv(a).(*ssa.Parameter); isP && bind != nil {
						if aa, has := bind[prm]; has {
							a = aa
						}
					}
					nb[q] = a
				}
			}
			return strTemplate(RetVals(rets[0])[0], nb, depth+1, vars)
		}
	}
	return "%?", false
}

func intTemplate(v ssa.Value, bind map[*ssa.Parameter]ssa.Value, vars *[]ssa.Value) string {
	o := OriginConv(v)
	if prm, isP := o.(*ssa.Parameter); isP && bind != nil {
		if a, has := bind[prm]; has {
			o = OriginConv(a)
		}
	}
	if k, isC := o.(*ssa.Const); isC && k.Value != nil && k.Value.Kind() == constant.Int {
		return k.Value.ExactString()
	}
	*vars = append(*vars, o)
	return "%d"
}

func fmtTemplate(call *ssa.Call, args []ssa.Value, bind map[*ssa.Parameter]ssa.Value, depth int, vars *[]ssa.Value) (string, bool) {
	fs, isC := ConstString(args[0])
	if !isC {
		return "", false
	}
	var ops []ssa.Value
	if len(args) > 1 {
		pa := Path{Blocks: []*ssa.BasicBlock{call.Block()}}
		el, known := pa.SliceElems(args[1])
		if !known {
			return "", false
		}
		ops = el
	}
	var sb strings.Builder
	ok := true
	ai := 0
	for i := 0; i < len(fs); i++ {
		if fs[i] != '%' || i+1 >= len(fs) {
			sb.WriteByte(fs[i])
			continue
		}
		i++
		switch fs[i] {
		case '%':
			sb.WriteByte('%')
		case 's', 'v', 'd', 'q':
			if ai >= len(ops) {
				return "", false
			}
			op := ops[ai]
			ai++
			if mi, isMI := op.(*ssa.MakeInterface); isMI {
				op = mi.X
			}
			if fs[i] == 'q' {
				s, ok2 := strTemplate(op, bind, depth+1, vars)
				sb.WriteString(strconv.Quote(s))
				ok = ok && ok2
				continue
			}
			if isIntegerType(op.Type()) {
				sb.WriteString(intTemplate(op, bind, vars))
				continue
			}
			s, ok2 := strTemplate(op, bind, depth+1, vars)
			sb.WriteString(s)
			ok = ok && ok2
		default:
			return "", false
		}
	}
	return sb.String(), ok && ai == len(ops)
}

func isIntegerType(t types.Type) bool {
	b, ok := t.Underlying().(*types.Basic)
	return ok && b.Info()&types.IsInteger != 0
}
