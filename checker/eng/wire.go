package eng

import (
	"fmt"
	"go/types"
	"reflect"
	"sort"
	"strings"
)

// JSONShape computes the wire signature a Go type has under encoding/json:
// object keys after tags, "-" exclusions, omitempty and ,string options,
// []byte as base64, TextMarshaler/Unmarshaler types as text(<type>), map key
// forms.  Two types with equal shapes are interchangeable on the wire.
func JSONShape(t types.Type) string { return jsonShape(t, 0, map[types.Type]bool{}) }

func hasMethod(t types.Type, name string) bool {
	for _, tt := range []types.Type{t, types.NewPointer(t)} {
		ms := types.NewMethodSet(tt)
		for i := 0; i < ms.Len(); i++ {
			if ms.At(i).Obj().Name() == name {
				return true
			}
		}
	}
	return false
}

func jsonShape(t types.Type, depth int, seen map[types.Type]bool) string {
	if depth > 10 {
		return "..."
	}
	t = types.Unalias(t)
	if n, ok := t.(*types.Named); ok {
		if hasMethod(n, "MarshalJSON") || hasMethod(n, "UnmarshalJSON") {
			return "custom-json(" + TypeShort(n) + ")"
		}
		if hasMethod(n, "MarshalText") || hasMethod(n, "UnmarshalText") {
			m, u := hasMethod(n, "MarshalText"), hasMethod(n, "UnmarshalText")
			return fmt.Sprintf("text(%s marshal=%v unmarshal=%v)", TypeShort(n), m, u)
		}
		if seen[n] {
			return "rec(" + TypeShort(n) + ")"
		}
		seen[n] = true
		defer delete(seen, n)
	}
	switch u := t.Underlying().(type) {
	case *types.Basic:
		switch {
		case u.Info()&types.IsString != 0:
			return "string"
		case u.Info()&types.IsBoolean != 0:
			return "bool"
		case u.Info()&types.IsNumeric != 0:
			return "number(" + u.Name() + ")"
		}
		return u.Name()
	case *types.Pointer:
		return "?" + jsonShape(u.Elem(), depth+1, seen)
	case *types.Slice:
		if b, ok := u.Elem().Underlying().(*types.Basic); ok && b.Kind() == types.Uint8 {
			if _, named := types.Unalias(u.Elem()).(*types.Named); !named || true {
				return "base64"
			}
		}
		return "[" + jsonShape(u.Elem(), depth+1, seen) + "]"
	case *types.Array:
		return "[" + jsonShape(u.Elem(), depth+1, seen) + "]"
	case *types.Map:
		k := "string"
		kt := u.Key()
		if n, ok := types.Unalias(kt).(*types.Named); ok && (hasMethod(n, "MarshalText") || hasMethod(n, "UnmarshalText")) {
			k = "text(" + TypeShort(n) + ")"
		} else if b, ok := kt.Underlying().(*types.Basic); ok {
			switch {
			case b.Info()&types.IsString != 0:
				k = "string"
			case b.Info()&types.IsInteger != 0:
				k = "decimal(" + b.Name() + ")"
			default:
				k = "unsupported(" + b.Name() + ")"
			}
		} else {
			k = "unsupported(" + TypeShort(kt) + ")"
		}
		return "object(" + k + "→" + jsonShape(u.Elem(), depth+1, seen) + ")"
	case *types.Struct:
		var parts []string
		for i := 0; i < u.NumFields(); i++ {
			f := u.Field(i)
			tag := reflect.StructTag(u.Tag(i)).Get("json")
			if tag == "-" {
				continue
			}
			if !f.Exported() && !f.Embedded() {
				continue
			}
			name := f.Name()
			opts := ""
			if tag != "" {
				ps := strings.Split(tag, ",")
				if ps[0] != "" {
					name = ps[0]
				}
				if len(ps) > 1 {
					o := ps[1:]
					sort.Strings(o)
					opts = "," + strings.Join(o, ",")
				}
			}
			if f.Embedded() && tag == "" {
				if _, isStruct := Deref(f.Type()).Underlying().(*types.Struct); isStruct {
					inner := jsonShape(Deref(f.Type()), depth+1, seen)
					parts = append(parts, "embed:"+inner)
					continue
				}
			}
			parts = append(parts, fmt.Sprintf("%q%s:%s", name, opts, jsonShape(f.Type(), depth+1, seen)))
		}
		sort.Strings(parts)
		return "{" + strings.Join(parts, " ") + "}"
	case *types.Interface:
		return "any"
	}
	return TypeShort(t)
}
