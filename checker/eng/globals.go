package eng

import (
	"go/token"
	"go/types"
	"strings"

	"golang.org/x/tools/go/ssa"
)

// ReadOnlyGlobal reports whether the package-level variable g is a constant
// table in effect: outside its package's init it is only read (loads, element
// and field reads, len, range, membership in a few pure library functions),
// its address and any reference obtained from it never escape, and nothing in
// the module stores to it or through it.  why names the first offending use.
func ReadOnlyGlobal(p *Prog, g *ssa.Global) (ok bool, why string) {
	if g == nil || g.Pkg == nil {
		return false, "not a package-level variable of the module"
	}
	ok = true
	fail := func(s string) {
		if ok {
			ok, why = false, s
		}
	}
	seen := map[ssa.Value]bool{}
	refish := func(t types.Type) bool {
		switch t.Underlying().(type) {
		case *types.Slice, *types.Map, *types.Pointer:
			return true
		}
		return false
	}
	plain := func(t types.Type) bool { return isPlainData(t, 0) }
	var use func(v ssa.Value, isAddr bool)
	use = func(v ssa.Value, isAddr bool) {
		if seen[v] {
			return
		}
		seen[v] = true
		refs := v.Referrers()
		if refs == nil {
			return
		}
		for _, r := range *refs {
			switch u := r.(type) {
			case *ssa.DebugRef:
			case *ssa.UnOp:
				if u.Op != token.MUL || u.X != v {
					fail("used by " + InstrStr(u))
					continue
				}
				if refish(u.Type()) {
					use(u, false)
				} else if !plain(u.Type()) {
					// e.g. an array of slices copied out: follow the copy
					use(u, false)
				}
			case *ssa.IndexAddr:
				if u.X == v {
					use(u, true)
				}
			case *ssa.FieldAddr:
				if u.X == v {
					use(u, true)
				}
			case *ssa.Index:
				if u.X == v && !plain(u.Type()) {
					use(u, false)
				}
			case *ssa.Field:
				if u.X == v && !plain(u.Type()) {
					use(u, false)
				}
			case *ssa.Lookup:
				if u.X == v && !plain(elemOfLookup(u)) {
					use(u, false)
				}
			case *ssa.Extract:
				if !plain(u.Type()) {
					use(u, false)
				}
			case *ssa.Slice:
				if u.X == v {
					use(u, false)
				}
			case *ssa.Phi:
				use(u, isAddr)
			case *ssa.Range:
				mt, isM := u.X.Type().Underlying().(*types.Map)
				if !isM || !plain(mt.Key()) || !plain(mt.Elem()) {
					fail("ranged over with reference elements: " + InstrStr(u))
				}
			case *ssa.BinOp:
				// comparison with nil etc.
			case *ssa.Store:
				if u.Addr == v {
					fail("stored to at " + p.Pos(u.Pos()))
				} else {
					fail("a reference into it is stored at " + p.Pos(u.Pos()))
				}
			case ssa.CallInstruction:
				cc := u.Common()
				if bi, isB := cc.Value.(*ssa.Builtin); isB && (bi.Name() == "len" || bi.Name() == "cap") {
					continue
				}
				pure := false
				if cal := cc.StaticCallee(); cal != nil {
					o := cal
					if cal.Origin() != nil {
						o = cal.Origin()
					}
					if o.Pkg != nil {
						switch o.Pkg.Pkg.Path() + "." + o.Name() {
						case "slices.Contains", "slices.Index", "strings.Join", "slices.ContainsFunc", "slices.IndexFunc":
							pure = true
						}
					}
				}
				if !pure {
					fail("handed to " + CallStr(cc) + " at " + p.Pos(u.Pos()))
				}
			default:
				fail("used by " + InstrStr(r) + " at " + p.Pos(r.Pos()))
			}
		}
	}
	// every operand use of g in the module, init aside
	for _, f := range p.AllFuncs() {
		if f.Blocks == nil {
			continue
		}
		inInit := strings.HasPrefix(Outer(f).Name(), "init") && f.Pkg == g.Pkg
		Instrs(f, func(in ssa.Instruction) {
			for _, op := range in.Operands(nil) {
				if *op != ssa.Value(g) {
					continue
				}
				if inInit {
					continue
				}
				switch u := in.(type) {
				case *ssa.UnOp:
					if u.Op == token.MUL {
						if !plain(u.Type()) {
							use(u, false)
						}
						continue
					}
					fail("used by " + InstrStr(in))
				case *ssa.IndexAddr:
					use(u, true)
				case *ssa.FieldAddr:
					use(u, true)
				case *ssa.DebugRef:
				case *ssa.Store:
					fail("assigned outside init at " + p.Pos(in.Pos()))
				default:
					fail("its address is used by " + InstrStr(in) + " at " + p.Pos(in.Pos()))
				}
			}
		})
	}
	return ok, why
}

func elemOfLookup(l *ssa.Lookup) types.Type {
	if mt, ok := l.X.Type().Underlying().(*types.Map); ok {
		return mt.Elem()
	}
	return l.Type()
}

// isPlainData: values of t carry no reference through which shared memory
// could be changed (numbers, strings, booleans, arrays and structs of such).
func isPlainData(t types.Type, depth int) bool {
	if depth > 6 {
		return false
	}
	switch u := t.Underlying().(type) {
	case *types.Basic:
		return u.Kind() != types.UnsafePointer
	case *types.Array:
		return isPlainData(u.Elem(), depth+1)
	case *types.Struct:
		for i := 0; i < u.NumFields(); i++ {
			if !isPlainData(u.Field(i).Type(), depth+1) {
				return false
			}
		}
		return true
	case *types.Tuple:
		for i := 0; i < u.Len(); i++ {
			if !isPlainData(u.At(i).Type(), depth+1) {
				return false
			}
		}
		return true
	}
	return false
}

// GlobalElems: for a value read out of a read-only package-level array or
// slice table (tbl[i] for any i), the values its initialiser put there.
func GlobalElems(p *Prog, v ssa.Value) ([]ssa.Value, *ssa.Global, bool) {
	v = Origin(v)
	var src ssa.Value
	switch x := v.(type) {
	case *ssa.Index:
		src = x.X
	case *ssa.UnOp:
		if ia, ok := x.X.(*ssa.IndexAddr); ok && x.Op == token.MUL {
			src = ia.X
		}
	}
	if src == nil {
		return nil, nil, false
	}
	var g *ssa.Global
	for i := 0; i < 4 && g == nil; i++ {
		switch x := src.(type) {
		case *ssa.Global:
			g = x
		case *ssa.UnOp:
			src = x.X
		case *ssa.Slice:
			src = x.X
		default:
			src = Origin(src)
			if gg, ok := src.(*ssa.Global); ok {
				g = gg
			} else if _, isU := src.(*ssa.UnOp); !isU {
				return nil, nil, false
			}
		}
	}
	if g == nil || g.Pkg == nil {
		return nil, nil, false
	}
	if ro, _ := ReadOnlyGlobal(p, g); !ro {
		return nil, g, false
	}
	initFn := g.Pkg.Func("init")
	if initFn == nil {
		return nil, g, false
	}
	var vals []ssa.Value
	n := 0
	Instrs(initFn, func(in ssa.Instruction) {
		st, ok := in.(*ssa.Store)
		if !ok || st.Addr != ssa.Value(g) {
			return
		}
		n++
		// *g = *complit  or  *g = slice(complit)
		var al *ssa.Alloc
		switch x := st.Val.(type) {
		case *ssa.UnOp:
			al, _ = x.X.(*ssa.Alloc)
		case *ssa.Slice:
			al, _ = x.X.(*ssa.Alloc)
		}
		if al == nil {
			n = 99
			return
		}
		for _, r := range *al.Referrers() {
			if ia, ok := r.(*ssa.IndexAddr); ok {
				for _, rr := range *ia.Referrers() {
					if s2, ok := rr.(*ssa.Store); ok && s2.Addr == ssa.Value(ia) {
						vals = append(vals, s2.Val)
					}
				}
			}
		}
	})
	if n != 1 || len(vals) == 0 {
		return nil, g, false
	}
	return vals, g, true
}

// GlobalOf: v is a load of a package-level variable; that variable.
func GlobalOf(v ssa.Value) *ssa.Global {
	u, ok := Origin(v).(*ssa.UnOp)
	if !ok || u.Op != token.MUL {
		return nil
	}
	g, _ := u.X.(*ssa.Global)
	return g
}

// FuncPkgOfGlobal: the package declaring g.
func FuncPkgOfGlobal(g *ssa.Global) *types.Package {
	if g == nil || g.Pkg == nil {
		return nil
	}
	return g.Pkg.Pkg
}

// GlobalMapPairs: the (integer constant key -> value) pairs the initialiser
// of the package-level map g puts there (map literal in a var declaration:
// MakeMap, MapUpdates and one Store in the package's init).  Empty if the
// initialiser has another form.
func GlobalMapPairs(p *Prog, g *ssa.Global) map[int64]ssa.Value {
	out := map[int64]ssa.Value{}
	if g == nil || g.Pkg == nil {
		return out
	}
	init := g.Pkg.Func("init")
	if init == nil {
		return out
	}
	var mm *ssa.MakeMap
	n := 0
	Instrs(init, func(in ssa.Instruction) {
		if st, ok := in.(*ssa.Store); ok && st.Addr == ssa.Value(g) {
			n++
			mm, _ = st.Val.(*ssa.MakeMap)
		}
	})
	if n != 1 || mm == nil || mm.Referrers() == nil {
		return out
	}
	for _, r := range *mm.Referrers() {
		switch u := r.(type) {
		case *ssa.MapUpdate:
			k, isK := ConstInt(u.Key)
			if !isK {
				return map[int64]ssa.Value{}
			}
			out[k] = u.Value
		case *ssa.Store, *ssa.DebugRef:
		default:
			return map[int64]ssa.Value{}
		}
	}
	return out
}

// GlobalMapUnmodified: the package-level map g holds, at every read, exactly
// what its initialiser put there: it is assigned once (in its package's init),
// and everywhere in the module it is only loaded for lookups, len and range
// (the map value itself is never stored, passed on, updated or deleted from).
// What is read OUT of it may go anywhere.
func GlobalMapUnmodified(p *Prog, g *ssa.Global) (bool, string) {
	if g == nil || g.Pkg == nil {
		return false, "no such variable"
	}
	init := g.Pkg.Func("init")
	ok, why := true, ""
	for _, f := range p.AllFuncs() {
		Instrs(f, func(in ssa.Instruction) {
			if !ok {
				return
			}
			for _, op := range in.Operands(nil) {
				if *op != ssa.Value(g) {
					continue
				}
				switch x := in.(type) {
				case *ssa.Store:
					if x.Addr == ssa.Value(g) && Outer(f) == init {
						continue
					}
					ok, why = false, "assigned at "+p.Pos(in.Pos())
				case *ssa.UnOp:
					if x.Op != token.MUL || x.Referrers() == nil {
						ok, why = false, "used at "+p.Pos(in.Pos())
						continue
					}
					for _, r := range *x.Referrers() {
						switch u := r.(type) {
						case *ssa.Lookup, *ssa.Range, *ssa.DebugRef:
						case *ssa.Call:
							if _, isLen := BuiltinCall(u, "len"); !isLen {
								ok, why = false, "handed on at "+p.Pos(u.Pos())
							}
						default:
							ok, why = false, "used at "+p.Pos(r.Pos())
						}
					}
				case *ssa.DebugRef:
				default:
					ok, why = false, "address used at "+p.Pos(in.Pos())
				}
			}
		})
	}
	return ok, why
}
