package eng

import "golang.org/x/tools/go/ssa"

// CycleAvoiding looks for a cycle in fn's CFG (among blocks reachable from
// the entry) that does not pass through any block for which cut returns
// true.  It returns the blocks of one such cycle, or nil.
func CycleAvoiding(fn *ssa.Function, cut func(*ssa.BasicBlock) bool) []*ssa.BasicBlock {
	if len(fn.Blocks) == 0 {
		return nil
	}
	reach := map[*ssa.BasicBlock]bool{}
	var dfs0 func(b *ssa.BasicBlock)
	dfs0 = func(b *ssa.BasicBlock) {
		if reach[b] {
			return
		}
		reach[b] = true
		for _, s := range b.Succs {
			dfs0(s)
		}
	}
	dfs0(fn.Blocks[0])
	const (
		white = 0
		grey  = 1
		black = 2
	)
	color := map[*ssa.BasicBlock]int{}
	var stack []*ssa.BasicBlock
	var found []*ssa.BasicBlock
	var dfs func(b *ssa.BasicBlock) bool
	dfs = func(b *ssa.BasicBlock) bool {
		color[b] = grey
		stack = append(stack, b)
		for _, s := range b.Succs {
			if !reach[s] || cut(s) {
				continue
			}
			if color[s] == grey {
				// cycle: from s ... b
				for i, x := range stack {
					if x == s {
						found = append([]*ssa.BasicBlock{}, stack[i:]...)
						return true
					}
				}
			}
			if color[s] == white && dfs(s) {
				return true
			}
		}
		stack = stack[:len(stack)-1]
		color[b] = black
		return false
	}
	for _, b := range fn.Blocks {
		if reach[b] && !cut(b) && color[b] == white {
			if dfs(b) {
				return found
			}
		}
	}
	return nil
}

// InCycle reports whether block b lies on some cycle of its function.
func InCycle(b *ssa.BasicBlock) bool {
	seen := map[*ssa.BasicBlock]bool{}
	work := append([]*ssa.BasicBlock{}, b.Succs...)
	for len(work) > 0 {
		x := work[0]
		work = work[1:]
		if x == b {
			return true
		}
		if seen[x] {
			continue
		}
		seen[x] = true
		work = append(work, x.Succs...)
	}
	return false
}

// PhiLeaves returns the non-phi values that can flow into v through a
// network of phis, with the block each arrives from (the predecessor of the
// phi it enters), plus the set of phis in the network.
type PhiLeaf struct {
	Val  ssa.Value
	From *ssa.BasicBlock // predecessor block the value arrives from
	Phi  *ssa.Phi
}

func PhiLeaves(v ssa.Value) ([]PhiLeaf, map[*ssa.Phi]bool) {
	phis := map[*ssa.Phi]bool{}
	var leaves []PhiLeaf
	var visit func(v ssa.Value)
	visit = func(v ssa.Value) {
		ph, ok := v.(*ssa.Phi)
		if !ok || phis[ph] {
			return
		}
		phis[ph] = true
		for i, e := range ph.Edges {
			if _, isPhi := e.(*ssa.Phi); isPhi {
				visit(e)
				continue
			}
			leaves = append(leaves, PhiLeaf{Val: e, From: ph.Block().Preds[i], Phi: ph})
		}
	}
	visit(v)
	return leaves, phis
}

// CycleAvoidingEdges is CycleAvoiding with an additional edge filter:
// edges for which cutEdge(from, to) is true are not followed.
func CycleAvoidingEdges(fn *ssa.Function, cut func(*ssa.BasicBlock) bool, cutEdge func(from, to *ssa.BasicBlock) bool) []*ssa.BasicBlock {
	if len(fn.Blocks) == 0 {
		return nil
	}
	color := map[*ssa.BasicBlock]int{}
	var stack []*ssa.BasicBlock
	var found []*ssa.BasicBlock
	var dfs func(b *ssa.BasicBlock) bool
	dfs = func(b *ssa.BasicBlock) bool {
		color[b] = 1
		stack = append(stack, b)
		for _, s := range b.Succs {
			if cut(s) || cutEdge(b, s) {
				continue
			}
			if color[s] == 1 {
				for i, x := range stack {
					if x == s {
						found = append([]*ssa.BasicBlock{}, stack[i:]...)
						return true
					}
				}
			}
			if color[s] == 0 && dfs(s) {
				return true
			}
		}
		stack = stack[:len(stack)-1]
		color[b] = 2
		return false
	}
	if !cut(fn.Blocks[0]) && dfs(fn.Blocks[0]) {
		return found
	}
	return nil
}

// IsRangeHeader reports whether b is the header of a loop over a finite
// collection: it contains a Next of a Range iterator, or it is the header of
// a full-range slice loop.
func IsRangeHeader(fn *ssa.Function, b *ssa.BasicBlock) bool {
	for _, in := range b.Instrs {
		if _, ok := in.(*ssa.Next); ok {
			return true
		}
	}
	for _, l := range RangeLoops(fn) {
		if l.Header == b {
			return true
		}
	}
	return false
}
