package eng

import (
	"go/token"

	"golang.org/x/tools/go/ssa"
)

// RangeLoop describes a `for i := range S` / `for i, e := range S` loop over a
// slice as lowered by go/ssa (rangeindex.loop / body / done).
type RangeLoop struct {
	Header *ssa.BasicBlock
	Body   *ssa.BasicBlock
	Done   *ssa.BasicBlock
	Idx    ssa.Value // the index value used in the body (phi + 1)
	Slice  ssa.Value // the slice whose len bounds the loop
	LenVal ssa.Value
}

// RangeLoops finds all full-range slice loops of fn: index starts at 0,
// increases by 1, bound is len(S).
func RangeLoops(fn *ssa.Function) []RangeLoop {
	var out []RangeLoop
	for _, b := range fn.Blocks {
		ifi, ok := b.Instrs[len(b.Instrs)-1].(*ssa.If)
		if !ok {
			continue
		}
		cmp, ok := ifi.Cond.(*ssa.BinOp)
		if !ok || cmp.Op != token.LSS {
			continue
		}
		inc, ok := cmp.X.(*ssa.BinOp)
		if !ok || inc.Op != token.ADD {
			continue
		}
		one, isC := ConstInt(inc.Y)
		phi, isPhi := inc.X.(*ssa.Phi)
		if !isC || one != 1 || !isPhi || phi.Block() != b || len(phi.Edges) < 2 {
			continue
		}
		// phi edges: -1 from outside, inc from every back edge
		okPhi := true
		nInit := 0
		for _, e := range phi.Edges {
			if k, isK := ConstInt(e); isK && k == -1 {
				nInit++
				continue
			}
			if e != ssa.Value(inc) {
				okPhi = false
			}
		}
		if !okPhi || nInit != 1 {
			continue
		}
		// bound: len(S)
		var slice ssa.Value
		if call, ok := cmp.Y.(*ssa.Call); ok {
			if bi, ok := call.Call.Value.(*ssa.Builtin); ok && bi.Name() == "len" {
				slice = call.Call.Args[0]
			}
		}
		if slice == nil {
			continue
		}
		out = append(out, RangeLoop{Header: b, Body: b.Succs[0], Done: b.Succs[1], Idx: inc, Slice: slice, LenVal: cmp.Y})
	}
	return out
}

// ElemOf reports whether v is a load of S[idx] for loop l (possibly through a
// copy into a local cell), or the address &S[idx].
func (l RangeLoop) ElemOf(v ssa.Value) bool {
	v = Origin(v)
	if u, ok := v.(*ssa.UnOp); ok && u.Op == token.MUL {
		if ia, ok := u.X.(*ssa.IndexAddr); ok {
			return ia.Index == l.Idx && (ia.X == l.Slice || Same(ia.X, l.Slice))
		}
	}
	// the address of the element itself: &S[idx] (pointer-receiver call on S[idx])
	if ia, ok := v.(*ssa.IndexAddr); ok {
		return ia.Index == l.Idx && (ia.X == l.Slice || Same(ia.X, l.Slice))
	}
	// pointer to a per-iteration copy: new T; *t = S[idx]
	if al, ok := v.(*ssa.Alloc); ok {
		sts := CellStores(al)
		if len(sts) == 1 {
			return l.ElemOf(sts[0].Val)
		}
	}
	return false
}

// InLoop reports whether block b belongs to the loop (is dominated by the
// body entry and can reach the header again).
func (l RangeLoop) InLoop(b *ssa.BasicBlock) bool {
	if b == l.Header {
		return true
	}
	if !l.Body.Dominates(b) {
		return false
	}
	// can reach header
	seen := map[*ssa.BasicBlock]bool{}
	work := []*ssa.BasicBlock{b}
	for len(work) > 0 {
		x := work[0]
		work = work[1:]
		if x == l.Header {
			return true
		}
		if seen[x] {
			continue
		}
		seen[x] = true
		work = append(work, x.Succs...)
	}
	return false
}
