package eng

import (
	"go/token"
	"go/types"

	"golang.org/x/tools/go/ssa"
)

// Access is a read or write of a struct field.
type Access struct {
	Fn    *ssa.Function
	In    ssa.Instruction // the load/store (or the FieldAddr when its address escapes)
	Addr  *ssa.FieldAddr  // nil for Field (value) reads
	Field FieldRef
	Write bool
	Kind  string // "load", "store", "addr" (address taken / passed on), "value"
	Base  ssa.Value
}

// FieldAccesses enumerates all field accesses in fn (not its closures).
func FieldAccesses(fn *ssa.Function) []Access {
	var out []Access
	Instrs(fn, func(in ssa.Instruction) {
		switch x := in.(type) {
		case *ssa.FieldAddr:
			fr, _ := FieldOfAddr(x)
			refs := x.Referrers()
			if refs == nil {
				return
			}
			for _, r := range *refs {
				switch u := r.(type) {
				case *ssa.UnOp:
					if u.Op == token.MUL {
						out = append(out, Access{fn, u, x, fr, false, "load", x.X})
					}
				case *ssa.Store:
					if u.Addr == x {
						out = append(out, Access{fn, u, x, fr, true, "store", x.X})
					} else {
						out = append(out, Access{fn, u, x, fr, true, "addr", x.X})
					}
				case *ssa.FieldAddr:
					// nested: the inner field access is reported on its own
				case *ssa.DebugRef:
				default:
					out = append(out, Access{fn, r, x, fr, true, "addr", x.X})
				}
			}
		case *ssa.Field:
			t := x.X.Type()
			out = append(out, Access{fn, x, nil, FieldRef{Owner: t, Name: FieldName(t, x.Field)}, false, "value", x.X})
		}
	})
	return out
}

// MapOp is an operation on a map value.
type MapOp struct {
	Fn    *ssa.Function
	In    ssa.Instruction
	Kind  string // lookup, lookupok, update, delete, clear, range, len
	Map   ssa.Value
	Key   ssa.Value
	Val   ssa.Value
	Src   FieldRef // field the map value was loaded from, if SrcOK
	SrcOK bool
	Base  ssa.Value // object holding the field
}

func isMap(t types.Type) bool {
	_, ok := t.Underlying().(*types.Map)
	return ok
}

// MapOps enumerates map operations in fn (not its closures).
func MapOps(fn *ssa.Function) []MapOp {
	var out []MapOp
	mk := func(in ssa.Instruction, kind string, m, k, v ssa.Value) {
		op := MapOp{Fn: fn, In: in, Kind: kind, Map: m, Key: k, Val: v}
		if fr, base, ok := LoadedField(m); ok {
			op.Src, op.Base, op.SrcOK = fr, base, true
		}
		out = append(out, op)
	}
	Instrs(fn, func(in ssa.Instruction) {
		switch x := in.(type) {
		case *ssa.Lookup:
			if isMap(x.X.Type()) {
				k := "lookup"
				if x.CommaOk {
					k = "lookupok"
				}
				mk(in, k, x.X, x.Index, nil)
			}
		case *ssa.MapUpdate:
			mk(in, "update", x.Map, x.Key, x.Value)
		case *ssa.Range:
			if isMap(x.X.Type()) {
				mk(in, "range", x.X, nil, nil)
			}
		case ssa.CallInstruction:
			// (a deferred or go'ed builtin mutates the map all the same)
			cc := x.Common()
			if b, ok := cc.Value.(*ssa.Builtin); ok && len(cc.Args) > 0 && isMap(cc.Args[0].Type()) {
				switch b.Name() {
				case "delete":
					mk(in, "delete", cc.Args[0], cc.Args[1], nil)
				case "clear":
					mk(in, "clear", cc.Args[0], nil, nil)
				case "len":
					mk(in, "len", cc.Args[0], nil, nil)
				}
			}
		}
	})
	return out
}

// IsWrite reports whether the map operation mutates the map.
func (m MapOp) IsWrite() bool {
	switch m.Kind {
	case "update", "delete", "clear":
		return true
	}
	return false
}

// BuiltinCall: if in is a call of the named builtin return its args.
func BuiltinCall(in ssa.Instruction, name string) ([]ssa.Value, bool) {
	if in == nil {
		return nil, false
	}
	c, ok := in.(ssa.CallInstruction)
	if !ok {
		return nil, false
	}
	b, ok := c.Common().Value.(*ssa.Builtin)
	if !ok || b.Name() != name {
		return nil, false
	}
	return c.Common().Args, true
}
