package eng

import (
	"fmt"
	"go/token"
	"go/types"

	"golang.org/x/tools/go/ssa"
)

// Fact is a branch outcome that holds whenever control reaches some block:
// the If instruction and which successor edge was taken.
type Fact struct {
	If     *ssa.If
	Branch bool // true = Succs[0]
}

// Cond is a normalised condition known to HOLD.
//
//	Op != ILLEGAL: comparison X Op Y holds.
//	Op == ILLEGAL: boolean value X has truth value Truth.
type Cond struct {
	Op    token.Token
	X, Y  ssa.Value
	Truth bool
	If    *ssa.If
}

func negate(op token.Token) token.Token {
	switch op {
	case token.EQL:
		return token.NEQ
	case token.NEQ:
		return token.EQL
	case token.LSS:
		return token.GEQ
	case token.GEQ:
		return token.LSS
	case token.GTR:
		return token.LEQ
	case token.LEQ:
		return token.GTR
	}
	return token.ILLEGAL
}

// CondOf normalises "value v has truth value br".
func CondOf(v ssa.Value, br bool) Cond {
	for {
		v = Origin(v)
		if u, ok := v.(*ssa.UnOp); ok && u.Op == token.NOT {
			v = u.X
			br = !br
			continue
		}
		break
	}
	if b, ok := v.(*ssa.BinOp); ok {
		switch b.Op {
		case token.EQL, token.NEQ, token.LSS, token.LEQ, token.GTR, token.GEQ:
			op := b.Op
			if !br {
				op = negate(op)
			}
			return Cond{Op: op, X: b.X, Y: b.Y}
		}
	}
	return Cond{Op: token.ILLEGAL, X: v, Truth: br}
}

// Cond returns the normalised condition the fact establishes.
func (f Fact) Cond() Cond {
	c := CondOf(f.If.Cond, f.Branch)
	c.If = f.If
	return c
}

func (c Cond) String() string {
	if c.Op == token.ILLEGAL {
		if c.Truth {
			return ValStr(c.X)
		}
		return "!" + ValStr(c.X)
	}
	return fmt.Sprintf("%s %s %s", ValStr(c.X), c.Op, ValStr(c.Y))
}

// NilCheck: the condition is "v == nil" (isNil) or "v != nil".
func (c Cond) NilCheck() (v ssa.Value, isNil bool, ok bool) {
	if c.Op != token.EQL && c.Op != token.NEQ {
		return nil, false, false
	}
	switch {
	case IsNilConst(c.Y):
		return c.X, c.Op == token.EQL, true
	case IsNilConst(c.X):
		return c.Y, c.Op == token.EQL, true
	}
	return nil, false, false
}

// ErrCheck is NilCheck restricted to error-typed operands.
func (c Cond) ErrCheck() (v ssa.Value, isNil bool, ok bool) {
	v, isNil, ok = c.NilCheck()
	if ok && !IsErrorType(v.Type()) {
		return nil, false, false
	}
	return
}

// Bool: the condition is a plain boolean value with known truth.
func (c Cond) Bool() (v ssa.Value, truth bool, ok bool) {
	if c.Op != token.ILLEGAL {
		return nil, false, false
	}
	return c.X, c.Truth, true
}

// BoolCall: the condition is the (possibly extracted) boolean result of a
// call.
func (c Cond) BoolCall() (call *ssa.Call, idx int, truth bool, ok bool) {
	v, truth, ok := c.Bool()
	if !ok {
		return nil, 0, false, false
	}
	call, idx = TupleCall(v)
	if call == nil {
		return nil, 0, false, false
	}
	return call, idx, truth, true
}

// CommaOk: the condition is the ok result of a comma-ok map lookup, type
// assertion or channel receive.
func (c Cond) CommaOk() (src ssa.Value, truth bool, ok bool) {
	v, truth, ok := c.Bool()
	if !ok {
		return nil, false, false
	}
	ex, ok := Origin(v).(*ssa.Extract)
	if !ok || ex.Index != 1 {
		return nil, false, false
	}
	switch t := ex.Tuple.(type) {
	case *ssa.Lookup:
		if t.CommaOk {
			return t, truth, true
		}
	case *ssa.TypeAssert:
		if t.CommaOk {
			return t, truth, true
		}
	case *ssa.UnOp:
		if t.CommaOk {
			return t, truth, true
		}
	}
	return nil, false, false
}

// Cmp returns the comparison with X,Y possibly swapped so that pred(X) holds.
func (c Cond) Cmp() (op token.Token, x, y ssa.Value, ok bool) {
	if c.Op == token.ILLEGAL {
		return 0, nil, nil, false
	}
	return c.Op, c.X, c.Y, true
}

// swapOp mirrors a comparison (a < b  ==  b > a).
func SwapOp(op token.Token) token.Token {
	switch op {
	case token.LSS:
		return token.GTR
	case token.GTR:
		return token.LSS
	case token.LEQ:
		return token.GEQ
	case token.GEQ:
		return token.LEQ
	}
	return op
}

// ---------------------------------------------------------------------

// edgeDominates reports whether the edge d -> d.Succs[i] dominates block b:
// the successor s dominates b and every other way into s comes from inside
// s's dominance region (loop back edges).
func edgeDominates(d *ssa.BasicBlock, i int, b *ssa.BasicBlock) bool {
	s := d.Succs[i]
	if !s.Dominates(b) {
		return false
	}
	// both successors identical: edge does not discriminate
	if len(d.Succs) == 2 && d.Succs[0] == d.Succs[1] {
		return false
	}
	n := 0
	for _, p := range s.Preds {
		if p == d {
			n++
			continue
		}
		if !s.Dominates(p) {
			return false
		}
	}
	return n == 1
}

// BlockFacts returns the branch facts that hold on entry to block b, nearest
// first.
func BlockFacts(b *ssa.BasicBlock) []Fact {
	var out []Fact
	for y := b.Idom(); y != nil; y = y.Idom() {
		ifi, ok := y.Instrs[len(y.Instrs)-1].(*ssa.If)
		if !ok {
			continue
		}
		for i := range y.Succs {
			if edgeDominates(y, i, b) {
				out = append(out, Fact{If: ifi, Branch: i == 0})
			}
		}
	}
	return out
}

// FactsAt returns the conditions that hold whenever control reaches in.
func FactsAt(in ssa.Instruction) []Cond {
	fs := BlockFacts(in.Block())
	out := make([]Cond, 0, len(fs))
	for _, f := range fs {
		out = append(out, f.Cond())
	}
	return out
}

// Dominated reports whether some condition holding at in satisfies pred.
func Dominated(in ssa.Instruction, pred func(Cond) bool) bool {
	for _, c := range FactsAt(in) {
		if pred(c) {
			return true
		}
	}
	return false
}

// FactsString renders the facts holding at in (for diagnostics).
func FactsString(in ssa.Instruction) string {
	s := ""
	for i, c := range FactsAt(in) {
		if i > 0 {
			s += " ; "
		}
		s += c.String()
	}
	if s == "" {
		return "(no dominating condition)"
	}
	return s
}

// ---------------------------------------------------------------------

// ValStr renders a value for reports: source-like where possible.
func ValStr(v ssa.Value) string {
	return valStr(v, 0)
}

func valStr(v ssa.Value, d int) string {
	if v == nil {
		return "<nil>"
	}
	if d > 6 {
		return v.Name()
	}
	switch x := v.(type) {
	case *ssa.Const:
		if x.Value == nil {
			return "nil"
		}
		return x.Value.String()
	case *ssa.Parameter:
		return x.Name()
	case *ssa.FreeVar:
		return x.Name()
	case *ssa.Global:
		return x.Name()
	case *ssa.Function:
		return FName(x)
	case *ssa.Alloc:
		if x.Comment != "" {
			return x.Comment
		}
		return x.Name()
	case *ssa.UnOp:
		if x.Op == token.MUL {
			return valStr(x.X, d+1)
		}
		if x.Op == token.ARROW {
			return "<-" + valStr(x.X, d+1)
		}
		return x.Op.String() + valStr(x.X, d+1)
	case *ssa.BinOp:
		return "(" + valStr(x.X, d+1) + " " + x.Op.String() + " " + valStr(x.Y, d+1) + ")"
	case *ssa.FieldAddr:
		return valStr(x.X, d+1) + "." + FieldName(x.X.Type(), x.Field)
	case *ssa.Field:
		return valStr(x.X, d+1) + "." + FieldName(x.X.Type(), x.Field)
	case *ssa.Extract:
		return valStr(x.Tuple, d+1) + fmt.Sprintf("#%d", x.Index)
	case *ssa.Call:
		return callStr(&x.Call, d)
	case *ssa.Lookup:
		s := valStr(x.X, d+1) + "[" + valStr(x.Index, d+1) + "]"
		if x.CommaOk {
			s += ",ok"
		}
		return s
	case *ssa.ChangeType:
		return valStr(x.X, d+1)
	case *ssa.Convert:
		return TypeShort(x.Type()) + "(" + valStr(x.X, d+1) + ")"
	case *ssa.MakeInterface:
		return valStr(x.X, d+1)
	case *ssa.TypeAssert:
		return valStr(x.X, d+1) + ".(" + TypeShort(x.AssertedType) + ")"
	case *ssa.MakeClosure:
		return "func-literal " + FName(x.Fn.(*ssa.Function))
	case *ssa.Phi:
		s := "phi("
		for i, e := range x.Edges {
			if i > 0 {
				s += ","
			}
			if e == v {
				s += "self"
			} else {
				s += valStr(e, d+2)
			}
		}
		return s + ")"
	case *ssa.IndexAddr:
		return valStr(x.X, d+1) + "[" + valStr(x.Index, d+1) + "]"
	case *ssa.Slice:
		return valStr(x.X, d+1) + "[:]"
	}
	return v.Name()
}

func callStr(cc *ssa.CallCommon, d int) string {
	name := ""
	var args []ssa.Value
	if cc.IsInvoke() {
		name = valStr(cc.Value, d+1) + "." + cc.Method.Name()
		args = cc.Args
	} else if f := Callee(cc); f != nil {
		name = FName(f)
		args = cc.Args
	} else if b, ok := cc.Value.(*ssa.Builtin); ok {
		name = b.Name()
		args = cc.Args
	} else {
		name = valStr(cc.Value, d+1)
		args = cc.Args
	}
	s := name + "("
	for i, a := range args {
		if i > 0 {
			s += ","
		}
		s += valStr(a, d+2)
	}
	return s + ")"
}

// CallStr renders a call.
func CallStr(cc *ssa.CallCommon) string { return callStr(cc, 0) }

// InstrStr renders an instruction for reports.
func InstrStr(in ssa.Instruction) string {
	switch x := in.(type) {
	case *ssa.Call:
		return callStr(&x.Call, 0)
	case *ssa.Defer:
		return "defer " + callStr(&x.Call, 0)
	case *ssa.Go:
		return "go " + callStr(&x.Call, 0)
	case *ssa.Store:
		return valStr(x.Addr, 0) + " = " + valStr(x.Val, 0)
	case *ssa.MapUpdate:
		return valStr(x.Map, 0) + "[" + valStr(x.Key, 0) + "] = " + valStr(x.Value, 0)
	case *ssa.Return:
		s := "return"
		for i, r := range RetVals(x) {
			if i > 0 {
				s += ","
			}
			s += " " + valStr(r, 0)
		}
		return s
	case *ssa.If:
		return "if " + valStr(x.Cond, 0)
	case ssa.Value:
		return valStr(x, 0)
	}
	return in.String()
}

var _ = types.Identical

// TruthImplies returns conditions that hold whenever the boolean v is true:
// v itself; for a short-circuit conjunction (a phi all of whose edges but one
// are the constant false) the conditions under which the block of the one
// computed edge is reached, and what that operand implies in turn.
func TruthImplies(v ssa.Value) []Cond { return truthImplies(v, 0) }

func truthImplies(v ssa.Value, depth int) []Cond {
	o := Origin(v)
	out := []Cond{CondOf(o, true)}
	phi, ok := o.(*ssa.Phi)
	if !ok || depth > 6 {
		return out
	}
	idx := -1
	for i, e := range phi.Edges {
		if k, isC := e.(*ssa.Const); isC && k.Value != nil && k.Value.String() == "false" {
			continue
		}
		if idx >= 0 {
			return out
		}
		idx = i
	}
	if idx < 0 {
		return out
	}
	from := phi.Block().Preds[idx]
	out = append(out, FactsAt(from.Instrs[len(from.Instrs)-1])...)
	out = append(out, truthImplies(phi.Edges[idx], depth+1)...)
	return out
}
