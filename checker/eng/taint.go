package eng

import (
	"go/token"
	"go/types"

	"golang.org/x/tools/go/ssa"
)

// TaintCfg configures a forward taint propagation.
type TaintCfg struct {
	// Sanitizer: the call's result is clean whatever its arguments.
	Sanitizer func(cc *ssa.CallCommon) bool
	// Sink is consulted for every instruction that uses a tainted value as
	// operand; what describes the sink.
	Sink func(in ssa.Instruction, tainted ssa.Value) (what string, isSink bool)
	// Scope limits inter-procedural propagation (parameters / returns) to
	// these functions.
	Scope func(f *ssa.Function) bool
}

// TaintHit is a tainted value reaching a sink.
type TaintHit struct {
	Sink ssa.Instruction
	What string
	Val  ssa.Value
	From ssa.Value // the source it derives from
}

// Taint propagates taint forward from the sources and returns the sink hits.
func (p *Prog) Taint(sources []ssa.Value, cfg TaintCfg) []TaintHit {
	g := p.CallGraph()
	from := map[ssa.Value]ssa.Value{}
	var work []ssa.Value
	add := func(v, src ssa.Value) {
		if v == nil {
			return
		}
		if _, ok := from[v]; ok {
			return
		}
		from[v] = src
		work = append(work, v)
	}
	for _, s := range sources {
		add(s, s)
	}
	var hits []TaintHit
	seenHit := map[ssa.Instruction]bool{}
	onlyScalars := func(t types.Type) bool {
		ok := true
		var chk func(t types.Type)
		chk = func(t types.Type) {
			switch u := t.Underlying().(type) {
			case *types.Tuple:
				for i := 0; i < u.Len(); i++ {
					chk(u.At(i).Type())
				}
			case *types.Basic:
				if u.Info()&types.IsString != 0 {
					ok = false
				}
			case *types.Interface:
				if !IsErrorType(t) {
					ok = false
				}
			default:
				ok = false
			}
		}
		chk(t)
		return ok
	}
	for len(work) > 0 {
		v := work[0]
		work = work[1:]
		src := from[v]
		refs := v.Referrers()
		if refs == nil {
			continue
		}
		for _, r := range *refs {
			if cfg.Sink != nil {
				if what, is := cfg.Sink(r, v); is && !seenHit[r] {
					seenHit[r] = true
					hits = append(hits, TaintHit{Sink: r, What: what, Val: v, From: src})
				}
			}
			switch x := r.(type) {
			case *ssa.Phi, *ssa.ChangeType, *ssa.Convert, *ssa.MakeInterface, *ssa.ChangeInterface, *ssa.Slice, *ssa.TypeAssert, *ssa.Field, *ssa.Index, *ssa.Lookup, *ssa.Range, *ssa.Next, *ssa.SliceToArrayPointer:
				add(x.(ssa.Value), src)
			case *ssa.Extract:
				if !IsErrorType(x.Type()) {
					if b, ok := x.Type().Underlying().(*types.Basic); !ok || b.Info()&types.IsBoolean == 0 {
						add(x, src)
					}
				}
			case *ssa.FieldAddr, *ssa.IndexAddr:
				add(x.(ssa.Value), src)
			case *ssa.UnOp:
				if x.Op == token.MUL || x.Op == token.ARROW {
					add(x, src)
				}
			case *ssa.BinOp:
				if x.Op == token.ADD {
					add(x, src)
				}
			case *ssa.Store:
				if x.Val != v {
					continue
				}
				// the storage the address denotes becomes tainted
				switch a := x.Addr.(type) {
				case *ssa.Alloc:
					add(a, src)
				case *ssa.FreeVar:
					if cell := cellOf(a); cell != nil {
						add(cell, src)
					}
					add(a, src)
				case *ssa.IndexAddr:
					if al, ok := a.X.(*ssa.Alloc); ok {
						add(al, src) // array literal (e.g. varargs)
					}
				case *ssa.FieldAddr:
					// field-sensitive: only this field of this object
					if al, ok := a.X.(*ssa.Alloc); ok {
						if arefs := al.Referrers(); arefs != nil {
							for _, ar := range *arefs {
								switch y := ar.(type) {
								case *ssa.FieldAddr:
									if y.Field == a.Field {
										add(y, src)
									}
								case *ssa.UnOp:
									if y.Op == token.MUL {
										add(y, src) // whole-struct copy carries the field
									}
								}
							}
						}
					}
				}
			case *ssa.MapUpdate:
				if x.Value == v || x.Key == v {
					if mm, ok := Origin(x.Map).(*ssa.MakeMap); ok {
						add(mm, src)
					}
				}
			case *ssa.MakeClosure:
				fn, _ := x.Fn.(*ssa.Function)
				if fn == nil {
					continue
				}
				for i, b := range x.Bindings {
					if b == v && i < len(fn.FreeVars) {
						add(fn.FreeVars[i], src)
					}
				}
			case *ssa.Return:
				f := x.Parent()
				if cfg.Scope != nil && !cfg.Scope(f) {
					continue
				}
				idx := -1
				for i, res := range x.Results {
					if res == v {
						idx = i
					}
				}
				for _, e := range g.In[f] {
					call, ok := e.Site.(*ssa.Call)
					if !ok {
						continue
					}
					if len(x.Results) == 1 {
						add(call, src)
						continue
					}
					if crefs := call.Referrers(); crefs != nil {
						for _, cr := range *crefs {
							if ex, ok := cr.(*ssa.Extract); ok && ex.Index == idx {
								add(ex, src)
							}
						}
					}
				}
				// immediately invoked / directly called literals
				if f.Parent() != nil {
					Instrs(f.Parent(), func(in ssa.Instruction) {
						if call, ok := in.(*ssa.Call); ok && Callee(&call.Call) == f {
							if len(x.Results) == 1 {
								add(call, src)
							}
						}
					})
				}
			case ssa.CallInstruction:
				cc := x.Common()
				if cfg.Sanitizer != nil && cfg.Sanitizer(cc) {
					continue
				}
				if b, ok := cc.Value.(*ssa.Builtin); ok {
					switch b.Name() {
					case "append":
						if val, ok := x.(ssa.Value); ok {
							add(val, src)
						}
					case "copy":
						if len(cc.Args) == 2 && cc.Args[1] == v {
							add(cc.Args[0], src)
						}
					}
					continue
				}
				// json.Unmarshal(data, &x): x becomes tainted
				if CalleeIs(cc, "encoding/json", "Unmarshal") && len(cc.Args) == 2 && cc.Args[0] == v {
					t := cc.Args[1]
					if mi, ok := t.(*ssa.MakeInterface); ok {
						t = mi.X
					}
					for {
						if fa, ok := t.(*ssa.FieldAddr); ok {
							t = fa.X
							continue
						}
						break
					}
					add(t, src)
					continue
				}
				cal := Callee(cc)
				if cal != nil {
					cal = Unwrap(cal)
				}
				if cal != nil && cal.Blocks != nil && (cfg.Scope == nil || cfg.Scope(cal)) {
					args := cc.Args
					for i, a := range args {
						if a == v && i < len(cal.Params) {
							add(cal.Params[i], src)
						}
					}
					continue
				}
				// unknown callee: arguments taint the result unless it is scalar/error only
				if val, ok := x.(ssa.Value); ok && !onlyScalars(val.Type()) {
					add(val, src)
				}
			}
		}
	}
	return hits
}
