package eng

import (
	"go/types"
	"sort"
	"strings"

	"golang.org/x/tools/go/ssa"
)

// Func resolves a function or method of a module package.
// name is "Func", "T.Method" or "(*T).Method"; the receiver form given must
// match the declared receiver.  Returns nil when it does not resolve.
func (p *Prog) Func(pkg, name string) *ssa.Function {
	sp := p.Pkg(pkg)
	if sp == nil {
		return nil
	}
	if !strings.Contains(name, ".") {
		return sp.Func(name)
	}
	ptr := false
	s := name
	if strings.HasPrefix(s, "(*") {
		ptr = true
		s = strings.TrimPrefix(s, "(*")
		s = strings.Replace(s, ")", "", 1)
	}
	i := strings.Index(s, ".")
	tn, mn := s[:i], s[i+1:]
	obj := sp.Pkg.Scope().Lookup(tn)
	if obj == nil {
		return nil
	}
	named, ok := obj.Type().(*types.Named)
	if !ok {
		return nil
	}
	var recv types.Type = named
	if ptr {
		recv = types.NewPointer(named)
	}
	sel := p.SSA.MethodSets.MethodSet(recv).Lookup(sp.Pkg, mn)
	if sel == nil {
		return nil
	}
	fn := p.SSA.MethodValue(sel)
	if fn == nil || fn.Synthetic != "" {
		// wrapper: find the declared method instead
		if m, ok := sel.Obj().(*types.Func); ok {
			return p.SSA.FuncValue(m)
		}
	}
	return fn
}

// Method finds a declared method by type and method name whatever the
// receiver form.
func (p *Prog) Method(pkg, typ, method string) *ssa.Function {
	if f := p.Func(pkg, "(*"+typ+")."+method); f != nil && f.Synthetic == "" {
		return f
	}
	return p.Func(pkg, typ+"."+method)
}

// Named returns the named type pkg.name.
func (p *Prog) Named(pkg, name string) *types.Named {
	tp := p.TypesPkg(pkg)
	if tp == nil {
		return nil
	}
	obj := tp.Scope().Lookup(name)
	if obj == nil {
		return nil
	}
	n, _ := obj.Type().(*types.Named)
	return n
}

// ExtNamed returns a named type from any loaded package by import path.
func (p *Prog) ExtNamed(path, name string) *types.Named {
	pk := p.All[path]
	if pk == nil {
		return nil
	}
	obj := pk.Types.Scope().Lookup(name)
	if obj == nil {
		return nil
	}
	n, _ := obj.Type().(*types.Named)
	return n
}

// AllFuncs returns every function of the module packages including methods
// and (recursively) anonymous functions, generic bodies and their
// instantiations reachable from the module, sorted by position.
func (p *Prog) AllFuncs() []*ssa.Function {
	seen := map[*ssa.Function]bool{}
	var out []*ssa.Function
	var add func(f *ssa.Function)
	add = func(f *ssa.Function) {
		if f == nil || seen[f] {
			return
		}
		seen[f] = true
		if f.Blocks != nil {
			out = append(out, f)
		}
		for _, a := range f.AnonFuncs {
			add(a)
		}
	}
	for _, sp := range p.Mod {
		for _, m := range sp.Members {
			switch m := m.(type) {
			case *ssa.Function:
				add(m)
			case *ssa.Type:
				for _, t := range []types.Type{m.Type(), types.NewPointer(m.Type())} {
					ms := p.SSA.MethodSets.MethodSet(t)
					for i := 0; i < ms.Len(); i++ {
						if fo, ok := ms.At(i).Obj().(*types.Func); ok && fo.Pkg() == sp.Pkg {
							add(p.SSA.FuncValue(fo))
						}
					}
				}
			}
		}
	}
	// instantiations of module generics (anywhere in the program)
	for f := range allFunctions(p.SSA) {
		if o := f.Origin(); o != nil && seen[o] {
			add(f)
		}
	}
	sort.Slice(out, func(i, j int) bool {
		if out[i].Pos() != out[j].Pos() {
			return out[i].Pos() < out[j].Pos()
		}
		return out[i].String() < out[j].String()
	})
	return out
}

func allFunctions(prog *ssa.Program) map[*ssa.Function]bool {
	// ssautil.AllFunctions without importing it twice
	return ssautilAllFunctions(prog)
}

// PkgFuncs returns AllFuncs restricted to one module package.
func (p *Prog) PkgFuncs(pkg string) []*ssa.Function {
	sp := p.Pkg(pkg)
	var out []*ssa.Function
	for _, f := range p.AllFuncs() {
		if FuncPkg(f) == sp.Pkg {
			out = append(out, f)
		}
	}
	return out
}

// FuncPkg returns the types.Package a function (or its outermost parent)
// belongs to.
func FuncPkg(f *ssa.Function) *types.Package {
	for f.Parent() != nil {
		f = f.Parent()
	}
	if o := f.Origin(); o != nil {
		f = o
	}
	if f.Pkg != nil {
		return f.Pkg.Pkg
	}
	if f.Object() != nil {
		return f.Object().Pkg()
	}
	return nil
}

// Outer returns the outermost enclosing declared function.
func Outer(f *ssa.Function) *ssa.Function {
	for f.Parent() != nil {
		f = f.Parent()
	}
	return f
}

// FName is a stable short name for reports: "db.(*DB).Put", "setec.(*Store).Refresh$1".
func FName(f *ssa.Function) string {
	if f == nil {
		return "<nil>"
	}
	s := f.String()
	s = strings.ReplaceAll(s, ModulePath+"/client/", "")
	s = strings.ReplaceAll(s, ModulePath+"/types/", "")
	s = strings.ReplaceAll(s, ModulePath+"/cmd/", "cmd/")
	s = strings.ReplaceAll(s, ModulePath+"/", "")
	return s
}

// IsNamed reports whether t (after stripping pointers) is the named type
// pkgpath.name.
func IsNamed(t types.Type, pkgpath, name string) bool {
	for {
		if p, ok := t.(*types.Pointer); ok {
			t = p.Elem()
			continue
		}
		break
	}
	t = types.Unalias(t)
	n, ok := t.(*types.Named)
	if !ok {
		return false
	}
	o := n.Obj()
	if o.Name() != name {
		return false
	}
	if o.Pkg() == nil {
		return pkgpath == ""
	}
	pp := o.Pkg().Path()
	return pp == pkgpath || pp == ModulePath+"/"+pkgpath
}

// Deref strips one pointer level.
func Deref(t types.Type) types.Type {
	if p, ok := t.Underlying().(*types.Pointer); ok {
		return p.Elem()
	}
	return t
}

// FieldName returns the name of field idx of struct (or pointer to struct) t.
func FieldName(t types.Type, idx int) string {
	t = Deref(t)
	if st, ok := t.Underlying().(*types.Struct); ok && idx < st.NumFields() {
		return st.Field(idx).Name()
	}
	return "?"
}

// TypeShort renders a type with module-relative package names.
func TypeShort(t types.Type) string {
	return types.TypeString(t, func(p *types.Package) string {
		return p.Name()
	})
}
