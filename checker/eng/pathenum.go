package eng

import (
	"go/token"
	"go/types"

	"golang.org/x/tools/go/ssa"
)

// Path is one entry-to-exit path through a function's CFG.
type Path struct {
	Blocks []*ssa.BasicBlock
}

// EnumPaths enumerates entry→(Return|Panic) paths.  Each block may occur at
// most maxVisits times on a path (loops are unrolled that many times).  ok is
// false if more than maxPaths paths exist.
func EnumPaths(fn *ssa.Function, maxVisits, maxPaths int) (paths []Path, ok bool) {
	if len(fn.Blocks) == 0 {
		return nil, true
	}
	ok = true
	visits := map[*ssa.BasicBlock]int{}
	var cur []*ssa.BasicBlock
	var rec func(b *ssa.BasicBlock)
	rec = func(b *ssa.BasicBlock) {
		if !ok {
			return
		}
		if visits[b] >= maxVisits {
			return
		}
		visits[b]++
		cur = append(cur, b)
		if len(b.Succs) == 0 {
			last := b.Instrs[len(b.Instrs)-1]
			if IsExit(last) {
				paths = append(paths, Path{Blocks: append([]*ssa.BasicBlock{}, cur...)})
				if len(paths) > maxPaths {
					ok = false
				}
			}
		}
		for _, s := range b.Succs {
			rec(s)
		}
		cur = cur[:len(cur)-1]
		visits[b]--
	}
	rec(fn.Blocks[0])
	return paths, ok
}

// Last returns the final instruction of the path.
func (p Path) Last() ssa.Instruction {
	b := p.Blocks[len(p.Blocks)-1]
	return b.Instrs[len(b.Instrs)-1]
}

// Conds returns the branch conditions taken along the path.
func (p Path) Conds() []Cond {
	var out []Cond
	for i := 0; i+1 < len(p.Blocks); i++ {
		b := p.Blocks[i]
		ifi, ok := b.Instrs[len(b.Instrs)-1].(*ssa.If)
		if !ok {
			continue
		}
		nx := p.Blocks[i+1]
		if b.Succs[0] == b.Succs[1] {
			continue
		}
		c := CondOf(ifi.Cond, b.Succs[0] == nx)
		c.If = ifi
		out = append(out, c)
	}
	return out
}

// Contains reports whether the path executes instruction in.
func (p Path) Contains(in ssa.Instruction) bool {
	for _, b := range p.Blocks {
		if b == in.Block() {
			return true
		}
	}
	return false
}

// phiValue resolves a phi along the path, using the LAST occurrence of the
// phi's block at or before position upto (index into Blocks; -1 = end).
func (p Path) phiValue(phi *ssa.Phi, upto int) ssa.Value {
	if upto < 0 || upto >= len(p.Blocks) {
		upto = len(p.Blocks) - 1
	}
	for i := upto; i >= 1; i-- {
		if p.Blocks[i] == phi.Block() {
			prev := p.Blocks[i-1]
			for j, pr := range phi.Block().Preds {
				if pr == prev {
					return phi.Edges[j]
				}
			}
		}
	}
	return nil
}

// Tri is a three-valued answer.
type Tri int

const (
	Unknown Tri = iota
	Yes
	No
)

func (t Tri) String() string { return [...]string{"unknown", "yes", "no"}[t] }

// Resolve follows phis (along the path), Origin wrappers, and loads of local
// cells (last store on the path before the load) to the defining value.
func (p Path) Resolve(v ssa.Value) ssa.Value {
	for i := 0; i < 64; i++ {
		v = Origin(v)
		switch x := v.(type) {
		case *ssa.Phi:
			e := p.phiValue(x, -1)
			if e == nil {
				return v
			}
			v = e
			continue
		case *ssa.UnOp:
			if x.Op == token.MUL {
				if cell, ok := x.X.(*ssa.Alloc); ok {
					if st := p.lastStoreBefore(cell, x); st != nil {
						v = st.Val
						continue
					}
				}
			}
		}
		return v
	}
	return v
}

// lastStoreBefore finds the last store to cell executed on the path before
// the load instruction.
func (p Path) lastStoreBefore(cell *ssa.Alloc, load ssa.Instruction) *ssa.Store {
	var last *ssa.Store
	for _, b := range p.Blocks {
		for _, in := range b.Instrs {
			if in == load {
				return last
			}
			if st, ok := in.(*ssa.Store); ok && st.Addr == cell {
				last = st
			}
		}
	}
	return last
}

// IsNil evaluates whether v is nil on this path.
func (p Path) IsNil(v ssa.Value) Tri { return p.isNil(v, 0) }

func (p Path) isNil(v ssa.Value, depth int) Tri {
	if depth > 12 {
		return Unknown
	}
	v = p.Resolve(v)
	// path conditions first
	for _, c := range p.Conds() {
		if x, isNil, ok := c.NilCheck(); ok {
			if p.Resolve(x) == v || Same(x, v) {
				if isNil {
					return Yes
				}
				return No
			}
		}
	}
	switch x := v.(type) {
	case *ssa.Const:
		if x.Value == nil {
			return Yes
		}
		return No
	case *ssa.MakeInterface:
		// interface holding a non-pointer value or an allocated pointer
		return No
	case *ssa.Alloc, *ssa.MakeClosure, *ssa.MakeMap, *ssa.MakeChan, *ssa.MakeSlice, *ssa.Function:
		return No
	case *ssa.UnOp:
		if x.Op == token.MUL {
			if g, ok := x.X.(*ssa.Global); ok && IsErrorType(g.Type().(*types.Pointer).Elem()) {
				return No // package-level sentinel errors are non-nil (assumption)
			}
		}
	case *ssa.Call:
		cc := &x.Call
		switch {
		case CalleeIs(cc, "fmt", "Errorf"), CalleeIs(cc, "errors", "New"):
			return No
		case CalleeIs(cc, "tailscale.com/util/multierr", "New"), CalleeIs(cc, "errors", "Join"):
			if len(cc.Args) != 1 {
				return Unknown
			}
			elems, known := p.SliceElems(cc.Args[0])
			if !known {
				// maybe still provably non-empty
				for _, e := range elems {
					if p.isNil(e, depth+1) == No {
						return No
					}
				}
				return Unknown
			}
			allNil := true
			for _, e := range elems {
				switch p.isNil(e, depth+1) {
				case No:
					return No
				case Unknown:
					allNil = false
				}
			}
			if allNil {
				return Yes
			}
			return Unknown
		}
	case *ssa.Extract:
		// handled by path conditions only
	}
	return Unknown
}

// SliceElems returns the elements of a slice value built on this path from
// nil/empty, array literals and append calls.  known=false when some part is
// opaque (the returned elements are then a subset).
func (p Path) SliceElems(v ssa.Value) (elems []ssa.Value, known bool) {
	return p.sliceElems(v, 0)
}

func (p Path) sliceElems(v ssa.Value, depth int) ([]ssa.Value, bool) {
	if depth > 32 {
		return nil, false
	}
	v = p.Resolve(v)
	switch x := v.(type) {
	case *ssa.Const:
		if x.Value == nil {
			return nil, true
		}
	case *ssa.Slice:
		// slice of an array literal: new [n]T with stores to constant indexes
		if al, ok := x.X.(*ssa.Alloc); ok && x.Low == nil && x.High == nil {
			var out []ssa.Value
			refs := al.Referrers()
			if refs == nil {
				return nil, false
			}
			for _, r := range *refs {
				if ia, ok := r.(*ssa.IndexAddr); ok {
					for _, rr := range *ia.Referrers() {
						if st, ok := rr.(*ssa.Store); ok && st.Addr == ia {
							out = append(out, st.Val)
						}
					}
				}
			}
			return out, true
		}
	case *ssa.Call:
		if b, ok := x.Call.Value.(*ssa.Builtin); ok && b.Name() == "append" && len(x.Call.Args) == 2 {
			base, k1 := p.sliceElems(x.Call.Args[0], depth+1)
			add, k2 := p.sliceElems(x.Call.Args[1], depth+1)
			return append(append([]ssa.Value{}, base...), add...), k1 && k2
		}
	}
	return nil, false
}

// RetVals returns the values returned by ret, looking through the result
// cells go/ssa introduces in functions with defer (store; rundefers; load;
// return).
func RetVals(ret *ssa.Return) []ssa.Value {
	out := make([]ssa.Value, len(ret.Results))
	b := ret.Block()
	for i, r := range ret.Results {
		out[i] = r
		u, ok := r.(*ssa.UnOp)
		if !ok || u.Op != token.MUL {
			continue
		}
		cell, ok := u.X.(*ssa.Alloc)
		if !ok {
			continue
		}
		var last ssa.Value
		for _, in := range b.Instrs {
			if in == ssa.Instruction(u) {
				break
			}
			if st, ok := in.(*ssa.Store); ok && st.Addr == cell {
				last = st.Val
			}
		}
		if last != nil {
			out[i] = last
		}
	}
	return out
}

// Returns lists the Return instructions of fn, skipping the synthetic
// recover block.
func Returns(fn *ssa.Function) []*ssa.Return {
	var out []*ssa.Return
	for _, b := range fn.Blocks {
		if b == fn.Recover {
			continue
		}
		if r, ok := b.Instrs[len(b.Instrs)-1].(*ssa.Return); ok {
			out = append(out, r)
		}
	}
	return out
}

// PathsTo enumerates the acyclic paths from the entry block to block b (the
// last block of each path is b).  ok is false if there are more than
// maxPaths.
func PathsTo(fn *ssa.Function, b *ssa.BasicBlock, maxPaths int) (paths []Path, ok bool) {
	if len(fn.Blocks) == 0 {
		return nil, true
	}
	// only blocks from which b is reachable are worth entering
	reach := map[*ssa.BasicBlock]bool{b: true}
	for changed := true; changed; {
		changed = false
		for _, x := range fn.Blocks {
			if reach[x] {
				continue
			}
			for _, s := range x.Succs {
				if reach[s] {
					reach[x] = true
					changed = true
					break
				}
			}
		}
	}
	ok = true
	on := map[*ssa.BasicBlock]bool{}
	var cur []*ssa.BasicBlock
	var rec func(x *ssa.BasicBlock)
	rec = func(x *ssa.BasicBlock) {
		if !ok || on[x] || !reach[x] {
			return
		}
		on[x] = true
		cur = append(cur, x)
		if x == b {
			paths = append(paths, Path{Blocks: append([]*ssa.BasicBlock{}, cur...)})
			if len(paths) > maxPaths {
				ok = false
			}
		} else {
			for _, s := range x.Succs {
				rec(s)
			}
		}
		cur = cur[:len(cur)-1]
		on[x] = false
	}
	rec(fn.Blocks[0])
	return paths, ok
}

// MustLiterals is the path-sensitive counterpart of FactsAt.  lit classifies
// a branch condition as a literal (key, truth) or ignores it.  Every acyclic
// path from the entry to `in` is reduced to its literals; a path carrying a
// literal both ways is infeasible and dropped (`a && b` followed by a second
// test of `a` produces such paths); the result holds the literals common to
// all feasible paths.  ok is false if paths could not be enumerated or none
// is feasible.
func MustLiterals(fn *ssa.Function, in ssa.Instruction, lit func(Cond) (key string, truth bool, ok bool)) (map[string]bool, bool) {
	paths, ok := PathsTo(fn, in.Block(), 256)
	if !ok {
		return nil, false
	}
	var res map[string]bool
	n := 0
	for _, pa := range paths {
		lits := map[string]bool{}
		feasible := true
		for _, cd := range pa.Conds() {
			k, t, isLit := lit(cd)
			if !isLit {
				continue
			}
			if old, has := lits[k]; has && old != t {
				feasible = false
				break
			}
			lits[k] = t
		}
		if !feasible {
			continue
		}
		n++
		if res == nil {
			res = lits
			continue
		}
		for k, t := range res {
			if t2, has := lits[k]; !has || t2 != t {
				delete(res, k)
			}
		}
	}
	return res, n > 0
}

// Feasible is a cheap infeasibility filter: the path is rejected if two of
// its branch conditions, with phis resolved along the path, say opposite
// things about the nil-ness of one value or the truth of one boolean.
func (p Path) Feasible() bool {
	type k struct {
		v   ssa.Value
		nil bool // key is about nil-ness (else: truth)
	}
	known := map[k]bool{}
	for i := 0; i+1 < len(p.Blocks); i++ {
		b := p.Blocks[i]
		ifi, ok := b.Instrs[len(b.Instrs)-1].(*ssa.If)
		if !ok || b.Succs[0] == b.Succs[1] {
			continue
		}
		taken := p.Blocks[i+1] == b.Succs[0]
		sub := Path{Blocks: p.Blocks[:i+1]}
		cd := CondOf(ifi.Cond, taken)
		var key k
		var val bool
		if x, isNil, isN := cd.NilCheck(); isN {
			key, val = k{sub.Resolve(x), true}, isNil
		} else if x, truth, isB := cd.Bool(); isB {
			key, val = k{sub.Resolve(x), false}, truth
		} else {
			continue
		}
		if old, has := known[key]; has && old != val {
			return false
		}
		known[key] = val
	}
	return true
}

// PathsToInstr enumerates the paths from the entry to instruction in on which
// each block occurs at most maxVisits times (the last block is in's).
func PathsToInstr(fn *ssa.Function, in ssa.Instruction, maxVisits, maxPaths int) (paths []Path, ok bool) {
	all, ok := EnumPathsUntil(fn, in.Block(), maxVisits, maxPaths)
	return all, ok
}

// EnumPathsUntil enumerates entry→b paths (ending at the first arrival at b
// for each prefix; b itself is not continued through), each block at most
// maxVisits times.
func EnumPathsUntil(fn *ssa.Function, target *ssa.BasicBlock, maxVisits, maxPaths int) (paths []Path, ok bool) {
	if len(fn.Blocks) == 0 {
		return nil, true
	}
	ok = true
	visits := map[*ssa.BasicBlock]int{}
	var cur []*ssa.BasicBlock
	var rec func(b *ssa.BasicBlock)
	rec = func(b *ssa.BasicBlock) {
		if !ok || visits[b] >= maxVisits {
			return
		}
		visits[b]++
		cur = append(cur, b)
		if b == target {
			paths = append(paths, Path{Blocks: append([]*ssa.BasicBlock{}, cur...)})
			if len(paths) > maxPaths {
				ok = false
			}
		} else {
			for _, s := range b.Succs {
				rec(s)
			}
		}
		cur = cur[:len(cur)-1]
		visits[b]--
	}
	rec(fn.Blocks[0])
	return paths, ok
}

// evalInt evaluates v to an integer constant at position upto of the path
// (constants, phis resolved by the path, + and - of such).
func (p Path) evalInt(v ssa.Value, upto, depth int) (int64, bool) {
	if depth > 8 {
		return 0, false
	}
	switch x := v.(type) {
	case *ssa.Const:
		return ConstInt(x)
	case *ssa.Phi:
		// the phi must have been (re)computed at its last occurrence at or before upto
		for i := upto; i >= 1; i-- {
			if p.Blocks[i] == x.Block() {
				prev := p.Blocks[i-1]
				for j, pr := range x.Block().Preds {
					if pr == prev {
						return p.evalInt(x.Edges[j], i-1, depth+1)
					}
				}
				return 0, false
			}
		}
		return 0, false
	case *ssa.BinOp:
		if x.Op != token.ADD && x.Op != token.SUB {
			return 0, false
		}
		// the operation is evaluated in its own block: position of that block
		pos := -1
		for i := upto; i >= 0; i-- {
			if p.Blocks[i] == x.Block() {
				pos = i
				break
			}
		}
		if pos < 0 {
			return 0, false
		}
		a, ok1 := p.evalInt(x.X, pos, depth+1)
		b, ok2 := p.evalInt(x.Y, pos, depth+1)
		if !ok1 || !ok2 {
			return 0, false
		}
		if x.Op == token.ADD {
			return a + b, true
		}
		return a - b, true
	case *ssa.Call:
		// len of an array value
		if bi, ok := x.Call.Value.(*ssa.Builtin); ok && bi.Name() == "len" && len(x.Call.Args) == 1 {
			t := x.Call.Args[0].Type()
			if pt, isP := t.Underlying().(*types.Pointer); isP {
				t = pt.Elem()
			}
			if at, isA := t.Underlying().(*types.Array); isA {
				return at.Len(), true
			}
		}
	}
	return 0, false
}

// ConstFeasible rejects a path that takes a branch contradicting an integer
// comparison both sides of which are constants on that path (the exit edge
// of `for i := range [2]T{...}` before its first iteration, for instance).
func (p Path) ConstFeasible() bool {
	for i := 0; i+1 < len(p.Blocks); i++ {
		b := p.Blocks[i]
		ifi, ok := b.Instrs[len(b.Instrs)-1].(*ssa.If)
		if !ok || b.Succs[0] == b.Succs[1] {
			continue
		}
		cmp, ok := ifi.Cond.(*ssa.BinOp)
		if !ok {
			continue
		}
		x, ok1 := p.evalInt(cmp.X, i, 0)
		y, ok2 := p.evalInt(cmp.Y, i, 0)
		if !ok1 || !ok2 {
			continue
		}
		var truth bool
		switch cmp.Op {
		case token.LSS:
			truth = x < y
		case token.LEQ:
			truth = x <= y
		case token.GTR:
			truth = x > y
		case token.GEQ:
			truth = x >= y
		case token.EQL:
			truth = x == y
		case token.NEQ:
			truth = x != y
		default:
			continue
		}
		if (p.Blocks[i+1] == b.Succs[0]) != truth {
			return false
		}
	}
	return true
}

// ResolveAt is Resolve for a value used at position upto of the path.
func (p Path) ResolveAt(v ssa.Value, upto int) ssa.Value {
	if upto < 0 || upto >= len(p.Blocks) {
		return p.Resolve(v)
	}
	return Path{Blocks: p.Blocks[:upto+1]}.Resolve(v)
}
