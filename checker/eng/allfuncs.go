package eng

import (
	"golang.org/x/tools/go/ssa"
	"golang.org/x/tools/go/ssa/ssautil"
)

var allFnCache = map[*ssa.Program]map[*ssa.Function]bool{}

func ssautilAllFunctions(prog *ssa.Program) map[*ssa.Function]bool {
	if m, ok := allFnCache[prog]; ok {
		return m
	}
	m := ssautil.AllFunctions(prog)
	allFnCache[prog] = m
	return m
}
