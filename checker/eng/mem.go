package eng

import (
	"go/token"
	"go/types"

	"golang.org/x/tools/go/ssa"
)

// fieldKey identifies a field by owner type string and name.
func fieldKeyOf(fr FieldRef) string { return TypeShort(Deref(fr.Owner)) + "." + fr.Name }

var modCache = map[*ssa.Function]map[string]bool{}

// funcStoresFields returns the set of fields (owner.name) that f or anything
// reachable from it in the module call graph stores to.
func (p *Prog) funcStoresFields(f *ssa.Function) map[string]bool {
	if m, ok := modCache[f]; ok {
		return m
	}
	m := map[string]bool{}
	modCache[f] = m
	g := p.CallGraph()
	for r := range g.Reach(f, nil) {
		Instrs(r, func(in ssa.Instruction) {
			if st, ok := in.(*ssa.Store); ok {
				if fr, ok := FieldOfAddr(st.Addr); ok {
					m[fieldKeyOf(fr)] = true
				}
			}
		})
	}
	return m
}

// MayModifyField reports whether instruction in may change field fr of some
// object: a store to that field, or a call whose module callee (transitively)
// stores to it.  Calls to functions outside the module and calls through
// function values are assumed not to reach module-private state.
func (p *Prog) MayModifyField(in ssa.Instruction, fr FieldRef) bool {
	key := fieldKeyOf(fr)
	switch x := in.(type) {
	case *ssa.Store:
		if f2, ok := FieldOfAddr(x.Addr); ok && fieldKeyOf(f2) == key {
			return true
		}
	case ssa.CallInstruction:
		if cal := Callee(x.Common()); cal != nil {
			cal = Unwrap(cal)
			if p.isModuleFunc(cal) && p.funcStoresFields(cal)[key] {
				return true
			}
		}
	}
	return false
}

// MemSame reports whether values a and b are equal at their use, allowing
// for loads of the same struct field: b (or a) may be a load of field F of
// the same object where the other is the value last stored to F, or another
// load of F, provided no instruction that may modify F lies on any path
// between the two program points.
func (p *Prog) MemSame(a, b ssa.Value) bool {
	if Same(a, b) {
		return true
	}
	return p.memSame1(a, b) || p.memSame1(b, a)
}

func loadOfField(v ssa.Value) (*ssa.UnOp, *ssa.FieldAddr, bool) {
	u, ok := Origin(v).(*ssa.UnOp)
	if !ok || u.Op != token.MUL {
		return nil, nil, false
	}
	fa, ok := u.X.(*ssa.FieldAddr)
	return u, fa, ok
}

func samePath(x, y *ssa.FieldAddr) bool {
	px, ok1 := FieldAddrPath(x)
	py, ok2 := FieldAddrPath(y)
	if !ok1 || !ok2 {
		return false
	}
	if len(px.fields) != len(py.fields) {
		return false
	}
	for i := range px.fields {
		if px.fields[i] != py.fields[i] {
			return false
		}
	}
	if px.base == py.base {
		return true
	}
	// bases equal if themselves Same (e.g. both the same lookup result)
	return Same(px.base, py.base)
}

// memSame1: b is a load of field F; a is either the value stored to F before
// that load, or an earlier/later load of F, with nothing modifying F between.
func (p *Prog) memSame1(a, b ssa.Value) bool {
	lb, fb, ok := loadOfField(b)
	if !ok {
		return false
	}
	fr, _ := FieldOfAddr(fb)
	fn := lb.Parent()
	clean := func(from, to ssa.Instruction) bool {
		// no modifying instruction on any path from `from` to `to`
		blocked := false
		hit, _ := Search(fn, from, nil, func(in ssa.Instruction) bool {
			return in == to
		}, func(in ssa.Instruction) bool {
			if in == to {
				return false
			}
			if p.MayModifyField(in, fr) {
				// only if `to` is still reachable from here
				if h, _ := Search(fn, in, nil, nil, func(x ssa.Instruction) bool { return x == to }); h != nil {
					blocked = true
					return true
				}
			}
			return false
		})
		_ = hit
		return !blocked
	}
	// case 1: a is a load of the same path
	if la, fa, ok := loadOfField(a); ok && la.Parent() == fn && samePath(fa, fb) {
		if InstrDominates(la, lb) {
			return clean(la, lb)
		}
		if InstrDominates(lb, la) {
			return clean(lb, la)
		}
		return false
	}
	// case 3: b is loaded inside a literal that a helper of the module runs
	// as a callback (an undo function); a is a load of the same path in the
	// function creating the literal, before the literal is handed over:
	// equal if nothing modifies F between a and the hand-over, in the helper,
	// or in the literal before b
	if la, fa, ok := loadOfField(a); ok && la.Parent() != fn {
		if mk := MakeClosureOf(fn); mk != nil && mk.Parent() == la.Parent() && samePath(fa, fb) {
			if cu := CallbackOf(mk); cu != nil && InstrDominates(la, cu.Site) {
				outer := la.Parent()
				cleanIn := func(g *ssa.Function, from, to ssa.Instruction) bool {
					hit, _ := Search(g, from, nil, func(in ssa.Instruction) bool { return in == to }, func(in ssa.Instruction) bool {
						return in != to && p.MayModifyField(in, fr)
					})
					return hit == nil
				}
				okHelper := true
				Instrs(cu.Callee, func(in ssa.Instruction) {
					if p.MayModifyField(in, fr) {
						okHelper = false
					}
				})
				if okHelper && cleanIn(outer, la, cu.Site) && cleanIn(fn, nil, lb) {
					return true
				}
			}
		}
	}
	// case 3b: b is loaded inside a literal remembered in a local function
	// variable and called later in the creating function (selectedAndCalled);
	// a is a load of the same path before the literal is made: equal if
	// nothing modifies F between a and each call, nor in the literal before b
	if la, fa, ok := loadOfField(a); ok && la.Parent() != fn {
		if mk := MakeClosureOf(fn); mk != nil && mk.Parent() == la.Parent() && samePath(fa, fb) && InstrDominates(la, mk) {
			if ph := selectedAndCalled(mk); ph != nil {
				outer := la.Parent()
				cleanIn := func(g *ssa.Function, from, to ssa.Instruction) bool {
					hit, _ := Search(g, from, nil, func(in ssa.Instruction) bool { return in == to }, func(in ssa.Instruction) bool {
						return in != to && p.MayModifyField(in, fr)
					})
					return hit == nil
				}
				okAll := cleanIn(fn, nil, lb)
				for _, r := range *ph.Referrers() {
					if call, isCall := r.(*ssa.Call); isCall && !cleanIn(outer, la, call) {
						okAll = false
					}
				}
				if okAll {
					return true
				}
			}
		}
	}
	// case 2: a was stored to the same path before the load
	refs := a.Referrers()
	if refs == nil {
		// constants have no referrers: look for stores of an equal constant
		return false
	}
	for _, r := range *refs {
		st, ok := r.(*ssa.Store)
		if !ok || st.Val != a || st.Parent() != fn {
			continue
		}
		fa, ok := st.Addr.(*ssa.FieldAddr)
		if !ok || !samePath(fa, fb) {
			continue
		}
		if InstrDominates(st, lb) && clean(st, lb) {
			return true
		}
	}
	return false
}

// InstrDominates reports whether instruction a is executed before b on every
// path to b (same function).
func InstrDominates(a, b ssa.Instruction) bool {
	if a.Parent() != b.Parent() {
		return false
	}
	if a.Block() == b.Block() {
		for _, in := range a.Block().Instrs {
			if in == a {
				return true
			}
			if in == b {
				return false
			}
		}
		return false
	}
	return a.Block().Dominates(b.Block())
}

var _ = types.Identical
