package eng

import (
	"fmt"
	"strings"

	"golang.org/x/tools/go/ssa"
)

// Dump prints the SSA of pkg:func (and its closures) with the facts holding
// at each block, for debugging rules.
func Dump(p *Prog, spec string) {
	i := strings.Index(spec, ":")
	if i < 0 {
		fmt.Println("use pkg:func")
		return
	}
	f := p.Func(spec[:i], spec[i+1:])
	if f == nil {
		fmt.Println("not found")
		return
	}
	var d func(f *ssa.Function)
	d = func(f *ssa.Function) {
		fmt.Printf("=== %s\n", FName(f))
		for _, b := range f.Blocks {
			fmt.Printf(" block %d %s  preds=%v succs=%v\n", b.Index, b.Comment, idxs(b.Preds), idxs(b.Succs))
			for _, fa := range BlockFacts(b) {
				fmt.Printf("    FACT %s\n", fa.Cond())
			}
			for _, in := range b.Instrs {
				if v, ok := in.(ssa.Value); ok {
					fmt.Printf("    %s = %s\n", v.Name(), in)
				} else {
					fmt.Printf("    %s\n", in)
				}
			}
		}
		for _, a := range f.AnonFuncs {
			d(a)
		}
	}
	d(f)
}

func idxs(bs []*ssa.BasicBlock) []int {
	var o []int
	for _, b := range bs {
		o = append(o, b.Index)
	}
	return o
}
