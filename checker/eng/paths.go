package eng

import (
	"golang.org/x/tools/go/ssa"
)

// EdgeFilter decides whether the CFG edge b -> b.Succs[i] may be followed.
type EdgeFilter func(b *ssa.BasicBlock, i int) bool

// AssumeErr returns an edge filter that follows, at every If testing the
// nil-ness of a value Same as v, only the branch consistent with
// (v == nil) == isNil.
func AssumeErr(v ssa.Value, isNil bool) EdgeFilter {
	return func(b *ssa.BasicBlock, i int) bool {
		ifi, ok := b.Instrs[len(b.Instrs)-1].(*ssa.If)
		if !ok {
			return true
		}
		c := CondOf(ifi.Cond, i == 0)
		x, n, ok := c.NilCheck()
		if !ok || !Same(x, v) {
			return true
		}
		return n == isNil
	}
}

// AssumeBool follows only branches consistent with boolean v == truth.
func AssumeBool(v ssa.Value, truth bool) EdgeFilter {
	return func(b *ssa.BasicBlock, i int) bool {
		ifi, ok := b.Instrs[len(b.Instrs)-1].(*ssa.If)
		if !ok {
			return true
		}
		c := CondOf(ifi.Cond, i == 0)
		x, t, ok := c.Bool()
		if !ok || !Same(x, v) {
			return true
		}
		return t == truth
	}
}

// AndFilters combines edge filters.
func AndFilters(fs ...EdgeFilter) EdgeFilter {
	return func(b *ssa.BasicBlock, i int) bool {
		for _, f := range fs {
			if f != nil && !f(b, i) {
				return false
			}
		}
		return true
	}
}

// Search explores forward from just after instruction `from` (from the
// function entry when from is nil, in fn).  Paths stop at instructions for
// which stop returns true.  It returns the first instruction for which
// target returns true that is reachable without crossing a stop instruction,
// with the list of blocks on one witness path; nil if none.
// A target test is applied before the stop test for the same instruction.
func Search(fn *ssa.Function, from ssa.Instruction, edges EdgeFilter, stop, target func(ssa.Instruction) bool) (ssa.Instruction, []*ssa.BasicBlock) {
	type item struct {
		b    *ssa.BasicBlock
		idx  int
		path []*ssa.BasicBlock
	}
	var start item
	if from == nil {
		if len(fn.Blocks) == 0 {
			return nil, nil
		}
		start = item{b: fn.Blocks[0], idx: 0}
	} else {
		b := from.Block()
		idx := -1
		for i, in := range b.Instrs {
			if in == from {
				idx = i + 1
			}
		}
		start = item{b: b, idx: idx}
	}
	start.path = []*ssa.BasicBlock{start.b}
	seen := map[*ssa.BasicBlock]bool{}
	work := []item{start}
	first := true
	for len(work) > 0 {
		it := work[0]
		work = work[1:]
		if !first || it.idx == 0 {
			if seen[it.b] {
				continue
			}
			seen[it.b] = true
		}
		first = false
		blocked := false
		for i := it.idx; i < len(it.b.Instrs); i++ {
			in := it.b.Instrs[i]
			if target != nil && target(in) {
				return in, it.path
			}
			if stop != nil && stop(in) {
				blocked = true
				break
			}
		}
		if blocked {
			continue
		}
		for i, s := range it.b.Succs {
			if edges != nil && !edges(it.b, i) {
				continue
			}
			if seen[s] {
				continue
			}
			np := append(append([]*ssa.BasicBlock{}, it.path...), s)
			work = append(work, item{b: s, idx: 0, path: np})
		}
	}
	return nil, nil
}

// SearchBlock is Search starting AT the first instruction of block b
// (inclusive), not after it.
func SearchBlock(fn *ssa.Function, b *ssa.BasicBlock, edges EdgeFilter, stop, target func(ssa.Instruction) bool) (ssa.Instruction, []*ssa.BasicBlock) {
	if len(b.Instrs) == 0 {
		return nil, nil
	}
	first := b.Instrs[0]
	if target != nil && target(first) {
		return first, []*ssa.BasicBlock{b}
	}
	if stop != nil && stop(first) {
		return nil, nil
	}
	return Search(fn, first, edges, stop, target)
}

// IsReturn matches return instructions.
func IsReturn(in ssa.Instruction) bool { _, ok := in.(*ssa.Return); return ok }

// IsExit matches returns and panics.
func IsExit(in ssa.Instruction) bool {
	switch in.(type) {
	case *ssa.Return, *ssa.Panic:
		return true
	}
	return false
}

// PathStr renders a block path with the source line of each block's first
// positioned instruction.
func (p *Prog) PathStr(path []*ssa.BasicBlock) string {
	s := ""
	for i, b := range path {
		if i > 0 {
			s += " -> "
		}
		line := ""
		for _, in := range b.Instrs {
			if in.Pos().IsValid() {
				ps := p.Fset.Position(in.Pos())
				line = ":" + itoa(ps.Line)
				break
			}
		}
		s += b.Comment + "#" + itoa(b.Index) + line
	}
	return s
}

func itoa(i int) string {
	if i == 0 {
		return "0"
	}
	neg := i < 0
	if neg {
		i = -i
	}
	var b []byte
	for i > 0 {
		b = append([]byte{byte('0' + i%10)}, b...)
		i /= 10
	}
	if neg {
		b = append([]byte{'-'}, b...)
	}
	return string(b)
}

// Calls returns every call-like instruction (Call, Defer, Go) of fn in block
// order.
func Calls(fn *ssa.Function) []ssa.CallInstruction {
	var out []ssa.CallInstruction
	for _, b := range fn.Blocks {
		for _, in := range b.Instrs {
			if ci, ok := in.(ssa.CallInstruction); ok {
				out = append(out, ci)
			}
		}
	}
	return out
}

// Instrs iterates all instructions of fn.
func Instrs(fn *ssa.Function, f func(ssa.Instruction)) {
	for _, b := range fn.Blocks {
		for _, in := range b.Instrs {
			f(in)
		}
	}
}

// InstrsTree iterates all instructions of fn and its anonymous functions.
func InstrsTree(fn *ssa.Function, f func(*ssa.Function, ssa.Instruction)) {
	Instrs(fn, func(in ssa.Instruction) { f(fn, in) })
	for _, a := range fn.AnonFuncs {
		InstrsTree(a, f)
	}
}
