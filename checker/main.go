// setecvet decides the structural clauses of properties C01..C20 of
// tailscale/setec from the type-checked SSA form of /repo's working tree.
package main

import (
	"flag"
	"fmt"
	"os"
	"runtime/debug"
	"strconv"
	"strings"
	"time"

	"setecvet/eng"
	"setecvet/rules"
)

func main() {
	prop := flag.String("prop", "", "property id (C01..C20)")
	tier := flag.String("tier", "quick", "quick|thorough")
	repo := flag.String("repo", "/repo", "repository working tree")
	verif := flag.String("verif", "/verif", "verif directory (evidence, out, known-findings)")
	dump := flag.String("dump", "", "debug: dump SSA+facts of pkg:func")
	list := flag.Bool("list", false, "list properties")
	flag.Parse()
	t0 := time.Now()

	if *list {
		fmt.Println(strings.Join(rules.IDs(), " "))
		return
	}
	seed := 0
	if s := os.Getenv("VERIF_SEED"); s != "" {
		seed, _ = strconv.Atoi(s)
	}
	defer func() {
		if r := recover(); r != nil {
			fmt.Printf("UNDECIDED property=%s rule=- reason=checker panic: %v\n%s\n", *prop, r, debug.Stack())
			os.Exit(2)
		}
	}()
	p, err := eng.Load(*repo)
	if err != nil {
		fmt.Printf("UNDECIDED property=%s rule=load reason=%v\n", *prop, err)
		os.Exit(2)
	}
	if *dump == "anchors" {
		for _, l := range rules.AnchorSelfCheck(p) {
			fmt.Println(l)
		}
		return
	}
	if *dump != "" {
		eng.Dump(p, *dump)
		return
	}
	if *prop == "all" {
		// development aid (seed / benign suites): one load, every property;
		// prints "RESULT property=<id> exit=<n>" after each property's output
		worst := 0
		for _, id := range rules.IDs() {
			pr := rules.Get(id)
			code := func() (code int) {
				defer func() {
					if r := recover(); r != nil {
						fmt.Printf("UNDECIDED property=%s rule=- reason=checker panic: %v\n", id, r)
						code = 2
					}
				}()
				c := eng.NewCtx(p, pr.ID)
				pr.Run(c, *tier)
				return c.Finish(*verif, *tier, seed, time.Now(), pr.Explanation, pr.NotDecided, pr.Trusted, pr.Assumptions, nil).Exit
			}()
			fmt.Printf("RESULT property=%s exit=%d\n", id, code)
			if code > worst {
				worst = code
			}
		}
		os.Exit(worst)
	}
	pr := rules.Get(*prop)
	if pr == nil {
		fmt.Fprintf(os.Stderr, "unknown property %q; have %v\n", *prop, rules.IDs())
		os.Exit(2)
	}
	c := eng.NewCtx(p, pr.ID)
	pr.Run(c, *tier)
	res := c.Finish(*verif, *tier, seed, t0, pr.Explanation, pr.NotDecided, pr.Trusted, pr.Assumptions, nil)
	os.Exit(res.Exit)
}
