package rules

import (
	"go/token"
	"go/types"
	"strings"
	"time"

	"golang.org/x/tools/go/ssa"

	"setecvet/eng"
)

func init() {
	register(&Prop{
		ID: "C10",
		Explanation: "Decides structural necessary conditions of C10: (R-C10-1) validation first: the Store is constructed only after 'a client is set', 'names parsed without error' and not('no secrets' and 'no lookup'); every declared name is examined for emptiness over the final name list; (R-C10-2) no busy retry: every cycle of the initialisation routine that is not an iteration over a finite collection passes a call of a waiter, itself verified to block in a select on ctx.Done() and time.After(d) of its arguments; " +
			"(R-C10-3) context observed: from a failed fetch no further fetch and no wait is reached without testing ctx.Err(), whose non-nil edge returns a non-nil error; (R-C10-4) bounded back-off: the wait duration is a loop-carried variable fed only by a positive constant and by a doubling edge-dominated by v < C, hence below 2C <= 10s; " +
			"(R-C10-5) no re-fetch, success means complete: the fetch is edge-dominated by 'this name's entry is nil', its nil-error edge installs a fresh non-nil entry under the same name before the next iteration, every failing path either returns or increments the missing counter, and nil is returned only under counter == 0; (R-C10-6) with a file-backed client the wait is unreachable and the routine returns an error; (R-C10-8) cached entries are only discarded wholesale when the cache is rejected, never individually at load time (a complete valid cache needs no service); (R-C10-7) no explicit panic or unchecked type assertion in the construction path. (R-C10-9, second half) the cache consulted and written is StoreConfig.Cache for either client kind (C13's R-C13-8); (R-C10-10) struct-tagged names are declared under the names they are applied under (C20's R-C20-2). (R-C10-10, extended) fields promoted from embedded structs are visited (C20's R-C20-9).",
		NotDecided:  "Wall-clock promptness; how many rounds a given failure script needs.",
		Trusted:     append([]string{"time.After(d) fires after d"}, commonTrusted...),
		Assumptions: []string{"iteration over a map or slice terminates"},
		Run:         runC10,
	})
}

func runC10(c *eng.Ctx, tier string) {
	p := c.P
	ns := p.Func(setecPkg, "NewStore")
	init := anchor(p, setecPkg, "(*Store).initializeActive")
	if ns == nil || init == nil {
		c.Undecided("anchor", nil, 0, "setec.NewStore / (*Store).initializeActive", "anchors do not resolve")
		return
	}
	c10Validation(c, ns)
	c10Init(c, init)
	// R-C10-8: a valid cache entry is used as it is
	checkPrepubRemovals(c, "R-C10-8")
	// R-C10-9: "a value for every declared secret ... from a valid cache entry":
	// the validity gate of the loaded cache (C13's rule)
	include(c, "R-C10-9", c13Validity)
	// ... and the cache consulted is the configured one, with either client kind
	include(c, "R-C10-9", c13CacheField)
	// ... and a cache that did not decode is discarded as a whole (C13's rule)
	includeOnly(c, "R-C10-9", func(sc *eng.Ctx) { runC13(sc, "quick") }, "R-C13-5")
	// struct-tagged secrets are declared under the very names they are later applied under
	includeOnly(c, "R-C10-10", func(sc *eng.Ctx) { runC20(sc, "quick") }, "R-C20-2", "R-C20-9")
	// R-C10-7
	for _, f := range []*ssa.Function{ns, init, anchor(p, setecPkg, "StoreConfig.secretNames"), anchor(p, setecPkg, "(*Store).loadCache"), anchor(p, setecPkg, "(*Store).isActiveSetValid")} {
		if f == nil {
			continue
		}
		bad := false
		eng.InstrsTree(f, func(ff *ssa.Function, in ssa.Instruction) {
			switch x := in.(type) {
			case *ssa.Panic:
				// (the unreachable arm go/ssa adds to a blocking select is not a panic of the program)
				if s, isC := eng.ConstString(x.X); isC && strings.Contains(s, "blocking select matched no case") {
					return
				}
				if mi, isMI := x.X.(*ssa.MakeInterface); isMI {
					if s, isC := eng.ConstString(mi.X); isC && strings.Contains(s, "blocking select matched no case") {
						return
					}
				}
				bad = true
				c.Bad("R-C10-7", ff, in.Pos(), "panic", "misconfiguration is reported as an error, never a panic", "explicit panic in the construction path")
			case *ssa.TypeAssert:
				if !x.CommaOk {
					bad = true
					c.Bad("R-C10-7", ff, in.Pos(), eng.InstrStr(in), "no unchecked type assertion in the construction path", "")
				}
			}
		})
		if !bad {
			c.Ok("R-C10-7", f, f.Pos(), "panic sites of "+eng.FName(f), "none")
		}
	}
}

func c10Validation(c *eng.Ctx, ns *ssa.Function) {
	p := c.P
	// the point where the Store comes into being: its allocation in NewStore,
	// or the call of a constructor helper that allocates and returns it
	var storeAlloc ssa.Instruction
	eng.Instrs(ns, func(in ssa.Instruction) {
		if al, ok := in.(*ssa.Alloc); ok && al.Heap && eng.IsNamed(al.Type(), setecPkg, "Store") {
			storeAlloc = al
		}
	})
	if storeAlloc == nil {
		eng.Instrs(ns, func(in ssa.Instruction) {
			call, ok := in.(*ssa.Call)
			if !ok || storeAlloc != nil {
				return
			}
			h := eng.Callee(&call.Call)
			if !eng.IsHelper(ns, h) || h.Signature.Results().Len() != 1 || !eng.IsNamed(h.Signature.Results().At(0).Type(), setecPkg, "Store") {
				return
			}
			fresh := len(eng.Returns(h)) > 0
			for _, r := range eng.Returns(h) {
				if al, isAl := eng.Origin(eng.RetVals(r)[0]).(*ssa.Alloc); !isAl || !al.Heap {
					fresh = false
				}
			}
			if fresh {
				storeAlloc = call
			}
		})
	}
	if storeAlloc == nil {
		c.Undecided("R-C10-1", ns, ns.Pos(), "construction of the Store", "no allocation found")
		return
	}
	var clientOK, namesOK bool
	var namesCall *ssa.Call
	for _, cond := range eng.FactsAt(storeAlloc) {
		if v, isNil, isN := cond.NilCheck(); isN && !isNil {
			if fr, _, isF := eng.LoadedField(v); isF && fr.Is(setecPkg, "StoreConfig", "Client") {
				clientOK = true
			}
		}
		if v, isNil, isE := cond.ErrCheck(); isE && isNil {
			if call, _ := eng.TupleCall(v); call != nil {
				if cal := eng.Callee(&call.Call); cal != nil && cal == anchor(c.P, setecPkg, "StoreConfig.secretNames") {
					namesOK = true
					namesCall = call
				}
			}
		}
	}
	c.Check(clientOK, "R-C10-1", ns, storeAlloc.Pos(), "construction of the Store [client]", "edge-dominated by cfg.Client != nil (no client is an error, not a nil dereference later)", "holding: "+eng.FactsString(storeAlloc))
	c.Check(namesOK, "R-C10-1", ns, storeAlloc.Pos(), "construction of the Store [names]", "edge-dominated by the nil error of the name collection", "holding: "+eng.FactsString(storeAlloc))
	// not (no secrets && !AllowLookup)
	assume := func(b *ssa.BasicBlock, i int) bool {
		ifi, ok := b.Instrs[len(b.Instrs)-1].(*ssa.If)
		if !ok {
			return true
		}
		cond := eng.CondOf(ifi.Cond, i == 0)
		// the name collection itself may refuse "nothing declared and no
		// lookups": its nil-error edge is then closed under this assumption
		if v, isNil, isE := cond.ErrCheck(); isE && isNil && namesCall != nil {
			if call, _ := eng.TupleCall(v); call == namesCall && namesRefusesNothing(eng.Callee(&namesCall.Call)) {
				return false
			}
		}
		if op, x, y, isCmp := cond.Cmp(); isCmp {
			if k, isK := eng.ConstInt(y); isK && k == 0 {
				if args, isLen := eng.BuiltinCall(instrOf(eng.Origin(x)), "len"); isLen {
					if call, part := namesPartOf(args[0]); call != nil && call == namesCall && part == "names" {
						// assume len == 0
						return op == token.EQL || op == token.LEQ
					}
				}
			}
		}
		if v, truth, isB := cond.Bool(); isB {
			if fr, _, isF := eng.LoadedField(v); isF && fr.Is(setecPkg, "StoreConfig", "AllowLookup") {
				return !truth // assume AllowLookup == false
			}
		}
		return true
	}
	hit, path := eng.Search(ns, nil, assume, nil, func(x ssa.Instruction) bool { return x == storeAlloc })
	c.Check(hit == nil, "R-C10-1", ns, storeAlloc.Pos(), "construction of the Store [something to serve]", "unreachable when no secret is declared and lookups are disabled (that configuration is an error)", func() string {
		if hit == nil {
			return ""
		}
		return "reachable: " + p.PathStr(path)
	}())
	// all error returns before the store exists carry non-nil errors (implied by types) -- and secretNames rejects empty names
	sn := anchor(p, setecPkg, "StoreConfig.secretNames")
	if sn == nil {
		c.Undecided("R-C10-1", nil, 0, "setec.StoreConfig.secretNames", "anchor does not resolve")
		return
	}
	// the list handed to the constructor is deduplicated AS A WHOLE (listed and
	// struct-tagged names together): a duplicate would meet the nil stub of its
	// twin in the constructor's declare loop
	isSlicesCall := func(v ssa.Value, name string) (*ssa.Call, bool) {
		call, _ := eng.TupleCall(v)
		if call == nil {
			return nil, false
		}
		cal := call.Call.StaticCallee()
		if cal == nil {
			return nil, false
		}
		o := cal
		if cal.Origin() != nil {
			o = cal.Origin()
		}
		return call, o.Pkg != nil && o.Pkg.Pkg.Path() == "slices" && o.Name() == name
	}
	// (the final steps -- sort, compact, reject empty names -- may be done by
	// a helper whose results the collection hands on: they are then judged there)
	{
		var hc *ssa.Call
		all := true
		ei := errResultIndex(sn)
		for _, r := range eng.Returns(sn) {
			rv := eng.RetVals(r)
			if ei < 0 || !eng.IsNilConst(eng.Origin(rv[ei])) {
				continue // an error return (its own, or the helper's error handed on)
			}
			nl := namesReturned(r, "names")
			if nl == nil {
				continue
			}
			cc, idx := eng.TupleCall(nl)
			if cc == nil || idx != 0 || !eng.IsHelper(sn, eng.Callee(&cc.Call)) || (hc != nil && hc != cc) {
				all = false
				continue
			}
			hc = cc
			// the helper's error is what the collection answers with here, or is known nil
			okErr := eng.Same(rv[ei], saveErr(cc))
			for _, cond := range eng.FactsAt(r) {
				if v, isNil, isE := cond.ErrCheck(); isE && isNil && eng.Same(v, saveErr(cc)) {
					okErr = true
				}
			}
			if !okErr {
				all = false
			}
		}
		if hc != nil && all {
			h := eng.Callee(&hc.Call)
			if errResultIndex(h) >= 0 && h.Signature.Results().Len() == 2 {
				sn = h
			}
		}
	}
	snErr := errResultIndex(sn)
	for _, r := range eng.Returns(sn) {
		rv := eng.RetVals(r)
		if !eng.IsNilConst(eng.Origin(rv[snErr])) {
			continue
		}
		rv = []ssa.Value{namesReturned(r, "names")}
		if rv[0] == nil {
			c.Undecided("R-C10-1", sn, r.Pos(), "name list returned by the name collection", "not found in the return")
			continue
		}
		cc, isCompact := isSlicesCall(rv[0], "Compact")
		sorted := false
		if isCompact {
			eng.Instrs(sn, func(in ssa.Instruction) {
				if call, ok := in.(*ssa.Call); ok {
					if _, isSort := isSlicesCall(call, "Sort"); isSort && eng.InstrDominates(call, cc) && (call.Call.Args[0] == cc.Call.Args[0] || eng.Same(call.Call.Args[0], cc.Call.Args[0])) {
						sorted = true
					}
				}
			})
		}
		c.Check(isCompact && sorted, "R-C10-1", sn, r.Pos(), "name list returned by secretNames: "+eng.ValStr(rv[0]), "the complete list (listed and struct-tagged names) is sorted and compacted before it is returned (no duplicate reaches the constructor)", "")
	}
	okEmpty := false
	for _, r := range eng.Returns(sn) {
		rv := eng.RetVals(r)
		if !eng.IsNilConst(eng.Origin(rv[snErr])) {
			continue
		}
		if nl := namesReturned(r, "names"); nl != nil {
			rv = []ssa.Value{nl, nil, rv[snErr]}
		} else {
			continue
		}
		// success return: rv[0] is the final list.  Either the return is on the
		// false edge of slices.Contains(list, ""), whose true edge fails ...
		for _, cond := range eng.FactsAt(r) {
			call, _, truth, isCall := cond.BoolCall()
			if !isCall || truth || !eng.CalleeIs(&call.Call, "slices", "Contains") || len(call.Call.Args) != 2 {
				continue
			}
			if s, isC := eng.ConstString(call.Call.Args[1]); !isC || s != "" {
				continue
			}
			if !(call.Call.Args[0] == rv[0] || eng.Same(call.Call.Args[0], rv[0])) || cond.If == nil {
				continue
			}
			for i, succ := range cond.If.Block().Succs {
				if _, t, _ := eng.CondOf(cond.If.Cond, i == 0).Bool(); !t {
					continue
				}
				if r2, isR := succ.Instrs[len(succ.Instrs)-1].(*ssa.Return); isR && nonNilAt(eng.RetVals(r2)[snErr], eng.FactsAt(r2)) == eng.Yes {
					okEmpty = true
				}
			}
		}
		// ... or a full-range loop over it rejects ""
		for _, rl := range eng.RangeLoops(sn) {
			if !(rl.Slice == rv[0] || eng.Same(rl.Slice, rv[0])) {
				continue
			}
			eng.Instrs(sn, func(in ssa.Instruction) {
				ifi, isIf := in.(*ssa.If)
				if !isIf || !rl.InLoop(ifi.Block()) {
					return
				}
				cond := eng.CondOf(ifi.Cond, true)
				op, x, y, isCmp := cond.Cmp()
				if !isCmp || op != token.EQL || !rl.ElemOf(x) {
					return
				}
				if s, isC := eng.ConstString(y); isC && s == "" {
					// true edge returns a non-nil error
					succ := ifi.Block().Succs[0]
					if r2, isR := succ.Instrs[len(succ.Instrs)-1].(*ssa.Return); isR {
						if nonNilAt(eng.RetVals(r2)[snErr], eng.FactsAt(r2)) == eng.Yes {
							okEmpty = true
						}
					}
				}
			})
			// success only after the loop
			if !rl.Done.Dominates(r.Block()) {
				okEmpty = false
			}
		}
	}
	c.Check(okEmpty, "R-C10-1", sn, sn.Pos(), "empty-name check in secretNames", "every name of the final (listed + struct-tagged, deduplicated) list is tested and an empty one yields an error", "no full-range loop over the returned list rejecting \"\" found")
}

// waiter: a function that always blocks in a select over ctx.Done() and
// time.After(d) of its own parameters.
func isWaiter(f *ssa.Function) (durIdx int, ok bool) {
	di, _, ok := isWaiterX(f)
	if di < 0 {
		return -1, false
	}
	return di, ok
}

// isWaiterX also accepts a waiter whose pause is kept in a Duration field of
// an object it is given (a back-off state): durIdx is then -1 and fld names
// the field.
func isWaiterX(f *ssa.Function) (durIdx int, fld *eng.FieldRef, ok bool) {
	if f == nil || f.Blocks == nil {
		return -1, nil, false
	}
	var ctxP *ssa.Parameter
	for _, prm := range f.Params {
		if eng.IsNamed(prm.Type(), "context", "Context") {
			ctxP = prm
		}
	}
	if ctxP == nil {
		return -1, nil, false
	}
	good := map[*ssa.BasicBlock]bool{}
	var timer ssa.Value
	eng.Instrs(f, func(in ssa.Instruction) {
		sel, isSel := in.(*ssa.Select)
		if !isSel || !sel.Blocking {
			return
		}
		hasDone, other := false, false
		var tv ssa.Value
		for _, st := range sel.States {
			call, _ := eng.TupleCall(st.Chan)
			switch {
			case st.Dir == types.RecvOnly && call != nil && call.Call.IsInvoke() && call.Call.Method.Name() == "Done" && eng.Origin(call.Call.Value) == ssa.Value(ctxP):
				hasDone = true
			case st.Dir == types.RecvOnly && call != nil && eng.CalleeIs(&call.Call, "time", "After"):
				tv = call.Call.Args[0]
			default:
				// the channel of a timer made for this wait: time.NewTimer(d).C
				if fr, base, isF := eng.LoadedField(st.Chan); st.Dir == types.RecvOnly && isF && fr.Name == "C" && eng.IsNamed(fr.Owner, "time", "Timer") {
					if tc, _ := eng.TupleCall(base); tc != nil && eng.CalleeIs(&tc.Call, "time", "NewTimer") && eng.InstrDominates(tc, sel) {
						tv = tc.Call.Args[0]
						continue
					}
				}
				other = true
			}
		}
		if hasDone && tv != nil && !other {
			good[sel.Block()] = true
			timer = tv
		}
	})
	if len(good) != 1 {
		return -1, nil, false
	}
	hit, _ := eng.Search(f, nil, nil, func(x ssa.Instruction) bool { return good[x.Block()] }, eng.IsReturn)
	if good[f.Blocks[0]] {
		hit = nil
	}
	if hit != nil {
		return -1, nil, false
	}
	if prm, isP := eng.Origin(timer).(*ssa.Parameter); isP && eng.IsNamed(prm.Type(), "time", "Duration") {
		for i, q := range f.Params {
			if q == prm {
				return i, nil, true
			}
		}
	}
	if fr, base, isF := eng.LoadedField(timer); isF && eng.IsNamed(timer.Type(), "time", "Duration") {
		if _, isP := eng.Origin(base).(*ssa.Parameter); isP {
			return -1, &fr, true
		}
	}
	return -1, nil, false
}

func c10Init(c *eng.Ctx, init *ssa.Function) { c10InitIn(c, init, false) }

// c10InitIn: inner is true when init is a helper of the initialisation
// routine holding one fetch pass (it reports the number of names still
// missing and the error that ends the whole construction); the retry loop,
// the waits and the back-off then belong to its caller.
func c10InitIn(c *eng.Ctx, init *ssa.Function, inner bool) {
	p := c.P
	ctxP := ctxParam(init)
	// fetches and waits
	var fetches []*ssa.Call
	var waits []*ssa.Call
	waitDur := map[*ssa.Call]ssa.Value{}
	waitField := map[*ssa.Call]*eng.FieldRef{} // the pause lives in a field of a back-off object
	eng.Instrs(init, func(in ssa.Instruction) {
		call, ok := in.(*ssa.Call)
		if !ok {
			return
		}
		if isFetchCall(p, call) {
			fetches = append(fetches, call)
		}
		if cal := eng.Callee(&call.Call); cal != nil {
			if di, fld, isW := isWaiterX(eng.Unwrap(cal)); isW {
				waits = append(waits, call)
				if fld != nil {
					waitField[call] = fld
				} else {
					waitDur[call] = call.Call.Args[di]
				}
			}
		}
	})
	// a wait written in place: a blocking select on ctx.Done() and time.After(d)
	eng.Instrs(init, func(in ssa.Instruction) {
		sel, ok := in.(*ssa.Select)
		if !ok || !sel.Blocking {
			return
		}
		hasDone := false
		var after *ssa.Call
		for _, st := range sel.States {
			if call, _ := eng.TupleCall(st.Chan); call != nil {
				if call.Call.IsInvoke() && call.Call.Method.Name() == "Done" {
					hasDone = true
				}
				if eng.CalleeIs(&call.Call, "time", "After") {
					after = call
				}
			}
		}
		if hasDone && after != nil && len(sel.States) == 2 {
			waits = append(waits, after)
			waitDur[after] = after.Call.Args[0]
		}
	})
	if len(fetches) == 0 {
		c.Undecided("R-C10-2", init, init.Pos(), "fetch in the initialisation routine", "no service request found")
		return
	}
	// R-C10-2
	isWaitBlock := func(b *ssa.BasicBlock) bool {
		for _, w := range waits {
			if w.Block() == b {
				return true
			}
		}
		// a direct blocking select on ctx.Done with a timer also counts
		for _, in := range b.Instrs {
			if sel, ok := in.(*ssa.Select); ok && sel.Blocking {
				for _, st := range sel.States {
					if call, _ := eng.TupleCall(st.Chan); call != nil && call.Call.IsInvoke() && call.Call.Method.Name() == "Done" {
						return true
					}
				}
			}
		}
		return false
	}
	cyc := eng.CycleAvoidingEdges(init, isWaitBlock, func(from, to *ssa.BasicBlock) bool {
		// back edges of loops over finite collections are not retries
		return eng.IsRangeHeader(init, to) && to.Dominates(from) && from != to.Idom()
	})
	if cyc != nil {
		c.Bad("R-C10-2", init, cyc[0].Instrs[0].Pos(), "retry cycle "+p.PathStr(cyc), "every retry round passes a wait that blocks on ctx.Done() or a timer (no busy retry against a failing service)", "this cycle contains no wait")
	} else {
		c.Ok("R-C10-2", init, init.Pos(), "cycles of "+init.Name(), "every non-iteration cycle passes a verified waiter")
	}
	if len(waits) == 0 && !inner {
		c.Bad("R-C10-2", init, init.Pos(), "wait between rounds", "failed fetches are retried after a pause", "no verified waiter is called")
	}

	for _, fetch := range fetches {
		ferr := saveErr(fetch)
		// R-C10-3
		isCtxErrTest := func(x ssa.Instruction) bool {
			ifi, ok := x.(*ssa.If)
			if !ok {
				return false
			}
			v, _, isE := eng.CondOf(ifi.Cond, true).ErrCheck()
			if !isE {
				return false
			}
			call, _ := eng.TupleCall(v)
			return call != nil && call.Call.IsInvoke() && call.Call.Method.Name() == "Err" && ctxP != nil && eng.Origin(call.Call.Value) == ssa.Value(ctxP)
		}
		hit, path := eng.Search(init, fetch, eng.AssumeErr(ferr, false), isCtxErrTest, func(x ssa.Instruction) bool {
			if call, ok := x.(*ssa.Call); ok {
				if isFetchCall(p, call) {
					return true
				}
				for _, w := range waits {
					if w == call {
						return true
					}
				}
			}
			return false
		})
		c.Check(hit == nil, "R-C10-3", init, fetch.Pos(), "after a failed "+eng.CallStr(&fetch.Call), "ctx.Err() is tested before the next fetch or wait (a cancelled construction returns promptly)", func() string {
			if hit == nil {
				return ""
			}
			return eng.InstrStr(hit) + " reached first: " + p.PathStr(path)
		}())
		// a failed fetch ends the routine only because the caller's context
		// ended (or because waiting is pointless with a file-backed client):
		// with those two edges cut, no return is reachable from the failure
		{
			cut := func(b *ssa.BasicBlock, i int) bool {
				ifi, ok := b.Instrs[len(b.Instrs)-1].(*ssa.If)
				if !ok {
					return true
				}
				cd := eng.CondOf(ifi.Cond, i == 0)
				if isCtxErrTest(ifi) {
					if _, isNil, _ := cd.ErrCheck(); !isNil {
						return false // the context-ended edge
					}
					return true
				}
				if v, truth, isB := cd.Bool(); isB && truth {
					if ex, isEx := eng.Origin(v).(*ssa.Extract); isEx && ex.Index == 1 {
						if ta, isTA := ex.Tuple.(*ssa.TypeAssert); isTA && eng.IsNamed(ta.AssertedType, setecPkg, "FileClient") {
							return false // file-backed client: fail at once
						}
					}
				}
				// after a failure the count of missing names is not zero
				if op, x, y, isCmp := cd.Cmp(); isCmp && op == token.EQL {
					if k, isK := eng.ConstInt(y); isK && k == 0 {
						// (the count may be the length of a list of failed names
						// that grows by append)
						if args, isLen := eng.BuiltinCall(instrOf(eng.Origin(x)), "len"); isLen {
							leaves, _ := eng.PhiLeaves(eng.Origin(args[0]))
							for _, lf := range leaves {
								if _, isApp := eng.BuiltinCall(instrOf(eng.Origin(lf.Val)), "append"); isApp {
									return false
								}
							}
						}
						if ph, isPhi := x.(*ssa.Phi); isPhi && isIntType(ph.Type()) {
							_, phis := eng.PhiLeaves(ph)
							for q := range phis {
								for _, e := range q.Edges {
									if bo, isB := e.(*ssa.BinOp); isB && bo.Op == token.ADD {
										return false
									}
								}
							}
						}
					}
				}
				return true
			}
			if isStoreClientInvoke(&fetch.Call) {
				giveUp := eng.IsReturn
				if inner {
					// a fetch pass in a helper ends normally with its count; giving up is its error return
					giveUp = func(x ssa.Instruction) bool {
						r, isR := x.(*ssa.Return)
						return isR && !eng.IsNilConst(eng.Origin(eng.RetVals(r)[errResultIndex(init)]))
					}
				}
				hitR, pathR := eng.Search(init, fetch, eng.AndFilters(eng.AssumeErr(ferr, false), cut), func(x ssa.Instruction) bool {
					// the next fetch round: the failure was retried
					if call, ok := x.(*ssa.Call); ok {
						for _, w := range waits {
							if w == call {
								return true
							}
						}
					}
					return false
				}, giveUp)
				c.Check(hitR == nil, "R-C10-3", init, fetch.Pos(), "giving up after a failed "+eng.CallStr(&fetch.Call), "a failed fetch is retried until the caller's context ends: no other kind of failure makes the construction return", func() string {
					if hitR == nil {
						return ""
					}
					return "return at " + p.Pos(hitR.Pos()) + " reachable with the context alive: " + p.PathStr(pathR)
				}())
			}
		}
		// the cancelled edge returns non-nil
		eng.Instrs(init, func(x ssa.Instruction) {
			if !isCtxErrTest(x) {
				return
			}
			ifi := x.(*ssa.If)
			for i, s := range ifi.Block().Succs {
				cond := eng.CondOf(ifi.Cond, i == 0)
				if _, isNil, _ := cond.ErrCheck(); isNil {
					continue
				}
				// s: the ctx ended edge
				bad, _ := eng.SearchBlock(init, s, nil, nil, func(y ssa.Instruction) bool {
					if r, isR := y.(*ssa.Return); isR {
						return nonNilAt(eng.RetVals(r)[errResultIndex(init)], eng.FactsAt(r)) != eng.Yes
					}
					if call, ok := y.(*ssa.Call); ok && isFetchCall(p, call) {
						return true
					}
					return false
				})
				if r, isR := s.Instrs[0].(*ssa.Return); isR && nonNilAt(eng.RetVals(r)[errResultIndex(init)], eng.FactsAt(r)) == eng.Yes {
					bad = nil
				}
				c.Check(bad == nil, "R-C10-3", init, x.Pos(), "context-ended edge of "+eng.InstrStr(x), "returns a non-nil error without further fetches", "")
			}
		})

		// a fetch pass moved into a helper: the per-name rules are decided there;
		// here success must still mean "the pass left nothing missing"
		if !isStoreClientInvoke(&fetch.Call) {
			h := eng.Callee(&fetch.Call)
			if inner || h == nil {
				c.Undecided("R-C10-5", init, fetch.Pos(), eng.CallStr(&fetch.Call), "fetch through more than one level of helpers")
				continue
			}
			c10InitIn(c, h, true)
			var count ssa.Value
			if refs := fetch.Referrers(); refs != nil {
				for _, rf := range *refs {
					if ex, ok := rf.(*ssa.Extract); ok && isIntType(ex.Type()) {
						count = ex
					}
				}
			}
			for _, r := range eng.Returns(init) {
				rv := eng.RetVals(r)
				if !eng.IsNilConst(eng.Origin(rv[errResultIndex(init)])) {
					continue
				}
				okk := false
				for _, cond := range eng.FactsAt(r) {
					if op, x, y, isCmp := cond.Cmp(); isCmp && op == token.EQL && count != nil {
						if k, isK := eng.ConstInt(y); isK && k == 0 && eng.Origin(x) == count {
							okk = true
						}
					}
				}
				c.Check(okk, "R-C10-5", init, r.Pos(), eng.InstrStr(r), "success is reported only when the fetch pass left no declared secret missing (its count == 0)", "holding: "+eng.FactsString(r))
			}
			continue
		}
		// R-C10-5: only fetch missing names
		var loop *mapLoop
		for _, ml := range mapLoops(init) {
			if n, isAct := activeMapOf(ml.Range.X); isAct && n == "m" {
				mm := ml
				loop = &mm
			}
		}
		if loop == nil {
			c.Undecided("R-C10-5", init, init.Pos(), "loop over the active set", "not found")
			continue
		}
		if !loop.Body.Dominates(fetch.Block()) && !inner {
			// the names still missing are kept in a work list that each round
			// iterates over and rebuilds from its failures
			c10Worklist(c, init, fetch, ferr)
			continue
		}
		missing := false
		for _, cond := range eng.FactsAt(fetch) {
			if v, isNil, isN := cond.NilCheck(); isN && isNil && eng.Origin(v) == loop.Val {
				missing = true
			}
		}
		c.Check(missing && eng.Origin(fetchName(fetch)) == loop.Key, "R-C10-5", init, fetch.Pos(), eng.CallStr(&fetch.Call)+" [only missing]", "a name is fetched only while its entry is nil, under its own name (a secret already obtained is never re-fetched)", "holding: "+eng.FactsString(fetch))
		// success installs a fresh entry under the same name
		var install *ssa.MapUpdate
		for _, m := range eng.MapOps(init) {
			if n, isAct := activeMapOf(m.Map); isAct && n == "m" && m.Kind == "update" {
				install = m.In.(*ssa.MapUpdate)
			}
		}
		okInst := false
		if install != nil {
			// (the entry literal may be built by a constructor helper)
			if fields, mapv, isLit := eng.LiteralThroughHelper(install.Value); isLit && eng.Origin(install.Key) == loop.Key {
				if call, idx := eng.TupleCall(mapv(fields["Secret"])); call == fetch && idx == 0 {
					okInst = true
				}
			}
		}
		hit2, path2 := eng.Search(init, fetch, eng.AssumeErr(ferr, true), func(x ssa.Instruction) bool { return install != nil && x == ssa.Instruction(install) }, func(x ssa.Instruction) bool {
			return x.Block() == loop.Header || eng.IsReturn(x)
		})
		c.Check(okInst && hit2 == nil, "R-C10-5", init, fetch.Pos(), eng.CallStr(&fetch.Call)+" [install]", "on success a fresh entry holding the fetched value is installed under the same name before moving on", func() string {
			if hit2 != nil {
				return "next iteration reached without install: " + p.PathStr(path2)
			}
			return "no matching install"
		}())
		// failure: returns or counts
		var counter *ssa.Phi
		for _, in := range loop.Header.Instrs {
			if ph, ok := in.(*ssa.Phi); ok && isIntType(ph.Type()) {
				counter = ph
			}
		}
		if counter == nil {
			c.Undecided("R-C10-5", init, init.Pos(), "missing counter", "no integer phi at the loop header")
			continue
		}
		// every edge into the header reachable on the failure path carries counter+1
		for i, pred := range loop.Header.Preds {
			reach := false
			if hit3, _ := eng.Search(init, fetch, eng.AssumeErr(ferr, false), nil, func(x ssa.Instruction) bool { return x.Block() == pred }); hit3 != nil {
				reach = true
			}
			// exclude preds that are only reachable through the header again
			if !reach || !loop.Body.Dominates(pred) {
				continue
			}
			// is pred reachable on the failure edge without passing the header?
			hit4, _ := eng.Search(init, fetch, eng.AssumeErr(ferr, false), func(x ssa.Instruction) bool { return x.Block() == loop.Header }, func(x ssa.Instruction) bool { return x.Block() == pred })
			if hit4 == nil {
				continue
			}
			e := counter.Edges[i]
			inc := false
			if b, isB := e.(*ssa.BinOp); isB && b.Op == token.ADD && b.X == ssa.Value(counter) {
				if k, isK := eng.ConstInt(b.Y); isK && k == 1 {
					inc = true
				}
			}
			c.Check(inc, "R-C10-5", init, pred.Instrs[len(pred.Instrs)-1].Pos(), "failed fetch continuing via "+pred.Comment+"#"+itoa(pred.Index), "a failed fetch that does not return is counted as missing", "counter edge is "+eng.ValStr(e))
		}
		// return nil only under counter == 0
		for _, r := range eng.Returns(init) {
			rv := eng.RetVals(r)
			if !eng.IsNilConst(eng.Origin(rv[errResultIndex(init)])) {
				continue
			}
			okk := false
			if inner {
				// the pass reports its count to the retry loop: after the loop, the counter itself
				for i, v := range rv {
					if i != errResultIndex(init) && isIntType(v.Type()) && eng.Origin(v) == ssa.Value(counter) && !loop.Body.Dominates(r.Block()) {
						okk = true
					}
				}
				c.Check(okk, "R-C10-5", init, r.Pos(), eng.InstrStr(r), "a pass that ends without error reports the number of names still missing (counted over the whole set)", "returns "+eng.InstrStr(r))
				continue
			}
			for _, cond := range eng.FactsAt(r) {
				if op, x, y, isCmp := cond.Cmp(); isCmp && op == token.EQL {
					if k, isK := eng.ConstInt(y); isK && k == 0 && x == ssa.Value(counter) {
						okk = true
					}
				}
			}
			c.Check(okk, "R-C10-5", init, r.Pos(), eng.InstrStr(r), "success is reported only when no declared secret is missing (counter == 0 after a full pass)", "holding: "+eng.FactsString(r))
		}
	}

	// R-C10-4 bounded back-off
	for _, w := range waits {
		if fld := waitField[w]; fld != nil {
			c10FieldBackoff(c, init, w, *fld)
			continue
		}
		d := waitDur[w]
		leaves, phis := eng.PhiLeaves(eng.Origin(d))
		if len(phis) == 0 {
			if k, isK := eng.ConstInt(d); isK {
				c.Check(time.Duration(k) > 0 && time.Duration(k) <= 10*time.Second, "R-C10-4", init, w.Pos(), "wait duration "+time.Duration(k).String(), "a positive pause of at most a few seconds", "")
			} else {
				c.Bad("R-C10-4", init, w.Pos(), "wait duration "+eng.ValStr(d), "a constant or a bounded loop-carried back-off", "neither")
			}
			continue
		}
		for _, lf := range leaves {
			site := "back-off source " + eng.ValStr(lf.Val) + " via " + lf.From.Comment + "#" + itoa(lf.From.Index)
			if k, isK := eng.ConstInt(lf.Val); isK {
				c.Check(time.Duration(k) > 0 && time.Duration(k) <= 10*time.Second, "R-C10-4", init, w.Pos(), site, "initial pause: positive, at most a few seconds", "")
				continue
			}
			okk := false
			detail := "not a doubling of the variable"
			// the step may be computed by a pure helper of the variable:
			// every return of it is the argument itself or its doubling under
			// argument < C
			if hc, _ := eng.TupleCall(lf.Val); hc != nil {
				if h := eng.Callee(&hc.Call); eng.IsHelper(init, h) && len(hc.Call.Args) == 1 && len(h.Params) == 1 {
					if ph, isPhi := eng.Origin(hc.Call.Args[0]).(*ssa.Phi); isPhi && phis[ph] {
						okk, detail = backoffStepHelper(h)
					}
				}
			}
			if b, isB := lf.Val.(*ssa.BinOp); isB {
				dbl := false
				_, xPhi := b.X.(*ssa.Phi)
				if b.Op == token.ADD && b.X == b.Y && xPhi && phis[b.X.(*ssa.Phi)] {
					dbl = true
				}
				if b.Op == token.MUL && xPhi && phis[b.X.(*ssa.Phi)] {
					if k, isK := eng.ConstInt(b.Y); isK && k == 2 {
						dbl = true
					}
				}
				if dbl {
					for _, f := range eng.BlockFacts(b.Block()) {
						op, x, y, isCmp := f.Cond().Cmp()
						if !isCmp || op != token.LSS || x != b.X {
							continue
						}
						if cap, isK := eng.ConstInt(y); isK {
							if 2*time.Duration(cap) <= 10*time.Second {
								okk = true
							} else {
								detail = "cap " + time.Duration(cap).String() + " allows pauses up to " + (2 * time.Duration(cap)).String()
							}
						}
					}
					if !okk && detail == "not a doubling of the variable" {
						detail = "the doubling is not edge-dominated by v < constant"
					}
				}
			}
			c.Check(okk, "R-C10-4", init, w.Pos(), site, "the pause only grows by doubling under v < C with 2C <= 10s (pausing at most a few seconds between rounds)", detail)
		}
	}

	if inner {
		return
	}
	// R-C10-6 FileClient short-circuit
	var isFC ssa.Value
	eng.Instrs(init, func(in ssa.Instruction) {
		if ta, ok := in.(*ssa.TypeAssert); ok && ta.CommaOk && eng.IsNamed(ta.AssertedType, setecPkg, "FileClient") {
			for _, r := range *ta.Referrers() {
				if ex, ok := r.(*ssa.Extract); ok && ex.Index == 1 {
					isFC = ex
				}
			}
		}
	})
	if isFC == nil {
		c.Bad("R-C10-6", init, init.Pos(), "file-backed client test", "with a file-backed client a missing secret fails at once (waiting is pointless)", "no type test for *FileClient")
	} else {
		for _, w := range waits {
			okk := false
			for _, cond := range eng.FactsAt(w) {
				if v, truth, isB := cond.Bool(); isB && !truth && eng.Same(v, isFC) {
					okk = true
				}
			}
			c.Check(okk, "R-C10-6", init, w.Pos(), eng.CallStr(&w.Call), "the wait is edge-dominated by 'the client is not a *FileClient'", "holding: "+eng.FactsString(w))
		}
		n := 0
		for _, r := range eng.Returns(init) {
			for _, cond := range eng.FactsAt(r) {
				if v, truth, isB := cond.Bool(); isB && truth && eng.Same(v, isFC) {
					n++
					c.Check(nonNilAt(eng.RetVals(r)[0], eng.FactsAt(r)) == eng.Yes, "R-C10-6", init, r.Pos(), eng.InstrStr(r), "with a file-backed client and a missing secret the routine returns an error", "")
				}
			}
		}
		if n == 0 {
			c.Bad("R-C10-6", init, init.Pos(), "file-backed client edge", "returns an error", "no return on that edge")
		}
	}
}

func isIntType(t types.Type) bool {
	b, ok := t.Underlying().(*types.Basic)
	return ok && b.Info()&types.IsInteger != 0
}

// isFetchCall: a request to the service, made directly or by a module helper
// whose body (transitively) does.
func isFetchCall(p *eng.Prog, call *ssa.Call) bool {
	if isStoreClientInvoke(&call.Call) {
		return true
	}
	cal := eng.Callee(&call.Call)
	if cal == nil || cal.Blocks == nil || eng.FuncPkg(cal) != p.TypesPkg(setecPkg) {
		return false
	}
	if _, isW := isWaiter(eng.Unwrap(cal)); isW {
		return false
	}
	hits := p.CallGraph().FindReachable(cal, nil, func(in ssa.Instruction) bool {
		ci, ok := in.(ssa.CallInstruction)
		return ok && isStoreClientInvoke(ci.Common())
	})
	return len(hits) > 0
}

// fetchName: the string argument of a fetch (the secret name).
func fetchName(call *ssa.Call) ssa.Value {
	for _, a := range call.Call.Args {
		if isStringType(a.Type()) {
			return a
		}
	}
	return nil
}

// c10FieldBackoff: R-C10-4 when the pause is a Duration field of a back-off
// object.  Every store to that field anywhere in the package is a source: a
// constant in (0, 10s], or a doubling of the field's own value under
// field < C with 2C <= 10s.
func c10FieldBackoff(c *eng.Ctx, init *ssa.Function, w *ssa.Call, fld eng.FieldRef) {
	p := c.P
	n := 0
	sameField := func(v ssa.Value) bool {
		fr, _, isF := eng.LoadedField(v)
		return isF && fr.Name == fld.Name && types.Identical(eng.Deref(fr.Owner), eng.Deref(fld.Owner))
	}
	for _, f := range p.PkgFuncs(setecPkg) {
		for _, a := range eng.FieldAccesses(f) {
			if a.Kind != "store" || a.Field.Name != fld.Name || !types.Identical(eng.Deref(a.Field.Owner), eng.Deref(fld.Owner)) {
				continue
			}
			st, isSt := a.In.(*ssa.Store)
			if !isSt {
				continue
			}
			n++
			site := "back-off source " + eng.InstrStr(st) + " in " + eng.FName(f)
			if k, isK := eng.ConstInt(st.Val); isK {
				c.Check(time.Duration(k) > 0 && time.Duration(k) <= 10*time.Second, "R-C10-4", f, st.Pos(), site, "initial pause: positive, at most a few seconds", "")
				continue
			}
			okk := false
			detail := "not a doubling of the field"
			if b, isB := eng.Origin(st.Val).(*ssa.BinOp); isB {
				dbl := false
				if b.Op == token.ADD && sameField(b.X) && sameField(b.Y) {
					dbl = true
				}
				if b.Op == token.MUL && sameField(b.X) {
					if k, isK := eng.ConstInt(b.Y); isK && k == 2 {
						dbl = true
					}
				}
				if dbl {
					detail = "the doubling is not edge-dominated by field < constant"
					for _, cond := range eng.FactsAt(st) {
						op, x, y, isCmp := cond.Cmp()
						if !isCmp || op != token.LSS || !sameField(x) {
							continue
						}
						if cap, isK := eng.ConstInt(y); isK {
							if 2*time.Duration(cap) <= 10*time.Second {
								okk = true
							} else {
								detail = "cap " + time.Duration(cap).String() + " allows pauses up to " + (2 * time.Duration(cap)).String()
							}
						}
					}
				}
			}
			c.Check(okk, "R-C10-4", f, st.Pos(), site, "the pause only grows by doubling under v < C with 2C <= 10s (pausing at most a few seconds between rounds)", detail)
		}
	}
	if n == 0 {
		c.Bad("R-C10-4", init, w.Pos(), "wait duration field "+fld.Name, "initialised to a positive pause", "the field is never assigned: a zero pause is a busy retry")
	}
}

// backoffStepHelper: h(d) computes the next pause from the current one: each
// return is d itself, a constant in (0, 10s], or d+d / d*2 / 2*d on a path
// where d < C holds with 2C <= 10s; h has no effects.
func backoffStepHelper(h *ssa.Function) (bool, string) {
	d := ssa.Value(h.Params[0])
	pure := true
	eng.Instrs(h, func(in ssa.Instruction) {
		switch in.(type) {
		case *ssa.Store, *ssa.MapUpdate, *ssa.Send, *ssa.Go, *ssa.Defer, *ssa.Call:
			pure = false
		}
	})
	if !pure {
		return false, "the step helper " + eng.FName(h) + " is not a pure function of the pause"
	}
	for _, r := range eng.Returns(h) {
		rv := eng.RetVals(r)
		if len(rv) != 1 {
			return false, "step helper with several results"
		}
		vals := []ssa.Value{rv[0]}
		if leaves, phis := eng.PhiLeaves(eng.Origin(rv[0])); len(phis) > 0 {
			vals = nil
			for _, lf := range leaves {
				vals = append(vals, lf.Val)
			}
		}
		for _, v := range vals {
			o := eng.Origin(v)
			if o == d {
				continue
			}
			if k, isK := eng.ConstInt(o); isK && time.Duration(k) > 0 && time.Duration(k) <= 10*time.Second {
				continue
			}
			b, isB := o.(*ssa.BinOp)
			dbl := false
			if isB && b.Op == token.ADD && eng.Origin(b.X) == d && eng.Origin(b.Y) == d {
				dbl = true
			}
			if isB && b.Op == token.MUL {
				if k, isK := eng.ConstInt(b.Y); isK && k == 2 && eng.Origin(b.X) == d {
					dbl = true
				}
				if k, isK := eng.ConstInt(b.X); isK && k == 2 && eng.Origin(b.Y) == d {
					dbl = true
				}
			}
			if !dbl {
				return false, "step helper " + eng.FName(h) + " returns " + eng.ValStr(v) + ": neither the pause nor its doubling"
			}
			capped := false
			for _, f := range eng.BlockFacts(b.Block()) {
				op, x, y, isCmp := f.Cond().Cmp()
				if !isCmp || op != token.LSS || eng.Origin(x) != d {
					continue
				}
				if cap, isK := eng.ConstInt(y); isK && 2*time.Duration(cap) <= 10*time.Second {
					capped = true
				}
			}
			if !capped {
				return false, "the doubling in " + eng.FName(h) + " is not edge-dominated by pause < C with 2C <= 10s"
			}
		}
	}
	return true, ""
}

// namesRefusesNothing: with an empty result list and AllowLookup false the
// name-collecting function h has no return with a nil error (for each
// nil-error return: assuming len(the list it returns) == 0 and !AllowLookup,
// that return is unreachable).
func namesRefusesNothing(h *ssa.Function) bool {
	if h == nil || h.Blocks == nil {
		return false
	}
	ei := errResultIndex(h)
	if ei < 0 {
		return false
	}
	n := 0
	for _, r := range eng.Returns(h) {
		rv := eng.RetVals(r)
		if !eng.IsNilConst(eng.Origin(rv[ei])) {
			continue
		}
		n++
		list := rv[0]
		assume := func(b *ssa.BasicBlock, i int) bool {
			ifi, ok := b.Instrs[len(b.Instrs)-1].(*ssa.If)
			if !ok {
				return true
			}
			cond := eng.CondOf(ifi.Cond, i == 0)
			if op, x, y, isCmp := cond.Cmp(); isCmp {
				if k, isK := eng.ConstInt(y); isK && k == 0 {
					if args, isLen := eng.BuiltinCall(instrOf(eng.Origin(x)), "len"); isLen && (args[0] == list || eng.Same(args[0], list)) {
						return op == token.EQL || op == token.LEQ
					}
				}
			}
			if v, truth, isB := cond.Bool(); isB {
				if fr, _, isF := eng.LoadedField(v); isF && fr.Is(setecPkg, "StoreConfig", "AllowLookup") {
					return !truth
				}
			}
			return true
		}
		if hit, _ := eng.Search(h, nil, assume, nil, func(x ssa.Instruction) bool { return x == ssa.Instruction(r) }); hit != nil {
			return false
		}
	}
	return n > 0
}

// c10Worklist: R-C10-5 when the names still missing are kept in a slice (a
// work list) instead of being re-discovered by scanning the active set.
// Provenance: every element the list ever receives is (a) the key of a scan
// over the active set appended where its entry is nil, or (b) the element
// being fetched, appended on the failure edge of its own fetch.  Then a name
// is fetched only while it has no value; a success installs it under that
// name and leaves it out of the next round; success is reported only after a
// full pass that appended no failure.
func c10Worklist(c *eng.Ctx, init *ssa.Function, fetch *ssa.Call, ferr ssa.Value) {
	p := c.P
	name := fetchName(fetch)
	var rl *eng.RangeLoop
	for _, l := range eng.RangeLoops(init) {
		if name != nil && l.ElemOf(name) {
			ll := l
			rl = &ll
		}
	}
	if rl == nil {
		c.Undecided("R-C10-5", init, fetch.Pos(), eng.CallStr(&fetch.Call), "the fetched name is neither the key of a scan over the active set nor the element of a work list")
		return
	}
	scanKey := func(x ssa.Value, at ssa.Instruction) bool {
		for _, ml := range mapLoops(init) {
			if n, isAct := activeMapOf(ml.Range.X); !isAct || n != "m" || eng.Origin(x) != ml.Key {
				continue
			}
			for _, cond := range eng.FactsAt(at) {
				if v, isNil, isN := cond.NilCheck(); isN && isNil && eng.Origin(v) == ml.Val {
					return true
				}
			}
		}
		return false
	}
	failedElem := func(x ssa.Value, at ssa.Instruction) bool {
		if !rl.ElemOf(x) {
			return false
		}
		for _, cond := range eng.FactsAt(at) {
			if v, isNil, isE := cond.ErrCheck(); isE && !isNil && eng.Same(v, ferr) {
				return true
			}
		}
		return false
	}
	seen := map[ssa.Value]bool{}
	var failAppends []ssa.Instruction
	why := ""
	var judge func(v ssa.Value, depth int) bool
	judge = func(v ssa.Value, depth int) bool {
		o := eng.Origin(v)
		if seen[o] {
			return true
		}
		seen[o] = true
		if depth > 8 {
			return false
		}
		if eng.IsNilConst(o) {
			return true
		}
		if ph, isPhi := o.(*ssa.Phi); isPhi {
			for _, e := range ph.Edges {
				if !judge(e, depth+1) {
					return false
				}
			}
			return true
		}
		in := instrOf(o)
		args, isApp := eng.BuiltinCall(in, "append")
		if !isApp || len(args) != 2 {
			why = "the work list receives " + eng.ValStr(v)
			return false
		}
		if !judge(args[0], depth+1) {
			return false
		}
		pa := eng.Path{Blocks: []*ssa.BasicBlock{in.Block()}}
		elems, known := pa.SliceElems(args[1])
		if !known || len(elems) == 0 {
			why = "elements appended at " + p.Pos(in.Pos()) + " are not known"
			return false
		}
		for _, x := range elems {
			switch {
			case scanKey(x, in):
			case failedElem(x, in):
				failAppends = append(failAppends, in)
			default:
				why = "element " + eng.ValStr(x) + " appended at " + p.Pos(in.Pos()) + " is neither a name whose entry is nil nor the name whose fetch just failed"
				return false
			}
		}
		return true
	}
	okList := judge(rl.Slice, 0)
	// from one round to the next the list is REPLACED by the failures of the
	// round: where the loop over it is re-entered, the list is a loop-carried
	// variable whose back-edge values contain recorded failures only
	if okList {
		reentered := false
		if len(rl.Done.Instrs) > 0 {
			if hit, _ := eng.SearchBlock(init, rl.Done, nil, nil, func(x ssa.Instruction) bool { return x.Block() == rl.Header }); hit != nil {
				reentered = true
			}
		}
		if reentered {
			onlyFailures := func(v ssa.Value) bool {
				ok := true
				var walk func(v ssa.Value, depth int)
				visited := map[ssa.Value]bool{}
				walk = func(v ssa.Value, depth int) {
					o := eng.Origin(v)
					if visited[o] || depth > 8 {
						return
					}
					visited[o] = true
					if eng.IsNilConst(o) {
						return
					}
					if ph, isPhi := o.(*ssa.Phi); isPhi {
						for _, e := range ph.Edges {
							walk(e, depth+1)
						}
						return
					}
					in := instrOf(o)
					args, isApp := eng.BuiltinCall(in, "append")
					if !isApp || !isFailAppendOf(failAppends, in) {
						ok = false
						return
					}
					walk(args[0], depth+1)
				}
				walk(v, 0)
				return ok
			}
			ph, isPhi := eng.Origin(rl.Slice).(*ssa.Phi)
			if !isPhi {
				okList, why = false, "the work list is iterated again in the next round without having been replaced by that round's failures (names already obtained are fetched again)"
			} else {
				for i, e := range ph.Edges {
					if ph.Block().Dominates(ph.Block().Preds[i]) && !onlyFailures(e) {
						okList, why = false, "the list carried into the next round ("+eng.ValStr(e)+") is not made of that round's failures only"
					}
				}
			}
		}
	}
	c.Check(okList, "R-C10-5", init, fetch.Pos(), eng.CallStr(&fetch.Call)+" [only missing]", "a name is fetched only while it has no value: the work list holds names found with a nil entry and, from one round to the next, only those whose fetch failed", why)
	// success installs a fresh entry under the same name before the next element
	var install *ssa.MapUpdate
	for _, m := range eng.MapOps(init) {
		if n, isAct := activeMapOf(m.Map); isAct && n == "m" && m.Kind == "update" && !eng.IsNilConst(eng.Origin(m.Val)) {
			install = m.In.(*ssa.MapUpdate)
		}
	}
	okInst := false
	if install != nil && rl.ElemOf(install.Key) {
		if fields, mapv, isLit := eng.LiteralThroughHelper(install.Value); isLit {
			if call, idx := eng.TupleCall(mapv(fields["Secret"])); call == fetch && idx == 0 {
				okInst = true
			}
		}
	}
	hit2, path2 := eng.Search(init, fetch, eng.AssumeErr(ferr, true), func(x ssa.Instruction) bool { return install != nil && x == ssa.Instruction(install) }, func(x ssa.Instruction) bool {
		return x.Block() == rl.Header || eng.IsReturn(x)
	})
	c.Check(okInst && hit2 == nil, "R-C10-5", init, fetch.Pos(), eng.CallStr(&fetch.Call)+" [install]", "on success a fresh entry holding the fetched value is installed under the same name before moving on", func() string {
		if hit2 != nil {
			return "next element reached without install: " + p.PathStr(path2)
		}
		return "no matching install"
	}())
	// a failed fetch that does not return is recorded in the list of failures
	isFailAppend := func(x ssa.Instruction) bool {
		for _, a := range failAppends {
			if a == x {
				return true
			}
		}
		return false
	}
	hit3, path3 := eng.Search(init, fetch, eng.AssumeErr(ferr, false), isFailAppend, func(x ssa.Instruction) bool { return x.Block() == rl.Header })
	c.Check(hit3 == nil && len(failAppends) > 0, "R-C10-5", init, fetch.Pos(), "failed "+eng.CallStr(&fetch.Call), "a failed fetch that does not end the construction is recorded for the next round", func() string {
		if hit3 != nil {
			return "next element reached without recording it: " + p.PathStr(path3)
		}
		return "no append of the failed name found"
	}())
	// success only after a full pass that recorded no failure
	for _, r := range eng.Returns(init) {
		rv := eng.RetVals(r)
		if !eng.IsNilConst(eng.Origin(rv[errResultIndex(init)])) {
			continue
		}
		okk := false
		for _, cond := range eng.FactsAt(r) {
			op, x, y, isCmp := cond.Cmp()
			if !isCmp || op != token.EQL {
				continue
			}
			k, isK := eng.ConstInt(y)
			args, isLen := eng.BuiltinCall(instrOf(eng.Origin(x)), "len")
			if !isK || k != 0 || !isLen {
				continue
			}
			leaves, _ := eng.PhiLeaves(eng.Origin(args[0]))
			for _, lf := range leaves {
				if in := instrOf(eng.Origin(lf.Val)); in != nil && isFailAppend(in) {
					okk = true
				}
			}
		}
		c.Check(okk && rl.Done.Dominates(r.Block()), "R-C10-5", init, r.Pos(), eng.InstrStr(r), "success is reported only after a full pass over the work list that recorded no failure", "holding: "+eng.FactsString(r))
	}
}

func isFailAppendOf(list []ssa.Instruction, in ssa.Instruction) bool {
	for _, a := range list {
		if a == in {
			return true
		}
	}
	return false
}
