package rules

import (
	"go/types"
	"strings"

	"golang.org/x/tools/go/ssa"

	"setecvet/eng"
)

func init() {
	register(&Prop{
		ID: "C14",
		Explanation: "Decides the structural (for the data part: sufficient) condition of C14: (R-C14-1) every read or write of a field of db.kv or db.secret, and every operation on their maps, anywhere in package db, happens with db.DB.mu held (inter-procedural must-held lock sets; the constructor chain Open/openOrCreateKV/newKV is the tabled pre-publication region), with no double lock or unlock of an unheld mutex; " +
			"(R-C14-2) within one db.DB operation the mutex is not released between state accesses (one critical section per operation); (R-C14-3) no reference to shared state leaves the critical section: values are copied out by string->[]byte conversion, results contain no *secret or map; " +
			"(R-C14-4) server.Server is immutable after New and handlers write no package-level variable; (R-C14-6) no function of acl, db, audit or server outside init writes memory rooted at a package-level variable (store, map update, delete) unless an exclusive Lock() precedes it on every path; (R-C14-7) audit.Writer, which concurrent requests enter without any lock, only invokes its sink and json.Encoder.Encode over that very sink, and its fields are assigned only by the constructor (anything else must follow an exclusive Lock()); (R-C14-5) the version reported with a value is the very key its bytes were read under.  With 1-3 every operation's whole interaction with shared state lies inside one critical section between its invocation and response, hence operations are linearizable w.r.t. what the sequential code computes (C02). (R-C14-4, extended) outside New the address of a Server field is only read through and no map kept in a Server field is updated: handlers share no mutable container besides the database. (R-C14-8) the conditional get answers not-modified exactly when the versions are equal (C09's R-C09-1: the sequential specification of that operation).",
		NotDecided:  "Search over concurrent histories; the audit writer (called outside DB.mu in six of eight operations) is not part of the claim; the sequential semantics themselves (C02).",
		Trusted:     append([]string{"json.Encoder.Encode marshals into a per-call buffer and issues a single Write on its target; on success it keeps no state between calls"}, commonTrusted...),
		Assumptions: []string{"a single db.DB guards a kv (checked: kv is reachable only through DB.kv)", "calls through function values do not reach package db's private state"},
		Run:         runC14,
	})
}

func runC14(c *eng.Ctx, tier string) {
	d := loadDB(c)
	if d == nil {
		return
	}
	l := moduleLocks(c)
	p := c.P
	// R-C14-1
	for _, f := range p.PkgFuncs("db") {
		for _, a := range eng.FieldAccesses(f) {
			if !isKVState(a.Field) || freshBase(a.Base) {
				continue
			}
			st := l.HeldBefore(a.In)
			kind := "read"
			if a.Write {
				kind = "write"
			}
			c.Check(l.Holds(st, keyDB), "R-C14-1", f, a.In.Pos(), kind+" of "+locOf(a.Field)+" in "+eng.InstrStr(a.In), "db.DB.mu is held (or the kv is still private to its constructor)", "held here: "+l.StateStr(st)+"; entry state of "+f.Name()+": "+l.StateStr(l.Entry(f)))
		}
		for _, m := range eng.MapOps(f) {
			if !m.SrcOK || !isKVState(m.Src) {
				continue
			}
			st := l.HeldBefore(m.In)
			c.Check(l.Holds(st, keyDB), "R-C14-1", f, m.In.Pos(), "map "+m.Kind+" on "+locOf(m.Src)+": "+eng.InstrStr(m.In), "db.DB.mu is held", "held here: "+l.StateStr(st)+"; entry state of "+f.Name()+": "+l.StateStr(l.Entry(f)))
		}
		// range over a map keeps reading it in Next
		eng.Instrs(f, func(in ssa.Instruction) {
			nx, ok := in.(*ssa.Next)
			if !ok {
				return
			}
			rg, ok := nx.Iter.(*ssa.Range)
			if !ok {
				return
			}
			if fr, _, ok := eng.LoadedField(rg.X); ok && isKVState(fr) {
				st := l.HeldBefore(in)
				c.Check(l.Holds(st, keyDB), "R-C14-1", f, in.Pos(), "map iteration step on "+locOf(fr), "db.DB.mu is held", "held here: "+l.StateStr(st))
			}
		})
	}
	c.Floor("R-C14-1", 40)
	for _, pr := range l.Problems {
		if eng.FuncPkg(pr.Fn) == p.TypesPkg("db") {
			c.Bad("R-C14-1", pr.Fn, pr.In.Pos(), eng.InstrStr(pr.In), "mutex operations are balanced", pr.What)
		}
	}

	// R-C14-2 one critical section per operation
	for _, m := range d.methods {
		sites := d.sites(m.Fn)
		isSite := func(in ssa.Instruction) bool {
			for _, s := range sites {
				if s.In == in {
					return true
				}
			}
			return false
		}
		bad := false
		eng.Instrs(m.Fn, func(in ssa.Instruction) {
			call, ok := in.(*ssa.Call)
			if !ok {
				return
			}
			op, k, ok := eng.LockOp(&call.Call)
			if !ok || k != keyDB || (op != "Unlock" && op != "RUnlock") {
				return
			}
			// was a state access possible before this unlock, and another after?
			before := false
			for _, s := range sites {
				if s.Fn == m.Fn {
					if hit, _ := eng.Search(m.Fn, s.In, nil, nil, func(x ssa.Instruction) bool { return x == in }); hit != nil {
						before = true
					}
				}
			}
			if !before {
				return
			}
			if hit, path := eng.Search(m.Fn, in, nil, nil, isSite); hit != nil {
				bad = true
				c.Bad("R-C14-2", m.Fn, in.Pos(), "Unlock between state accesses in "+m.Name, "all state accesses of one operation lie in a single critical section", "state access "+eng.InstrStr(hit)+" at "+c.P.Pos(hit.Pos())+" follows the unlock: "+c.P.PathStr(path))
			}
		})
		// a helper of the operation with a critical section of its own: a call
		// of a function that itself takes and releases db.DB.mu and touches the
		// state, while the operation touches the state elsewhere as well
		eng.Instrs(m.Fn, func(in ssa.Instruction) {
			call, ok := in.(*ssa.Call)
			if !ok {
				return
			}
			h := eng.Callee(&call.Call)
			if !eng.IsHelper(m.Fn, h) {
				return
			}
			locks, touches := false, false
			eng.Instrs(h, func(x ssa.Instruction) {
				if ci, isCI := x.(ssa.CallInstruction); isCI {
					if op, k, isL := eng.LockOp(ci.Common()); isL && k == keyDB && (op == "Lock" || op == "RLock") {
						locks = true
					}
					if cal := eng.Callee(ci.Common()); cal != nil && d.touch[eng.Unwrap(cal)] {
						touches = true
					}
				}
			})
			if !locks || !touches {
				return
			}
			other := false
			for _, st := range sites {
				if st.Fn != h && eng.Outer(st.Fn) != h {
					other = true
				}
			}
			if other {
				bad = true
				c.Bad("R-C14-2", m.Fn, in.Pos(), "critical section of its own in "+eng.CallStr(&call.Call), "all state accesses of one operation lie in a single critical section", "the helper locks, reads the state and unlocks; "+m.Name+" accesses the state again outside that section (what it read may be stale by then)")
			}
		})
		if !bad && len(sites) > 0 {
			c.Ok("R-C14-2", m.Fn, m.Fn.Pos(), "critical section of "+m.Name, "single critical section")
		}
	}
	c.Floor("R-C14-2", 9)

	// R-C14-3 no reference escapes
	for _, f := range p.PkgFuncs("db") {
		if f.Parent() != nil {
			continue
		}
		res := f.Signature.Results()
		// what a db.DB method returns is what leaves the critical section
		// (kv is reachable only through DB, whose methods hold the lock
		// throughout; a kv-internal helper may hand a *secret to another kv
		// method)
		recvKV := f.Signature.Recv() != nil && (eng.IsNamed(f.Signature.Recv().Type(), "db", "DB") || (eng.IsNamed(f.Signature.Recv().Type(), "db", "kv") && calledFromDB(c.P, f)))
		if !recvKV {
			continue
		}
		// (an unexported helper of DB hands its result to DB's own methods
		// only; what those return is judged at their own signatures)
		if eng.IsNamed(f.Signature.Recv().Type(), "db", "DB") && f.Object() != nil && !f.Object().Exported() {
			continue
		}
		for i := 0; i < res.Len(); i++ {
			t := res.At(i).Type()
			ok := !mentionsShared(t, 0)
			c.Check(ok, "R-C14-3", f, f.Pos(), "result "+eng.TypeShort(t)+" of "+f.Name(), "methods of kv/DB return no *secret, no map and no byteString map (nothing aliasing shared state)", "result type can alias the shared state")
		}
	}
	// values leave by conversion (copy)
	n3 := 0
	for _, f := range p.PkgFuncs("db") {
		eng.Instrs(f, func(in ssa.Instruction) {
			st, ok := in.(*ssa.Store)
			if !ok {
				return
			}
			fr, ok := eng.FieldOfAddr(st.Addr)
			if !ok || !fr.Is("types/api", "SecretValue", "Value") {
				return
			}
			n3++
			cv, isConv := st.Val.(*ssa.Convert)
			okk := isConv && isStringType(cv.X.Type())
			c.Check(okk, "R-C14-3", f, in.Pos(), "SecretValue.Value = "+eng.ValStr(st.Val), "the bytes handed out are a fresh copy (string->[]byte conversion of the immutable stored value)", "not a copying conversion")
		})
	}
	if n3 == 0 {
		c.Undecided("R-C14-3", nil, 0, "construction of api.SecretValue in package db", "no store to SecretValue.Value found")
	}
	// metadata slices handed out are built fresh, never a slice kept in the shared state
	for _, f := range p.PkgFuncs("db") {
		eng.Instrs(f, func(in ssa.Instruction) {
			st, ok := in.(*ssa.Store)
			if !ok {
				return
			}
			fr, ok := eng.FieldOfAddr(st.Addr)
			if !ok || !fr.Is("types/api", "SecretInfo", "Versions") {
				return
			}
			fresh := !c.P.DependsOn(st.Val, func(v ssa.Value) bool {
				fr2, _, isF := eng.LoadedField(v)
				if !isF || !isKVState(fr2) {
					return false
				}
				_, isSlice := v.Type().Underlying().(*types.Slice)
				return isSlice
			})
			c.Check(fresh, "R-C14-3", f, in.Pos(), "SecretInfo.Versions = "+eng.ValStr(st.Val), "the version list handed out is built for this response (no slice stored in the shared state is returned: the handler marshals it after the lock is released)", "derives from a slice kept in kv/secret state")
		})
	}
	// stored element type is immutable
	if sec := p.Named("db", "secret"); sec != nil {
		st := sec.Underlying().(*types.Struct)
		for i := 0; i < st.NumFields(); i++ {
			if st.Field(i).Name() == "Versions" {
				mt, _ := st.Field(i).Type().Underlying().(*types.Map)
				c.Check(mt != nil && isStringType(mt.Elem()), "R-C14-3", nil, st.Field(i).Pos(), "element type of secret.Versions", "an immutable (string-kinded) type", "element type "+eng.TypeShort(st.Field(i).Type()))
			}
		}
	}

	// R-C14-4 server immutable after New
	newFn := p.Func("server", "New")
	for _, f := range p.PkgFuncs("server") {
		for _, a := range eng.FieldAccesses(f) {
			if a.Write && a.Kind == "store" && eng.IsNamed(a.Field.Owner, "server", "Server") {
				// (New itself, or a helper only New calls: nothing is shared yet)
				inNew := eng.Outer(f) == newFn || eng.HelperRoot(eng.Outer(f), func(x *ssa.Function) bool { return x == newFn }) == newFn
				c.Check(inNew, "R-C14-4", f, a.In.Pos(), "write of Server."+a.Field.Name, "fields of server.Server are assigned only in New", "written in "+eng.FName(f))
			}
		}
		eng.Instrs(f, func(in ssa.Instruction) {
			st, ok := in.(*ssa.Store)
			if !ok {
				return
			}
			if g, ok := st.Addr.(*ssa.Global); ok && !strings.HasPrefix(eng.Outer(f).Name(), "init") {
				c.Bad("R-C14-4", f, in.Pos(), "write of package variable "+g.Name(), "handlers keep no mutable package-level state", "stored outside init")
			}
		})
	}
	// ... and holds no mutable container of its own: outside New the address
	// of a Server field is only read through (no sync.Map / Mutex / atomic
	// method is invoked on a field in place, no map kept in a field is
	// updated).  What requests share is the database, behind its lock.
	for _, f := range p.PkgFuncs("server") {
		inNew := eng.Outer(f) == newFn || eng.HelperRoot(eng.Outer(f), func(x *ssa.Function) bool { return x == newFn }) == newFn
		if inNew {
			continue
		}
		eng.Instrs(f, func(in ssa.Instruction) {
			fa, ok := in.(*ssa.FieldAddr)
			if !ok {
				return
			}
			fr, isF := eng.FieldOfAddr(fa)
			if !isF || !eng.IsNamed(fr.Owner, "server", "Server") {
				return
			}
			// (metric counters held by value -- expvar.Int and the like -- are
			// atomic, write-only for request handling and never read back into
			// a response: the same role as the counters held by pointer)
			if nt, isN := eng.Deref(fa.Type()).(*types.Named); isN && nt.Obj().Pkg() != nil && nt.Obj().Pkg().Path() == "expvar" {
				return
			}
			var uses func(addr ssa.Value, depth int)
			uses = func(addr ssa.Value, depth int) {
				for _, r := range *addr.Referrers() {
					switch u := r.(type) {
					case *ssa.UnOp, *ssa.DebugRef:
					case *ssa.Store:
						// (judged above)
					case *ssa.FieldAddr:
						// a field of an embedded group of fields: same question one level down
						if depth < 3 {
							uses(u, depth+1)
						}
					default:
						c.Bad("R-C14-4", f, r.Pos(), "Server."+fr.Name+" used in place by "+eng.InstrStr(r), "request handling keeps no mutable state in the Server besides the database (no cache, pool or table that concurrent requests update next to it)", "field of type "+eng.TypeShort(eng.Deref(fa.Type()))+" is operated on through its address in "+eng.FName(f))
					}
				}
			}
			uses(fa, 0)
		})
		for _, m := range eng.MapOps(f) {
			if !m.IsWrite() || !m.SrcOK || !eng.IsNamed(m.Src.Owner, "server", "Server") {
				continue
			}
			c.Bad("R-C14-4", f, m.In.Pos(), eng.InstrStr(m.In), "request handling keeps no mutable state in the Server besides the database", "a map kept in Server."+m.Src.Name+" is updated in "+eng.FName(f))
		}
	}
	for _, f := range p.PkgFuncs("server") {
		if strings.HasPrefix(eng.Outer(f).Name(), "init") {
			continue
		}
		eng.Instrs(f, func(in ssa.Instruction) {
			for _, op := range in.Operands(nil) {
				g, ok := (*op).(*ssa.Global)
				if !ok || g.Pkg == nil || g.Pkg.Pkg != p.TypesPkg("server") {
					continue
				}
				t := eng.Deref(g.Type())
				okk := eng.IsNamed(t, "embed", "FS")
				if !okk {
					// a table of constants that is only ever read
					okk, _ = eng.ReadOnlyGlobal(p, g)
				}
				c.Check(okk, "R-C14-4", f, in.Pos(), "package-level variable "+g.Name()+" used in "+eng.FName(f), "request handling shares no package-level state between requests (only the embedded, read-only file systems): no pools, caches or counters that concurrent requests could observe through each other", "type "+eng.TypeShort(t))
			}
		})
	}
	c.Floor("R-C14-4", 5)

	// R-C14-5 version/bytes pairing (shared with C09)
	kvPairing(c, "R-C14-5")
	// "two puts of different values never receive the same version": C02's numbering rules
	includeOnly(c, "R-C14-5", func(sc *eng.Ctx) { runC02(sc, "quick") }, "R-C02-3")
	// "consistent with ... the sequential specification": a conditional get
	// answers not-modified exactly when the active version equals the caller's (C09's rule)
	includeOnly(c, "R-C14-8", func(sc *eng.Ctx) { runC09(sc, "quick") }, "R-C09-1")

	// R-C14-6 package-level memory of the request path (acl, db, audit,
	// server) is written only in init or under an exclusive lock
	n6 := 0
	for _, pkg := range []string{"acl", "db", "audit", "server"} {
		for _, f := range p.PkgFuncs(pkg) {
			if strings.HasPrefix(eng.Outer(f).Name(), "init") {
				continue
			}
			eng.Instrs(f, func(in ssa.Instruction) {
				var root ssa.Value
				what := ""
				switch x := in.(type) {
				case *ssa.Store:
					root, what = x.Addr, "store"
				case *ssa.MapUpdate:
					root, what = x.Map, "map update"
				default:
					if args, ok := eng.BuiltinCall(in, "delete"); ok {
						root, what = args[0], "map delete"
					} else {
						return
					}
				}
				g := globalRoot(root)
				if g == nil || g.Pkg == nil || !strings.HasPrefix(g.Pkg.Pkg.Path(), "github.com/tailscale/setec") {
					return
				}
				n6++
				isLock := func(x ssa.Instruction) bool {
					ci, ok := x.(ssa.CallInstruction)
					if !ok {
						return false
					}
					if _, isDefer := x.(*ssa.Defer); isDefer {
						return false
					}
					return eng.CalleeIs(ci.Common(), "sync", "*Mutex.Lock") || eng.CalleeIs(ci.Common(), "sync", "*RWMutex.Lock")
				}
				hit, path := eng.Search(f, nil, nil, isLock, func(x ssa.Instruction) bool { return x == in })
				c.Check(hit == nil, "R-C14-6", f, in.Pos(), what+" on package-level "+g.Name()+" in "+eng.FName(f), "memory reachable from a package-level variable is written after init only with an exclusive lock taken earlier on every path (a read lock does not exclude other writers)", func() string {
					if hit == nil {
						return ""
					}
					return "reached without Lock(): " + p.PathStr(path)
				}())
			})
		}
	}
	if n6 == 0 {
		c.Ok("R-C14-6", nil, 0, "writes through package-level variables in acl, db, audit, server outside init", "none")
	}

	// R-C14-7 the audit writer is entered by concurrent requests (checkAndLog
	// logs before taking db.DB.mu): without a lock of its own it may only use
	// operations that tolerate that
	c14Audit(c)
}

func isStringType(t types.Type) bool {
	b, ok := t.Underlying().(*types.Basic)
	return ok && b.Info()&types.IsString != 0
}

func mentionsShared(t types.Type, depth int) bool {
	if depth > 5 {
		return false
	}
	if eng.IsNamed(t, "db", "secret") || eng.IsNamed(t, "db", "kv") {
		if _, isPtr := t.Underlying().(*types.Pointer); isPtr {
			return true
		}
	}
	switch u := t.Underlying().(type) {
	case *types.Map:
		return true
	case *types.Pointer:
		return mentionsShared(u.Elem(), depth+1)
	case *types.Slice:
		return mentionsShared(u.Elem(), depth+1)
	}
	return false
}

// kvPairing: in every function of package db that builds an api.SecretValue
// from the store, Version is the very key the bytes were looked up under.
func kvPairing(c *eng.Ctx, rule string) {
	n := 0
	for _, f := range c.P.PkgFuncs("db") {
		eng.Instrs(f, func(in ssa.Instruction) {
			al, ok := in.(*ssa.Alloc)
			if !ok || !eng.IsNamed(al.Type(), "types/api", "SecretValue") {
				return
			}
			fields, _, ok := eng.LiteralFields(al)
			if !ok {
				return
			}
			n++
			val, ver := fields["Value"], fields["Version"]
			if val == nil || ver == nil {
				c.Bad(rule, f, in.Pos(), "SecretValue{...}", "both Value and Version are set from the same lookup", "a field is missing")
				return
			}
			// a small constructor helper taking the bytes and the number as
			// parameters is judged at each of its call sites
			argOf := func(cs ssa.CallInstruction, v ssa.Value) ssa.Value {
				prm, isP := eng.OriginConv(v).(*ssa.Parameter)
				if !isP || prm.Parent() != f {
					return v
				}
				for i, q := range f.Params {
					if q == prm && i < len(cs.Common().Args) {
						return cs.Common().Args[i]
					}
				}
				return v
			}
			type inst struct {
				fn       *ssa.Function
				pos      ssa.Instruction
				val, ver ssa.Value
			}
			var insts []inst
			_, valIsParam := eng.OriginConv(val).(*ssa.Parameter)
			if sites := eng.StaticCallSites(f); valIsParam && len(sites) > 0 && eng.IsHelper(sites[0].Parent(), f) {
				for _, cs := range sites {
					insts = append(insts, inst{cs.Parent(), cs, argOf(cs, val), argOf(cs, ver)})
				}
			} else {
				insts = append(insts, inst{f, in, val, ver})
			}
			n += len(insts) - 1
			if _, verIsParam := eng.OriginConv(ver).(*ssa.Parameter); verIsParam && !valIsParam {
				// one construction serving several reads (the number is handed in)
				if k := len(eng.StaticCallSites(f)); k > 1 {
					n += k - 1
				}
			}
			for _, it := range insts {
				f, in, val, ver := it.fn, it.pos, it.val, it.ver
				site := "SecretValue{Value: " + eng.ValStr(val) + ", Version: " + eng.ValStr(ver) + "}"
				src := eng.OriginConv(val)
				if ex, ok := src.(*ssa.Extract); ok && ex.Index == 0 {
					src = ex.Tuple
				}
				lk, ok := src.(*ssa.Lookup)
				if !ok {
					c.Bad(rule, f, in.Pos(), site, "Value is the element looked up in secret.Versions", "Value does not come from a map lookup")
					continue
				}
				fr, _, isF := eng.LoadedField(lk.X)
				if !isF || !fr.Is("db", "secret", "Versions") {
					c.Bad(rule, f, in.Pos(), site, "Value is the element looked up in secret.Versions", "looked up in "+eng.ValStr(lk.X))
					continue
				}
				c.Check(c.P.MemSame(lk.Index, ver), rule, f, in.Pos(), site, "Version is the very key the bytes were read under (never one version's number with another's bytes)", "bytes read under key "+eng.ValStr(lk.Index)+", reported version "+eng.ValStr(ver))
			}
		})
	}
	if n < 2 {
		c.Undecided(rule, nil, 0, "construction of api.SecretValue in package db", "expected at least two sites (active value, specific version)")
	}
}

// globalRoot follows field/index addressing and loads back to a package-level
// variable, if the memory written is rooted at one.
func globalRoot(v ssa.Value) *ssa.Global {
	for i := 0; i < 12 && v != nil; i++ {
		switch x := v.(type) {
		case *ssa.Global:
			return x
		case *ssa.FieldAddr:
			v = x.X
		case *ssa.IndexAddr:
			v = x.X
		case *ssa.UnOp:
			v = x.X
		case *ssa.Lookup:
			v = x.X
		case *ssa.Slice:
			v = x.X
		case *ssa.ChangeType:
			v = x.X
		case *ssa.Phi:
			for _, e := range x.Edges {
				if g := globalRoot(e); g != nil {
					return g
				}
			}
			return nil
		default:
			o := eng.Origin(v)
			if o == v {
				return nil
			}
			v = o
		}
	}
	return nil
}

func c14Audit(c *eng.Ctx) {
	p := c.P
	wr := p.Named("audit", "Writer")
	if wr == nil {
		c.Undecided("R-C14-7", nil, 0, "audit.Writer", "anchor does not resolve")
		return
	}
	isLock := func(x ssa.Instruction) bool {
		ci, ok := x.(ssa.CallInstruction)
		if !ok {
			return false
		}
		if _, isDefer := x.(*ssa.Defer); isDefer {
			return false
		}
		return eng.CalleeIs(ci.Common(), "sync", "*Mutex.Lock") || eng.CalleeIs(ci.Common(), "sync", "*RWMutex.Lock")
	}
	locked := func(f *ssa.Function, in ssa.Instruction) bool {
		hit, _ := eng.Search(f, nil, nil, isLock, func(x ssa.Instruction) bool { return x == in })
		return hit == nil
	}
	fromWriterField := func(v ssa.Value) (string, bool) {
		v = eng.Origin(v)
		if ex, ok := v.(*ssa.Extract); ok {
			if ta, isTA := ex.Tuple.(*ssa.TypeAssert); isTA {
				v = eng.Origin(ta.X)
			}
		}
		if ta, isTA := v.(*ssa.TypeAssert); isTA {
			v = eng.Origin(ta.X)
		}
		fr, _, isF := eng.LoadedField(v)
		if isF && eng.IsNamed(fr.Owner, "audit", "Writer") {
			return fr.Name, true
		}
		return "", false
	}
	n := 0
	var ctor []*ssa.Function
	for _, f := range p.PkgFuncs("audit") {
		recvIsWriter := f.Signature.Recv() != nil && eng.IsNamed(f.Signature.Recv().Type(), "audit", "Writer")
		if !recvIsWriter {
			// constructors: functions that build a Writer literal
			eng.Instrs(f, func(in ssa.Instruction) {
				if al, ok := in.(*ssa.Alloc); ok && eng.IsNamed(al.Type(), "audit", "Writer") {
					ctor = append(ctor, f)
				}
			})
			continue
		}
		for _, a := range eng.FieldAccesses(f) {
			if a.Write && a.Kind == "store" && eng.IsNamed(a.Field.Owner, "audit", "Writer") {
				n++
				c.Check(locked(f, a.In), "R-C14-7", f, a.In.Pos(), "write of Writer."+a.Field.Name+" in "+eng.FName(f), "fields of audit.Writer are assigned only by its constructor (or under an exclusive lock of the Writer)", "unlocked store")
			}
		}
		eng.Instrs(f, func(in ssa.Instruction) {
			ci, ok := in.(ssa.CallInstruction)
			if !ok {
				return
			}
			cc := ci.Common()
			var recv ssa.Value
			if cc.IsInvoke() {
				recv = cc.Value
			} else if len(cc.Args) > 0 && cc.StaticCallee() != nil && cc.StaticCallee().Signature.Recv() != nil {
				recv = cc.Args[0]
			} else {
				return
			}
			fld, isW := fromWriterField(recv)
			if !isW {
				return
			}
			n++
			okk := cc.IsInvoke() || eng.CalleeIs(cc, "encoding/json", "*Encoder.Encode") || locked(f, in)
			c.Check(okk, "R-C14-7", f, in.Pos(), eng.CallStr(cc)+" on Writer."+fld, "without a lock of its own the audit writer only invokes its sink (Write/Sync/Close of the io.Writer it was given) and json.Encoder.Encode, which issues one Write per entry; any other stateful helper (a bufio.Writer, a counter, a scratch buffer) shared by concurrent requests is a data race", "stateful operation on shared Writer state without an exclusive lock")
		})
	}
	// the encoder writes straight to the sink
	for _, f := range ctor {
		var sinkVal ssa.Value
		for _, a := range eng.FieldAccesses(f) {
			if a.Kind == "store" && eng.IsNamed(a.Field.Owner, "audit", "Writer") {
				if st, ok := a.In.(*ssa.Store); ok {
					if _, isIface := st.Val.Type().Underlying().(*types.Interface); isIface {
						sinkVal = st.Val
					}
				}
			}
		}
		eng.Instrs(f, func(in ssa.Instruction) {
			call, ok := in.(*ssa.Call)
			if !ok || !eng.CalleeIs(&call.Call, "encoding/json", "NewEncoder") {
				return
			}
			n++
			// (the very value kept as the sink, or the constructor's own io.Writer argument)
			direct := sinkVal != nil && eng.Same(call.Call.Args[0], sinkVal)
			if prm, isP := eng.Origin(call.Call.Args[0]).(*ssa.Parameter); isP && prm.Parent() == f {
				if _, isIface := prm.Type().Underlying().(*types.Interface); isIface {
					direct = true
				}
			}
			c.Check(direct, "R-C14-7", f, in.Pos(), eng.CallStr(&call.Call), "the encoder writes directly to the sink the Writer was given (one Write per entry, nothing buffered between concurrent requests)", "encoder target "+eng.ValStr(call.Call.Args[0]))
		})
	}
	if n < 3 {
		c.Undecided("R-C14-7", nil, 0, "audit.Writer operations", "fewer than 3 sites found")
	}
}

// calledFromDB: the kv method is called directly by a method of db.DB (its
// results are handed to the layer that returns them to the caller).
func calledFromDB(p *eng.Prog, f *ssa.Function) bool {
	for _, e := range p.CallGraph().CallersOf(f) {
		if r := eng.Outer(e.Caller).Signature.Recv(); r != nil && eng.IsNamed(r.Type(), "db", "DB") {
			return true
		}
	}
	return false
}
