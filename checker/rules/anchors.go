package rules

import (
	"go/types"
	"strings"

	"golang.org/x/tools/go/ssa"

	"setecvet/eng"
)

// Unexported functions are found by what they do, not by what they are
// called: each anchor has a predicate; if exactly one declared function of the
// package satisfies it, that function is the anchor whatever its name; if
// none or several do, the pinned name is tried.  (Exported API names are
// looked up directly: renaming those is not a refactoring.)

type anchorPred func(p *eng.Prog, f *ssa.Function) bool

func recvIs(f *ssa.Function, pkg, typ string) bool {
	r := f.Signature.Recv()
	return r != nil && eng.IsNamed(r.Type(), pkg, typ)
}

func resultIs(f *ssa.Function, i int, pred func(types.Type) bool) bool {
	rs := f.Signature.Results()
	return i < rs.Len() && pred(rs.At(i).Type())
}

func hasInstr(f *ssa.Function, deep bool, pred func(ssa.Instruction) bool) bool {
	found := false
	visit := func(in ssa.Instruction) {
		if pred(in) {
			found = true
		}
	}
	if deep {
		eng.InstrsTree(f, func(_ *ssa.Function, in ssa.Instruction) { visit(in) })
	} else {
		eng.Instrs(f, visit)
	}
	return found
}

func callsWhere(pred func(cc *ssa.CallCommon) bool) func(ssa.Instruction) bool {
	return func(in ssa.Instruction) bool {
		ci, ok := in.(ssa.CallInstruction)
		return ok && pred(ci.Common())
	}
}

var anchorPreds = map[string]anchorPred{
	"client/setec:(*Store).poll": func(p *eng.Prog, f *ssa.Function) bool {
		// the function looping over a snapshot of the active set and asking the
		// service about each name (itself or through a helper)
		if !recvIs(f, setecPkg, "Store") {
			return false
		}
		loops := false
		for _, l := range entryLoops(f) {
			if call, _ := eng.TupleCall(eng.OriginX(l.Src())); call != nil {
				if cal := eng.Callee(&call.Call); cal != nil && returnsSnapshot(p, cal) {
					loops = true
				}
			}
		}
		if !loops {
			return false
		}
		for _, in := range allCalls(f) {
			if call, ok := in.(*ssa.Call); ok && isFetchCall(p, call) {
				return true
			}
		}
		return false
	},
	"client/setec:StoreConfig.secretNames": func(p *eng.Prog, f *ssa.Function) bool {
		// (the name list, the parsed structs, an error -- as three results,
		// or the first two bundled in a struct)
		if !recvIs(f, setecPkg, "StoreConfig") {
			return false
		}
		n := f.Signature.Results().Len()
		if n == 3 {
			return resultIs(f, 0, func(t types.Type) bool { return namesKind(t) == "names" })
		}
		if n == 2 && resultIs(f, 1, eng.IsErrorType) {
			return resultIs(f, 0, func(t types.Type) bool {
				st, ok := t.Underlying().(*types.Struct)
				if !ok {
					return false
				}
				for i := 0; i < st.NumFields(); i++ {
					if namesKind(st.Field(i).Type()) == "names" {
						return true
					}
				}
				return false
			})
		}
		return false
	},
	"client/setec:(*Store).isActiveSetValid": func(p *eng.Prog, f *ssa.Function) bool {
		// the validity gate: a bool over the active set (a method of the
		// store, or a function given the map), nothing else
		// (answering with a bool, or with an error naming the first defect)
		if len(f.Params) != 1 || f.Signature.Results().Len() != 1 || !(resultIs(f, 0, func(t types.Type) bool { return types.Identical(t.Underlying(), types.Typ[types.Bool]) }) || resultIs(f, 0, eng.IsErrorType)) {
			return false
		}
		// it only inspects: no request, no write of the set
		if resultIs(f, 0, eng.IsErrorType) {
			pure := true
			eng.Instrs(f, func(in ssa.Instruction) {
				switch x := in.(type) {
				case *ssa.MapUpdate:
					pure = false
				case *ssa.Store:
					// (stores into fresh local memory -- the argument array of fmt.Errorf -- are fine)
					if !freshBase(x.Addr) {
						if ia, isIA := x.Addr.(*ssa.IndexAddr); !isIA || !freshBase(ia.X) {
							pure = false
						}
					}
				case ssa.CallInstruction:
					if x.Common().IsInvoke() {
						pure = false
					}
				}
			})
			if !pure {
				return false
			}
		}
		for _, l := range mapLoops(f) {
			if isActiveSetValue(l.Range.X) {
				return true
			}
		}
		return false
	},
	"client/setec:(*Store).initializeActive": func(p *eng.Prog, f *ssa.Function) bool {
		// the construction-time fetch loop: iterates the active set and asks the service
		if !recvIs(f, setecPkg, "Store") || f.Signature.Results().Len() != 1 || !resultIs(f, 0, eng.IsErrorType) {
			return false
		}
		loops := false
		for _, l := range mapLoops(f) {
			if n, isAct := activeMapOf(l.Range.X); isAct && n == "m" {
				loops = true
			}
		}
		if !loops {
			return false
		}
		for _, in := range allCalls(f) {
			if call, ok := in.(*ssa.Call); ok && isFetchCall(p, call) {
				return true
			}
		}
		return false
	},
	"client/setec:(*Store).run": func(p *eng.Prog, f *ssa.Function) bool {
		// the poller: the method NewStore starts with `go`
		if !recvIs(f, setecPkg, "Store") {
			return false
		}
		ns := p.Func(setecPkg, "NewStore")
		if ns == nil {
			return false
		}
		return hasInstr(ns, true, func(in ssa.Instruction) bool {
			g, ok := in.(*ssa.Go)
			return ok && eng.Callee(g.Common()) == f
		})
	},
	"client/setec:(*Store).loadCache": func(p *eng.Prog, f *ssa.Function) bool {
		return recvIs(f, setecPkg, "Store") && hasInstr(f, false, callsWhere(func(cc *ssa.CallCommon) bool {
			return cc.IsInvoke() && cc.Method.Name() == "Read" && eng.IsNamed(cc.Value.Type(), setecPkg, "Cache")
		}))
	},
	"client/setec:(*Store).lookupWatcher": func(p *eng.Prog, f *ssa.Function) bool {
		return recvIs(f, setecPkg, "Store") && f.Signature.Results().Len() == 2 && resultIs(f, 0, func(t types.Type) bool {
			return eng.IsNamed(t, setecPkg, "watcher") || eng.IsNamed(t, setecPkg, "Watcher")
		}) && !(f.Object() != nil && f.Object().Exported())
	},
	"client/setec:(*cachedSecret).lastAccessTime": func(p *eng.Prog, f *ssa.Function) bool {
		return recvIs(f, setecPkg, "cachedSecret") && f.Signature.Results().Len() == 1 && resultIs(f, 0, func(t types.Type) bool { return eng.IsNamed(t, "time", "Time") })
	},
	"client/setec:watcher.notify": func(p *eng.Prog, f *ssa.Function) bool {
		if !recvIs(f, setecPkg, "watcher") || len(f.Params) != 1 {
			return false
		}
		return hasInstr(f, false, func(in ssa.Instruction) bool {
			if _, ok := in.(*ssa.Send); ok {
				return true
			}
			if sel, ok := in.(*ssa.Select); ok {
				for _, st := range sel.States {
					if st.Dir == types.SendOnly {
						return true
					}
				}
			}
			return false
		})
	},
	"client/setec:fieldInfo.apply": func(p *eng.Prog, f *ssa.Function) bool {
		// the method of a field descriptor that assigns the field (the
		// reflective Set, itself or through a helper) and is called by
		// Fields.Apply for every field
		if !recvIs(f, setecPkg, "fieldInfo") || f.Signature.Results().Len() != 1 || !resultIs(f, 0, eng.IsErrorType) {
			return false
		}
		sets := false
		eng.InstrsDeep(f, func(_ *ssa.Function, in ssa.Instruction) {
			if call, ok := in.(*ssa.Call); ok {
				if cal := call.Call.StaticCallee(); cal != nil && cal.Pkg != nil && cal.Pkg.Pkg.Path() == "reflect" && strings.HasPrefix(cal.Name(), "Set") {
					sets = true
				}
			}
		})
		if !sets || p.CallGraph() == nil {
			return false
		}
		for _, e := range p.CallGraph().CallersOf(f) {
			if recvIs(eng.Outer(e.Caller), setecPkg, "Fields") {
				return true
			}
		}
		return false
	},
	"client/setec:parseFields": func(p *eng.Prog, f *ssa.Function) bool {
		return f.Signature.Recv() == nil && f.Signature.Results().Len() == 2 && resultIs(f, 0, func(t types.Type) bool {
			sl, ok := t.Underlying().(*types.Slice)
			return ok && eng.IsNamed(sl.Elem(), setecPkg, "fieldInfo")
		})
	},
	"client/setec:checkUnmarshal": func(p *eng.Prog, f *ssa.Function) bool {
		if f.Signature.Recv() != nil || f.Signature.Params().Len() != 1 || !eng.IsNamed(f.Signature.Params().At(0).Type(), "reflect", "Value") {
			return false
		}
		return resultIs(f, 0, func(t types.Type) bool { _, ok := t.Underlying().(*types.Signature); return ok })
	},
	"client/setec:do": func(p *eng.Prog, f *ssa.Function) bool {
		// the generic request function: builds the request (itself or in a
		// helper) and decodes the answer into its type parameter
		if f.Signature.Recv() != nil || f.TypeParams().Len() == 0 {
			return false
		}
		found := false
		eng.InstrsDeep(f, func(_ *ssa.Function, in ssa.Instruction) {
			if ci, ok := in.(ssa.CallInstruction); ok {
				cc := ci.Common()
				if eng.CalleeIs(cc, "net/http", "NewRequestWithContext") || eng.CalleeIs(cc, "net/http", "NewRequest") {
					found = true
				}
			}
		})
		return found
	},
	"server:(*Server).getIdentity": func(p *eng.Prog, f *ssa.Function) bool {
		return recvIs(f, "server", "Server") && f.Signature.Results().Len() == 2 && resultIs(f, 0, func(t types.Type) bool { return eng.IsNamed(t, "db", "Caller") }) && resultIs(f, 1, eng.IsErrorType)
	},
	"server:(*Server).doBackup": func(p *eng.Prog, f *ssa.Function) bool {
		// the method that reads the database file and uploads it (either step
		// possibly in a helper); of nested candidates the innermost one
		both := func(g *ssa.Function) bool {
			read, put := false, false
			eng.InstrsDeep(g, func(_ *ssa.Function, in ssa.Instruction) {
				ci, ok := in.(ssa.CallInstruction)
				if !ok {
					return
				}
				cc := ci.Common()
				if eng.CalleeIs(cc, "os", "ReadFile") {
					read = true
				}
				n := ""
				if cc.IsInvoke() {
					n = cc.Method.Name()
				} else if sc := cc.StaticCallee(); sc != nil {
					n = sc.Name()
				}
				if n == "PutObject" {
					put = true
				}
			})
			return read && put
		}
		if !recvIs(f, "server", "Server") || !both(f) {
			return false
		}
		inner := false
		eng.InstrsDeep(f, func(g *ssa.Function, _ ssa.Instruction) {
			if g != f && g.Parent() == nil && both(g) {
				inner = true
			}
		})
		return !inner
	},
	"server:serveJSON": func(p *eng.Prog, f *ssa.Function) bool {
		// the generic front door: takes the handler as a function value and json-decodes the body
		if f.Signature.Recv() != nil || f.TypeParams().Len() == 0 {
			return false
		}
		hasFn := false
		for _, prm := range f.Params {
			if _, ok := prm.Type().Underlying().(*types.Signature); ok {
				hasFn = true
			}
		}
		return hasFn
	},
	"cmd/setec:runPut": func(p *eng.Prog, f *ssa.Function) bool {
		return f.Signature.Recv() == nil && hasInstr(f, false, callsWhere(func(cc *ssa.CallCommon) bool { return eng.CalleeIs(cc, setecPkg, "Client.Put") }))
	},
	"cmd/setec:checkPutText": func(p *eng.Prog, f *ssa.Function) bool {
		if f.Signature.Recv() != nil || f.Signature.Params().Len() != 1 || !isByteSlice(f.Signature.Params().At(0).Type()) || f.Signature.Results().Len() != 2 {
			return false
		}
		return hasInstr(f, false, callsWhere(func(cc *ssa.CallCommon) bool { return eng.CalleeIs(cc, "unicode/utf8", "Valid") }))
	},
}

func allCalls(f *ssa.Function) []ssa.Instruction {
	var out []ssa.Instruction
	eng.Instrs(f, func(in ssa.Instruction) {
		if _, ok := in.(ssa.CallInstruction); ok {
			out = append(out, in)
		}
	})
	return out
}

var anchorCache = map[*eng.Prog]map[string]*ssa.Function{}

// anchor resolves pkg:name (name as p.Func takes it) by role, then by name.
func anchor(p *eng.Prog, pkg, name string) *ssa.Function {
	key := pkg + ":" + name
	if m, ok := anchorCache[p]; ok {
		if f, ok := m[key]; ok {
			return f
		}
	} else {
		anchorCache[p] = map[string]*ssa.Function{}
	}
	var res *ssa.Function
	if pred, ok := anchorPreds[key]; ok {
		var cands []*ssa.Function
		for _, f := range p.PkgFuncs(pkg) {
			if f.Parent() != nil || f.Synthetic != "" || strings.HasPrefix(f.Name(), "init") {
				continue
			}
			if o := f.Origin(); o != nil && o != f {
				continue // instantiation: the generic body is the anchor
			}
			if pred(p, f) {
				cands = append(cands, f)
			}
		}
		if len(cands) == 1 {
			res = cands[0]
		}
	}
	if res == nil {
		res = p.Func(pkg, name)
	}
	anchorCache[p][key] = res
	return res
}

// AnchorSelfCheck reports anchors whose predicate does not select exactly the
// pinned name (development aid).
func AnchorSelfCheck(p *eng.Prog) []string {
	var out []string
	for key := range anchorPreds {
		i := strings.Index(key, ":")
		pkg, name := key[:i], key[i+1:]
		byName := p.Func(pkg, name)
		delete(anchorCache, p)
		got := anchor(p, pkg, name)
		n := 0
		for _, f := range p.PkgFuncs(pkg) {
			if f.Parent() != nil || f.Synthetic != "" {
				continue
			}
			if o := f.Origin(); o != nil && o != f {
				continue
			}
			if anchorPreds[key](p, f) {
				n++
			}
		}
		st := "ok"
		if byName == nil || got != byName || n != 1 {
			st = "MISMATCH"
		}
		out = append(out, st+" "+key+" candidates="+itoa(n)+" by-name="+eng.FName(byName)+" by-role="+eng.FName(got))
	}
	return out
}

// isActiveSetValue: v is the store's map of entries: a load of the guarded
// group's map to *cachedSecret, or a parameter of that map type whose
// argument at its single call site is.
func isActiveSetValue(v ssa.Value) bool {
	if n, isAct := activeMapOf(v); isAct && n == "m" {
		return true
	}
	if prm, isP := eng.Origin(v).(*ssa.Parameter); isP {
		if mt, isMap := prm.Type().Underlying().(*types.Map); isMap {
			if pt, isPtr := mt.Elem().(*types.Pointer); isPtr && eng.IsNamed(pt.Elem(), setecPkg, "cachedSecret") {
				ox := eng.OriginX(prm)
				if ox != ssa.Value(prm) {
					n, isAct := activeMapOf(ox)
					return isAct && n == "m"
				}
			}
		}
	}
	return false
}

// namesKind: which part of the name collection's answer has type t: "names"
// ([]string), "fields" (the parsed structs) or "".
func namesKind(t types.Type) string {
	sl, ok := t.Underlying().(*types.Slice)
	if !ok {
		return ""
	}
	if isStringType(sl.Elem()) {
		return "names"
	}
	if eng.IsNamed(sl.Elem(), setecPkg, "Fields") {
		return "fields"
	}
	return ""
}

// namesPartOf: v is (part of) the answer of a call of the name collection:
// one of its results, or a field of the struct bundling them.
func namesPartOf(v ssa.Value) (call *ssa.Call, part string) {
	v = eng.OriginX(v)
	if f, ok := v.(*ssa.Field); ok {
		if c, _ := eng.TupleCall(eng.Origin(f.X)); c != nil {
			return c, namesKind(f.Type())
		}
		return nil, ""
	}
	if _, base, isF := eng.LoadedField(v); isF {
		b := eng.Origin(base)
		if al, isAl := b.(*ssa.Alloc); isAl {
			if sts := eng.CellStores(al); len(sts) == 1 {
				b = eng.Origin(sts[0].Val)
			}
		}
		if c, _ := eng.TupleCall(b); c != nil {
			return c, namesKind(v.Type())
		}
		return nil, ""
	}
	if c, _ := eng.TupleCall(v); c != nil {
		return c, namesKind(v.Type())
	}
	return nil, ""
}

// namesReturned: the value of the given part in a return of the name
// collection (a result, or a field of the struct literal returned).
func namesReturned(r *ssa.Return, part string) ssa.Value {
	for _, v := range eng.RetVals(r) {
		if namesKind(v.Type()) == part {
			return v
		}
		if fields, _, ok := eng.LiteralFields(eng.Origin(v)); ok {
			for _, fv := range fields {
				if namesKind(fv.Type()) == part {
					return fv
				}
			}
		}
	}
	return nil
}
