package rules

import (
	"go/token"
	"go/types"
	"strings"

	"golang.org/x/tools/go/ssa"

	"setecvet/eng"
)

func init() {
	register(&Prop{
		ID: "C08",
		Explanation: "Decides structural necessary conditions of C08: (R-C08-1) in serveJSON the invocation of the handler function is edge-dominated by five gates -- Method == POST, Content-Type == application/json, Sec-X-Tailscale-No-Browsers == setec, nil error of getIdentity(r), nil error of decoding the body into the value passed on -- the identity gate precedes the decode, and every failing gate answers through http.Error with a constant non-2xx status; " +
			"(R-C08-2) the only routes to a db.DB operation outside package db are the function literals handed to serveJSON and List in the HTML page (itself behind Method == GET and a nil identity error); every handler registered under /api/ is a method consisting of one serveJSON call; (R-C08-3) getIdentity returns a nil error only past the nil edges of ParseAddrPort, WhoIs and the capability unmarshal, and only for a tagged node or a non-empty login; " +
			"(R-C08-4) status table: ErrAccessDenied -> 403, ErrNotFound -> 404, ErrValueNotChanged -> 304 with no body written on that path, any other error -> a constant 4xx/5xx, 200 and the only write of response data only under nil errors of the handler and of Marshal; the client maps 404/403/304 back to the same three sentinels; " +
			"(R-C08-5) every http.Error text in package server is a constant and the handler's result flows only to json.Marshal and from there to the 200 body; (R-C08-7) every error handed to fmt.Errorf on the request path of package db is wrapped with %w, so the sentinels the table tests survive; (R-C08-8) in the store, the absent-secret and absent-version edges of every accessor (other than creation and the documented no-op delete) return an error built from ErrNotFound; (R-C08-6) the client sends the method and the two header values the gate compares with. (R-C08-10) the store answers not-modified exactly for the active version (C09's R-C09-1), which is what the 304 row maps.",
		NotDecided:  "How encoding/json treats odd bodies (trusted); the tailnet's answers themselves.",
		Trusted:     append([]string{"net/http.Error writes the given status", "errors.Is semantics"}, commonTrusted...),
		Assumptions: []string{},
		Run:         runC08,
	})
}

func headerGet(v ssa.Value) (name string, ok bool) {
	call, _ := eng.TupleCall(v)
	if call == nil || !eng.CalleeIs(&call.Call, "net/http", "Header.Get") {
		return "", false
	}
	fr, _, isF := eng.LoadedField(call.Call.Args[0])
	if !isF || fr.Name != "Header" {
		return "", false
	}
	return eng.ConstString(call.Call.Args[1])
}

func runC08(c *eng.Ctx, tier string) {
	p := c.P
	sj := anchor(p, "server", "serveJSON")
	getIdentity := anchor(p, "server", "(*Server).getIdentity")
	if sj == nil || getIdentity == nil || len(sj.Params) != 4 {
		c.Undecided("anchor", nil, 0, "server.serveJSON / (*Server).getIdentity", "anchors do not resolve")
		return
	}
	rP, fnP := sj.Params[2], sj.Params[3]
	var fnCall *ssa.Call
	eng.Instrs(sj, func(in ssa.Instruction) {
		if call, ok := in.(*ssa.Call); ok && eng.Origin(call.Call.Value) == ssa.Value(fnP) {
			fnCall = call
		}
	})
	if fnCall == nil {
		c.Undecided("R-C08-1", sj, sj.Pos(), "invocation of the handler function", "not found")
		return
	}
	// R-C08-1
	var idCall, decCall *ssa.Call
	gates := map[string]bool{}
	// (a gate may sit in a boolean helper whose true answer is tested here;
	// a helper shared with the HTML page is judged at its call in serveJSON)
	eng.SetRoot(sj)
	for _, cond := range eng.FactsX(fnCall) {
		if op, x, y, isCmp := cond.Cmp(); isCmp && op == token.EQL {
			if s, isC := eng.ConstString(y); isC {
				if fr, base, isF := eng.LoadedField(x); isF && fr.Name == "Method" && eng.OriginX(base) == eng.OriginX(rP) && s == "POST" {
					gates["method"] = true
				}
				if h, isH := headerGet(x); isH {
					if h == "Content-Type" && s == "application/json" {
						gates["content-type"] = true
					}
					if h == "Sec-X-Tailscale-No-Browsers" && s == "setec" {
						gates["no-browsers"] = true
					}
				}
			}
		}
		if v, isNil, isE := cond.ErrCheck(); isE && isNil {
			call0, _ := eng.TupleCall(v)
			cands := []*ssa.Call{call0}
			if call0 != nil {
				// (the error tested may be that of a call inside a helper that hands it on)
				if inner := eng.ErrorSource(call0); inner != nil {
					cands = append(cands, inner)
				}
			}
			for _, call := range cands {
				if call == nil {
					continue
				}
				if eng.Callee(&call.Call) == getIdentity && identityRequest(call) != nil && eng.OriginX(identityRequest(call)) == eng.OriginX(rP) {
					gates["identity"] = true
					idCall = call
				}
				if eng.CalleeIs(&call.Call, "encoding/json", "*Decoder.Decode") {
					// decodes r.Body into the value passed to fn
					target := call.Call.Args[1]
					if mi, isMI := target.(*ssa.MakeInterface); isMI {
						target = mi.X
					}
					reqOK := false
					var reqArg ssa.Value
					for _, fa := range fnCall.Call.Args {
						if !eng.IsNamed(fa.Type(), "db", "Caller") && reqArg == nil {
							reqArg = fa
						}
					}
					if reqArg != nil {
						if u, isU := reqArg.(*ssa.UnOp); isU && u.X == target {
							reqOK = true
						}
						// (decoded by a helper that returns the value it decoded into;
						// instantiation wrappers in between are looked through)
						cur := reqArg
						for i := 0; i < 3; i++ {
							inner, hc := eng.ThroughHelper(cur, func(g *ssa.Function) bool { return g.Blocks != nil })
							if inner == nil || hc == nil || !eng.IsHelper(hc.Parent(), eng.Callee(&hc.Call)) {
								break
							}
							if eng.Callee(&hc.Call) == call.Parent() {
								if u, isU := eng.Origin(inner).(*ssa.UnOp); isU && u.X == target {
									reqOK = true
								} else if u, isU := inner.(*ssa.UnOp); isU && u.X == target {
									reqOK = true
								}
								break
							}
							cur = inner
						}
					}
					bodyOK := p.DependsOn(call.Call.Args[0], func(v ssa.Value) bool {
						fr, base, isF := eng.LoadedField(v)
						return isF && fr.Name == "Body" && (eng.Origin(base) == ssa.Value(rP) || eng.OriginX(base) == eng.OriginX(rP))
					})
					if reqOK && bodyOK {
						gates["decode"] = true
						decCall = call
					}
				}
			}
		}
	}
	for _, g := range []struct{ k, want string }{
		{"method", "r.Method == \"POST\""}, {"content-type", "Content-Type == \"application/json\""}, {"no-browsers", "Sec-X-Tailscale-No-Browsers == \"setec\""},
		{"identity", "nil error of s.getIdentity(r)"}, {"decode", "nil error of decoding r.Body into the request value passed to the handler"},
	} {
		c.Check(gates[g.k], "R-C08-1", sj, fnCall.Pos(), "gate before the handler: "+g.want, "the handler invocation is edge-dominated by "+g.want, "holding: "+factsStr(eng.FactsX(fnCall)))
	}
	if idCall != nil && decCall != nil {
		okOrder := false
		for _, cond := range eng.FactsX(decCall) {
			if v, isNil, isE := cond.ErrCheck(); isE && isNil && (eng.Same(v, saveErr(idCall)) || eng.Origin(v) == saveErr(idCall)) {
				okOrder = true
			}
		}
		c.Check(okOrder, "R-C08-1", sj, decCall.Pos(), "order identity -> decode", "the body is decoded only after the caller was identified (unidentified callers get their answer before the body is looked at)", "")
	}
	// failing gates answer through http.Error with a constant non-2xx status: every return not dominated by ... -> handled in status table below

	// R-C08-4 / R-C08-5: every http.Error in package server
	nErr := 0
	replies := errReplies(p, "server")
	for _, r := range replies {
		if r.Text == nil {
			continue
		}
		nErr++
		via := ""
		if r.Via != "" {
			via = " (through " + strings.TrimSpace(r.Via) + ")"
		}
		_, isC := eng.ConstString(r.Text)
		code, isK := eng.ConstInt(r.Code)
		// (text and status may come from a local table of known failures: every row counts)
		if col, isT := eng.TableColumn(r.Text); !isC && isT {
			isC = true
			for _, v := range col {
				if _, ok := eng.ConstString(v); !ok {
					isC = false
				}
			}
		}
		if col, isT := eng.TableColumn(r.Code); !isK && isT {
			isK = true
			for _, v := range col {
				k, ok := eng.ConstInt(v)
				if !ok || k < 400 || k > 599 {
					isK = false
				}
				code = k
			}
		}
		c.Check(isC, "R-C08-5", r.Fn, r.In.Pos(), "http.Error text "+eng.ValStr(r.Text)+via, "error replies carry constant text only (no secret bytes, no error strings)", "non-constant text")
		c.Check(isK && code >= 400 && code <= 599, "R-C08-4", r.Fn, r.In.Pos(), "http.Error status "+eng.ValStr(r.Code)+via, "a constant 4xx/5xx status", "")
	}
	if nErr < 8 {
		c.Undecided("R-C08-4", nil, 0, "http.Error sites in package server", "fewer than 8 found")
	}
	// every return of serveJSON before the handler call goes through http.Error
	for _, r := range eng.Returns(sj) {
		if eng.InstrDominates(fnCall, r) {
			continue
		}
		hasErr := false
		for _, in := range r.Block().Instrs {
			if er, ok := errReplyIn(replies, in); ok && er.Text != nil {
				hasErr = true
			}
		}
		// or the refusal was answered inside the boolean gate helper whose
		// negative answer leads here: every path of it that answers so has
		// passed an error reply
		for _, cond := range eng.FactsAt(r) {
			call, ridx, truth, isCall := cond.BoolCall()
			if !isCall || !eng.IsHelper(sj, eng.Callee(&call.Call)) {
				continue
			}
			h := eng.Callee(&call.Call)
			answered := true
			found := false
			if ridx < 0 {
				ridx = 0 // the helper's single result
			}
			for _, hr := range eng.Returns(h) {
				if ridx >= len(eng.RetVals(hr)) {
					continue
				}
				k, isC := eng.Origin(eng.RetVals(hr)[ridx]).(*ssa.Const)
				if isC && k.Value != nil && (k.Value.String() == "true") != truth {
					continue
				}
				found = true
				hit, _ := eng.Search(h, nil, nil, func(x ssa.Instruction) bool {
					er, ok := errReplyIn(replies, x)
					return ok && er.Text != nil
				}, func(x ssa.Instruction) bool { return x == ssa.Instruction(hr) })
				if hit != nil {
					answered = false
				}
			}
			if found && answered {
				hasErr = true
			}
		}
		c.Check(hasErr, "R-C08-1", sj, r.Pos(), "refusal return before the handler", "answers through http.Error (non-2xx)", "returns without an error reply")
	}
	eng.SetRoot(nil)
	// status table after fn
	ferr := saveErr(fnCall)
	statusOn := func(pkgrel, name string) (int64, *ssa.BasicBlock, bool) {
		var code int64
		var blk *ssa.BasicBlock
		found := false
		// (the table may live in a helper serveJSON hands the error to)
		eng.InstrsDeep(sj, func(_ *ssa.Function, in ssa.Instruction) {
			ifi, ok := in.(*ssa.If)
			if !ok {
				return
			}
			call, _, _, isCall := eng.CondOf(ifi.Cond, true).BoolCall()
			if !isCall || !eng.CalleeIs(&call.Call, "errors", "Is") || !eng.SameX(call.Call.Args[0], ferr) {
				return
			}
			row := -1
			if !eng.IsGlobalLoad(call.Call.Args[1], pkgrel, name) {
				// a row of a local (sentinel, status, ...) table scanned in order
				col, isT := eng.TableColumn(call.Call.Args[1])
				if !isT {
					return
				}
				for i, v := range col {
					if eng.IsGlobalLoad(v, pkgrel, name) {
						row = i
					}
				}
				if row < 0 {
					return
				}
			}
			blk = ifi.Block().Succs[0]
			for _, x := range blk.Instrs {
				if er, ok := errReplyIn(replies, x); ok {
					if row >= 0 {
						if col, isT := eng.TableColumn(er.Code); isT && row < len(col) {
							code, _ = eng.ConstInt(col[row])
							found = true
						}
						continue
					}
					code, _ = eng.ConstInt(er.Code)
					found = true
				}
			}
		})
		return code, blk, found
	}
	for _, row := range []struct {
		pkg, name string
		want      int64
	}{{"db", "ErrAccessDenied", 403}, {"db", "ErrNotFound", 404}, {"types/api", "ErrValueNotChanged", 304}} {
		code, blk, found := statusOn(row.pkg, row.name)
		c.Check(found && code == row.want, "R-C08-4", sj, sj.Pos(), "status for "+row.name, itoa(int(row.want)), "found "+itoa(int(code)))
		if found && row.want == 304 && blk != nil {
			// no body write on that path
			hit, _ := eng.SearchBlock(blk.Parent(), blk, nil, nil, func(x ssa.Instruction) bool {
				if ec, ok := x.(*ssa.Call); ok && ec.Call.IsInvoke() && ec.Call.Method.Name() == "Write" {
					return true
				}
				if er, ok := errReplyIn(replies, x); ok && er.Text != nil {
					return true
				}
				return false
			})
			c.Check(hit == nil, "R-C08-4", sj, blk.Instrs[0].Pos(), "304 reply", "no body is written with 304", "")
		}
	}
	// other errors: the remaining err != nil edge answers with a constant 4xx/5xx via http.Error (checked above) and returns
	hitBad, pathBad := eng.SearchX(sj, fnCall, eng.AssumeErr(ferr, false), nil, func(x ssa.Instruction) bool {
		if ec, ok := x.(*ssa.Call); ok && ec.Call.IsInvoke() {
			if ec.Call.Method.Name() == "Write" {
				return true
			}
			if ec.Call.Method.Name() == "WriteHeader" {
				k, _ := eng.ConstInt(ec.Call.Args[0])
				return k >= 200 && k < 300
			}
		}
		return false
	})
	c.Check(hitBad == nil, "R-C08-4", sj, fnCall.Pos(), "failed handler call", "no 2xx status and no body is written when the handler returned an error", func() string {
		if hitBad == nil {
			return ""
		}
		return eng.InstrStr(hitBad) + " reachable: " + p.PathStr(pathBad)
	}())
	// 200 + Write only under nil errors of fn and Marshal, data = Marshal(resp)
	nW := 0
	eng.Instrs(sj, func(in ssa.Instruction) {
		call, ok := in.(*ssa.Call)
		if !ok || !call.Call.IsInvoke() || call.Call.Method.Name() != "Write" {
			return
		}
		nW++
		arg, mcall, isM := marshalArg(call.Call.Args[0])
		okFlow := isM && eng.OriginConv(arg) != nil && sameResp(arg, fnCall)
		okDom := false
		mOK := false
		for _, cond := range eng.FactsAt(in) {
			if v, isNil, isE := cond.ErrCheck(); isE && isNil {
				if eng.Same(v, ferr) {
					okDom = true
				}
				if isM && eng.Same(v, saveErr(mcall)) {
					mOK = true
				}
			}
		}
		c.Check(okFlow && okDom && mOK, "R-C08-4", sj, in.Pos(), "response body "+eng.CallStr(&call.Call), "the only body written is json.Marshal(handler result), under nil errors of the handler and of Marshal", "flow="+boolStr(okFlow)+" handler-ok="+boolStr(okDom)+" marshal-ok="+boolStr(mOK))
	})
	c.Check(nW == 1, "R-C08-4", sj, sj.Pos(), "body writes in serveJSON", "exactly one", itoa(nW))
	// R-C08-5: the handler result flows only to Marshal
	if refs := fnCall.Referrers(); refs != nil {
		for _, r := range *refs {
			ex, ok := r.(*ssa.Extract)
			if !ok || ex.Index != 0 {
				continue
			}
			for _, u := range *ex.Referrers() {
				switch x := u.(type) {
				case *ssa.ChangeType, *ssa.MakeInterface:
					for _, uu := range *x.(ssa.Value).Referrers() {
						if call, isC := uu.(*ssa.Call); isC && eng.CalleeIs(&call.Call, "encoding/json", "Marshal") {
							continue
						}
						if _, dbg := uu.(*ssa.DebugRef); dbg {
							continue
						}
						c.Bad("R-C08-5", sj, uu.Pos(), "use of the handler result: "+eng.InstrStr(uu), "the result flows only to json.Marshal", "other use")
					}
				case *ssa.DebugRef:
				default:
					c.Bad("R-C08-5", sj, u.Pos(), "use of the handler result: "+eng.InstrStr(u), "the result flows only to json.Marshal", "other use")
				}
			}
		}
	}

	// R-C08-9: "403 for a permission denial": the permission check precedes
	// every look at the state, so a caller without the grant is answered 403
	// whatever exists (C01's rule)
	includeOnly(c, "R-C08-9", func(sc *eng.Ctx) { runC01(sc, "quick") }, "R-C01-1")
	// 304 exactly when the named version is the active one: the store's not-modified answer (C09's rule)
	includeOnly(c, "R-C08-10", func(sc *eng.Ctx) { runC09(sc, "quick") }, "R-C09-1")
	eng.SetRoot(nil)
	errorWrapDiscipline(c, "R-C08-7")
	notFoundDiscipline(c, "R-C08-8")
	c08Routes(c, sj, getIdentity)
	c08Identity(c, getIdentity)
	c08Client(c)
}

func sameResp(arg ssa.Value, fnCall *ssa.Call) bool {
	v := eng.OriginConv(arg)
	if ex, ok := v.(*ssa.Extract); ok && ex.Tuple == ssa.Value(fnCall) && ex.Index == 0 {
		return true
	}
	return false
}

func c08Routes(c *eng.Ctx, sj, getIdentity *ssa.Function) {
	p := c.P
	newFn := p.Func("server", "New")
	if newFn == nil {
		c.Undecided("R-C08-2", nil, 0, "server.New", "anchor does not resolve")
		return
	}
	n := 0
	// (registration may be done by a helper of New)
	eng.InstrsDeep(newFn, func(_ *ssa.Function, in ssa.Instruction) {
		call, ok := in.(*ssa.Call)
		if !ok || !(eng.CalleeIs(&call.Call, "net/http", "*ServeMux.HandleFunc") || eng.CalleeIs(&call.Call, "net/http", "*ServeMux.Handle")) {
			return
		}
		// the (pattern, handler) pairs registered by this call: its constant
		// arguments, or the rows of a route table it is applied to in a loop
		type route struct {
			pat string
			h   ssa.Value
		}
		var routes []route
		if pat, isC := eng.ConstString(call.Call.Args[1]); isC {
			routes = append(routes, route{pat, call.Call.Args[2]})
		} else {
			for _, rl := range eng.RangeLoops(call.Parent()) {
				if !rl.InLoop(call.Block()) {
					continue
				}
				rows, okT := eng.StructTable(rl.Slice)
				if !okT {
					continue
				}
				fieldOf := func(v ssa.Value) int {
					// rt.field of the loop element (a per-iteration copy or the element itself)
					o := eng.Origin(v)
					if u, isU := o.(*ssa.UnOp); isU {
						if fa, isFA := u.X.(*ssa.FieldAddr); isFA && (rl.ElemOf(fa.X) || rl.ElemOf(eng.Origin(fa.X))) {
							return fa.Field
						}
					}
					if fv, isF := o.(*ssa.Field); isF && rl.ElemOf(fv.X) {
						return fv.Field
					}
					return -1
				}
				pi, hi := fieldOf(call.Call.Args[1]), fieldOf(call.Call.Args[2])
				if pi < 0 || hi < 0 {
					continue
				}
				for _, row := range rows {
					if ps, isC := eng.ConstString(row[pi]); isC {
						routes = append(routes, route{ps, row[hi]})
					}
				}
			}
		}
		for _, rt := range routes {
			pat := rt.pat
			if !strings.HasPrefix(pat, "/api/") {
				continue
			}
			n++
			var h *ssa.Function
			hv := eng.Origin(rt.h)
			if ct, isCT := hv.(*ssa.ChangeType); isCT {
				hv = eng.Origin(ct.X) // http.HandlerFunc(s.get)
			}
			if mc, isMC := hv.(*ssa.MakeClosure); isMC {
				h = eng.Unwrap(mc.Fn.(*ssa.Function))
			}
			// (a handler built by a constructor method: the method does nothing
			// but call the handler factory, whose literal is the handler)
			if gc, _ := eng.TupleCall(hv); gc != nil && h == nil {
				if g := eng.Callee(&gc.Call); g != nil && g.Blocks != nil && eng.FuncPkg(g) == p.TypesPkg("server") {
					var fc *ssa.Call
					nc := 0
					eng.Instrs(g, func(x ssa.Instruction) {
						if ci, isC := x.(ssa.CallInstruction); isC {
							nc++
							fc, _ = ci.(*ssa.Call)
						}
					})
					if nc == 1 && fc != nil {
						if lit, _, isHF := handlerFactory(eng.Callee(&fc.Call)); isHF {
							okRet := true
							for _, r := range eng.Returns(g) {
								if rc, _ := eng.TupleCall(eng.RetVals(r)[0]); rc != fc {
									okRet = false
								}
							}
							if okRet {
								h = lit
							}
						}
					}
				}
			}
			if h == nil {
				c.Bad("R-C08-2", newFn, in.Pos(), "handler for "+pat, "a method of Server whose body is one serveJSON call", "not a bound method")
				continue
			}
			// body: exactly one call, to serveJSON (instantiation), plus the literal
			calls := 0
			sjCalls := 0
			eng.Instrs(h, func(x ssa.Instruction) {
				if ci, ok := x.(ssa.CallInstruction); ok {
					// (an adapter that only wraps the handler function is part of the argument)
					if _, isAd := forwardingAdapter(h, eng.Callee(ci.Common())); isAd {
						return
					}
					calls++
					if cal := eng.Callee(ci.Common()); cal != nil && cal.Origin() == sj {
						sjCalls++
					}
				}
			})
			c.Check(calls == 1 && sjCalls == 1, "R-C08-2", h, h.Pos(), "handler registered for "+pat+": "+eng.FName(h), "its body is a single serveJSON call (every API request passes the five gates)", itoa(calls)+" calls, "+itoa(sjCalls)+" to serveJSON")
		}
	})
	c.Check(n >= 7, "R-C08-2", newFn, newFn.Pos(), "API handlers registered", "the seven documented endpoints", itoa(n)+" found")
	// who-may-call on db.DB outside package db
	d := loadDB(c)
	if d == nil {
		return
	}
	for _, pkg := range []string{"server", "cmd/setec", "audit", "acl", "client/setec"} {
		for _, f := range p.PkgFuncs(pkg) {
			eng.Instrs(f, func(in ssa.Instruction) {
				ci, ok := in.(ssa.CallInstruction)
				if !ok {
					return
				}
				cal := eng.Callee(ci.Common())
				var m *dbMethod
				for _, mm := range d.methods {
					if mm.Fn == cal && mm.Caller != nil {
						m = mm
					}
				}
				if m == nil {
					return
				}
				okk := false
				how := ""
				if passedToServeJSON(f) {
					okk, how = true, "inside a handler function passed to serveJSON"
				} else if m.Name == "List" {
					// HTML page: Method == GET and nil identity error
					get, id := false, false
					for _, cond := range eng.FactsX(in) {
						if op, x, y, isCmp := cond.Cmp(); isCmp && op == token.EQL {
							if s, isC := eng.ConstString(y); isC && s == "GET" {
								if fr, _, isF := eng.LoadedField(x); isF && fr.Name == "Method" {
									get = true
								}
							}
						}
						if v, isNil, isE := cond.ErrCheck(); isE && isNil {
							if call, _ := eng.TupleCall(v); call != nil && eng.Callee(&call.Call) == getIdentity {
								id = true
							}
						}
					}
					okk, how = get && id, "HTML list page"
				}
				c.Check(okk, "R-C08-2", f, in.Pos(), "route to db."+m.Name+" in "+eng.FName(f), "db.DB operations are reached only from serveJSON handler literals, or List from the HTML page behind Method == GET and an identified caller", how)
			})
		}
	}
}

func c08Identity(c *eng.Ctx, f *ssa.Function) {
	// every capability-unmarshal error is tested before another unmarshal runs or
	// the caller is accepted (an unparsable grant is never papered over)
	var caps []*ssa.Call
	top := f
	// (the capability lookup may live in a helper of getIdentity)
	eng.InstrsDeep(f, func(_ *ssa.Function, in ssa.Instruction) {
		if call, ok := in.(*ssa.Call); ok {
			if cal := eng.Callee(&call.Call); cal != nil && cal.Origin() != nil && eng.FuncIs(cal.Origin(), "tailscale.com/tailcfg", "UnmarshalCapJSON") {
				caps = append(caps, call)
			}
		}
	})
	for _, cc := range caps {
		f := cc.Parent()
		ev := saveErr(cc)
		isTest := func(x ssa.Instruction) bool {
			ifi, ok := x.(*ssa.If)
			if !ok {
				return false
			}
			v, _, isE := eng.CondOf(ifi.Cond, true).ErrCheck()
			if !isE {
				return false
			}
			if eng.Same(v, ev) {
				return true
			}
			leaves, _ := eng.PhiLeaves(eng.Origin(v))
			for _, lf := range leaves {
				if lf.Val == ev {
					return true
				}
			}
			return false
		}
		hit, path := eng.Search(f, cc, nil, isTest, func(x ssa.Instruction) bool {
			if r, isR := x.(*ssa.Return); isR {
				if ei := errResultIndex(f); ei >= 0 {
					return eng.IsNilConst(eng.Origin(eng.RetVals(r)[ei]))
				}
				return false
			}
			for _, o := range caps {
				if x == ssa.Instruction(o) {
					return true
				}
			}
			return false
		})
		c.Check(hit == nil, "R-C08-3", f, cc.Pos(), "error of "+eng.CallStr(&cc.Call), "tested before another capability lookup or the acceptance of the caller (an unparsable grant makes the request fail)", func() string {
			if hit == nil {
				return ""
			}
			return eng.InstrStr(hit) + " at " + c.P.Pos(hit.Pos()) + " is reached with this error untested: " + c.P.PathStr(path)
		}())
	}
	if len(caps) == 0 {
		c.Undecided("R-C08-3", f, f.Pos(), "capability unmarshal calls", "none found")
	}
	f = top
	// the identity is that of the connection: WhoIs is asked about the
	// request's own RemoteAddr, never about an address computed from anything
	// else the client sent
	nWho := 0
	eng.InstrsDeep(f, func(g *ssa.Function, in ssa.Instruction) {
		call, ok := in.(*ssa.Call)
		if !ok {
			return
		}
		if fr, _, isF := eng.LoadedField(call.Call.Value); !isF || !fr.Is("server", "Server", "whois") {
			return
		}
		nWho++
		okk := false
		if len(call.Call.Args) == 2 && isRequestAddr(f, call.Call.Args[1]) {
			okk = true
		}
		c.Check(okk, "R-C08-3", g, in.Pos(), eng.CallStr(&call.Call), "WhoIs is asked about r.RemoteAddr of the request being served (the peer of this connection)", "asked about "+eng.ValStr(call.Call.Args[len(call.Call.Args)-1]))
	})
	if nWho == 0 {
		c.Undecided("R-C08-3", f, f.Pos(), "WhoIs call", "not found")
	}
	for _, r := range eng.Returns(f) {
		rv := eng.RetVals(r)
		if !eng.IsNilConst(eng.Origin(rv[1])) {
			continue
		}
		need := map[string]bool{}
		// (a nil error of a helper implies what holds on every successful path of it)
		for _, cond := range eng.FactsX(r) {
			if v, isNil, isE := cond.ErrCheck(); isE && isNil {
				// err is a reassigned variable: resolve through phi leaves
				cands := []ssa.Value{v}
				if leaves, phis := eng.PhiLeaves(eng.Origin(v)); len(phis) > 0 {
					cands = nil
					for _, lf := range leaves {
						cands = append(cands, lf.Val)
					}
				}
				for _, cv := range cands {
					if call, _ := eng.TupleCall(cv); call != nil {
						switch {
						case eng.CalleeIs(&call.Call, "net/netip", "ParseAddrPort"):
							need["parse"] = true
						case func() bool {
							fr, _, ok := eng.LoadedField(call.Call.Value)
							return ok && fr.Is("server", "Server", "whois")
						}():
							need["whois"] = true
						default:
							if cal := eng.Callee(&call.Call); cal != nil && cal.Origin() != nil && eng.FuncIs(cal.Origin(), "tailscale.com/tailcfg", "UnmarshalCapJSON") {
								need["cap"] = true
							}
						}
					}
				}
			}
		}
		if !need["cap"] {
			need["cap"] = c08LastCapNil(f, r, caps)
		}
		for _, k := range []string{"parse", "whois", "cap"} {
			c.Check(need[k], "R-C08-3", f, r.Pos(), "identified-caller return [gate "+k+"]", "a caller is identified only past the nil-error edge of "+map[string]string{"parse": "ParseAddrPort", "whois": "WhoIs", "cap": "the capability unmarshal"}[k], "holding: "+factsStr(eng.FactsX(r)))
		}
		// tagged or login non-empty: cut those two positive edges -> return unreachable
		var cut func(b *ssa.BasicBlock, i int) bool
		cut = func(b *ssa.BasicBlock, i int) bool {
			ifi, ok := b.Instrs[len(b.Instrs)-1].(*ssa.If)
			if !ok {
				return true
			}
			cond := eng.CondOf(ifi.Cond, i == 0)
			// the nil-error edge of a helper is open only if the helper can
			// succeed with the two positive edges cut
			if v, isNil, isE := cond.ErrCheck(); isE && isNil {
				if hc, _ := eng.TupleCall(v); hc != nil {
					if h := eng.Callee(&hc.Call); eng.IsHelper(b.Parent(), h) {
						if ei := errResultIndex(h); ei >= 0 {
							hit, _ := eng.Search(h, nil, cut, nil, func(x ssa.Instruction) bool {
								hr, isR := x.(*ssa.Return)
								return isR && nonNilAt(eng.RetVals(hr)[ei], eng.FactsAt(hr)) != eng.Yes
							})
							if hit == nil {
								return false
							}
						}
					}
				}
			}
			if call, _, truth, isCall := cond.BoolCall(); isCall && truth && call.Call.StaticCallee() != nil && call.Call.StaticCallee().Name() == "IsTagged" {
				return false
			}
			if op, x, y, isCmp := cond.Cmp(); isCmp && op == token.NEQ {
				if s, isC := eng.ConstString(y); isC && s == "" {
					if fr, _, isF := eng.LoadedField(x); isF && fr.Name == "LoginName" {
						return false
					}
				}
			}
			return true
		}
		hit, path := eng.Search(f, nil, cut, nil, func(x ssa.Instruction) bool { return x == ssa.Instruction(r) })
		c.Check(hit == nil, "R-C08-3", f, r.Pos(), "identified-caller return [who]", "reachable only for a tagged node or a non-empty login name", func() string {
			if hit == nil {
				return ""
			}
			return "reachable otherwise: " + c.P.PathStr(path)
		}())
	}
}

func c08Client(c *eng.Ctx) {
	p := c.P
	do := anchor(p, setecPkg, "do")
	if do == nil {
		c.Undecided("R-C08-6", nil, 0, "setec.do", "anchor does not resolve")
		return
	}
	// method and headers
	sent := map[string]string{}
	// (the transport may live in a helper of do)
	eng.InstrsDeep(do, func(_ *ssa.Function, in ssa.Instruction) {
		call, ok := in.(*ssa.Call)
		if !ok {
			return
		}
		if eng.CalleeIs(&call.Call, "net/http", "NewRequestWithContext") || eng.CalleeIs(&call.Call, "net/http", "NewRequest") {
			for _, a := range call.Call.Args {
				if s, isC := eng.ConstString(a); isC && (s == "POST" || s == "GET" || s == "PUT") {
					sent["method"] = s
				}
			}
		}
		if eng.CalleeIs(&call.Call, "net/http", "Header.Set") {
			k, ok1 := eng.ConstString(call.Call.Args[1])
			v, ok2 := eng.ConstString(call.Call.Args[2])
			if ok1 && ok2 {
				sent[k] = v
			}
		}
	})
	c.Check(sent["method"] == "POST", "R-C08-6", do, do.Pos(), "client request method", "POST (what the gate requires)", sent["method"])
	c.Check(sent["Content-Type"] == "application/json", "R-C08-6", do, do.Pos(), "client Content-Type", "application/json", sent["Content-Type"])
	c.Check(sent["Sec-X-Tailscale-No-Browsers"] == "setec", "R-C08-6", do, do.Pos(), "client Sec-X-Tailscale-No-Browsers", "setec", sent["Sec-X-Tailscale-No-Browsers"])
	// status mapping
	want := map[int64]string{404: "ErrNotFound", 403: "ErrAccessDenied", 304: "ErrValueNotChanged"}
	got := map[int64]string{}
	isStatus := func(x ssa.Value) bool {
		fr, _, isF := eng.LoadedField(x)
		return isF && fr.Name == "StatusCode"
	}
	var collect func(f *ssa.Function, codeIs func(ssa.Value) bool, depth int)
	collect = func(f *ssa.Function, codeIs func(ssa.Value) bool, depth int) {
		for _, r := range eng.Returns(f) {
			rv := eng.RetVals(r)
			last := rv[len(rv)-1]
			if g := eng.GlobalLoad(last); g != nil && g.Pkg != nil && strings.HasSuffix(g.Pkg.Pkg.Path(), "types/api") {
				for _, cond := range eng.FactsAt(r) {
					if op, x, y, isCmp := cond.Cmp(); isCmp && op == token.EQL {
						if k, isK := eng.ConstInt(y); isK && codeIs(x) {
							got[k] = g.Name()
						}
					}
				}
				continue
			}
			// the sentinel may be looked up in a constant table indexed by the
			// status code (a package-level map that is only ever read): the
			// pairs its initialiser put there
			if ex, isEx := eng.Origin(last).(*ssa.Extract); isEx && ex.Index == 0 {
				if lk, isLk := ex.Tuple.(*ssa.Lookup); isLk && lk.CommaOk && codeIs(lk.Index) {
					if g := eng.GlobalOf(lk.X); g != nil && eng.FuncPkgOfGlobal(g) == p.TypesPkg(setecPkg) {
						ro, why := eng.GlobalMapUnmodified(p, g)
						if !ro {
							c.Notes = append(c.Notes, "status table "+g.Name()+" is not read-only: "+why)
						}
						if ro {
							present := false
							for _, cond := range eng.FactsAt(r) {
								if src, truth, isCO := cond.CommaOk(); isCO && truth && src == ssa.Value(lk) {
									present = true
								}
							}
							if present {
								for k, v := range eng.GlobalMapPairs(p, g) {
									if gl := eng.GlobalLoad(v); gl != nil && gl.Pkg != nil && strings.HasSuffix(gl.Pkg.Pkg.Path(), "types/api") {
										got[k] = gl.Name()
									}
								}
								continue
							}
						}
					}
				}
			}
			// the sentinel may be chosen by a helper applied to the status code
			if call, _ := eng.TupleCall(last); call != nil && depth < 2 {
				if cal := eng.Callee(&call.Call); cal != nil && cal.Blocks != nil && eng.FuncPkg(cal) == p.TypesPkg(setecPkg) && len(call.Call.Args) == 1 && len(cal.Params) == 1 && codeIs(call.Call.Args[0]) {
					prm := cal.Params[0]
					collect(cal, func(x ssa.Value) bool { return eng.Origin(x) == ssa.Value(prm) }, depth+1)
				} else if eng.IsHelper(f, cal) && eng.Origin(last) == saveErr(call) {
					// the error of a transport helper handed on unchanged
					collect(cal, isStatus, depth+1)
				}
			}
		}
	}
	collect(do, isStatus, 0)
	for code, name := range want {
		c.Check(got[code] == name, "R-C08-4", do, do.Pos(), "client mapping of status "+itoa(int(code)), "api."+name+" (inverse of the server's table)", "maps to "+got[code])
	}
	// non-200 never yields (value, nil): every nil-error return is dominated by StatusCode == 200
	for _, r := range eng.Returns(do) {
		rv := eng.RetVals(r)
		if !eng.IsNilConst(eng.Origin(rv[len(rv)-1])) {
			continue
		}
		okk := false
		for _, cond := range eng.FactsX(r) {
			if op, x, y, isCmp := cond.Cmp(); isCmp && op == token.EQL {
				if k, isK := eng.ConstInt(y); isK && k == 200 {
					if fr, _, isF := eng.LoadedField(x); isF && fr.Name == "StatusCode" {
						okk = true
					}
				}
			}
		}
		c.Check(okk, "R-C08-4", do, r.Pos(), "client success return", "only under status 200", "holding: "+eng.FactsString(r))
	}
	_ = types.Typ
}

// c08LastCapNil: the path form of the capability gate, for lookups in a loop
// over the accepted names (no single edge dominates the return there).  On
// every feasible path of f to r (loops unrolled twice) a capability lookup
// runs, and after each execution of one, the next thing decided on its error
// is the nil edge: the path continues only past `err == nil` of that very
// result before another lookup or the return.
func c08LastCapNil(f *ssa.Function, r *ssa.Return, caps []*ssa.Call) bool {
	isCap := map[ssa.Instruction]bool{}
	for _, cc := range caps {
		if cc.Parent() != f {
			return false
		}
		isCap[cc] = true
	}
	if len(isCap) == 0 {
		return false
	}
	paths, ok := eng.EnumPathsUntil(f, r.Block(), 2, 4096)
	if !ok || len(paths) == 0 {
		return false
	}
	n := 0
	for _, pa := range paths {
		if !pa.ConstFeasible() {
			continue
		}
		n++
		// executions of lookups along the path, in order
		type exec struct {
			pos  int
			call *ssa.Call
		}
		var execs []exec
		for i, b := range pa.Blocks {
			for _, in := range b.Instrs {
				if isCap[in] {
					execs = append(execs, exec{i, in.(*ssa.Call)})
				}
			}
		}
		if len(execs) == 0 {
			return false
		}
		for k, e := range execs {
			end := len(pa.Blocks) - 1
			if k+1 < len(execs) {
				end = execs[k+1].pos
			}
			ev := saveErr(e.call)
			passed := false
			for i := e.pos; i < end && !passed; i++ {
				b := pa.Blocks[i]
				ifi, isIf := b.Instrs[len(b.Instrs)-1].(*ssa.If)
				if !isIf || b.Succs[0] == b.Succs[1] {
					continue
				}
				cd := eng.CondOf(ifi.Cond, pa.Blocks[i+1] == b.Succs[0])
				if v, isNil, isE := cd.ErrCheck(); isE && ev != nil && pa.ResolveAt(v, i) == eng.Origin(ev) {
					if !isNil {
						// continuing (to another lookup or the return) on the failure edge
						return false
					}
					passed = true
				}
			}
			if !passed {
				return false
			}
		}
	}
	return n > 0
}
