package rules

import (
	"go/token"
	"go/types"

	"golang.org/x/tools/go/ssa"

	"setecvet/eng"
)

func init() {
	register(&Prop{
		ID: "C13",
		Explanation: "Decides structural necessary conditions of C13: (R-C13-1) install => flush: every post-publication change of the active set (install, replacement, removal) is followed, before the lock is released, by a call that writes the cache; the poller's shutdown branch flushes before returning; in NewStore the flush is performed whenever a declared name had to be stubbed (flag set in the same block as the stub) and initialisation succeeded; " +
			"(R-C13-2) one complete document: the bytes handed to Cache.Write are exactly json.Marshal of the live map Store.active.m, in one call; (R-C13-3) FileCache.Write is a single atomicfile.WriteFile(path, data, owner-only constant mode) and the package creates no other file except the cache directory (0700); " +
			"(R-C13-4) the cache document's wire signature (computed from go/types) equals the documented one, and the file-backed client's reader type agrees with it on the \"secret\" object (Value base64, Version number); NewFileClient skips only entries with empty name, nil secret, version <= 0 or empty value and prefers TextValue only when non-empty; " +
			"(R-C13-5) a bad cache never fails the start: no error return of NewStore depends on the cache read, its decoding or its validity, and on the decode-error and invalid edges the map is cleared before anything else uses it; (R-C13-7) the decoded map is nil-tested or re-created before anything is assigned into it (the document `null` decodes into a nil map); (R-C13-6) the validity gate rejects an empty key, a nil entry and a nil Secret for every entry -- exactly the pointer levels later code dereferences unchecked; (R-C13-9) FileCache.Read reads the whole file (os.ReadFile / io.ReadAll of the opened file, no bounded or partial read); (R-C13-8) Store.cache is assigned only in the Store literal, from StoreConfig.Cache (through an accessor that returns nothing else). (R-C13-1, extended) every way out of the poller passes the shutdown flush, and no flush site of NewStore reachable from a stub insert runs unless initializeActive succeeded.",
		NotDecided:  "What encoding/json does with arbitrary byte strings (no panic: trusted); crash behaviour of the file write (C04's R-C04-2 covers the routine).",
		Trusted:     append([]string{"encoding/json never panics on malformed input and leaves a partially decoded value", "atomicfile.WriteFile is atomic (checked in C04)"}, commonTrusted...),
		Assumptions: []string{},
		Run:         runC13,
	})
}

const cacheDocShape = `object(string→?{"lastAccess",string:number(int64) "secret":?{"Value":base64 "Version":number(uint32)}})`

func runC13(c *eng.Ctx, tier string) {
	p := c.P
	if p.Named(setecPkg, "Store") == nil {
		c.Undecided("anchor", nil, 0, "setec.Store", "anchor does not resolve")
		return
	}
	l := moduleLocks(c)
	isFlush := func(x ssa.Instruction) bool {
		if call, ok := x.(*ssa.Call); ok {
			if cal := eng.Callee(&call.Call); cal != nil && reachesCacheWrite(p, eng.Unwrap(cal)) {
				return true
			}
			cc := &call.Call
			if cc.IsInvoke() && cc.Method.Name() == "Write" && eng.IsNamed(cc.Value.Type(), setecPkg, "Cache") {
				return true
			}
		}
		return false
	}
	// R-C13-1
	n1 := 0
	for _, a := range storeAccesses(p) {
		changes := false
		switch {
		case a.Map != nil && a.What == "active.m" && a.Map.IsWrite():
			changes = true
		case a.What == "cachedSecret.Secret" && a.Write && a.Kind == "store":
			changes = true
		}
		if !changes {
			continue
		}
		st := l.HeldBefore(a.In)
		if !l.HoldsReal(st, keyStore) {
			continue // pre-publication: handled below
		}
		n1++
		hit, path := eng.SearchX(a.Fn, a.In, nil, isFlush, func(x ssa.Instruction) bool {
			if eng.IsReturn(x) {
				return true
			}
			if call, ok := x.(*ssa.Call); ok {
				if op, k, isL := eng.LockOp(&call.Call); isL && k == keyStore && op == "Unlock" {
					return true
				}
			}
			return false
		})
		c.Check(hit == nil, "R-C13-1", a.Fn, a.In.Pos(), "change of the active set: "+eng.InstrStr(a.In), "followed by a cache write before the lock is released (the cache always holds every known secret's latest value)", func() string {
			if hit == nil {
				return ""
			}
			return eng.InstrStr(hit) + " reached without a flush: " + p.PathStr(path)
		}())
	}
	if n1 < 3 {
		c.Undecided("R-C13-1", nil, 0, "post-publication changes of the active set", "fewer than 3 found")
	}
	// shutdown flush in the poller
	if run := anchor(p, setecPkg, "(*Store).run"); run != nil {
		ctxP := ctxParam(run)
		n := 0
		// (the loop may live in a helper of run that is handed run's context)
		eng.InstrsDeep(run, func(g *ssa.Function, in ssa.Instruction) {
			sel, ok := in.(*ssa.Select)
			if !ok {
				return
			}
			for i, stt := range sel.States {
				call, _ := eng.TupleCall(stt.Chan)
				if call == nil || !call.Call.IsInvoke() || call.Call.Method.Name() != "Done" || eng.OriginX(call.Call.Value) != eng.OriginX(ctxP) {
					continue
				}
				n++
				// branch for case i: every path to return passes a flush
				var idxVal ssa.Value
				for _, r := range *sel.Referrers() {
					if ex, ok := r.(*ssa.Extract); ok && ex.Index == 0 {
						idxVal = ex
					}
				}
				var branch *ssa.BasicBlock
				eng.Instrs(g, func(x ssa.Instruction) {
					if ifi, ok := x.(*ssa.If); ok {
						op, a, b, isCmp := eng.CondOf(ifi.Cond, true).Cmp()
						if isCmp && op == token.EQL && a == idxVal {
							if k, isC := eng.ConstInt(b); isC && int(k) == i {
								branch = ifi.Block().Succs[0]
							}
						}
					}
				})
				if branch == nil {
					c.Undecided("R-C13-1", run, sel.Pos(), "shutdown branch of the poller", "cannot locate the Done case")
					continue
				}
				hit, path := eng.SearchBlock(g, branch, nil, isFlush, eng.IsReturn)
				if isFlush(branch.Instrs[0]) {
					hit = nil
				}
				if hit != nil && g != run {
					// the helper returns without flushing: run may do it after the call
					if cs := eng.ContextCallSite(g); cs != nil && cs.Parent() == run {
						if h2, _ := eng.Search(run, cs, nil, isFlush, eng.IsReturn); h2 == nil {
							hit = nil
						}
					}
				}
				c.Check(hit == nil, "R-C13-1", run, sel.Pos(), "shutdown branch of the poller", "the cache is flushed before the poller returns", func() string {
					if hit == nil {
						return ""
					}
					return "return reached without flush: " + p.PathStr(path)
				}())
			}
		})
		if n == 0 {
			c.Undecided("R-C13-1", run, run.Pos(), "poller shutdown", "no select on ctx.Done() found")
		}
		// ... and the poller has no other way out: whichever way it stops, the
		// cache is rewritten first (what an earlier failed flush left out is
		// persisted at shutdown at the latest)
		hit, path := eng.SearchX(run, nil, nil, isFlush, eng.IsReturn)
		c.Check(hit == nil, "R-C13-1", run, run.Pos(), "ways out of the poller", "every return of the poller is preceded by the shutdown flush", func() string {
			if hit == nil {
				return ""
			}
			return "return at " + p.Pos(hit.Pos()) + " reached without flush: " + p.PathStr(path)
		}())
	} else {
		c.Undecided("R-C13-1", nil, 0, "setec.(*Store).run", "anchor does not resolve")
	}
	c13NewStoreFlush(c, isFlush)
	c13Document(c)
	c13FileCache(c)
	c13Wire(c)
	c13BadCache(c)
	wholeInputJSON(c, "R-C13-5")
	c13Validity(c)
	c13CacheField(c)
	c13WholeFile(c)
	c13NilMap(c)
}

// R-C13-7: json.Unmarshal into the active map can leave it nil (the JSON
// document `null` decodes without error into a nil map).  Before anything
// assigns into the map, a nil test of the field or an unconditional
// re-creation must intervene; otherwise NewStore panics on a cache holding
// `null` ("malformed cache contents never cause a panic").
func c13NilMap(c *eng.Ctx) {
	p := c.P
	g := p.CallGraph()
	for _, f := range p.PkgFuncs(setecPkg) {
		eng.Instrs(f, func(in ssa.Instruction) {
			call, ok := in.(*ssa.Call)
			if !ok || !eng.CalleeIs(&call.Call, "encoding/json", "Unmarshal") {
				return
			}
			t := call.Call.Args[1]
			if mi, isMI := t.(*ssa.MakeInterface); isMI {
				t = mi.X
			}
			n, _, isAct := activeFieldAddr(t)
			if !isAct || n != "m" {
				return
			}
			isGuard := func(x ssa.Instruction) bool {
				if ifi, ok := x.(*ssa.If); ok {
					if v, _, isN := eng.CondOf(ifi.Cond, true).NilCheck(); isN {
						if nm, isA := activeMapOf(v); isA && nm == "m" {
							return true
						}
					}
				}
				if st, ok := x.(*ssa.Store); ok {
					if nm, _, isA := activeFieldAddr(st.Addr); isA && nm == "m" {
						if _, isMk := eng.Origin(st.Val).(*ssa.MakeMap); isMk {
							return true
						}
					}
				}
				return false
			}
			var search func(fn *ssa.Function, start ssa.Instruction, depth int) (ssa.Instruction, []*ssa.BasicBlock)
			search = func(fn *ssa.Function, start ssa.Instruction, depth int) (ssa.Instruction, []*ssa.BasicBlock) {
				writes := map[ssa.Instruction]bool{}
				for _, m := range eng.MapOps(fn) {
					if nm, isA := activeMapOf(m.Map); isA && nm == "m" && m.Kind == "update" {
						writes[m.In] = true
					}
				}
				hit, path := eng.Search(fn, start, nil, isGuard, func(x ssa.Instruction) bool { return writes[x] || eng.IsReturn(x) })
				if hit == nil {
					return nil, nil
				}
				if _, isRet := hit.(*ssa.Return); isRet {
					if depth > 2 {
						return nil, nil
					}
					for _, e := range g.CallersOf(fn) {
						if h, pth := search(e.Caller, e.Site, depth+1); h != nil {
							return h, pth
						}
					}
					return nil, nil
				}
				return hit, path
			}
			hit, path := search(f, call, 0)
			c.Check(hit == nil, "R-C13-7", f, in.Pos(), "decode of the cache into the active map", "a nil test (or re-creation) of the map separates the decode from the first assignment into it: the JSON document null decodes without error into a nil map", func() string {
				if hit == nil {
					return ""
				}
				return "assignment " + eng.InstrStr(hit) + " at " + p.Pos(hit.Pos()) + " is reachable with a nil map (panic: assignment to entry in nil map): " + p.PathStr(path)
			}())
		})
	}
}

func c13NewStoreFlush(c *eng.Ctx, isFlush func(ssa.Instruction) bool) {
	p := c.P
	ns := p.Func(setecPkg, "NewStore")
	if ns == nil {
		c.Undecided("R-C13-1", nil, 0, "setec.NewStore", "anchor does not resolve")
		return
	}
	// stub inserts (nil values) before publication
	var stubs []*ssa.MapUpdate
	for _, m := range eng.MapOps(ns) {
		if n, isAct := activeMapOf(m.Map); isAct && n == "m" && m.Kind == "update" && eng.IsNilConst(eng.Origin(m.Val)) {
			stubs = append(stubs, m.In.(*ssa.MapUpdate))
		}
	}
	if len(stubs) == 0 {
		c.Notes = append(c.Notes, "NewStore stubs no missing names: nothing to flush at construction")
		return
	}
	var flush *ssa.Call
	initAnchor := anchor(p, setecPkg, "(*Store).initializeActive")
	eng.Instrs(ns, func(in ssa.Instruction) {
		if isFlush(in) {
			if flush != nil {
				// (an earlier flush site: the same "never with stubs in the set" condition)
				prev := flush
				okInit := false
				for _, cond := range eng.FactsAt(prev) {
					if v, isNil, isE := cond.ErrCheck(); isE && isNil {
						if call, _ := eng.TupleCall(v); call != nil && eng.Callee(&call.Call) == initAnchor && initAnchor != nil {
							okInit = true
						}
					}
				}
				reach := false
				for _, st := range stubs {
					if hit, _ := eng.Search(ns, st, nil, nil, func(x ssa.Instruction) bool { return x == ssa.Instruction(prev) }); hit != nil {
						reach = true
					}
				}
				c.Check(okInit || !reach, "R-C13-1", ns, prev.Pos(), "NewStore: flush after successful initialisation", "edge-dominated by the nil error of initializeActive (a cache written while stubs of unfetched names are in the set is rejected as a whole at the next start)", "holding: "+eng.FactsString(prev))
			}
			flush = in.(*ssa.Call)
		}
	})
	if flush == nil {
		c.Bad("R-C13-1", ns, ns.Pos(), "NewStore: flush after initial fetch", "when a declared secret had to be fetched the cache is written before NewStore returns", "no flush call in NewStore")
		return
	}
	// conditions guarding the flush: a flag that is true exactly when a stub was inserted, and init success
	var flag ssa.Value
	initOK := false
	var other []string
	for _, cond := range eng.FactsAt(flush) {
		if v, truth, isB := cond.Bool(); isB && truth {
			if _, phis := eng.PhiLeaves(eng.Origin(v)); len(phis) > 0 {
				flag = eng.Origin(v)
				continue
			}
		}
		if v, isNil, isE := cond.ErrCheck(); isE && isNil {
			if call, _ := eng.TupleCall(v); call != nil {
				if cal := eng.Callee(&call.Call); cal != nil && cal == anchor(p, setecPkg, "(*Store).initializeActive") {
					initOK = true
					continue
				}
			}
		}
		// conditions established before the store exists (argument validation) are irrelevant
		if cond.If != nil && cond.If.Block().Dominates(stubs[0].Block()) && !stubs[0].Block().Dominates(cond.If.Block()) {
			continue
		}
		// so is the exit of a loop over a finite collection (it is always taken eventually)
		if cond.If != nil && eng.IsRangeHeader(ns, cond.If.Block()) {
			continue
		}
		other = append(other, cond.String())
	}
	c.Check(len(other) == 0, "R-C13-1", ns, flush.Pos(), "NewStore: conditions on the initial flush", "the flush depends only on 'a declared name was missing' and 'initialisation succeeded'", "additional conditions: "+join(other))
	c.Check(initOK, "R-C13-1", ns, flush.Pos(), "NewStore: flush after successful initialisation", "edge-dominated by the nil error of initializeActive", "")
	if flag == nil {
		// unconditional flush is fine too
		c.Ok("R-C13-1", ns, flush.Pos(), "NewStore: unconditional initial flush", "always flushed")
		return
	}
	leaves, _ := eng.PhiLeaves(flag)
	trueFrom := map[*ssa.BasicBlock]bool{}
	for _, lf := range leaves {
		if k, ok := lf.Val.(*ssa.Const); ok && k.Value != nil && k.Value.String() == "true" {
			trueFrom[lf.From] = true
		}
	}
	for _, st := range stubs {
		c.Check(trueFrom[st.Block()], "R-C13-1", ns, st.Pos(), "NewStore: stub of a missing declared name "+eng.InstrStr(st), "sets the want-flush flag in the same block (so the fetched value is written to the cache before NewStore returns)", "the flag is not set on this path")
	}
}

func join(ss []string) string {
	out := ""
	for i, s := range ss {
		if i > 0 {
			out += " ; "
		}
		out += s
	}
	return out
}

// R-C13-2
func c13Document(c *eng.Ctx) {
	p := c.P
	n := 0
	for _, f := range p.PkgFuncs(setecPkg) {
		eng.Instrs(f, func(in ssa.Instruction) {
			call, ok := in.(*ssa.Call)
			if !ok || !call.Call.IsInvoke() || call.Call.Method.Name() != "Write" || !eng.IsNamed(call.Call.Value.Type(), setecPkg, "Cache") {
				return
			}
			n++
			data := call.Call.Args[0]
			arg, _, isM := marshalArg(data)
			for depth := 0; !isM && depth < 3; depth++ {
				// the document may be encoded by a helper of the same store
				inner, hc := eng.ThroughHelper(data, func(g *ssa.Function) bool { return eng.IsHelper(f, g) })
				if inner == nil || len(hc.Call.Args) == 0 || len(f.Params) == 0 || eng.Origin(hc.Call.Args[0]) != ssa.Value(f.Params[0]) {
					break
				}
				data = inner
				arg, _, isM = marshalArg(data)
			}
			okk := false
			detail := "data = " + eng.ValStr(call.Call.Args[0])
			if isM {
				if nm, isAct := activeMapOf(eng.Origin(arg)); isAct && nm == "m" {
					okk = true
				} else {
					detail = "marshalled value is " + eng.ValStr(arg)
				}
			}
			c.Check(okk, "R-C13-2", f, in.Pos(), eng.CallStr(&call.Call), "the cache receives json.Marshal of the live map Store.active.m itself, in one Write (one complete document with every known secret)", detail)
			// the cache is the Store's own
			fr, _, isF := eng.LoadedField(call.Call.Value)
			c.Check(isF && fr.Is(setecPkg, "Store", storeField("cache")), "R-C13-2", f, in.Pos(), "cache written by "+eng.FName(f), "the Store's configured cache", "")
			// written while the lock that protected the encoding is still held
			l := moduleLocks(c)
			hs := l.HeldBefore(in)
			c.Check(l.Holds(hs, keyStore), "R-C13-2", f, in.Pos(), eng.CallStr(&call.Call)+" [lock]", "encode and write happen in one critical section (an older document cannot overwrite a newer one)", "held: "+l.StateStr(hs))
			flushAlwaysWrites(c, "R-C13-2", f, call)
		})
	}
	if n != 1 {
		c.Check(n == 1, "R-C13-2", nil, 0, "Cache.Write call sites in client/setec", "exactly one site writes the cache (the flush routine)", "found "+itoa(n))
	}
}

// R-C13-3
func c13FileCache(c *eng.Ctx) {
	p := c.P
	fw := p.Func(setecPkg, "FileCache.Write")
	if fw == nil {
		c.Undecided("R-C13-3", nil, 0, "setec.FileCache.Write", "anchor does not resolve")
		return
	}
	nw := 0
	for _, f := range p.PkgFuncs(setecPkg) {
		eng.Instrs(f, func(in ssa.Instruction) {
			ci, ok := in.(ssa.CallInstruction)
			if !ok || !isFileMutatingCall(ci.Common()) {
				return
			}
			cc := ci.Common()
			site := eng.CallStr(cc)
			switch {
			case eng.CalleeIs(cc, "tailscale.com/atomicfile", "WriteFile"):
				mode, isC := eng.ConstInt(cc.Args[2])
				pathV := eng.OriginConv(cc.Args[0])
				// (the path may come from a one-line accessor of the cache: string(f))
				if inner, hc := eng.ThroughHelper(cc.Args[0], func(g *ssa.Function) bool { return eng.IsHelper(f, g) }); inner != nil {
					if prm, isP := eng.OriginConv(inner).(*ssa.Parameter); isP {
						h := eng.Callee(&hc.Call)
						for i, q := range h.Params {
							if q == prm && i < len(hc.Call.Args) {
								pathV = eng.OriginConv(hc.Call.Args[i])
							}
						}
					}
				}
				okk := f == fw && isC && mode&0o077 == 0 && pathV == ssa.Value(fw.Params[0]) && eng.Origin(cc.Args[1]) == ssa.Value(fw.Params[1])
				nw++
				c.Check(okk, "R-C13-3", f, in.Pos(), site, "FileCache.Write(data) = atomicfile.WriteFile(path of this cache, data, constant owner-only mode)", "in "+eng.FName(f)+" mode "+eng.ValStr(cc.Args[2]))
			case eng.CalleeIs(cc, "os", "MkdirAll") || eng.CalleeIs(cc, "os", "Mkdir"):
				mode, isC := eng.ConstInt(cc.Args[1])
				c.Check(isC && mode&0o077 == 0, "R-C13-3", f, in.Pos(), site, "the cache directory is created owner-only", "mode "+eng.ValStr(cc.Args[1]))
			default:
				c.Bad("R-C13-3", f, in.Pos(), site, "the client library writes files only through atomicfile.WriteFile (and creates the cache directory)", "other file-mutating call")
			}
		})
	}
	c.Check(nw == 1, "R-C13-3", fw, fw.Pos(), "atomic write in FileCache.Write", "exactly one atomicfile.WriteFile", "found "+itoa(nw))
}

// R-C13-4
func c13Wire(c *eng.Ctx) {
	p := c.P
	cs := p.Named(setecPkg, "cachedSecret")
	if cs == nil {
		c.Undecided("R-C13-4", nil, 0, "setec.cachedSecret", "anchor does not resolve")
		return
	}
	doc := types.NewMap(types.Typ[types.String], types.NewPointer(cs))
	got := eng.JSONShape(doc)
	c.Check(got == cacheDocShape, "R-C13-4", nil, cs.Obj().Pos(), "wire signature of the cache document", cacheDocShape+" (documented on the Cache interface; Declared is not persisted)", "computed "+got)
	// reader side in NewFileClient
	nfc := p.Func(setecPkg, "NewFileClient")
	if nfc == nil {
		c.Undecided("R-C13-4", nil, 0, "setec.NewFileClient", "anchor does not resolve")
		return
	}
	var input types.Type
	// decoding and filtering may live in a helper of the constructor
	eng.InstrsDeep(nfc, func(g *ssa.Function, in ssa.Instruction) {
		if mu, ok := in.(*ssa.MapUpdate); ok {
			if mt, isMap := mu.Map.Type().Underlying().(*types.Map); isMap && eng.IsNamed(mt.Elem(), "types/api", "SecretValue") {
				nfc = g
			}
		}
	})
	eng.InstrsDeep(nfc, func(_ *ssa.Function, in ssa.Instruction) {
		if call, ok := in.(*ssa.Call); ok && eng.CalleeIs(&call.Call, "encoding/json", "Unmarshal") {
			a := call.Call.Args[1]
			if mi, isMI := a.(*ssa.MakeInterface); isMI {
				a = mi.X
			}
			input = eng.Deref(a.Type())
		}
	})
	if input == nil {
		c.Undecided("R-C13-4", nfc, nfc.Pos(), "reader type of NewFileClient", "no json.Unmarshal found")
		return
	}
	rs := eng.JSONShape(input)
	const wantReader = `object(string→{"secret":?{"TextValue":string "Value":base64 "Version":number(uint32)}})`
	c.Check(rs == wantReader, "R-C13-4", nfc, nfc.Pos(), "wire signature read by NewFileClient", wantReader+" (agrees with the cache document on \"secret\".Value/Version; extra TextValue allowed)", "computed "+rs)
	// skip conditions on inserts into the client's map
	n := 0
	for _, m := range eng.MapOps(nfc) {
		if m.Kind != "update" {
			continue
		}
		mt, isMap := m.Map.Type().Underlying().(*types.Map)
		if !isMap || !eng.IsNamed(mt.Elem(), "types/api", "SecretValue") {
			continue
		}
		n++
		facts := eng.FactsAt(m.In)
		var hasName, hasSecret, hasVersion bool
		for _, cond := range facts {
			if op, x, y, isCmp := cond.Cmp(); isCmp {
				if s, isC := eng.ConstString(y); isC && s == "" && op == token.NEQ && eng.Same(x, m.Key) {
					hasName = true
				}
				if k, isC := eng.ConstInt(y); isC && k == 0 && op == token.GTR {
					if fr, _, isF := eng.LoadedField(x); isF && fr.Name == "Version" {
						hasVersion = true
					}
				}
			}
			if v, isNil, isN := cond.NilCheck(); isN && !isNil {
				if fr, _, isF := eng.LoadedField(v); isF && fr.Name == "Secret" {
					hasSecret = true
				}
			}
		}
		c.Check(hasName && hasSecret && hasVersion, "R-C13-4", nfc, m.In.Pos(), eng.InstrStr(m.In), "an entry is accepted only with a non-empty name, a non-nil secret and a version > 0", "name-check="+boolStr(hasName)+" secret-check="+boolStr(hasSecret)+" version-check="+boolStr(hasVersion)+" | "+factsStr(facts))
		// which bytes are used
		al, isAl := eng.Origin(m.Val).(*ssa.Alloc)
		if !isAl {
			continue
		}
		fields, _, _ := eng.LiteralFields(al)
		val := fields["Value"]
		if fv, has := fields["Version"]; has {
			fr3, _, isF3 := eng.LoadedField(fv)
			c.Check(isF3 && fr3.Name == "Version", "R-C13-4", nfc, m.In.Pos(), "version used", "the entry's own Version", eng.ValStr(fv))
		}
		// the candidates: the value itself, or the leaves of the phi that merges them
		type cand struct {
			v     ssa.Value
			facts []eng.Cond
		}
		var cands []cand
		if ph, isPhi := eng.Origin(val).(*ssa.Phi); isPhi {
			leaves, _ := eng.PhiLeaves(ph)
			for _, lf := range leaves {
				fs := append([]eng.Cond{}, facts...)
				for _, fa := range eng.BlockFacts(lf.From) {
					fs = append(fs, fa.Cond())
				}
				if ifi, isIf := lf.From.Instrs[len(lf.From.Instrs)-1].(*ssa.If); isIf {
					fs = append(fs, eng.CondOf(ifi.Cond, lf.From.Succs[0] == lf.Phi.Block()))
				}
				cands = append(cands, cand{lf.Val, fs})
			}
		} else {
			cands = append(cands, cand{val, facts})
		}
		for _, cd := range cands {
			fr, _, isF := eng.LoadedField(eng.OriginConv(cd.v))
			switch {
			case isF && fr.Name == "Value":
				// used when TextValue is empty
				okk := false
				for _, cond := range cd.facts {
					if op, x, y, isCmp := cond.Cmp(); isCmp && op == token.EQL {
						if s, isC := eng.ConstString(y); isC && s == "" {
							if fr2, _, isF2 := eng.LoadedField(x); isF2 && fr2.Name == "TextValue" {
								okk = true
							}
						}
					}
				}
				c.Check(okk, "R-C13-4", nfc, m.In.Pos(), "bytes used: Value", "the binary Value is used when TextValue is empty (identical results for every non-empty secret of a cache file)", factsStr(cd.facts))
			case isF && fr.Name == "TextValue":
				c.Ok("R-C13-4", nfc, m.In.Pos(), "bytes used: TextValue", "only when non-empty")
			default:
				c.Bad("R-C13-4", nfc, m.In.Pos(), "bytes used: "+eng.ValStr(cd.v), "the entry's Value (or its TextValue converted to bytes) exactly as decoded: the file client yields the same bytes the store serves from the same file", "the bytes pass through "+eng.ValStr(eng.OriginConv(cd.v)))
			}
		}
	}
	if n == 0 {
		c.Undecided("R-C13-4", nfc, nfc.Pos(), "inserts into the FileClient map", "none found")
	}
}

// R-C13-5
func c13BadCache(c *eng.Ctx) {
	p := c.P
	ns := p.Func(setecPkg, "NewStore")
	if ns == nil {
		return
	}
	g := p.CallGraph()
	// the decode of the cache: json.Unmarshal into &s.active.m, wherever it lives
	var unm *ssa.Call
	var unmFn *ssa.Function
	for _, f := range p.PkgFuncs(setecPkg) {
		eng.Instrs(f, func(in ssa.Instruction) {
			call, ok := in.(*ssa.Call)
			if !ok || !eng.CalleeIs(&call.Call, "encoding/json", "Unmarshal") {
				return
			}
			t := call.Call.Args[1]
			if mi, isMI := t.(*ssa.MakeInterface); isMI {
				t = mi.X
			}
			if n, _, isAct := activeFieldAddr(t); isAct && n == "m" {
				unm, unmFn = call, f
			}
		})
	}
	if unm == nil {
		c.Undecided("R-C13-5", ns, ns.Pos(), "decode of the cache into the active set", "not found")
		return
	}
	// values that carry the cache's fate into NewStore
	cacheVals := map[ssa.Value]bool{}
	eng.Instrs(ns, func(in ssa.Instruction) {
		call, ok := in.(*ssa.Call)
		if !ok {
			return
		}
		cal := eng.Callee(&call.Call)
		if cal == nil {
			return
		}
		if reachesCacheRead(p, cal) || cal == unmFn || cal == anchor(p, setecPkg, "(*Store).isActiveSetValid") || eng.CalleeIs(&call.Call, "encoding/json", "Unmarshal") {
			cacheVals[call] = true
		}
	})
	isCacheVal := func(v ssa.Value) bool {
		if v == nil {
			return false
		}
		call, _ := eng.TupleCall(v)
		return call != nil && cacheVals[call]
	}
	// no error return depends on the cache
	for _, r := range eng.Returns(ns) {
		rv := eng.RetVals(r)
		if eng.IsNilConst(eng.Origin(rv[1])) {
			continue
		}
		bad := ""
		if isCacheVal(rv[1]) {
			bad = "returns the cache error itself"
		}
		for _, cond := range eng.FactsAt(r) {
			if isCacheVal(cond.X) || isCacheVal(cond.Y) {
				bad = "edge-dominated by " + cond.String()
			}
		}
		c.Check(bad == "", "R-C13-5", ns, r.Pos(), "error return "+eng.InstrStr(r), "no failure of NewStore depends on the cache read, its decoding or its validity (a bad cache is ignored as a whole)", bad)
	}
	isClear := func(x ssa.Instruction) bool {
		if args, ok := eng.BuiltinCall(x, "clear"); ok {
			if n, isAct := activeMapOf(args[0]); isAct && n == "m" {
				return true
			}
		}
		if st, ok := x.(*ssa.Store); ok {
			if n, _, isAct := activeFieldAddr(st.Addr); isAct && n == "m" {
				return true // the map is replaced wholesale
			}
		}
		return false
	}
	usesMapIn := func(f *ssa.Function) func(ssa.Instruction) bool {
		ops := map[ssa.Instruction]bool{}
		for _, m := range eng.MapOps(f) {
			if n, isAct := activeMapOf(m.Map); isAct && n == "m" && m.Kind != "clear" {
				ops[m.In] = true
			}
		}
		return func(x ssa.Instruction) bool {
			if isClear(x) {
				return false
			}
			if ops[x] {
				return true
			}
			if call, ok := x.(*ssa.Call); ok {
				if cal := eng.Callee(&call.Call); cal != nil && cal != unmFn && cal.Parent() == nil {
					for r := range g.Reach(cal, nil) {
						for _, a := range storeAccesses1(r) {
							if a.What == "active.m" {
								return true
							}
						}
					}
				}
			}
			return false
		}
	}
	// rejected(edge): from `start` under filter, the map is cleared before it is used;
	// if the function returns first, the obligation passes to its call sites.
	var rejected func(f *ssa.Function, start ssa.Instruction, filter eng.EdgeFilter, depth int) (ssa.Instruction, []*ssa.BasicBlock)
	rejected = func(f *ssa.Function, start ssa.Instruction, filter eng.EdgeFilter, depth int) (ssa.Instruction, []*ssa.BasicBlock) {
		uses := usesMapIn(f)
		hit, path := eng.Search(f, start, filter, isClear, func(x ssa.Instruction) bool { return uses(x) || eng.IsReturn(x) })
		if hit == nil {
			return nil, nil
		}
		if _, isRet := hit.(*ssa.Return); !isRet || f == ns || depth > 2 {
			return hit, path
		}
		// returned with the rejected contents still in place: every caller must clear before use
		for _, e := range g.CallersOf(f) {
			if h2, p2 := rejected(e.Caller, e.Site, nil, depth+1); h2 != nil {
				return h2, p2
			}
		}
		return nil, nil
	}
	hit, path := rejected(unmFn, unm, eng.AssumeErr(unm, false), 0)
	c.Check(hit == nil, "R-C13-5", unmFn, unm.Pos(), "decode-error edge of the cache", "the (possibly partially decoded) map is cleared before anything uses it", func() string {
		if hit == nil {
			return ""
		}
		return eng.InstrStr(hit) + " at " + p.Pos(hit.Pos()) + " reached with the partial decode in place: " + p.PathStr(path)
	}())
	// validity check
	var valid *ssa.Call
	var validFn *ssa.Function
	for _, f := range []*ssa.Function{ns, unmFn} {
		eng.Instrs(f, func(in ssa.Instruction) {
			if call, ok := in.(*ssa.Call); ok {
				if cal := eng.Callee(&call.Call); cal != nil && cal == anchor(p, setecPkg, "(*Store).isActiveSetValid") {
					valid, validFn = call, f
				}
			}
		})
	}
	if valid == nil {
		c.Bad("R-C13-5", unmFn, unm.Pos(), "validity check of the decoded cache", "the decoded cache is validated before use", "no validity check is called")
		return
	}
	invalidEdge := eng.AssumeBool(valid, false)
	if eng.IsErrorType(valid.Type()) {
		invalidEdge = eng.AssumeErr(valid, false) // the gate answers with an error
	}
	hit, path = rejected(validFn, valid, invalidEdge, 0)
	c.Check(hit == nil, "R-C13-5", validFn, valid.Pos(), "invalid-cache edge", "an invalid cache is discarded as a whole (map cleared) before it is used", func() string {
		if hit == nil {
			return ""
		}
		return eng.InstrStr(hit) + " reached with the invalid entries in place: " + p.PathStr(path)
	}())
	// the validity check covers every successfully decoded cache
	hit, path = eng.Search(unmFn, unm, eng.AssumeErr(unm, true), func(x ssa.Instruction) bool { return x == ssa.Instruction(valid) }, func(x ssa.Instruction) bool {
		if validFn != unmFn || x == ssa.Instruction(valid) {
			return false
		}
		return usesMapIn(unmFn)(x) || eng.IsReturn(x)
	})
	c.Check(hit == nil, "R-C13-5", unmFn, unm.Pos(), "validation after a successful decode", "every successfully decoded cache is validated before it is used", func() string {
		if hit == nil {
			return ""
		}
		return eng.InstrStr(hit) + " reached without validation: " + p.PathStr(path)
	}())
}

func reachesCacheRead(p *eng.Prog, f *ssa.Function) bool {
	hits := p.CallGraph().FindReachable(f, func(e eng.Edge) bool { return e.Kind != "static" }, func(in ssa.Instruction) bool {
		if ci, ok := in.(ssa.CallInstruction); ok {
			cc := ci.Common()
			return cc.IsInvoke() && cc.Method.Name() == "Read" && eng.IsNamed(cc.Value.Type(), setecPkg, "Cache")
		}
		return false
	})
	return len(hits) > 0
}

// R-C13-6
func c13Validity(c *eng.Ctx) {
	p := c.P
	f := anchor(p, setecPkg, "(*Store).isActiveSetValid")
	if f == nil {
		c.Undecided("R-C13-6", nil, 0, "setec.(*Store).isActiveSetValid", "anchor does not resolve")
		return
	}
	var loop *mapLoop
	for _, l := range mapLoops(f) {
		if isActiveSetValue(l.Range.X) {
			ll := l
			loop = &ll
		}
	}
	if loop == nil {
		c.Bad("R-C13-6", f, f.Pos(), "validity gate", "examines every entry of the active set", "no loop over Store.active.m")
		return
	}
	type need struct {
		name string
		is   func(cond eng.Cond) bool
		not  func(cond eng.Cond) bool // the opposite is established
	}
	isVal := func(v ssa.Value) bool { return eng.Origin(v) == loop.Val || eng.OriginX(v) == loop.Val }
	needs := []need{
		{"key == \"\"", func(cond eng.Cond) bool {
			op, x, y, ok := cond.Cmp()
			if !ok || op != token.EQL {
				return false
			}
			s, isC := eng.ConstString(y)
			return isC && s == "" && eng.Origin(x) == loop.Key
		}, func(cond eng.Cond) bool {
			op, x, y, ok := cond.Cmp()
			if !ok || op != token.NEQ {
				return false
			}
			s, isC := eng.ConstString(y)
			return isC && s == "" && (eng.Origin(x) == loop.Key || eng.OriginX(x) == loop.Key)
		}},
		{"entry == nil", func(cond eng.Cond) bool {
			v, isNil, ok := cond.NilCheck()
			return ok && isNil && eng.Origin(v) == loop.Val
		}, func(cond eng.Cond) bool {
			v, isNil, ok := cond.NilCheck()
			return ok && !isNil && isVal(v)
		}},
		{"entry.Secret == nil", func(cond eng.Cond) bool {
			v, isNil, ok := cond.NilCheck()
			if !ok || !isNil {
				return false
			}
			fr, base, isF := eng.LoadedField(v)
			return isF && fr.Is(setecPkg, "cachedSecret", "Secret") && eng.Origin(base) == loop.Val
		}, func(cond eng.Cond) bool {
			v, isNil, ok := cond.NilCheck()
			if !ok || isNil {
				return false
			}
			fr, base, isF := eng.LoadedField(v)
			return isF && fr.Is(setecPkg, "cachedSecret", "Secret") && isVal(base)
		}},
	}
	for _, nd := range needs {
		found := false
		okk := false
		eng.Instrs(f, func(in ssa.Instruction) {
			ifi, isIf := in.(*ssa.If)
			if !isIf {
				return
			}
			for i := range ifi.Block().Succs {
				cond := eng.CondOf(ifi.Cond, i == 0)
				if !nd.is(cond) {
					continue
				}
				found = true
				// on this edge every path ends in `return false` without re-entering the loop
				succ := ifi.Block().Succs[i]
				bad, _ := eng.SearchBlock(f, succ, nil, nil, func(x ssa.Instruction) bool {
					if x.Block() == loop.Header {
						return true
					}
					if r, isR := x.(*ssa.Return); isR {
						return !gateRejects(r)
					}
					return false
				})
				first := succ.Instrs[0]
				if r, isR := first.(*ssa.Return); isR {
					if !gateRejects(r) {
						bad = first
					}
				}
				if bad == nil {
					okk = true
				}
			}
		})
		if !(found && okk) && nd.not != nil {
			// the dual form: an entry is passed (next iteration, or a non-false
			// answer from inside the loop) only where the opposite is known --
			// also through a boolean helper of the entry whose answer was tested
			passes, all := 0, true
			judgeC := func(conds []eng.Cond) {
				passes++
				has := false
				for _, cond := range conds {
					if nd.not(cond) {
						has = true
					}
				}
				if !has {
					all = false
				}
			}
			judge := func(at ssa.Instruction) { judgeC(eng.FactsX(at)) }
			for _, pr := range loop.Header.Preds {
				if loop.Body.Dominates(pr) {
					judgeC(eng.EdgeFactsX(pr, loop.Header))
				}
			}
			for _, r := range eng.Returns(f) {
				if !loop.Body.Dominates(r.Block()) {
					continue
				}
				if gateRejects(r) {
					continue
				}
				judge(r)
			}
			if passes > 0 && all {
				found, okk = true, true
			}
		}
		c.Check(found && okk, "R-C13-6", f, f.Pos(), "validity gate rejects "+nd.name, "for every entry, "+nd.name+" leads to 'return false' (later code dereferences this level without a check)", func() string {
			if !found {
				return "no such test in the loop"
			}
			return "the test does not always lead to return false"
		}())
	}
	// validity is about shape only: an empty value is a legal secret and a
	// document holding one must be accepted
	nv := 0
	eng.Instrs(f, func(in ssa.Instruction) {
		if fa, ok := in.(*ssa.FieldAddr); ok {
			if fr, isF := eng.FieldOfAddr(fa); isF && fr.Is("types/api", "SecretValue", "Value") {
				nv++
				c.Bad("R-C13-6", f, in.Pos(), eng.InstrStr(in), "the validity gate judges the shape of the document, never the secret bytes (an empty value is a value the store itself persists; rejecting it discards the whole cache at the next start)", "reads SecretValue.Value")
			}
		}
	})
	if nv == 0 {
		c.Ok("R-C13-6", f, f.Pos(), "reads of SecretValue.Value in the validity gate", "none")
	}
	// `return true` only after the loop
	for _, r := range eng.Returns(f) {
		rv := eng.RetVals(r)
		accepts := false
		if k, isC := eng.Origin(rv[0]).(*ssa.Const); isC && k.Value != nil && k.Value.String() == "true" {
			accepts = true
		}
		if eng.IsErrorType(rv[0].Type()) && eng.IsNilConst(eng.Origin(rv[0])) {
			accepts = true
		}
		if accepts {
			c.Check(!loop.Body.Dominates(r.Block()), "R-C13-6", f, r.Pos(), eng.InstrStr(r), "the set is valid only after every entry was examined", "accepted from inside the loop")
		}
	}
}

// flushAlwaysWrites: with a cache configured, every success return of the
// flush routine f has passed the Cache.Write call `call`.
func flushAlwaysWrites(c *eng.Ctx, rule string, f *ssa.Function, call *ssa.Call) {
	p := c.P
	in := ssa.Instruction(call)
	assumeCache := func(b *ssa.BasicBlock, i int) bool {
		ifi, ok := b.Instrs[len(b.Instrs)-1].(*ssa.If)
		if !ok {
			return true
		}
		v, isNil, isN := eng.CondOf(ifi.Cond, i == 0).NilCheck()
		if !isN {
			return true
		}
		if fr2, _, isF2 := eng.LoadedField(v); isF2 && fr2.Is(setecPkg, "Store", storeField("cache")) {
			return !isNil
		}
		return true
	}
	hit, path := eng.Search(f, nil, assumeCache, func(x ssa.Instruction) bool { return x == in }, func(x ssa.Instruction) bool {
		r, isR := x.(*ssa.Return)
		if !isR {
			return false
		}
		rv := eng.RetVals(r)
		return len(rv) == 0 || nonNilAt(rv[len(rv)-1], eng.FactsAt(r)) != eng.Yes
	})
	c.Check(hit == nil, rule, f, in.Pos(), "flush routine "+eng.FName(f)+" [always writes]", "with a cache configured, every path that reports success has written the document (no 'nothing changed' short-cut: access stamps and failed earlier writes would be lost)", func() string {
		if hit == nil {
			return ""
		}
		return "success return at " + p.Pos(hit.Pos()) + " reachable without writing: " + p.PathStr(path)
	}())
}

// c13CacheField: R-C13-8.  The cache the store reads at start and writes
// after every change is the one the configuration names, for every kind of
// client, and stays that one: Store.cache is assigned only where the Store is
// built, from StoreConfig.Cache (directly or through an accessor all of whose
// returns yield that field).
func c13CacheField(c *eng.Ctx) {
	p := c.P
	fld := storeField("cache")
	n := 0
	isCfgCache := func(v ssa.Value) bool {
		fr, _, isF := eng.LoadedField(v)
		return isF && fr.Is(setecPkg, "StoreConfig", "Cache")
	}
	for _, f := range p.PkgFuncs(setecPkg) {
		for _, a := range eng.FieldAccesses(f) {
			if !a.Write || !a.Field.Is(setecPkg, "Store", fld) {
				continue
			}
			n++
			st, isSt := a.In.(*ssa.Store)
			if !isSt || !freshBase(a.Base) {
				c.Bad("R-C13-8", f, a.In.Pos(), eng.InstrStr(a.In), "the store's cache is fixed when the store is built (never dropped or swapped later: every later change must still reach it)", "assigned outside the Store literal")
				continue
			}
			okk := isCfgCache(st.Val)
			detail := "value " + eng.ValStr(st.Val)
			if call, _ := eng.TupleCall(st.Val); call != nil && !okk {
				if h := eng.Callee(&call.Call); h != nil && h.Blocks != nil && h.Signature.Recv() != nil && eng.IsNamed(h.Signature.Recv().Type(), setecPkg, "StoreConfig") {
					okk = true
					for _, r := range eng.Returns(h) {
						rv := eng.RetVals(r)
						if len(rv) != 1 || !isCfgCache(rv[0]) {
							okk = false
							detail = "accessor " + eng.FName(h) + " can return " + eng.InstrStr(r)
						}
					}
				}
			}
			c.Check(okk, "R-C13-8", f, a.In.Pos(), eng.InstrStr(a.In), "Store.cache = StoreConfig.Cache, whatever the client (a configured cache is used with a file-backed client too)", detail)
		}
	}
	if n == 0 {
		c.Undecided("R-C13-8", nil, 0, "assignment of Store."+fld, "not found")
	}
}

// c13WholeFile: R-C13-9.  What the file cache reads back is the whole
// document it wrote: FileCache.Read returns os.ReadFile of its path, or
// io.ReadAll of the file it opened, and nothing on that path bounds or
// slices the read (a document cut short does not decode, and the whole
// active set is discarded at the next start).
func c13WholeFile(c *eng.Ctx) {
	p := c.P
	rd := p.Method(setecPkg, "FileCache", "Read")
	if rd == nil {
		c.Undecided("R-C13-9", nil, 0, "setec.FileCache.Read", "anchor does not resolve")
		return
	}
	bad := false
	eng.InstrsDeep(rd, func(g *ssa.Function, in ssa.Instruction) {
		ci, ok := in.(ssa.CallInstruction)
		if !ok {
			return
		}
		cc := ci.Common()
		limited := ""
		for _, nm := range []string{"LimitReader", "CopyN", "ReadFull", "ReadAtLeast", "NewSectionReader"} {
			if eng.CalleeIs(cc, "io", nm) {
				limited = "io." + nm
			}
		}
		for _, nm := range []string{"*File.Read", "*File.ReadAt"} {
			if eng.CalleeIs(cc, "os", nm) {
				limited = "os." + nm
			}
		}
		if cc.IsInvoke() && (cc.Method.Name() == "Read" || cc.Method.Name() == "ReadAt") {
			limited = "a single " + cc.Method.Name() + " call"
		}
		if limited != "" {
			bad = true
			c.Bad("R-C13-9", g, in.Pos(), eng.CallStr(cc), "the cache file is read completely, whatever its size", "bounded read through "+limited)
		}
	})
	for _, r := range eng.Returns(rd) {
		rv := eng.RetVals(r)
		if len(rv) != 2 || eng.IsNilConst(eng.Origin(rv[0])) {
			continue
		}
		if _, isSl := eng.Origin(rv[0]).(*ssa.Slice); isSl {
			bad = true
			c.Bad("R-C13-9", rd, r.Pos(), eng.InstrStr(r), "the bytes read are returned whole", "a slice of them is returned")
			continue
		}
		call, idx := eng.TupleCall(rv[0])
		known := false
		if call != nil && idx == 0 {
			switch {
			case eng.CalleeIs(&call.Call, "os", "ReadFile"):
				known = true
			case eng.CalleeIs(&call.Call, "io", "ReadAll"):
				if oc, oi := eng.TupleCall(call.Call.Args[0]); oc != nil && oi == 0 && (eng.CalleeIs(&oc.Call, "os", "Open") || eng.CalleeIs(&oc.Call, "os", "OpenFile")) {
					known = true
				}
			}
		}
		if known {
			c.Ok("R-C13-9", rd, r.Pos(), eng.InstrStr(r), "whole-file read")
		} else if !bad {
			c.Undecided("R-C13-9", rd, r.Pos(), eng.InstrStr(r), "not a recognised whole-file read (os.ReadFile, or io.ReadAll of the opened file)")
		}
	}
}

// gateRejects: the return of the validity gate says "invalid": the constant
// false, or (for a gate answering with an error) a value that is certainly
// not nil.
func gateRejects(r *ssa.Return) bool {
	rv := eng.RetVals(r)
	if len(rv) != 1 {
		return false
	}
	if k, isC := eng.Origin(rv[0]).(*ssa.Const); isC && k.Value != nil && k.Value.String() == "false" {
		return true
	}
	return eng.IsErrorType(rv[0].Type()) && nonNilAt(rv[0], eng.FactsAt(r)) == eng.Yes
}
