package rules

import (
	"go/token"
	"go/types"

	"golang.org/x/tools/go/ssa"

	"setecvet/eng"
)

func init() {
	register(&Prop{
		ID: "C13",
		Explanation: "Decides structural necessary conditions of C13: (R-C13-1) install => flush: every post-publication change of the active set (install, replacement, removal) is followed, before the lock is released, by a call that writes the cache; the poller's shutdown branch flushes before returning; in NewStore the flush is performed whenever a declared name had to be stubbed (flag set in the same block as the stub) and initialisation succeeded; " +
			"(R-C13-2) one complete document: the bytes handed to Cache.Write are exactly json.Marshal of the live map Store.active.m, in one call; (R-C13-3) FileCache.Write is a single atomicfile.WriteFile(path, data, owner-only constant mode) and the package creates no other file except the cache directory (0700); " +
			"(R-C13-4) the cache document's wire signature (computed from go/types) equals the documented one, and the file-backed client's reader type agrees with it on the \"secret\" object (Value base64, Version number); NewFileClient skips only entries with empty name, nil secret, version <= 0 or empty value and prefers TextValue only when non-empty; " +
			"(R-C13-5) a bad cache never fails the start: no error return of NewStore depends on the cache read, its decoding or its validity, and on the decode-error and invalid edges the map is cleared before anything else uses it; (R-C13-6) the validity gate rejects an empty key, a nil entry and a nil Secret for every entry -- exactly the pointer levels later code dereferences unchecked.",
		NotDecided:  "What encoding/json does with arbitrary byte strings (no panic: trusted); crash behaviour of the file write (C04's R-C04-2 covers the routine).",
		Trusted:     append([]string{"encoding/json never panics on malformed input and leaves a partially decoded value", "atomicfile.WriteFile is atomic (checked in C04)"}, commonTrusted...),
		Assumptions: []string{},
		Run:         runC13,
	})
}

const cacheDocShape = `object(string→?{"lastAccess",string:number(int64) "secret":?{"Value":base64 "Version":number(uint32)}})`

func runC13(c *eng.Ctx, tier string) {
	p := c.P
	if p.Named(setecPkg, "Store") == nil {
		c.Undecided("anchor", nil, 0, "setec.Store", "anchor does not resolve")
		return
	}
	l := moduleLocks(c)
	isFlush := func(x ssa.Instruction) bool {
		if call, ok := x.(*ssa.Call); ok {
			if cal := eng.Callee(&call.Call); cal != nil && reachesCacheWrite(p, eng.Unwrap(cal)) {
				return true
			}
			cc := &call.Call
			if cc.IsInvoke() && cc.Method.Name() == "Write" && eng.IsNamed(cc.Value.Type(), setecPkg, "Cache") {
				return true
			}
		}
		return false
	}
	// R-C13-1
	n1 := 0
	for _, a := range storeAccesses(p) {
		changes := false
		switch {
		case a.Map != nil && a.What == "active.m" && a.Map.IsWrite():
			changes = true
		case a.What == "cachedSecret.Secret" && a.Write && a.Kind == "store":
			changes = true
		}
		if !changes {
			continue
		}
		st := l.HeldBefore(a.In)
		if !l.HoldsReal(st, keyStore) {
			continue // pre-publication: handled below
		}
		n1++
		hit, path := eng.Search(a.Fn, a.In, nil, isFlush, func(x ssa.Instruction) bool {
			if eng.IsReturn(x) {
				return true
			}
			if call, ok := x.(*ssa.Call); ok {
				if op, k, isL := eng.LockOp(&call.Call); isL && k == keyStore && op == "Unlock" {
					return true
				}
			}
			return false
		})
		c.Check(hit == nil, "R-C13-1", a.Fn, a.In.Pos(), "change of the active set: "+eng.InstrStr(a.In), "followed by a cache write before the lock is released (the cache always holds every known secret's latest value)", func() string {
			if hit == nil {
				return ""
			}
			return eng.InstrStr(hit) + " reached without a flush: " + p.PathStr(path)
		}())
	}
	if n1 < 3 {
		c.Undecided("R-C13-1", nil, 0, "post-publication changes of the active set", "fewer than 3 found")
	}
	// shutdown flush in the poller
	if run := p.Method(setecPkg, "Store", "run"); run != nil {
		ctxP := ctxParam(run)
		n := 0
		eng.Instrs(run, func(in ssa.Instruction) {
			sel, ok := in.(*ssa.Select)
			if !ok {
				return
			}
			for i, stt := range sel.States {
				call, _ := eng.TupleCall(stt.Chan)
				if call == nil || !call.Call.IsInvoke() || call.Call.Method.Name() != "Done" || eng.Origin(call.Call.Value) != ssa.Value(ctxP) {
					continue
				}
				n++
				// branch for case i: every path to return passes a flush
				var idxVal ssa.Value
				for _, r := range *sel.Referrers() {
					if ex, ok := r.(*ssa.Extract); ok && ex.Index == 0 {
						idxVal = ex
					}
				}
				var branch *ssa.BasicBlock
				eng.Instrs(run, func(x ssa.Instruction) {
					if ifi, ok := x.(*ssa.If); ok {
						op, a, b, isCmp := eng.CondOf(ifi.Cond, true).Cmp()
						if isCmp && op == token.EQL && a == idxVal {
							if k, isC := eng.ConstInt(b); isC && int(k) == i {
								branch = ifi.Block().Succs[0]
							}
						}
					}
				})
				if branch == nil {
					c.Undecided("R-C13-1", run, sel.Pos(), "shutdown branch of the poller", "cannot locate the Done case")
					continue
				}
				hit, path := eng.Search(run, branch.Instrs[0], nil, isFlush, eng.IsReturn)
				if isFlush(branch.Instrs[0]) {
					hit = nil
				}
				c.Check(hit == nil, "R-C13-1", run, sel.Pos(), "shutdown branch of the poller", "the cache is flushed before the poller returns", func() string {
					if hit == nil {
						return ""
					}
					return "return reached without flush: " + p.PathStr(path)
				}())
			}
		})
		if n == 0 {
			c.Undecided("R-C13-1", run, run.Pos(), "poller shutdown", "no select on ctx.Done() found")
		}
	} else {
		c.Undecided("R-C13-1", nil, 0, "setec.(*Store).run", "anchor does not resolve")
	}
	c13NewStoreFlush(c, isFlush)
	c13Document(c)
	c13FileCache(c)
	c13Wire(c)
	c13BadCache(c)
	c13Validity(c)
}

func c13NewStoreFlush(c *eng.Ctx, isFlush func(ssa.Instruction) bool) {
	p := c.P
	ns := p.Func(setecPkg, "NewStore")
	if ns == nil {
		c.Undecided("R-C13-1", nil, 0, "setec.NewStore", "anchor does not resolve")
		return
	}
	// stub inserts (nil values) before publication
	var stubs []*ssa.MapUpdate
	for _, m := range eng.MapOps(ns) {
		if n, isAct := activeMapOf(m.Map); isAct && n == "m" && m.Kind == "update" && eng.IsNilConst(eng.Origin(m.Val)) {
			stubs = append(stubs, m.In.(*ssa.MapUpdate))
		}
	}
	if len(stubs) == 0 {
		c.Notes = append(c.Notes, "NewStore stubs no missing names: nothing to flush at construction")
		return
	}
	var flush *ssa.Call
	eng.Instrs(ns, func(in ssa.Instruction) {
		if isFlush(in) {
			flush = in.(*ssa.Call)
		}
	})
	if flush == nil {
		c.Bad("R-C13-1", ns, ns.Pos(), "NewStore: flush after initial fetch", "when a declared secret had to be fetched the cache is written before NewStore returns", "no flush call in NewStore")
		return
	}
	// conditions guarding the flush: a flag that is true exactly when a stub was inserted, and init success
	var flag ssa.Value
	initOK := false
	var other []string
	for _, cond := range eng.FactsAt(flush) {
		if v, truth, isB := cond.Bool(); isB && truth {
			if _, phis := eng.PhiLeaves(eng.Origin(v)); len(phis) > 0 {
				flag = eng.Origin(v)
				continue
			}
		}
		if v, isNil, isE := cond.ErrCheck(); isE && isNil {
			if call, _ := eng.TupleCall(v); call != nil {
				if cal := eng.Callee(&call.Call); cal != nil && cal.Name() == "initializeActive" {
					initOK = true
					continue
				}
			}
		}
		// conditions established before the store exists (argument validation) are irrelevant
		if cond.If != nil && cond.If.Block().Dominates(stubs[0].Block()) && !stubs[0].Block().Dominates(cond.If.Block()) {
			continue
		}
		other = append(other, cond.String())
	}
	c.Check(len(other) == 0, "R-C13-1", ns, flush.Pos(), "NewStore: conditions on the initial flush", "the flush depends only on 'a declared name was missing' and 'initialisation succeeded'", "additional conditions: "+join(other))
	c.Check(initOK, "R-C13-1", ns, flush.Pos(), "NewStore: flush after successful initialisation", "edge-dominated by the nil error of initializeActive", "")
	if flag == nil {
		// unconditional flush is fine too
		c.Ok("R-C13-1", ns, flush.Pos(), "NewStore: unconditional initial flush", "always flushed")
		return
	}
	leaves, _ := eng.PhiLeaves(flag)
	trueFrom := map[*ssa.BasicBlock]bool{}
	for _, lf := range leaves {
		if k, ok := lf.Val.(*ssa.Const); ok && k.Value != nil && k.Value.String() == "true" {
			trueFrom[lf.From] = true
		}
	}
	for _, st := range stubs {
		c.Check(trueFrom[st.Block()], "R-C13-1", ns, st.Pos(), "NewStore: stub of a missing declared name "+eng.InstrStr(st), "sets the want-flush flag in the same block (so the fetched value is written to the cache before NewStore returns)", "the flag is not set on this path")
	}
}

func join(ss []string) string {
	out := ""
	for i, s := range ss {
		if i > 0 {
			out += " ; "
		}
		out += s
	}
	return out
}

// R-C13-2
func c13Document(c *eng.Ctx) {
	p := c.P
	n := 0
	for _, f := range p.PkgFuncs(setecPkg) {
		eng.Instrs(f, func(in ssa.Instruction) {
			call, ok := in.(*ssa.Call)
			if !ok || !call.Call.IsInvoke() || call.Call.Method.Name() != "Write" || !eng.IsNamed(call.Call.Value.Type(), setecPkg, "Cache") {
				return
			}
			n++
			arg, _, isM := marshalArg(call.Call.Args[0])
			okk := false
			detail := "data = " + eng.ValStr(call.Call.Args[0])
			if isM {
				if nm, isAct := activeMapOf(eng.Origin(arg)); isAct && nm == "m" {
					okk = true
				} else {
					detail = "marshalled value is " + eng.ValStr(arg)
				}
			}
			c.Check(okk, "R-C13-2", f, in.Pos(), eng.CallStr(&call.Call), "the cache receives json.Marshal of the live map Store.active.m itself, in one Write (one complete document with every known secret)", detail)
			// the cache is the Store's own
			fr, _, isF := eng.LoadedField(call.Call.Value)
			c.Check(isF && fr.Is(setecPkg, "Store", "cache"), "R-C13-2", f, in.Pos(), "cache written by "+eng.FName(f), "the Store's configured cache", "")
		})
	}
	if n != 1 {
		c.Check(n == 1, "R-C13-2", nil, 0, "Cache.Write call sites in client/setec", "exactly one site writes the cache (the flush routine)", "found "+itoa(n))
	}
}

// R-C13-3
func c13FileCache(c *eng.Ctx) {
	p := c.P
	fw := p.Func(setecPkg, "FileCache.Write")
	if fw == nil {
		c.Undecided("R-C13-3", nil, 0, "setec.FileCache.Write", "anchor does not resolve")
		return
	}
	nw := 0
	for _, f := range p.PkgFuncs(setecPkg) {
		eng.Instrs(f, func(in ssa.Instruction) {
			ci, ok := in.(ssa.CallInstruction)
			if !ok || !isFileMutatingCall(ci.Common()) {
				return
			}
			cc := ci.Common()
			site := eng.CallStr(cc)
			switch {
			case eng.CalleeIs(cc, "tailscale.com/atomicfile", "WriteFile"):
				mode, isC := eng.ConstInt(cc.Args[2])
				okk := f == fw && isC && mode&0o077 == 0 && eng.OriginConv(cc.Args[0]) == ssa.Value(fw.Params[0]) && eng.Origin(cc.Args[1]) == ssa.Value(fw.Params[1])
				nw++
				c.Check(okk, "R-C13-3", f, in.Pos(), site, "FileCache.Write(data) = atomicfile.WriteFile(path of this cache, data, constant owner-only mode)", "in "+eng.FName(f)+" mode "+eng.ValStr(cc.Args[2]))
			case eng.CalleeIs(cc, "os", "MkdirAll") || eng.CalleeIs(cc, "os", "Mkdir"):
				mode, isC := eng.ConstInt(cc.Args[1])
				c.Check(isC && mode&0o077 == 0, "R-C13-3", f, in.Pos(), site, "the cache directory is created owner-only", "mode "+eng.ValStr(cc.Args[1]))
			default:
				c.Bad("R-C13-3", f, in.Pos(), site, "the client library writes files only through atomicfile.WriteFile (and creates the cache directory)", "other file-mutating call")
			}
		})
	}
	c.Check(nw == 1, "R-C13-3", fw, fw.Pos(), "atomic write in FileCache.Write", "exactly one atomicfile.WriteFile", "found "+itoa(nw))
}

// R-C13-4
func c13Wire(c *eng.Ctx) {
	p := c.P
	cs := p.Named(setecPkg, "cachedSecret")
	if cs == nil {
		c.Undecided("R-C13-4", nil, 0, "setec.cachedSecret", "anchor does not resolve")
		return
	}
	doc := types.NewMap(types.Typ[types.String], types.NewPointer(cs))
	got := eng.JSONShape(doc)
	c.Check(got == cacheDocShape, "R-C13-4", nil, cs.Obj().Pos(), "wire signature of the cache document", cacheDocShape+" (documented on the Cache interface; Declared is not persisted)", "computed "+got)
	// reader side in NewFileClient
	nfc := p.Func(setecPkg, "NewFileClient")
	if nfc == nil {
		c.Undecided("R-C13-4", nil, 0, "setec.NewFileClient", "anchor does not resolve")
		return
	}
	var input types.Type
	eng.Instrs(nfc, func(in ssa.Instruction) {
		if call, ok := in.(*ssa.Call); ok && eng.CalleeIs(&call.Call, "encoding/json", "Unmarshal") {
			a := call.Call.Args[1]
			if mi, isMI := a.(*ssa.MakeInterface); isMI {
				a = mi.X
			}
			input = eng.Deref(a.Type())
		}
	})
	if input == nil {
		c.Undecided("R-C13-4", nfc, nfc.Pos(), "reader type of NewFileClient", "no json.Unmarshal found")
		return
	}
	rs := eng.JSONShape(input)
	const wantReader = `object(string→{"secret":?{"TextValue":string "Value":base64 "Version":number(uint32)}})`
	c.Check(rs == wantReader, "R-C13-4", nfc, nfc.Pos(), "wire signature read by NewFileClient", wantReader+" (agrees with the cache document on \"secret\".Value/Version; extra TextValue allowed)", "computed "+rs)
	// skip conditions on inserts into the client's map
	n := 0
	for _, m := range eng.MapOps(nfc) {
		if m.Kind != "update" {
			continue
		}
		mt, isMap := m.Map.Type().Underlying().(*types.Map)
		if !isMap || !eng.IsNamed(mt.Elem(), "types/api", "SecretValue") {
			continue
		}
		n++
		facts := eng.FactsAt(m.In)
		var hasName, hasSecret, hasVersion bool
		for _, cond := range facts {
			if op, x, y, isCmp := cond.Cmp(); isCmp {
				if s, isC := eng.ConstString(y); isC && s == "" && op == token.NEQ && eng.Same(x, m.Key) {
					hasName = true
				}
				if k, isC := eng.ConstInt(y); isC && k == 0 && op == token.GTR {
					if fr, _, isF := eng.LoadedField(x); isF && fr.Name == "Version" {
						hasVersion = true
					}
				}
			}
			if v, isNil, isN := cond.NilCheck(); isN && !isNil {
				if fr, _, isF := eng.LoadedField(v); isF && fr.Name == "Secret" {
					hasSecret = true
				}
			}
		}
		c.Check(hasName && hasSecret && hasVersion, "R-C13-4", nfc, m.In.Pos(), eng.InstrStr(m.In), "an entry is accepted only with a non-empty name, a non-nil secret and a version > 0", "name-check="+boolStr(hasName)+" secret-check="+boolStr(hasSecret)+" version-check="+boolStr(hasVersion)+" | "+factsStr(facts))
		// which bytes are used
		al, isAl := eng.Origin(m.Val).(*ssa.Alloc)
		if !isAl {
			continue
		}
		fields, _, _ := eng.LiteralFields(al)
		val := fields["Value"]
		if fr, _, isF := eng.LoadedField(eng.OriginConv(val)); isF {
			switch fr.Name {
			case "Value":
				// used when TextValue is empty
				okk := false
				for _, cond := range facts {
					if op, x, y, isCmp := cond.Cmp(); isCmp && op == token.EQL {
						if s, isC := eng.ConstString(y); isC && s == "" {
							if fr2, _, isF2 := eng.LoadedField(x); isF2 && fr2.Name == "TextValue" {
								okk = true
							}
						}
					}
				}
				c.Check(okk, "R-C13-4", nfc, m.In.Pos(), "bytes used: Value", "the binary Value is used when TextValue is empty (identical results for every non-empty secret of a cache file)", factsStr(facts))
				if fv, has := fields["Version"]; has {
					fr3, _, isF3 := eng.LoadedField(fv)
					c.Check(isF3 && fr3.Name == "Version", "R-C13-4", nfc, m.In.Pos(), "version used", "the entry's own Version", eng.ValStr(fv))
				}
			case "TextValue":
				c.Ok("R-C13-4", nfc, m.In.Pos(), "bytes used: TextValue", "only when non-empty")
			}
		}
	}
	if n == 0 {
		c.Undecided("R-C13-4", nfc, nfc.Pos(), "inserts into the FileClient map", "none found")
	}
}

// R-C13-5
func c13BadCache(c *eng.Ctx) {
	p := c.P
	ns := p.Func(setecPkg, "NewStore")
	if ns == nil {
		return
	}
	var loadCall, unm, valid *ssa.Call
	eng.Instrs(ns, func(in ssa.Instruction) {
		call, ok := in.(*ssa.Call)
		if !ok {
			return
		}
		if cal := eng.Callee(&call.Call); cal != nil {
			if reachesCacheRead(p, cal) {
				loadCall = call
			}
			if cal.Name() == "isActiveSetValid" {
				valid = call
			}
		}
		if eng.CalleeIs(&call.Call, "encoding/json", "Unmarshal") {
			unm = call
		}
	})
	if loadCall == nil || unm == nil {
		c.Undecided("R-C13-5", ns, ns.Pos(), "cache load / decode in NewStore", "not found")
		return
	}
	isCacheVal := func(v ssa.Value) bool {
		call, _ := eng.TupleCall(v)
		return call != nil && (call == loadCall || call == unm || (valid != nil && call == valid))
	}
	// no error return depends on the cache
	for _, r := range eng.Returns(ns) {
		rv := eng.RetVals(r)
		if eng.IsNilConst(eng.Origin(rv[1])) {
			continue
		}
		bad := ""
		if isCacheVal(rv[1]) {
			bad = "returns the cache error itself"
		}
		for _, cond := range eng.FactsAt(r) {
			if isCacheVal(cond.X) || (cond.Y != nil && isCacheVal(cond.Y)) {
				bad = "edge-dominated by " + cond.String()
			}
		}
		c.Check(bad == "", "R-C13-5", ns, r.Pos(), "error return "+eng.InstrStr(r), "no failure of NewStore depends on the cache read, its decoding or its validity (a bad cache is ignored as a whole)", bad)
	}
	// clear on the decode-error and invalid edges before the map is used again
	isClear := func(x ssa.Instruction) bool {
		if args, ok := eng.BuiltinCall(x, "clear"); ok {
			if n, isAct := activeMapOf(args[0]); isAct && n == "m" {
				return true
			}
		}
		// replacing the map wholesale is as good
		if st, ok := x.(*ssa.Store); ok {
			if n, _, isAct := activeFieldAddr(st.Addr); isAct && n == "m" {
				return true
			}
		}
		return false
	}
	usesMap := func(x ssa.Instruction) bool {
		if isClear(x) {
			return false
		}
		for _, m := range eng.MapOps(ns) {
			if m.In == x {
				if n, isAct := activeMapOf(m.Map); isAct && n == "m" {
					return true
				}
			}
		}
		if call, ok := x.(*ssa.Call); ok {
			if cal := eng.Callee(&call.Call); cal != nil && p.CallGraph() != nil {
				nm := cal.Name()
				if nm == "initializeActive" || nm == "flushCacheLocked" {
					return true
				}
			}
		}
		return eng.IsReturn(x)
	}
	hit, path := eng.Search(ns, unm, eng.AssumeErr(unm, false), isClear, usesMap)
	c.Check(hit == nil, "R-C13-5", ns, unm.Pos(), "decode-error edge of the cache", "the (possibly partially decoded) map is cleared before it is used", func() string {
		if hit == nil {
			return ""
		}
		return eng.InstrStr(hit) + " reached with the partial decode in place: " + p.PathStr(path)
	}())
	if valid != nil {
		hit, path := eng.Search(ns, valid, eng.AssumeBool(valid, false), isClear, usesMap)
		c.Check(hit == nil, "R-C13-5", ns, valid.Pos(), "invalid-cache edge", "an invalid cache is discarded as a whole (map cleared) before it is used", func() string {
			if hit == nil {
				return ""
			}
			return eng.InstrStr(hit) + " reached with the invalid entries in place: " + p.PathStr(path)
		}())
	} else {
		c.Bad("R-C13-5", ns, unm.Pos(), "validity check of the decoded cache", "the decoded cache is validated before use", "no validity check is called")
	}
}

func reachesCacheRead(p *eng.Prog, f *ssa.Function) bool {
	hits := p.CallGraph().FindReachable(f, func(e eng.Edge) bool { return e.Kind != "static" }, func(in ssa.Instruction) bool {
		if ci, ok := in.(ssa.CallInstruction); ok {
			cc := ci.Common()
			return cc.IsInvoke() && cc.Method.Name() == "Read" && eng.IsNamed(cc.Value.Type(), setecPkg, "Cache")
		}
		return false
	})
	return len(hits) > 0
}

// R-C13-6
func c13Validity(c *eng.Ctx) {
	p := c.P
	f := p.Method(setecPkg, "Store", "isActiveSetValid")
	if f == nil {
		c.Undecided("R-C13-6", nil, 0, "setec.(*Store).isActiveSetValid", "anchor does not resolve")
		return
	}
	var loop *mapLoop
	for _, l := range mapLoops(f) {
		if n, isAct := activeMapOf(l.Range.X); isAct && n == "m" {
			ll := l
			loop = &ll
		}
	}
	if loop == nil {
		c.Bad("R-C13-6", f, f.Pos(), "validity gate", "examines every entry of the active set", "no loop over Store.active.m")
		return
	}
	type need struct {
		name string
		is   func(cond eng.Cond) bool
	}
	needs := []need{
		{"key == \"\"", func(cond eng.Cond) bool {
			op, x, y, ok := cond.Cmp()
			if !ok || op != token.EQL {
				return false
			}
			s, isC := eng.ConstString(y)
			return isC && s == "" && eng.Origin(x) == loop.Key
		}},
		{"entry == nil", func(cond eng.Cond) bool {
			v, isNil, ok := cond.NilCheck()
			return ok && isNil && eng.Origin(v) == loop.Val
		}},
		{"entry.Secret == nil", func(cond eng.Cond) bool {
			v, isNil, ok := cond.NilCheck()
			if !ok || !isNil {
				return false
			}
			fr, base, isF := eng.LoadedField(v)
			return isF && fr.Is(setecPkg, "cachedSecret", "Secret") && eng.Origin(base) == loop.Val
		}},
	}
	for _, nd := range needs {
		found := false
		okk := false
		eng.Instrs(f, func(in ssa.Instruction) {
			ifi, isIf := in.(*ssa.If)
			if !isIf {
				return
			}
			for i := range ifi.Block().Succs {
				cond := eng.CondOf(ifi.Cond, i == 0)
				if !nd.is(cond) {
					continue
				}
				found = true
				// on this edge every path ends in `return false` without re-entering the loop
				succ := ifi.Block().Succs[i]
				bad, _ := eng.Search(f, succ.Instrs[0], nil, nil, func(x ssa.Instruction) bool {
					if x.Block() == loop.Header {
						return true
					}
					if r, isR := x.(*ssa.Return); isR {
						rv := eng.RetVals(r)
						k, isC := eng.Origin(rv[0]).(*ssa.Const)
						return !(isC && k.Value != nil && k.Value.String() == "false")
					}
					return false
				})
				first := succ.Instrs[0]
				if r, isR := first.(*ssa.Return); isR {
					rv := eng.RetVals(r)
					k, isC := eng.Origin(rv[0]).(*ssa.Const)
					if !(isC && k.Value.String() == "false") {
						bad = first
					}
				}
				if bad == nil {
					okk = true
				}
			}
		})
		c.Check(found && okk, "R-C13-6", f, f.Pos(), "validity gate rejects "+nd.name, "for every entry, "+nd.name+" leads to 'return false' (later code dereferences this level without a check)", func() string {
			if !found {
				return "no such test in the loop"
			}
			return "the test does not always lead to return false"
		}())
	}
	// `return true` only after the loop
	for _, r := range eng.Returns(f) {
		rv := eng.RetVals(r)
		if k, isC := eng.Origin(rv[0]).(*ssa.Const); isC && k.Value.String() == "true" {
			c.Check(!loop.Body.Dominates(r.Block()), "R-C13-6", f, r.Pos(), eng.InstrStr(r), "the set is valid only after every entry was examined", "true returned from inside the loop")
		}
	}
}
