package rules

import (
	"go/constant"
	"go/types"
	"strings"

	"golang.org/x/tools/go/ssa"

	"setecvet/eng"
)

func init() {
	register(&Prop{
		ID: "C03",
		Explanation: "Decides structural clauses of C03: (R-C03-1) in every function of package db that mutates kv/secret state, every path from a forward write to a return passes a call that writes the database file, " +
			"the save error is tested before returning, and only the nil edge leads to a success return; (R-C03-2) the bytes handed to the file writer are Marshal(wrapped{Version:const, DEK:kv.dekRaw, DB:Encrypt(Marshal(persist{Secrets: the live kv.secrets}), ctx)}); " +
			"(R-C03-3) on the open path every file-mutating call is edge-dominated by errors.Is(readErr, fs.ErrNotExist); (R-C03-4) the schema-v1 wire signature computed from go/types " +
			"(JSON keys, base64/text encodings, integer map keys), the schema constant, the AEAD context strings, the key template and keyset (de)serialisers, and reader/writer agreement; " +
			"(R-C03-5) on the open path kv.secrets is exactly what json.Unmarshal produced from the Decrypt result. (R-C03-6, extended) the database file is touched only through the atomic writer (C04's R-C04-1: nothing renames the live file aside).",
		NotDecided:  "Equality of state after arbitrary histories (depends on encoding/json round-tripping and the AEAD, trusted); reading real files written by earlier builds (only their documented shape is compared).",
		Trusted:     append([]string{"encoding/json encodes a type according to the shape computed here (tags, []byte as base64, TextMarshaler, integer map keys)", "tink keyset binary reader/writer are inverse"}, commonTrusted...),
		Assumptions: []string{"the v1 layout is the one documented in db/kv.go's type comment and produced by the pinned types"},
		Run:         runC03,
	})
}

// Frozen wire signature S-v1 (from the layout comment on db.kv and the pinned types).
const (
	sv1Wrapped = `{"DB":base64 "DEK":base64 "Version":number(uint32)}`
	sv1Persist = `{"Secrets":object(string→?{"ActiveVersion":number(uint32) "LatestVersion":number(uint32) "Versions":object(decimal(uint32)→text(db.byteString marshal=true unmarshal=true))})}`
)

func runC03(c *eng.Ctx, tier string) {
	k := loadKV(c)
	if k == nil {
		return
	}
	c03SaveBeforeSuccess(c, k)
	c03SaveContent(c, k)
	c03OpenReadOnly(c, k)
	c03Wire(c, k)
	c03LoadedState(c, k, "R-C03-5")
	// R-C03-6: what the file holds equals what is served only if a failed save
	// is rolled back exactly (C04) and mutations and their saves are serialised
	// by the exclusive lock (C14): two saves that interleave can persist the
	// older image last
	includeOnly(c, "R-C03-6", func(sc *eng.Ctx) { runC04(sc, "quick") }, "R-C04-1", "R-C04-3")
	includeOnly(c, "R-C03-6", func(sc *eng.Ctx) { runC14(sc, "quick") }, "R-C14-1")
	// ... and an acknowledged put stored what it acknowledged (C02's numbering rules)
	includeOnly(c, "R-C03-6", func(sc *eng.Ctx) { runC02(sc, "quick") }, "R-C02-2", "R-C02-3", "R-C02-9")
}

// R-C03-1
func c03SaveBeforeSuccess(c *eng.Ctx, k *kvAnalysis) {
	muts := k.mutators()
	for _, f := range muts {
		saves := k.saveCalls(f)
		isSave := func(in ssa.Instruction) bool {
			for _, s := range saves {
				if in == ssa.Instruction(s) {
					return true
				}
			}
			return false
		}
		for _, w := range k.forward(f) {
			hit, path := eng.Search(f, w.In, nil, isSave, eng.IsReturn)
			site := "write " + w.Loc + " (" + w.Kind + "): " + eng.InstrStr(w.In)
			if hit != nil {
				c.Bad("R-C03-1", f, w.In.Pos(), site, "every path from a mutation of persistent state to a return passes a call that saves the database file",
					"return at "+c.P.Pos(hit.Pos())+" reachable without saving: "+c.P.PathStr(path))
			} else {
				c.Ok("R-C03-1", f, w.In.Pos(), site, "saved before any return")
			}
		}
		for _, s := range saves {
			ev := saveErr(s)
			site := "save call " + eng.CallStr(&s.Call)
			if ev == nil {
				c.Bad("R-C03-1", f, s.Pos(), site, "the error of the save is tested before returning", "error result is discarded")
				continue
			}
			// any return reachable from s (not through another save) on which the error is untested
			hit, path := eng.Search(f, s, nil, func(in ssa.Instruction) bool { return isSave(in) && in != ssa.Instruction(s) }, func(in ssa.Instruction) bool {
				r, ok := in.(*ssa.Return)
				if !ok {
					return false
				}
				for _, cond := range eng.FactsAt(r) {
					if v, _, ok := cond.ErrCheck(); ok && eng.Same(v, ev) {
						return false
					}
				}
				// tail position: return <save error> itself
				ei := errResultIndex(f)
				if ei >= 0 {
					rv := eng.RetVals(r)
					if eng.Same(rv[ei], ev) {
						return false
					}
				}
				return true
			})
			if hit != nil {
				c.Bad("R-C03-1", f, s.Pos(), site, "every return after a save is edge-dominated by a test of that save's error (success is acknowledged only on its nil edge)",
					"return at "+c.P.Pos(hit.Pos())+" does not depend on the save error: "+c.P.PathStr(path))
				continue
			}
			// returns on the failure edge carry a non-nil error
			bad := false
			for _, r := range eng.Returns(f) {
				failed := false
				for _, cond := range eng.FactsAt(r) {
					if v, isNil, ok := cond.ErrCheck(); ok && eng.Same(v, ev) && !isNil {
						failed = true
					}
				}
				if !failed {
					continue
				}
				ei := errResultIndex(f)
				if ei < 0 {
					continue
				}
				rv := eng.RetVals(r)
				if nonNilAt(rv[ei], eng.FactsAt(r)) != eng.Yes {
					bad = true
					c.Bad("R-C03-1", f, r.Pos(), "return after failed save: "+eng.InstrStr(r), "a failed save is reported: the returned error is non-nil", "returned error "+eng.ValStr(rv[ei])+" may be nil")
				}
			}
			if !bad {
				c.Ok("R-C03-1", f, s.Pos(), site, "error tested; success only on the nil edge; failure returns non-nil")
			}
		}
	}
	c.Floor("R-C03-1", 10)
}

// fileWriters: db functions that directly call the atomic file writer.
func fileWriters(c *eng.Ctx) []*ssa.Function {
	var out []*ssa.Function
	for _, f := range c.P.PkgFuncs("db") {
		found := false
		eng.Instrs(f, func(in ssa.Instruction) {
			if ci, ok := in.(ssa.CallInstruction); ok && isFileMutatingCall(ci.Common()) {
				found = true
			}
		})
		if found {
			out = append(out, f)
		}
	}
	return out
}

func marshalArg(v ssa.Value) (arg ssa.Value, call *ssa.Call, ok bool) {
	call, idx := eng.TupleCall(v)
	if call == nil || idx != 0 || !eng.CalleeIs(&call.Call, "encoding/json", "Marshal") {
		return nil, nil, false
	}
	return call.Call.Args[0], call, true
}

// isFieldLoadOf: v is a load of field `name` of the kv object recv.
func isKVFieldLoad(v ssa.Value, name string) bool {
	fr, _, ok := eng.LoadedField(v)
	return ok && isKVRole(curProg, fr, name)
}

// R-C03-2
func c03SaveContent(c *eng.Ctx, k *kvAnalysis) { c03SaveContentRule(c, k, "R-C03-2") }

func c03SaveContentRule(c *eng.Ctx, k *kvAnalysis, rule string) {
	ws := fileWriters(c)
	if len(ws) == 0 {
		c.Undecided(rule, nil, 0, "file writer", "no function of package db writes a file")
		return
	}
	schema := schemaConst(c)
	for _, f := range ws {
		eng.Instrs(f, func(in ssa.Instruction) {
			call, ok := in.(*ssa.Call)
			if !ok || !eng.CalleeIs(&call.Call, "tailscale.com/atomicfile", "WriteFile") {
				return
			}
			site := eng.CallStr(&call.Call)
			want := "data = Marshal(wrapped{Version: schema const, DEK: kv.dekRaw, DB: kv.dekCipher.Encrypt(Marshal(persist{Secrets: kv.secrets}), aeadContextDB(schema const))})"
			c.Check(isKVFieldLoad(call.Call.Args[0], "path"), rule, f, in.Pos(), site+" [target]", "target is kv.path", "target is "+eng.ValStr(call.Call.Args[0]))
			data := call.Call.Args[1]
			arg, _, ok := marshalArg(data)
			for depth := 0; !ok && depth < 3; depth++ {
				// the document may be built by a helper method of the same kv
				inner, hc := eng.ThroughHelper(data, func(g *ssa.Function) bool { return eng.FuncPkg(g) == c.P.TypesPkg("db") })
				if inner == nil || len(hc.Call.Args) == 0 || len(f.Params) == 0 || eng.Origin(hc.Call.Args[0]) != ssa.Value(f.Params[0]) {
					break
				}
				data = inner
				f = hc.Call.StaticCallee()
				arg, _, ok = marshalArg(data)
			}
			if !ok {
				// bytes taken from something the store keeps between saves (a
				// scratch buffer, a cached document): what is written then
				// depends on earlier saves, failed ones included
				stale := c.P.DependsOn(call.Call.Args[1], func(v ssa.Value) bool {
					fr, _, isF := eng.LoadedField(v)
					if isF && eng.IsNamed(fr.Owner, "db", "kv") {
						return true
					}
					if fa, isFA := v.(*ssa.FieldAddr); isFA {
						if fr2, okF := eng.FieldOfAddr(fa); okF && eng.IsNamed(fr2.Owner, "db", "kv") {
							return true
						}
					}
					return false
				})
				if stale {
					c.Bad(rule, f, in.Pos(), site+" [fresh document]", "the bytes written are serialised for this very save (json.Marshal of the current state), not taken from a buffer kept in the store", "data argument "+eng.ValStr(call.Call.Args[1])+" comes from a field of kv")
					return
				}
				c.Undecided(rule, f, in.Pos(), site, "data argument is not the result of json.Marshal (directly or through a helper of the same kv): "+eng.ValStr(call.Call.Args[1]))
				return
			}
			fields, al, ok := eng.LiteralFields(eng.Origin(arg))
			if !ok || al == nil || !eng.IsNamed(al.Type(), "db", dbTypeName(c.P, "wrapped")) {
				c.Undecided(rule, f, in.Pos(), site, "marshalled value is not a db.wrapped literal: "+eng.ValStr(arg))
				return
			}
			// Version
			vv, isC := eng.ConstInt(fields["Version"])
			c.Check(fields["Version"] != nil && isC && vv == schema, rule, f, in.Pos(), "wrapped.Version", want, "Version = "+eng.ValStr(fields["Version"]))
			c.Check(fields["DEK"] != nil && isKVFieldLoad(fields["DEK"], "dekRaw"), rule, f, in.Pos(), "wrapped.DEK", want, "DEK = "+eng.ValStr(fields["DEK"]))
			enc, idx := eng.TupleCall(fields["DB"])
			if enc == nil || idx != 0 || !enc.Call.IsInvoke() || enc.Call.Method.Name() != "Encrypt" || !isKVFieldLoad(enc.Call.Value, "dekCipher") {
				c.Bad(rule, f, in.Pos(), "wrapped.DB", want, "DB = "+eng.ValStr(fields["DB"]))
				return
			}
			c.Ok(rule, f, in.Pos(), "wrapped.DB", "result of kv.dekCipher.Encrypt")
			// context
			tmpl, _, okT := eng.StrTemplate(enc.Call.Args[1])
			wantCtx := "setec database v" + itoa(int(schema))
			c.Check(okT && tmpl == wantCtx, rule, f, in.Pos(), "Encrypt associated data", "the bytes \""+wantCtx+"\" (database context of the schema constant)", "associated data = "+eng.ValStr(enc.Call.Args[1])+" evaluates to \""+tmpl+"\"")
			// plaintext
			parg, _, ok := marshalArg(enc.Call.Args[0])
			if !ok {
				c.Bad(rule, f, in.Pos(), "Encrypt plaintext", want, "plaintext = "+eng.ValStr(enc.Call.Args[0]))
				return
			}
			pf, pal, ok := eng.LiteralFields(eng.Origin(parg))
			if !ok || pal == nil || !eng.IsNamed(pal.Type(), "db", dbTypeName(c.P, "persist")) {
				c.Bad(rule, f, in.Pos(), "Encrypt plaintext", want, "marshalled value is "+eng.ValStr(parg))
				return
			}
			c.Check(pf["Secrets"] != nil && isKVFieldLoad(pf["Secrets"], "secrets"), rule, f, in.Pos(), "persist.Secrets", "the live map kv.secrets itself (not a copy or a filtered view)", "Secrets = "+eng.ValStr(pf["Secrets"]))
		})
	}
	c.Floor(rule, 6)
}

func schemaConst(c *eng.Ctx) int64 {
	obj := c.P.TypesPkg("db").Scope().Lookup("databaseSchemaVersion")
	cst, ok := obj.(*types.Const)
	if !ok {
		c.Undecided("R-C03-4", nil, 0, "db.databaseSchemaVersion", "constant does not resolve")
		return -1
	}
	v, _ := constant.Int64Val(cst.Val())
	return v
}

// readers: db functions calling os.ReadFile.
func dbReaders(c *eng.Ctx) map[*ssa.Function]*ssa.Call {
	out := map[*ssa.Function]*ssa.Call{}
	for _, f := range c.P.PkgFuncs("db") {
		eng.Instrs(f, func(in ssa.Instruction) {
			if call, ok := in.(*ssa.Call); ok && eng.CalleeIs(&call.Call, "os", "ReadFile") {
				out[f] = call
			}
		})
	}
	return out
}

// R-C03-3
func c03OpenReadOnly(c *eng.Ctx, k *kvAnalysis) {
	rs := dbReaders(c)
	if len(rs) == 0 {
		c.Undecided("R-C03-3", nil, 0, "open path", "no function of package db reads the database file")
		return
	}
	n := 0
	for f, rd := range rs {
		rerr := saveErr(rd)
		eng.Instrs(f, func(in ssa.Instruction) {
			call, ok := in.(*ssa.Call)
			if !ok {
				return
			}
			cal := eng.Callee(&call.Call)
			if cal == nil || !(k.saveFns[eng.Unwrap(cal)] || isFileMutatingCall(&call.Call)) {
				return
			}
			n++
			ok = false
			for _, cond := range eng.FactsAt(in) {
				ic, _, truth, isCall := cond.BoolCall()
				if !isCall || !truth || !eng.CalleeIs(&ic.Call, "errors", "Is") {
					continue
				}
				if eng.Same(ic.Call.Args[0], rerr) && eng.IsGlobalLoad(ic.Call.Args[1], "io/fs", "ErrNotExist") {
					ok = true
				}
				if eng.Same(ic.Call.Args[0], rerr) && eng.IsGlobalLoad(ic.Call.Args[1], "os", "ErrNotExist") {
					ok = true
				}
			}
			c.Check(ok, "R-C03-3", f, in.Pos(), eng.CallStr(&call.Call), "on the open path a file-writing call is edge-dominated by errors.Is(readErr, fs.ErrNotExist) (opening never modifies an existing file)", "holding here: "+eng.FactsString(in))
		})
	}
	if n == 0 {
		c.Ok("R-C03-3", nil, 0, "open path", "no file-writing call on the open path at all")
	}
}

// R-C03-4
func c03Wire(c *eng.Ctx, k *kvAnalysis) {
	p := c.P
	w, ps := p.Named("db", dbTypeName(c.P, "wrapped")), p.Named("db", dbTypeName(c.P, "persist"))
	if w == nil || ps == nil {
		c.Undecided("R-C03-4", nil, 0, "db.wrapped / db.persist", "type anchors do not resolve")
		return
	}
	got := eng.JSONShape(w)
	c.Check(got == sv1Wrapped, "R-C03-4", nil, w.Obj().Pos(), "wire signature of db.wrapped", sv1Wrapped, "computed "+got)
	got = eng.JSONShape(ps)
	c.Check(got == sv1Persist, "R-C03-4", nil, ps.Obj().Pos(), "wire signature of db.persist", sv1Persist, "computed "+got)
	schema := schemaConst(c)
	c.Check(schema == 1, "R-C03-4", nil, 0, "db.databaseSchemaVersion", "1", "value differs")
	// the open path accepts exactly the constant the save path writes
	for f := range dbReaders(c) {
		found := false
		// (the test may sit in a helper of the reading function)
		eng.InstrsDeep(f, func(f *ssa.Function, in ssa.Instruction) {
			ifi, ok := in.(*ssa.If)
			if !ok {
				return
			}
			cond := eng.CondOf(ifi.Cond, true)
			op, x, y, ok := cond.Cmp()
			if !ok {
				return
			}
			fr, _, isF := eng.LoadedField(x)
			if !isF || !fr.Is("db", dbTypeName(c.P, "wrapped"), "Version") {
				return
			}
			found = true
			cv, isC := eng.ConstInt(y)
			c.Check(isC && cv == schema && (op.String() == "!=" || op.String() == "=="), "R-C03-4", f, in.Pos(), "schema version test "+cond.String(), "compares wrapped.Version with the schema constant the save path writes", "compares with "+eng.ValStr(y))
		})
		if !found {
			c.Bad("R-C03-4", f, f.Pos(), "schema version test", "the open path tests wrapped.Version against the schema constant", "no comparison of wrapped.Version found")
		}
	}
	// AEAD context strings: decided where they are used (below), by evaluating
	// the expression handed to each of the four operations
	// byteString text encoding: Marshal and Unmarshal use the same standard base64 encoding
	var encs []string
	for _, mn := range []string{"MarshalText", "UnmarshalText"} {
		f := p.Method("db", "byteString", mn)
		if f == nil {
			c.Undecided("R-C03-4", nil, 0, "db.byteString."+mn, "anchor does not resolve")
			continue
		}
		found := ""
		eng.Instrs(f, func(in ssa.Instruction) {
			if call, ok := in.(*ssa.Call); ok {
				cal := call.Call.StaticCallee()
				if cal != nil && cal.Pkg != nil && strings.HasPrefix(cal.Pkg.Pkg.Path(), "encoding/") && cal.Signature.Recv() != nil {
					if g := eng.GlobalLoad(call.Call.Args[0]); g != nil {
						// the size helpers (EncodedLen / DecodedLen) say nothing about the alphabet used
						if cal.Name() == "EncodedLen" || cal.Name() == "DecodedLen" {
							if found == "" {
								found = g.Pkg.Pkg.Path() + "." + g.Name() + " " + cal.Name()
							}
							return
						}
						cur := g.Pkg.Pkg.Path() + "." + g.Name() + " " + cal.Name()
						if found != "" && !strings.HasSuffix(found, "Len") && found != cur {
							found = found + " + " + cur // two different codecs: reported as is
						} else {
							found = cur
						}
					}
				}
			}
		})
		encs = append(encs, found)
		want := map[string]string{"MarshalText": "encoding/base64.StdEncoding EncodeToString", "UnmarshalText": "encoding/base64.StdEncoding DecodeString"}[mn]
		okEnc := map[string]bool{"encoding/base64.StdEncoding EncodeToString": true, "encoding/base64.StdEncoding AppendEncode": true, "encoding/base64.StdEncoding Encode": true}
		okDec := map[string]bool{"encoding/base64.StdEncoding DecodeString": true, "encoding/base64.StdEncoding AppendDecode": true, "encoding/base64.StdEncoding Decode": true}
		c.Check((mn == "MarshalText" && okEnc[found]) || (mn == "UnmarshalText" && okDec[found]),
			"R-C03-4", f, f.Pos(), "byteString."+mn+" encoding", "standard base64 ("+want+")", "uses "+found)
	}
	// key template and keyset (de)serialisers; reader/writer context agreement
	type callSite struct {
		f    *ssa.Function
		call *ssa.Call
	}
	sites := map[string][]callSite{}
	for _, f := range p.PkgFuncs("db") {
		eng.Instrs(f, func(in ssa.Instruction) {
			call, ok := in.(*ssa.Call)
			if !ok {
				return
			}
			cal := call.Call.StaticCallee()
			name := ""
			if cal != nil && cal.Pkg != nil && strings.Contains(cal.Pkg.Pkg.Path(), "tink-go/v2/") {
				name = cal.Name()
			} else if call.Call.IsInvoke() && (call.Call.Method.Name() == "Encrypt" || call.Call.Method.Name() == "Decrypt") {
				name = call.Call.Method.Name()
			}
			if name != "" {
				sites[name] = append(sites[name], callSite{f, call})
			}
		})
	}
	need := func(name string, n int) []callSite {
		if len(sites[name]) < n {
			c.Bad("R-C03-4", nil, 0, "tink call "+name, "package db uses "+name+" (v1 layout)", "not found")
		}
		return sites[name]
	}
	for _, s := range need("XChaCha20Poly1305KeyTemplate", 1) {
		c.Ok("R-C03-4", s.f, s.call.Pos(), "DEK key template XChaCha20Poly1305KeyTemplate", "v1 key template")
	}
	for _, s := range need("NewBinaryWriter", 1) {
		c.Ok("R-C03-4", s.f, s.call.Pos(), "keyset.NewBinaryWriter", "v1 keyset serialisation")
	}
	for _, s := range need("NewBinaryReader", 1) {
		c.Ok("R-C03-4", s.f, s.call.Pos(), "keyset.NewBinaryReader", "v1 keyset serialisation")
	}
	pair := func(a, b string, ai, bi int, want string) {
		chk := func(list []callSite, idx int) {
			for _, s := range list {
				if idx >= len(s.call.Call.Args) {
					c.Undecided("R-C03-4", s.f, s.call.Pos(), eng.CallStr(&s.call.Call), "unexpected arity")
					continue
				}
				got, vars, okT := eng.StrTemplate(s.call.Call.Args[idx])
				// the version is the schema constant or the (checked) version read from the file
				okVer := true
				for _, vv := range vars {
					// (a helper's version parameter bound to the schema constant at its call site)
					if k, isK := eng.ConstInt(eng.OriginX(vv)); isK && k == schema {
						continue
					}
					fr, _, isF := eng.LoadedField(eng.OriginX(vv))
					if !isF || !fr.Is("db", dbTypeName(c.P, "wrapped"), "Version") {
						okVer = false
					}
				}
				c.Check(okT && okVer && (got == want+"%d" || got == want+itoa(int(schema))), "R-C03-4", s.f, s.call.Pos(), "associated data of "+eng.CallStr(&s.call.Call), "the bytes \""+want+"<schema version>\" on both the writing and the reading side (schema-v1 files stay readable)", "evaluates to \""+got+"\"")
			}
		}
		chk(need(a, 1), ai)
		chk(need(b, 1), bi)
	}
	pair("Encrypt", "Decrypt", 1, 1, "setec database v")
	pair("WriteWithAssociatedData", "ReadWithAssociatedData", 3, 2, "setec DEK v")
}

// c03LoadedState (shared with C05): on the open path the kv literal's secrets
// field is persist.Secrets of the value json.Unmarshal filled from the
// Decrypt result of wrapped.DB.
func c03LoadedState(c *eng.Ctx, k *kvAnalysis, rule string) {
	for f := range dbReaders(c) {
		// kv literals built in f
		eng.Instrs(f, func(in ssa.Instruction) {
			al, ok := in.(*ssa.Alloc)
			if !ok || !al.Heap || !eng.IsNamed(al.Type(), "db", "kv") {
				return
			}
			fields, _, ok := eng.LiteralFields(al)
			if !ok {
				c.Undecided(rule, f, in.Pos(), "kv literal", "cannot enumerate fields")
				return
			}
			sv := fields[kvField(c.P, "secrets")]
			site := "kv{secrets: " + eng.ValStr(sv) + "}"
			// (the decrypt-and-decode step may be a helper answering the decoded map)
			g := f
			var hcall *ssa.Call
			if inner, hc := eng.ThroughHelper(sv, func(x *ssa.Function) bool { return eng.IsHelper(f, x) }); inner != nil && hc != nil {
				sv, g, hcall = inner, eng.Callee(&hc.Call), hc
			}
			fr, base, isF := eng.LoadedField(sv)
			if !isF || !fr.Is("db", dbTypeName(c.P, "persist"), "Secrets") {
				c.Bad(rule, f, in.Pos(), site, "loaded state is persist.Secrets as decoded from the decrypted database", "secrets = "+eng.ValStr(sv))
				return
			}
			// base is the local persist cell; find json.Unmarshal(clear, &persist)
			okFlow := false
			detail := "no json.Unmarshal into that value found"
			eng.Instrs(g, func(in2 ssa.Instruction) {
				call, ok := in2.(*ssa.Call)
				if !ok || !eng.CalleeIs(&call.Call, "encoding/json", "Unmarshal") {
					return
				}
				if eng.Origin(call.Call.Args[1]) != base && call.Call.Args[1] != base {
					if mi, ok := call.Call.Args[1].(*ssa.MakeInterface); !ok || mi.X != base {
						return
					}
				}
				dec, idx := eng.TupleCall(call.Call.Args[0])
				if dec != nil && idx == 0 && dec.Call.IsInvoke() && dec.Call.Method.Name() == "Decrypt" {
					if fr2, _, ok := eng.LoadedField(eng.OriginX(dec.Call.Args[0])); ok && fr2.Is("db", dbTypeName(c.P, "wrapped"), "DB") {
						// unmarshal error and decrypt error are checked before the literal
						if hcall == nil {
							okFlow = eng.InstrDominates(call, in)
						} else if svi, isI := sv.(ssa.Instruction); isI {
							// in the helper: decoded before the map is read; in f: the
							// helper succeeded before the literal is built
							okFlow = eng.InstrDominates(call, svi) && eng.InstrDominates(hcall, in)
							herr := saveErr(hcall)
							nilErr := false
							for _, cond := range eng.FactsAt(in) {
								if v, isNil, isE := cond.ErrCheck(); isE && isNil && eng.Same(v, herr) {
									nilErr = true
								}
							}
							okFlow = okFlow && nilErr
						}
						detail = ""
					} else {
						detail = "Decrypt input is " + eng.ValStr(dec.Call.Args[0])
					}
				} else {
					detail = "Unmarshal input is " + eng.ValStr(call.Call.Args[0])
				}
			})
			c.Check(okFlow, rule, f, in.Pos(), site, "secrets = persist.Secrets after json.Unmarshal(dekCipher.Decrypt(wrapped.DB, ctx), &persist)", detail)
		})
	}
}
