package rules

import (
	"go/token"
	"go/types"
	"sort"

	"golang.org/x/tools/go/ssa"

	"setecvet/eng"
)

// kvWrite is a mutation of the persistent in-memory state (kv / secret).
type kvWrite struct {
	Fn          *ssa.Function
	In          ssa.Instruction
	Kind        string // "insert" (map update), "delete" (map delete), "clear", "store" (field)
	Loc         string // "kv.secrets", "secret.Versions", "secret.ActiveVersion", "secret.LatestVersion", "kv.gen", ...
	Map         ssa.Value
	Key         ssa.Value
	Val         ssa.Value
	Addr        *ssa.FieldAddr
	Field       eng.FieldRef
	ViaCallback bool      // the write is in an undo literal run by the save helper on its failure path
	Construct   bool      // store into an object allocated in this function (literal under construction)
	Rollback    *ssa.Call // non-nil: edge-dominated by the err != nil edge of this save call
}

// kvAnalysis is the shared model of package db's mutators used by C02, C03,
// C04, C14.
type kvAnalysis struct {
	c       *eng.Ctx
	p       *eng.Prog
	saveFns map[*ssa.Function]bool // db functions that (transitively) write a file
	writes  []kvWrite
	byFn    map[*ssa.Function][]kvWrite
}

func locOf(fr eng.FieldRef) string {
	t := types.Unalias(eng.Deref(fr.Owner))
	if n, ok := t.(*types.Named); ok {
		if curProg != nil && eng.IsNamed(n, "db", "kv") {
			return "kv." + kvRoleOf(curProg, fr.Name) // canonical role name, whatever the field is called
		}
		return n.Obj().Name() + "." + fr.Name
	}
	return eng.TypeShort(t) + "." + fr.Name
}

func isKVState(fr eng.FieldRef) bool {
	return eng.IsNamed(fr.Owner, "db", "kv") || eng.IsNamed(fr.Owner, "db", "secret")
}

func loadKV(c *eng.Ctx) *kvAnalysis {
	p := c.P
	if p.Pkg("db") == nil || p.Named("db", "kv") == nil || p.Named("db", "secret") == nil {
		c.Undecided("anchor", nil, 0, "db.kv / db.secret", "type anchors do not resolve")
		return nil
	}
	k := &kvAnalysis{c: c, p: p, saveFns: map[*ssa.Function]bool{}, byFn: map[*ssa.Function][]kvWrite{}}
	g := p.CallGraph()
	for _, f := range p.PkgFuncs("db") {
		if f.Parent() != nil {
			continue
		}
		hits := g.FindReachable(f, nil, func(in ssa.Instruction) bool {
			if ci, ok := in.(ssa.CallInstruction); ok {
				return isFileMutatingCall(ci.Common())
			}
			return false
		})
		if len(hits) > 0 {
			k.saveFns[f] = true
		}
	}
	for _, f := range p.PkgFuncs("db") {
		// an undo literal handed to a save-or-undo helper: its writes are
		// rollback writes of the function creating it, tied to that call
		var viaCallback *ssa.Call
		owner := f
		if mk := eng.MakeClosureOf(f); mk != nil {
			if cu := eng.CallbackOf(mk); cu != nil && k.saveFns[eng.Unwrap(cu.Callee)] && k.undoOnFailureOnly(cu) {
				viaCallback = cu.Site
				owner = mk.Parent()
			}
		}
		// ... or deferred by the mutator itself and acting only when its named
		// error result is non-nil at exit: `defer func() { if err != nil { undo } }()`
		// followed by `return kv.save()`
		if viaCallback == nil {
			if s, par := k.deferredUndo(f); s != nil {
				viaCallback, owner = s, par
			}
		}
		// ... or remembered in a function variable of the mutator ("how to
		// revert this change") that is called only on the failed edge of the
		// save, the literal being the one assigned on the branch that made
		// the change (selectedUndo)
		if viaCallback == nil {
			if s, par := k.selectedUndo(f); s != nil {
				viaCallback, owner = s, par
			}
		}
		for _, w := range kvWritesIn(f) {
			w.Rollback = k.rollbackOf(w.In)
			if viaCallback != nil && w.Rollback == nil {
				w.Rollback = viaCallback
				w.ViaCallback = true
				w.Fn = owner
			}
			k.writes = append(k.writes, w)
			k.byFn[w.Fn] = append(k.byFn[w.Fn], w)
		}
	}
	sort.SliceStable(k.writes, func(i, j int) bool { return k.writes[i].In.Pos() < k.writes[j].In.Pos() })
	return k
}

func freshBase(v ssa.Value) bool {
	for {
		switch x := v.(type) {
		case *ssa.FieldAddr:
			v = x.X
			continue
		case *ssa.Alloc:
			return true
		case *ssa.Call:
			// the result of a constructor helper: nobody else has it yet
			return freshCtor(eng.Callee(&x.Call))
		}
		return false
	}
}

// freshCtor reports whether f is a module function every return of which
// answers an object it has just allocated itself.
func freshCtor(f *ssa.Function) bool {
	if f == nil || f.Blocks == nil || f.Signature.Results().Len() != 1 {
		return false
	}
	rets := eng.Returns(f)
	for _, r := range rets {
		al, ok := eng.Origin(eng.RetVals(r)[0]).(*ssa.Alloc)
		if !ok || !al.Heap {
			return false
		}
	}
	return len(rets) > 0
}

func kvWritesIn(f *ssa.Function) []kvWrite {
	var out []kvWrite
	eng.Instrs(f, func(in ssa.Instruction) {
		switch x := in.(type) {
		case *ssa.Store:
			fa, ok := x.Addr.(*ssa.FieldAddr)
			if !ok {
				return
			}
			fr, _ := eng.FieldOfAddr(fa)
			if !isKVState(fr) {
				return
			}
			out = append(out, kvWrite{Fn: f, In: in, Kind: "store", Loc: locOf(fr), Val: x.Val, Addr: fa, Field: fr, Construct: freshBase(fa.X)})
		case *ssa.MapUpdate:
			if fr, _, ok := eng.LoadedField(x.Map); ok && isKVState(fr) {
				out = append(out, kvWrite{Fn: f, In: in, Kind: "insert", Loc: locOf(fr), Map: x.Map, Key: x.Key, Val: x.Value, Field: fr})
			}
		case ssa.CallInstruction:
			// (deferred builtins included: they run on every way out, the
			// failure paths too)
			if args, ok := eng.BuiltinCall(in, "delete"); ok {
				if fr, _, ok := eng.LoadedField(args[0]); ok && isKVState(fr) {
					out = append(out, kvWrite{Fn: f, In: in, Kind: "delete", Loc: locOf(fr), Map: args[0], Key: args[1], Field: fr})
				}
			}
			if args, ok := eng.BuiltinCall(in, "clear"); ok {
				if fr, _, ok := eng.LoadedField(args[0]); ok && isKVState(fr) {
					out = append(out, kvWrite{Fn: f, In: in, Kind: "clear", Loc: locOf(fr), Map: args[0], Field: fr})
				}
			}
		}
	})
	return out
}

// saveCalls lists the calls in f whose callee writes the database file.
func (k *kvAnalysis) saveCalls(f *ssa.Function) []*ssa.Call {
	var out []*ssa.Call
	eng.Instrs(f, func(in ssa.Instruction) {
		if call, ok := in.(*ssa.Call); ok {
			if cal := eng.Callee(&call.Call); cal != nil && k.saveFns[eng.Unwrap(cal)] {
				out = append(out, call)
			}
		}
	})
	return out
}

// saveErr returns the error value of a save call (the call itself or its
// last tuple element).
func saveErr(call *ssa.Call) ssa.Value {
	res := call.Call.Signature().Results()
	if res.Len() == 1 {
		return call
	}
	// find Extract of the (last) error-typed result
	ei := -1
	for i := 0; i < res.Len(); i++ {
		if eng.IsErrorType(res.At(i).Type()) {
			ei = i
		}
	}
	if refs := call.Referrers(); refs != nil && ei >= 0 {
		for _, r := range *refs {
			if ex, ok := r.(*ssa.Extract); ok && ex.Index == ei {
				return ex
			}
		}
	}
	return nil
}

// rollbackOf: the save call whose failure edge dominates in, if any.
func (k *kvAnalysis) rollbackOf(in ssa.Instruction) *ssa.Call {
	for _, cond := range eng.FactsAt(in) {
		v, isNil, ok := cond.ErrCheck()
		if !ok || isNil {
			continue
		}
		call, _ := eng.TupleCall(v)
		if call == nil {
			continue
		}
		if cal := eng.Callee(&call.Call); cal != nil && k.saveFns[eng.Unwrap(cal)] {
			return call
		}
	}
	return nil
}

// forward returns the forward (non-construction, non-rollback) writes of f,
// excluding kv.gen (a process-local counter, not persisted state).
func (k *kvAnalysis) forward(f *ssa.Function) []kvWrite {
	var out []kvWrite
	for _, w := range k.byFn[f] {
		if w.Construct || w.Rollback != nil || w.Loc == "kv.gen" {
			continue
		}
		out = append(out, w)
	}
	return out
}

// mutators: declared db functions with forward writes.
func (k *kvAnalysis) mutators() []*ssa.Function {
	var out []*ssa.Function
	for _, f := range k.p.PkgFuncs("db") {
		if len(k.forward(f)) > 0 {
			out = append(out, f)
		}
	}
	return out
}

// errResultIndex: index of the error result of f, or -1.
func errResultIndex(f *ssa.Function) int {
	res := f.Signature.Results()
	for i := res.Len() - 1; i >= 0; i-- {
		if eng.IsErrorType(res.At(i).Type()) {
			return i
		}
	}
	return -1
}

// nonNilAt: is error value v certainly non-nil given conditions conds?
func nonNilAt(v ssa.Value, conds []eng.Cond) eng.Tri {
	v = eng.Origin(v)
	for _, c := range conds {
		if x, isNil, ok := c.NilCheck(); ok && eng.Same(x, v) {
			if isNil {
				return eng.No
			}
			return eng.Yes
		}
	}
	switch x := v.(type) {
	case *ssa.Const:
		if x.Value == nil {
			return eng.No
		}
	case *ssa.Call:
		if eng.CalleeIs(&x.Call, "fmt", "Errorf") || eng.CalleeIs(&x.Call, "errors", "New") {
			return eng.Yes
		}
	case *ssa.UnOp:
		if x.Op == token.MUL {
			if g, ok := x.X.(*ssa.Global); ok && eng.IsErrorType(g.Type().(*types.Pointer).Elem()) {
				return eng.Yes
			}
		}
	case *ssa.MakeInterface:
		return eng.Yes
	}
	return eng.Unknown
}

// sameMapSrc: two map values are loads of the same field of the same object.
func sameMapSrc(a, b ssa.Value) bool {
	if eng.Same(a, b) {
		return true
	}
	fa, ba, ok1 := eng.LoadedField(a)
	fb, bb, ok2 := eng.LoadedField(b)
	if !ok1 || !ok2 || fa.Name != fb.Name || !types.Identical(eng.Deref(fa.Owner), eng.Deref(fb.Owner)) {
		return false
	}
	return eng.Same(ba, bb) || ba == bb
}

// compensates reports whether rollback write r undoes forward write w.
func (k *kvAnalysis) compensates(r, w kvWrite) (bool, string) {
	if !undoBelongsTo(r, w) {
		return false, "the undo literal holding " + eng.InstrStr(r.In) + " is not the one selected on the branch of the forward write"
	}
	switch w.Kind {
	case "insert":
		if r.Kind == "delete" && sameMapSrc(r.Map, w.Map) {
			if k.p.MemSame(r.Key, w.Key) {
				return true, ""
			}
			return false, "deletes key " + eng.ValStr(r.Key) + ", forward write inserted key " + eng.ValStr(w.Key)
		}
	case "delete":
		if r.Kind == "insert" && sameMapSrc(r.Map, w.Map) {
			if !k.p.MemSame(r.Key, w.Key) {
				return false, "re-inserts key " + eng.ValStr(r.Key) + ", forward write deleted key " + eng.ValStr(w.Key)
			}
			// value must be the element read from that map/key before the delete
			old := eng.Origin(r.Val)
			if ex, ok := old.(*ssa.Extract); ok && ex.Index == 0 {
				old = ex.Tuple
			}
			lk, ok := old.(*ssa.Lookup)
			if !ok || !sameMapSrc(lk.X, w.Map) || !k.p.MemSame(lk.Index, w.Key) || !eng.InstrDominates(lk, w.In) {
				return false, "re-inserted value " + eng.ValStr(r.Val) + " is not the element read from the same map and key before the delete"
			}
			return true, ""
		}
	case "store":
		if r.Kind == "store" && r.Loc == w.Loc && sameAddr(r.Addr, w.Addr) {
			// (a) stores the value loaded from the field before w
			if ld, fa, ok := loadField(r.Val); ok && sameAddr(fa, w.Addr) && eng.InstrDominates(ld, w.In) {
				return true, ""
			}
			// (b) arithmetic inverse: w stores load+c, r stores load-c
			if wc, wop, ok := incOf(w.Val, w.Addr); ok {
				if rc, rop, ok := incOf(r.Val, r.Addr); ok && wc == rc && wop != rop {
					return true, ""
				}
			}
			return false, "stores " + eng.ValStr(r.Val) + ", which is neither the value held before the forward store nor its arithmetic inverse"
		}
	}
	return false, ""
}

func sameAddr(a, b *ssa.FieldAddr) bool {
	if a == nil || b == nil {
		return false
	}
	if a.Field != b.Field {
		return false
	}
	return a.X == b.X || eng.Same(a.X, b.X)
}

func loadField(v ssa.Value) (*ssa.UnOp, *ssa.FieldAddr, bool) {
	u, ok := eng.Origin(v).(*ssa.UnOp)
	if !ok || u.Op != token.MUL {
		return nil, nil, false
	}
	fa, ok := u.X.(*ssa.FieldAddr)
	return u, fa, ok
}

// incOf: v == load(addr) + c or load(addr) - c for constant c.
func incOf(v ssa.Value, addr *ssa.FieldAddr) (c int64, op token.Token, ok bool) {
	b, isB := eng.Origin(v).(*ssa.BinOp)
	if !isB || (b.Op != token.ADD && b.Op != token.SUB) {
		return 0, 0, false
	}
	_, fa, isL := loadField(b.X)
	if !isL || !sameAddr(fa, addr) {
		return 0, 0, false
	}
	cv, isC := eng.ConstInt(b.Y)
	if !isC {
		return 0, 0, false
	}
	return cv, b.Op, true
}

// undoOnFailureOnly: in the save helper receiving the callback, the callback
// is called only on the err != nil edge of a save call, on every path from
// that edge to a return, and those returns report a non-nil error; paths on
// the nil edge return without calling it.
func (k *kvAnalysis) undoOnFailureOnly(cu *eng.CallbackUse) bool {
	h := cu.Callee
	if len(cu.Calls) == 0 {
		return false
	}
	var inner *ssa.Call
	for _, uc := range cu.Calls {
		s := k.rollbackOf(uc)
		if s == nil {
			return false // called elsewhere than on a failed save
		}
		if inner != nil && inner != s {
			return false
		}
		inner = s
	}
	isUndo := func(in ssa.Instruction) bool {
		for _, uc := range cu.Calls {
			if in == ssa.Instruction(uc) {
				return true
			}
		}
		return false
	}
	ev := saveErr(inner)
	if ev == nil {
		return false
	}
	// failure edge: every return passes the undo
	if hit, _ := eng.Search(h, inner, eng.AssumeErr(ev, false), isUndo, eng.IsReturn); hit != nil {
		return false
	}
	// and reports an error
	ei := errResultIndex(h)
	if ei < 0 {
		return false
	}
	for _, r := range eng.Returns(h) {
		if hit, _ := eng.Search(h, inner, eng.AssumeErr(ev, false), nil, func(x ssa.Instruction) bool { return x == ssa.Instruction(r) }); hit != nil {
			if nonNilAt(eng.RetVals(r)[ei], eng.FactsAt(r)) != eng.Yes && !eng.Same(eng.RetVals(r)[ei], ev) {
				return false
			}
		}
	}
	return true
}

// sameMapSrcX is sameMapSrc across the parameter boundary of a
// single-call-site helper (the receiver of the helper is the caller's).
func sameMapSrcX(a, b ssa.Value) bool {
	if sameMapSrc(a, b) {
		return true
	}
	fa, ba, ok1 := eng.LoadedField(a)
	fb, bb, ok2 := eng.LoadedField(b)
	if !ok1 || !ok2 || fa.Name != fb.Name || !types.Identical(eng.Deref(fa.Owner), eng.Deref(fb.Owner)) {
		return false
	}
	return eng.SameX(ba, bb)
}

// deferredUndo: f is a function literal deferred by its parent P, all of whose
// state writes are edge-dominated by `err != nil` for P's named error result,
// registered before P's only save call, whose error is what P returns on every
// path after it.  Then f's writes run exactly on the failure of that save
// (before P returns): they are its rollback.  Returns the save call and P.
func (k *kvAnalysis) deferredUndo(f *ssa.Function) (*ssa.Call, *ssa.Function) {
	par := f.Parent()
	if par == nil || len(kvWritesIn(f)) == 0 {
		return nil, nil
	}
	mk := eng.MakeClosureOf(f)
	if mk == nil {
		return nil, nil
	}
	var df *ssa.Defer
	for _, r := range *mk.Referrers() {
		switch u := r.(type) {
		case *ssa.Defer:
			if u.Call.Value == ssa.Value(mk) {
				df = u
			}
		case *ssa.DebugRef:
		default:
			return nil, nil
		}
	}
	if df == nil {
		return nil, nil
	}
	// the named error result of P as seen from f
	ei := errResultIndex(par)
	if ei < 0 {
		return nil, nil
	}
	isResultCell := func(v ssa.Value) bool {
		// load of a free variable bound to an Alloc of P of error type that P's returns load
		u, ok := v.(*ssa.UnOp)
		if !ok || u.Op != token.MUL {
			return false
		}
		fv, ok := u.X.(*ssa.FreeVar)
		if !ok {
			return false
		}
		for i, q := range f.FreeVars {
			if q == fv && i < len(mk.Bindings) {
				al, isAl := mk.Bindings[i].(*ssa.Alloc)
				if !isAl || !eng.IsErrorType(eng.Deref(al.Type())) {
					return false
				}
				for _, r := range eng.Returns(par) {
					if ld, isLd := r.Results[ei].(*ssa.UnOp); isLd && ld.X == ssa.Value(al) {
						return true
					}
				}
			}
		}
		return false
	}
	for _, w := range kvWritesIn(f) {
		guarded := false
		for _, cond := range eng.FactsAt(w.In) {
			if v, isNil, ok := cond.NilCheck(); ok && !isNil && isResultCell(eng.Origin(v)) {
				guarded = true
			}
			if v, isNil, ok := cond.NilCheck(); ok && !isNil && isResultCell(v) {
				guarded = true
			}
		}
		if !guarded {
			return nil, nil
		}
	}
	saves := k.saveCalls(par)
	if len(saves) != 1 || !eng.InstrDominates(df, saves[0]) {
		return nil, nil
	}
	sv := saves[0]
	ev := saveErr(sv)
	if ev == nil {
		return nil, nil
	}
	// after the save, P returns the save's own error
	for _, r := range eng.Returns(par) {
		if hit, _ := eng.Search(par, sv, nil, nil, func(x ssa.Instruction) bool { return x == ssa.Instruction(r) }); hit == nil {
			continue
		}
		if !eng.Same(eng.RetVals(r)[ei], ev) {
			return nil, nil
		}
	}
	return sv, par
}

// selectedUndo: f is a function literal of a mutator P that P stores in a
// local function variable (one literal per branch, merged in a phi) and calls
// -- through that variable -- only on the failure edge of its save.  The
// writes of f are then roll-back writes of P tied to that save.  Which branch
// a literal belongs to matters: a forward write W of P is undone by f only if
// taking the phi edge that carries f implies W was executed (the block of W
// dominates the predecessor of that edge); undoBelongsTo checks it.
func (k *kvAnalysis) selectedUndo(f *ssa.Function) (*ssa.Call, *ssa.Function) {
	par := f.Parent()
	if par == nil || f.Signature.Params().Len() != 0 || f.Signature.Results().Len() != 0 {
		return nil, nil
	}
	mk := eng.MakeClosureOf(f)
	if mk == nil || mk.Referrers() == nil {
		return nil, nil
	}
	var phi *ssa.Phi
	for _, r := range *mk.Referrers() {
		switch x := r.(type) {
		case *ssa.Phi:
			if phi != nil {
				return nil, nil
			}
			phi = x
		case *ssa.DebugRef:
		default:
			return nil, nil // the literal goes elsewhere too
		}
	}
	if phi == nil || phi.Referrers() == nil {
		return nil, nil
	}
	var save *ssa.Call
	n := 0
	for _, r := range *phi.Referrers() {
		switch x := r.(type) {
		case *ssa.DebugRef:
		case *ssa.Call:
			if x.Call.Value != ssa.Value(phi) || len(x.Call.Args) != 0 {
				return nil, nil
			}
			s := k.rollbackOf(x)
			if s == nil || (save != nil && save != s) {
				return nil, nil
			}
			save = s
			n++
		default:
			return nil, nil
		}
	}
	if n == 0 {
		return nil, nil
	}
	return save, par
}

// undoBelongsTo: the undo write r (in a literal selected through a phi, see
// selectedUndo) runs exactly when the forward write w was executed: the phi
// edge carrying r's literal is taken only after w, and no other edge of the
// phi is.  For undo writes of any other kind the answer is true.
func undoBelongsTo(r, w kvWrite) bool {
	lit := r.In.Parent()
	if lit == nil || lit.Parent() == nil || lit.Parent() != w.In.Parent() {
		return true
	}
	mk := eng.MakeClosureOf(lit)
	if mk == nil || mk.Referrers() == nil {
		return true
	}
	var phi *ssa.Phi
	for _, x := range *mk.Referrers() {
		if ph, ok := x.(*ssa.Phi); ok {
			phi = ph
		}
	}
	if phi == nil {
		return true
	}
	wb := w.In.Block()
	for i, e := range phi.Edges {
		pred := phi.Block().Preds[i]
		if e == ssa.Value(mk) {
			if !(wb == pred || wb.Dominates(pred)) {
				return false
			}
			continue
		}
		// another literal is selected on this edge: w must not have run
		if wb == pred || wb.Dominates(pred) {
			return false
		}
		if hit, _ := eng.Search(w.In.Parent(), w.In, nil, nil, func(x ssa.Instruction) bool { return x.Block() == pred }); hit != nil {
			return false
		}
	}
	return true
}
