package rules

import (
	"go/token"
	"strings"

	"golang.org/x/tools/go/ssa"

	"setecvet/eng"
)

func init() {
	register(&Prop{
		ID: "C04",
		Explanation: "Decides structural clauses of C04: (R-C04-1) the only file-mutating call in package db is one atomicfile.WriteFile(kv.path, data, owner-only const mode); " +
			"(R-C04-2) in the atomicfile.WriteFile the module graph resolves to, the rename into place is edge-dominated, in this order, by the nil edges of CreateTemp in filepath.Dir(filename), Write(data), Sync and Close of that temporary, the live file is never opened for writing, and error paths remove the temporary; " +
			"(R-C04-3) after a failed save every forward write of the mutator is compensated by its inverse (same map and key, previous value, arithmetic inverse) on every path to the return, which carries a non-nil error; " +
			"(R-C04-4) the write generation is bumped only on the nil edge of the save's error; (R-C04-5) database creation returns its save error and no kv. (R-C04-9) the bytes written are the document serialised for this very save, not a buffer kept in the store between saves (C03's content rule); (R-C04-10) once the stored state has decoded, open cannot fail any more: no acceptance test stands between what save wrote and its use.",
		NotDecided:  "POSIX semantics of rename/fsync and real kill points (trusted); partial writes inside the os package.",
		Trusted:     append([]string{"rename(2) within one directory is atomic; fsync makes the temporary durable", "os.File.Write returns an error on short writes"}, commonTrusted...),
		Assumptions: []string{"calls to functions outside the module do not mutate package db's private state"},
		Run:         runC04,
	})
}

func runC04(c *eng.Ctx, tier string) {
	if tier == "thorough" {
		defer thoroughC04(c)
	}
	k := loadKV(c)
	if k == nil {
		return
	}
	c04WhoWrites(c, k)
	c04Atomicfile(c)
	c04Rollback(c, k)
	c04Gen(c, k)
	c04Create(c, k)
	c04CommitPoint(c, k)
	// R-C04-8: "later calls succeed normally": a call reports success only after
	// a save that really wrote (C03's rule: no success path around the write)
	includeOnly(c, "R-C04-8", func(sc *eng.Ctx) { c03SaveBeforeSuccess(sc, k) }, "R-C03-1")
	// R-C04-9: what is written is the document serialised for this save (C03's
	// content rule): nothing left over from an earlier, possibly failed, save
	include(c, "R-C04-9", func(sc *eng.Ctx) { c03SaveContentRule(sc, k, "R-C03-2") })
	c04OpenAcceptsWhatSaveWrote(c)
}

// R-C04-7: the replacement of the file is the commit point of a save: once
// the atomic write returned nil, the save routine must not report an error
// (its callers would roll the served state back although the file already
// holds the new state).
func c04CommitPoint(c *eng.Ctx, k *kvAnalysis) {
	for _, f := range fileWriters(c) {
		eng.Instrs(f, func(in ssa.Instruction) {
			call, ok := in.(*ssa.Call)
			if !ok || !eng.CalleeIs(&call.Call, "tailscale.com/atomicfile", "WriteFile") {
				return
			}
			ei := errResultIndex(f)
			if ei < 0 {
				return
			}
			hit, path := eng.Search(f, call, eng.AssumeErr(call, true), nil, func(x ssa.Instruction) bool {
				r, isR := x.(*ssa.Return)
				if !isR {
					return false
				}
				return !eng.IsNilConst(eng.Origin(eng.RetVals(r)[ei]))
			})
			c.Check(hit == nil, "R-C04-7", f, call.Pos(), "after a successful "+eng.CallStr(&call.Call), "the save routine returns nil: nothing fallible follows the commit point (otherwise a failed call leaves the file in the post-call state while the served state is rolled back)", func() string {
				if hit == nil {
					return ""
				}
				return "error return at " + c.P.Pos(hit.Pos()) + " reachable after the file was replaced: " + c.P.PathStr(path)
			}())
		})
	}
}

// R-C04-1
func c04WhoWrites(c *eng.Ctx, k *kvAnalysis) {
	n := 0
	for _, f := range c.P.PkgFuncs("db") {
		eng.Instrs(f, func(in ssa.Instruction) {
			ci, ok := in.(ssa.CallInstruction)
			if !ok {
				return
			}
			cc := ci.Common()
			cal := cc.StaticCallee()
			if cal == nil || cal.Pkg == nil {
				return
			}
			pp := cal.Pkg.Pkg.Path()
			switch pp {
			case "os", "io/ioutil", "syscall", "tailscale.com/atomicfile", "golang.org/x/sys/unix":
			default:
				return
			}
			site := eng.CallStr(cc)
			switch {
			case eng.CalleeIs(cc, "tailscale.com/atomicfile", "WriteFile"):
				n++
				mode, isC := eng.ConstInt(cc.Args[2])
				okk := isKVFieldLoad(cc.Args[0], "path") && isC && mode&0o077 == 0
				c.Check(okk, "R-C04-1", f, in.Pos(), site, "the database file is written only by atomicfile.WriteFile(kv.path, data, constant owner-only mode)", "target "+eng.ValStr(cc.Args[0])+" mode "+eng.ValStr(cc.Args[2]))
			case isFileMutatingCall(cc):
				c.Bad("R-C04-1", f, in.Pos(), site, "package db never creates, opens for writing, truncates, renames or removes a file except through atomicfile.WriteFile", "file-mutating call "+pp+"."+cal.Name())
			case pp == "os" && (cal.Name() == "ReadFile" || cal.Name() == "Stat" || cal.Name() == "Lstat"):
				c.Ok("R-C04-1", f, in.Pos(), site, "read-only file access")
			case pp == "os" && cal.Name() == "Open":
				c.Ok("R-C04-1", f, in.Pos(), site, "read-only open")
			default:
				// other os functions (Getenv...) are irrelevant
			}
		})
	}
	if n != 1 {
		c.Bad("R-C04-1", nil, 0, "atomicfile.WriteFile call sites in package db", "exactly one site writes the database file (the save routine all mutators reach)", "found "+itoa(n)+" sites")
	}
	c.Floor("R-C04-1", 2)
}

func itoa(n int) string {
	s := ""
	if n == 0 {
		return "0"
	}
	for n > 0 {
		s = string(rune('0'+n%10)) + s
		n /= 10
	}
	return s
}

// R-C04-2: the atomic write routine in the dependency the build uses.
func c04Atomicfile(c *eng.Ctx) {
	var f *ssa.Function
	if pk := c.P.All["tailscale.com/atomicfile"]; pk != nil {
		if sp := c.P.SSA.Package(pk.Types); sp != nil {
			f = sp.Func("WriteFile")
		}
	}
	if f == nil || len(f.Params) != 3 {
		c.Undecided("R-C04-2", nil, 0, "tailscale.com/atomicfile.WriteFile", "anchor does not resolve")
		return
	}
	filename, data := f.Params[0], f.Params[1]
	// locate the rename-into-place call: a call with (tmpName, filename)
	var renames []*ssa.Call
	var creates []*ssa.Call
	eng.Instrs(f, func(in ssa.Instruction) {
		call, ok := in.(*ssa.Call)
		if !ok {
			return
		}
		cal := call.Call.StaticCallee()
		if cal == nil {
			return
		}
		if (cal.Name() == "rename" || cal.Name() == "Rename") && len(call.Call.Args) == 2 {
			renames = append(renames, call)
		}
		if eng.CalleeIs(&call.Call, "os", "CreateTemp") {
			creates = append(creates, call)
		}
	})
	if len(renames) != 1 || len(creates) != 1 {
		c.Undecided("R-C04-2", f, f.Pos(), "rename/CreateTemp", "expected exactly one rename and one os.CreateTemp in atomicfile.WriteFile")
		return
	}
	rn, ct := renames[0], creates[0]
	// temp created in Dir(filename)
	dirOK := false
	if dc, _ := eng.TupleCall(ct.Call.Args[0]); dc != nil && eng.CalleeIs(&dc.Call, "path/filepath", "Dir") && eng.Origin(dc.Call.Args[0]) == filename {
		dirOK = true
	}
	c.Check(dirOK, "R-C04-2", f, ct.Pos(), eng.CallStr(&ct.Call), "temporary is created in filepath.Dir(filename) (same file system, so rename is atomic)", "directory argument "+eng.ValStr(ct.Call.Args[0]))
	tmpFile := ssa.Value(nil)
	if refs := ct.Referrers(); refs != nil {
		for _, r := range *refs {
			if ex, ok := r.(*ssa.Extract); ok && ex.Index == 0 {
				tmpFile = ex
			}
		}
	}
	// rename(tmpName, filename): tmpName = f.Name()
	nameOK := false
	if nc, _ := eng.TupleCall(rn.Call.Args[0]); nc != nil && eng.CalleeIs(&nc.Call, "os", "*File.Name") && eng.Same(nc.Call.Args[0], tmpFile) {
		nameOK = true
	}
	c.Check(nameOK && eng.Origin(rn.Call.Args[1]) == filename, "R-C04-2", f, rn.Pos(), eng.CallStr(&rn.Call), "renames the temporary's name onto filename", "arguments "+eng.ValStr(rn.Call.Args[0])+", "+eng.ValStr(rn.Call.Args[1]))
	// facts at rename: nil edges of Write(data), Sync, Close on tmpFile, in order
	type step struct {
		name string
		call *ssa.Call
	}
	var steps []step
	for _, want := range []string{"CreateTemp", "Write", "Sync", "Close"} {
		var found *ssa.Call
		for _, cond := range eng.FactsAt(rn) {
			v, isNil, ok := cond.ErrCheck()
			if !ok || !isNil {
				continue
			}
			call, _ := eng.TupleCall(v)
			if call == nil {
				continue
			}
			switch want {
			case "CreateTemp":
				if call == ct {
					found = call
				}
			default:
				if eng.CalleeIs(&call.Call, "os", "*File."+want) && eng.Same(call.Call.Args[0], tmpFile) {
					if want == "Write" {
						if eng.Origin(call.Call.Args[1]) != data {
							continue
						}
					}
					found = call
				}
			}
		}
		c.Check(found != nil, "R-C04-2", f, rn.Pos(), "rename is preceded by successful "+want, "rename(tmp, filename) is edge-dominated by the nil-error edge of "+want+" on the temporary", "holding at the rename: "+eng.FactsString(rn))
		if found != nil {
			steps = append(steps, step{want, found})
		}
	}
	for i := 0; i+1 < len(steps); i++ {
		c.Check(eng.InstrDominates(steps[i].call, steps[i+1].call), "R-C04-2", f, steps[i+1].call.Pos(), "order "+steps[i].name+" before "+steps[i+1].name,
			"create-temp, write, sync, close happen in this order before the rename", steps[i+1].name+" is not dominated by "+steps[i].name)
	}
	// filename never opened for writing: no os.OpenFile/Create/WriteFile with filename
	eng.InstrsTree(f, func(ff *ssa.Function, in ssa.Instruction) {
		call, ok := in.(*ssa.Call)
		if !ok || !isFileMutatingCall(&call.Call) {
			return
		}
		if eng.CalleeIs(&call.Call, "os", "CreateTemp") || eng.CalleeIs(&call.Call, "os", "Remove") {
			return
		}
		for _, a := range call.Call.Args {
			if eng.Origin(a) == filename {
				c.Bad("R-C04-2", ff, in.Pos(), eng.CallStr(&call.Call), "the live file is never written in place", "file-mutating call on filename")
			}
		}
	})
	// error paths remove the temporary: a deferred closure calling os.Remove(tmpName) under err != nil
	removed := false
	eng.InstrsTree(f, func(ff *ssa.Function, in ssa.Instruction) {
		if call, ok := in.(*ssa.Call); ok && eng.CalleeIs(&call.Call, "os", "Remove") && ff != f {
			for _, cond := range eng.FactsAt(in) {
				if _, isNil, ok := cond.NilCheck(); ok && !isNil {
					removed = true
				}
			}
		}
	})
	c.Check(removed, "R-C04-2", f, f.Pos(), "cleanup of the temporary on failure", "a deferred function removes the temporary when the function's error is non-nil", "no os.Remove under err != nil in a deferred literal")
}

// R-C04-3
func c04Rollback(c *eng.Ctx, k *kvAnalysis) {
	for _, f := range k.mutators() {
		saves := k.saveCalls(f)
		isSave := func(in ssa.Instruction) bool {
			for _, s := range saves {
				if in == ssa.Instruction(s) {
					return true
				}
			}
			return false
		}
		for _, s := range saves {
			ev := saveErr(s)
			if ev == nil {
				continue // reported by R-C03-1
			}
			// pending forward writes: those that reach s without another save
			for _, w := range k.forward(f) {
				hit, _ := eng.Search(f, w.In, nil, func(in ssa.Instruction) bool { return isSave(in) && in != ssa.Instruction(s) }, func(in ssa.Instruction) bool { return in == ssa.Instruction(s) })
				if hit == nil {
					continue
				}
				site := "after failed " + eng.CallStr(&s.Call) + ": undo of " + w.Loc + " " + w.Kind + " " + eng.InstrStr(w.In)
				// candidate compensators among rollback writes of this save
				var comps []ssa.Instruction
				var near []string
				for _, r := range k.byFn[f] {
					if r.Rollback != s {
						continue
					}
					ok, why := k.compensates(r, w)
					if ok {
						comps = append(comps, r.In)
					} else if why != "" {
						near = append(near, c.P.Pos(r.In.Pos())+": "+why)
					}
				}
				isComp := func(in ssa.Instruction) bool {
					for _, x := range comps {
						if x == in {
							return true
						}
					}
					return false
				}
				// a compensator inside an undo literal has run, on the failure
				// path, before the save helper returned
				inCall := false
				for _, r := range k.byFn[f] {
					if r.Rollback == s && r.ViaCallback && isComp(r.In) {
						inCall = true
					}
				}
				if inCall {
					c.Ok("R-C04-3", f, w.In.Pos(), site, "undone by the literal the save helper runs on its failure path")
					continue
				}
				// from the save call, following only the failure edge, can a return be reached without a compensator?
				hit2, path := eng.Search(f, s, eng.AssumeErr(ev, false), isComp, eng.IsReturn)
				want := "on the err != nil edge of the save, every path to the return undoes this write (insert<->delete of the same key, store of the previous value, +c<->-c)"
				if hit2 != nil {
					d := "return at " + c.P.Pos(hit2.Pos()) + " reachable without undoing it: " + c.P.PathStr(path)
					if len(near) > 0 {
						d += " | candidates rejected: " + strings.Join(near, "; ")
					}
					c.Bad("R-C04-3", f, w.In.Pos(), site, want, d)
				} else {
					c.Ok("R-C04-3", f, w.In.Pos(), site, want)
				}
			}
		}
		// rollback writes that compensate nothing are suspicious only if they
		// touch state no forward write touched: reported as violations since
		// they change state on a failed call
		for _, r := range k.byFn[f] {
			if r.Rollback == nil {
				continue
			}
			matched := false
			for _, w := range k.forward(f) {
				if ok, _ := k.compensates(r, w); ok {
					matched = true
				}
			}
			c.Check(matched, "R-C04-3", f, r.In.Pos(), "rollback write "+eng.InstrStr(r.In), "a write on the failure path is the inverse of a forward write (a failed call leaves the served state as it was)", "no forward write of this function is undone by it")
		}
	}
	c.Floor("R-C04-3", 6)
}

// R-C04-4
func c04Gen(c *eng.Ctx, k *kvAnalysis) {
	n := 0
	for _, w := range k.writes {
		if w.Loc != "kv.gen" {
			continue
		}
		if w.Construct {
			continue
		}
		n++
		f := w.Fn
		site := eng.InstrStr(w.In)
		// value is gen+1
		cinc, op, isInc := incOf(w.Val, w.Addr)
		c.Check(isInc && cinc == 1 && op == token.ADD, "R-C04-4", f, w.In.Pos(), site+" [monotone]", "the generation only ever increases by one", "stored value "+eng.ValStr(w.Val))
		// dominated by err == nil where err is the enclosing save function's own error result
		ok := false
		detail := "holding here: " + eng.FactsString(w.In)
		for _, cond := range eng.FactsAt(w.In) {
			v, isNil, isE := cond.ErrCheck()
			if !isE || !isNil {
				continue
			}
			// v is a load of the parent's named result cell, or the save error itself
			if u, isU := v.(*ssa.UnOp); isU {
				if cell := eng.CellOf(u.X); cell != nil && isResultCell(cell) && k.saveFns[cell.Parent()] && f.Parent() == cell.Parent() && isDeferred(f) {
					ok = true
				}
				// ... or the bump lives in a method the save function defers
				// with the address of its named error result
				if prm, isP := u.X.(*ssa.Parameter); isP && prm.Parent() == f {
					idx := -1
					for i, q := range f.Params {
						if q == prm {
							idx = i
						}
					}
					sites := eng.StaticCallSites(f)
					all := len(sites) > 0 && idx >= 0
					for _, cs := range sites {
						_, isDefer := cs.(*ssa.Defer)
						if !isDefer || idx >= len(cs.Common().Args) {
							all = false
							continue
						}
						cell, isAl := cs.Common().Args[idx].(*ssa.Alloc)
						if !isAl || !isResultCell(cell) || !k.saveFns[cell.Parent()] || cs.Parent() != cell.Parent() {
							all = false
						}
					}
					if all {
						ok = true
					}
				}
			}
			if call, _ := eng.TupleCall(v); call != nil {
				if cal := eng.Callee(&call.Call); cal != nil && k.saveFns[eng.Unwrap(cal)] {
					ok = true
				}
				// ... or the file write itself, inside the save function
				if isFileMutatingCall(&call.Call) {
					ok = true
				}
			}
		}
		c.Check(ok, "R-C04-4", f, w.In.Pos(), site, "the write generation is bumped only on the nil-error edge of the file write (deferred literal reading the save function's error result, or directly after the save)", detail)
	}
	if n == 0 {
		c.Bad("R-C04-4", nil, 0, "stores to kv.gen", "the generation is bumped after every successful save", "no store to kv.gen outside constructors")
	}
}

// isResultCell: the Alloc is a named result of its function (its loads feed
// the Return instructions).
func isResultCell(cell *ssa.Alloc) bool {
	f := cell.Parent()
	for _, r := range eng.Returns(f) {
		for _, v := range r.Results {
			if u, ok := v.(*ssa.UnOp); ok && u.X == ssa.Value(cell) {
				return true
			}
		}
	}
	return false
}

// isDeferred: the function literal f is only used as the callee of a defer
// in its parent.
func isDeferred(f *ssa.Function) bool {
	par := f.Parent()
	if par == nil {
		return false
	}
	ok := false
	eng.Instrs(par, func(in ssa.Instruction) {
		if d, isD := in.(*ssa.Defer); isD {
			if mc, isMC := d.Call.Value.(*ssa.MakeClosure); isMC && mc.Fn == f {
				ok = true
			}
		}
	})
	return ok
}

// R-C04-5
func c04Create(c *eng.Ctx, k *kvAnalysis) {
	// constructors: db functions returning (*kv, error) that call a save function
	n := 0
	for _, f := range c.P.PkgFuncs("db") {
		if f.Parent() != nil || f.Signature.Results().Len() != 2 || !eng.IsNamed(f.Signature.Results().At(0).Type(), "db", "kv") {
			continue
		}
		for _, s := range k.saveCalls(f) {
			cal := eng.Callee(&s.Call)
			if cal == nil || cal.Signature.Results().Len() != 1 {
				continue // delegating constructor (returns the callee's results)
			}
			n++
			ev := saveErr(s)
			bad := false
			tested := false
			if hit, path := eng.Search(f, s, nil, nil, func(in ssa.Instruction) bool {
				r, ok := in.(*ssa.Return)
				if !ok {
					return false
				}
				for _, cond := range eng.FactsAt(r) {
					if v, _, ok := cond.ErrCheck(); ok && eng.Same(v, ev) {
						return false
					}
				}
				return true
			}); hit != nil {
				bad = true
				c.Bad("R-C04-5", f, s.Pos(), eng.CallStr(&s.Call), "every return after the creating save is edge-dominated by a test of its error", "return at "+c.P.Pos(hit.Pos())+" does not depend on it: "+c.P.PathStr(path))
			}
			for _, r := range eng.Returns(f) {
				for _, cond := range eng.FactsAt(r) {
					v, isNil, ok := cond.ErrCheck()
					if !ok || !eng.Same(v, ev) {
						continue
					}
					tested = true
					if !isNil {
						rv := eng.RetVals(r)
						if !eng.IsNilConst(eng.Origin(rv[0])) || nonNilAt(rv[1], eng.FactsAt(r)) != eng.Yes {
							bad = true
							c.Bad("R-C04-5", f, r.Pos(), eng.InstrStr(r), "a failed creating save returns (nil, non-nil error): Open fails rather than serving an unsaved store", "returns "+eng.ValStr(rv[0])+", "+eng.ValStr(rv[1]))
						}
					}
				}
			}
			if !tested {
				c.Bad("R-C04-5", f, s.Pos(), eng.CallStr(&s.Call), "the creating save's error is tested", "no return depends on it")
			} else if !bad {
				c.Ok("R-C04-5", f, s.Pos(), eng.CallStr(&s.Call), "creation returns its save error and no kv")
			}
		}
	}
	if n == 0 {
		c.Undecided("R-C04-5", nil, 0, "database creation", "no constructor calling save found")
	}
}

// c04OpenAcceptsWhatSaveWrote: R-C04-10.  "The file ... opens successfully":
// every state a save can write is accepted on open.  Open decrypts and decodes
// and adds no acceptance test of its own: once the decrypted document has been
// decoded into the persisted form (nil error of that json.Unmarshal) no error
// return is reachable in the reading function.  (A consistency check there
// would have to hold for every state the operations can legitimately produce
// -- e.g. a latest version number whose version was deleted.)
func c04OpenAcceptsWhatSaveWrote(c *eng.Ctx) {
	p := c.P
	n := 0
	for f := range dbReaders(c) {
		ei := errResultIndex(f)
		if ei < 0 {
			continue
		}
		// (the decoding may live in a helper of the reading function)
		eng.InstrsDeep(f, func(g *ssa.Function, in ssa.Instruction) {
			call, ok := in.(*ssa.Call)
			if !ok || !eng.CalleeIs(&call.Call, "encoding/json", "Unmarshal") {
				return
			}
			tgt := call.Call.Args[1]
			if mi, isMI := tgt.(*ssa.MakeInterface); isMI {
				tgt = mi.X
			}
			if !eng.IsNamed(eng.Deref(tgt.Type()), "db", dbTypeName(p, "persist")) {
				return
			}
			gi := errResultIndex(g)
			if gi < 0 {
				return
			}
			n++
			ev := saveErr(call)
			fOuter := f
			f := g
			isErrRet := func(x ssa.Instruction) bool {
				r, isR := x.(*ssa.Return)
				if !isR {
					return false
				}
				ri := errResultIndex(r.Parent())
				return ri >= 0 && ri < len(eng.RetVals(r)) && !eng.IsNilConst(eng.Origin(eng.RetVals(r)[ri])) && !forwardsNil(r, ri, call)
			}
			hit, path := eng.Search(g, call, eng.AssumeErr(ev, true), nil, isErrRet)
			// ... and, when the decoding lies in a helper, from the helper's
			// successful return on in the reading function
			if hit == nil && g != fOuter {
				if site, _ := eng.UniqueCallSite(g).(*ssa.Call); site != nil && site.Parent() == fOuter {
					hit, path = eng.Search(fOuter, site, eng.AssumeErr(saveErr(site), true), nil, isErrRet)
				}
			}
			_ = gi
			c.Check(hit == nil, "R-C04-10", f, call.Pos(), "after the stored state decoded in "+eng.FName(f), "open succeeds (no further acceptance test between decoding and use: whatever save wrote is readable)", func() string {
				if hit == nil {
					return ""
				}
				return "an error return is still reachable at " + p.Pos(hit.Pos()) + ": " + p.PathStr(path)
			}())
		})
	}
	if n == 0 {
		c.Undecided("R-C04-10", nil, 0, "decoding of the persisted state on the open path", "not found")
	}
}

// forwardsNil: the error returned by r is the error result of a helper call
// whose nil edge we are on (`return decodeKV(...)`: the caller returns what
// the helper returned, which is nil on the path followed).
func forwardsNil(r *ssa.Return, ri int, decode *ssa.Call) bool {
	call, idx := eng.TupleCall(eng.RetVals(r)[ri])
	if call == nil {
		return false
	}
	h := eng.Callee(&call.Call)
	if !eng.IsHelper(r.Parent(), h) || !(idx == errResultIndex(h) || (idx < 0 && errResultIndex(h) == 0)) {
		return false
	}
	// only the helper the decoding itself lies in (we arrive here through its
	// successful return); the error of any other helper is a new failure
	inside := false
	eng.InstrsDeep(h, func(_ *ssa.Function, in ssa.Instruction) {
		if in == ssa.Instruction(decode) {
			inside = true
		}
	})
	return inside
}
