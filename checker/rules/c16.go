package rules

import (
	"go/token"
	"time"

	"golang.org/x/tools/go/ssa"

	"setecvet/eng"
)

func init() {
	register(&Prop{
		ID: "C16",
		Explanation: "Decides structural necessary conditions of C16: (R-C16-1) after construction, service requests are issued only by the poll and by the lookup routine; every call of the lookup routine is edge-dominated by the true edge of Store.allowLookup, which is written only in the constructor; with lookups disabled LookupSecret/lookupWatcher return a non-nil error on the unknown-name edge and Secret panics only under 'unknown and lookups disabled'; " +
			"(R-C16-2) the lookup's Get(ctx', name) runs inside the function literal passed to single-flight Do under the key \"lookup:\"+name for the same name; (R-C16-3) the install is edge-dominated by the fetch's nil error, is followed in the same critical section by the cache flush and the creation of the handle that is returned, and the failure edge writes nothing and returns a non-nil error; " +
			"(R-C16-4) the context of the fetch is the caller's on the ok edge of Deadline(), otherwise WithTimeout(ctx, d) with constant d <= 5m whose cancel is deferred; (R-C16-5) every retry edge of the lookup loop depends on a witness written inside the Do literal ('this call ran the fetch') or on a bounded counter -- the shared error alone cannot tell the winner (whose own fallback fired) from a waiter; " +
			"(R-C16-6) a retry edge exists, under the caller's own ctx.Err()==nil; (R-C16-7) only context errors are retried: with the errors.Is(err, Canceled|DeadlineExceeded) true edges removed the loop header is unreachable, and other errors are returned as they are. (R-C16-8) every error handed to fmt.Errorf in the client library is wrapped with %w (the retry classification sees the real error); (R-C16-9) a looked-up secret is polled like any other: C11's R-C11-1.",
		NotDecided:  "Behaviour over virtual time with hanging services; how many concurrent callers share one request (single-flight's contract, trusted).",
		Trusted:     append([]string{"singleflight.Group.Do runs fn synchronously in the winning caller and hands every caller the same (value, error)"}, commonTrusted...),
		Assumptions: []string{},
		Run:         runC16,
	})
}

// lookupRoutine finds the function that single-flights "lookup:"+name.
func lookupRoutine(p *eng.Prog) (*ssa.Function, *ssa.Call) {
	var fn *ssa.Function
	var do *ssa.Call
	for _, f := range p.PkgFuncs(setecPkg) {
		eng.Instrs(f, func(in ssa.Instruction) {
			call, ok := in.(*ssa.Call)
			if !ok {
				return
			}
			cal := call.Call.StaticCallee()
			if cal == nil || cal.Pkg == nil || cal.Pkg.Pkg.Path() != "golang.org/x/sync/singleflight" || (cal.Name() != "Do" && cal.Name() != "DoChan") || len(call.Call.Args) < 3 {
				return
			}
			// by role: the flight whose function (or a helper of it) asks the
			// service for one secret with Get (the poll's flight runs the poll)
			if mc, isMC := eng.Origin(call.Call.Args[2]).(*ssa.MakeClosure); isMC {
				eng.InstrsDeep(mc.Fn.(*ssa.Function), func(_ *ssa.Function, x ssa.Instruction) {
					if ic, isC := x.(*ssa.Call); isC && isStoreClientInvoke(&ic.Call) && ic.Call.Method.Name() == "Get" {
						fn, do = f, call
					}
				})
			}
		})
	}
	return fn, do
}

func runC16(c *eng.Ctx, tier string) {
	p := c.P
	lk, do := lookupRoutine(p)
	if lk == nil {
		c.Undecided("anchor", nil, 0, "lookup routine (single-flight under \"lookup:\"+name)", "not found in client/setec")
		return
	}
	// one attempt (the single-flight call) may live in a helper of the routine
	// that holds the retry loop: lk is then that routine, inner the helper and
	// attempt its call in lk
	inner := lk
	var attempt *ssa.Call
	if !eng.InCycle(do.Block()) {
		if site, _ := eng.UniqueCallSite(lk).(*ssa.Call); site != nil && eng.IsHelper(site.Parent(), lk) {
			attempt = site
			lk = site.Parent()
		}
	}
	_ = inner
	newStore := p.Func(setecPkg, "NewStore")
	poll := anchor(p, setecPkg, "(*Store).poll")
	g := p.CallGraph()

	// R-C16-1
	allowTrue := func(in ssa.Instruction) bool {
		for _, cond := range factsDeep(in) {
			if v, truth, isB := cond.Bool(); isB && truth {
				if fr, _, isF := eng.LoadedField(v); isF && fr.Is(setecPkg, "Store", storeField("allowLookup")) {
					return true
				}
			}
		}
		return false
	}
	nCalls := 0
	// (the routine may test the policy itself, before anything else: then
	// every request it makes lies past that test)
	selfGated := allowTrue(do)
	if attempt != nil {
		selfGated = allowTrue(attempt)
	}
	for _, e := range g.CallersOf(lk) {
		nCalls++
		c.Check(selfGated || allowTrue(e.Site), "R-C16-1", e.Caller, e.Site.Pos(), "call of the lookup routine in "+eng.FName(e.Caller), "edge-dominated by Store.allowLookup == true (at the call, or at the head of the routine before its single-flight call)", "holding here: "+factsStr(factsDeep(e.Site)))
	}
	if nCalls == 0 {
		c.Undecided("R-C16-1", lk, lk.Pos(), "callers of the lookup routine", "none")
	}
	// service requests after construction only in poll and the lookup literal
	lks := moduleLocks(c)
	prepub := map[*ssa.Function]bool{}
	if newStore != nil {
		prepub[newStore] = true
	}
	if f := anchor(p, setecPkg, "(*Store).initializeActive"); f != nil {
		prepub[f] = true
	}
	for _, f := range p.PkgFuncs(setecPkg) {
		eng.Instrs(f, func(in ssa.Instruction) {
			ci, ok := in.(ssa.CallInstruction)
			if !ok || !isStoreClientInvoke(ci.Common()) {
				return
			}
			// receiver must be the Store's client field to count as "the store contacting the service"
			fr, _, isF := eng.LoadedField(ci.Common().Value)
			if !isF || !fr.Is(setecPkg, "Store", storeField("client")) {
				return
			}
			where := eng.Outer(f)
			// construction: NewStore, the initialisation routine, and whatever
			// helper runs only before the store is published (virtual hold of
			// the store lock in the lock analysis)
			hs := lks.HeldBefore(in)
			virtual := lks.Holds(hs, keyStore) && !lks.HoldsReal(hs, keyStore)
			// (the lookup routine, or a helper only it calls)
			inLookup := where == lk || eng.Outer(eng.HelperRoot(where, func(x *ssa.Function) bool { return eng.Outer(x) == lk })) == lk
			inPoll := where == poll || eng.HelperRoot(where, func(x *ssa.Function) bool { return x == poll }) == poll
			okk := prepub[where] || virtual || inPoll || inLookup
			c.Check(okk, "R-C16-1", f, in.Pos(), "service request "+eng.InstrStr(in), "the store contacts the service only during construction, in the poll, and in the gated lookup routine", "request issued in "+eng.FName(f))
		})
	}
	// allowLookup written only in NewStore
	for _, f := range p.PkgFuncs(setecPkg) {
		for _, a := range eng.FieldAccesses(f) {
			if a.Write && a.Field.Is(setecPkg, "Store", storeField("allowLookup")) {
				// (NewStore, or a constructor helper only it calls, filling a Store it just allocated)
				inCtor := f == newStore || (freshBase(a.Base) && eng.HelperRoot(f, func(x *ssa.Function) bool { return x == newStore }) == newStore)
				c.Check(inCtor, "R-C16-1", f, a.In.Pos(), "write of Store.allowLookup", "the policy is fixed by the constructor", "written in "+eng.FName(f))
				// ... as exactly what the configuration says: lookups are enabled by StoreConfig.AllowLookup and nothing else
				if st, isSt := a.In.(*ssa.Store); isSt {
					fr2, _, isF2 := eng.LoadedField(st.Val)
					c.Check(isF2 && fr2.Is(setecPkg, "StoreConfig", "AllowLookup"), "R-C16-1", f, a.In.Pos(), "value of Store.allowLookup: "+eng.ValStr(st.Val), "the configuration's AllowLookup itself (no other circumstance turns lookups on)", "computed from something else")
				}
			}
		}
	}
	// the disabled edge returns an error (LookupSecret, lookupWatcher ...): any function with an If on allowLookup
	for _, f := range p.PkgFuncs(setecPkg) {
		eng.Instrs(f, func(in ssa.Instruction) {
			ifi, ok := in.(*ssa.If)
			if !ok {
				return
			}
			cond := eng.CondOf(ifi.Cond, true)
			v, truth, isB := cond.Bool()
			if !isB {
				return
			}
			fr, _, isF := eng.LoadedField(v)
			if !isF || !fr.Is(setecPkg, "Store", storeField("allowLookup")) {
				return
			}
			// the edge on which allowLookup is false
			falseSucc := ifi.Block().Succs[1]
			if !truth {
				falseSucc = ifi.Block().Succs[0]
			}
			ei := errResultIndex(f)
			// what happens on the disabled edge
			hit, _ := eng.SearchBlock(f, falseSucc, nil, nil, func(x ssa.Instruction) bool {
				if ci, ok := x.(ssa.CallInstruction); ok {
					cal := eng.Callee(ci.Common())
					return cal == lk || isStoreClientInvoke(ci.Common())
				}
				return false
			})
			if falseSucc.Instrs[0] != nil {
				if ci, ok := falseSucc.Instrs[0].(ssa.CallInstruction); ok && eng.Callee(ci.Common()) == lk {
					hit = falseSucc.Instrs[0]
				}
			}
			c.Check(hit == nil, "R-C16-1", f, in.Pos(), "lookups-disabled edge in "+eng.FName(f), "with lookups disabled no lookup and no request is reachable", func() string {
				if hit == nil {
					return ""
				}
				return "reaches " + eng.InstrStr(hit)
			}())
			if ei >= 0 {
				// returns dominated by the disabled edge carry a non-nil error
				for _, r := range eng.Returns(f) {
					if !falseSucc.Dominates(r.Block()) {
						continue
					}
					rv := eng.RetVals(r)
					c.Check(nonNilAt(rv[ei], eng.FactsAt(r)) == eng.Yes, "R-C16-1", f, r.Pos(), "disabled-lookup result "+eng.InstrStr(r), "an unknown name with lookups disabled is reported as an error", "returned error "+eng.ValStr(rv[ei]))
				}
			} else {
				// functions without error result: the disabled edge may only panic (Store.Secret)
				eng.Instrs(f, func(x ssa.Instruction) {
					if pn, isP := x.(*ssa.Panic); isP {
						okk := falseSucc.Dominates(pn.Block())
						nilSec := false
						for _, cd := range eng.FactsAt(pn) {
							if _, isNil, isN := cd.NilCheck(); isN && isNil {
								nilSec = true
							}
						}
						c.Check(okk && nilSec, "R-C16-1", f, x.Pos(), "panic in "+eng.FName(f), "panics only for an unknown name with lookups disabled", "holding: "+eng.FactsString(x))
					}
				})
			}
		})
	}

	noForget(c, "R-C16-2")
	// the literal passed to Do
	mc, _ := eng.Origin(do.Call.Args[2]).(*ssa.MakeClosure)
	if mc == nil {
		c.Undecided("R-C16-2", lk, do.Pos(), eng.CallStr(&do.Call), "the function passed to Do is not a literal")
		return
	}
	lit := mc.Fn.(*ssa.Function)
	flightLit := lit // the literal handed to Do (it marks "this call ran the fetch")
	nameP := (*ssa.Parameter)(nil)
	for _, prm := range lk.Params {
		if isStringType(prm.Type()) {
			nameP = prm
		}
	}
	isName := func(v ssa.Value) bool {
		return nameP != nil && v != nil && (eng.Origin(v) == ssa.Value(nameP) || eng.OriginX(v) == eng.OriginX(nameP))
	}
	// the key is per name: a constant label joined with the name looked up
	// (callers that join a flight are handed the winner's result, so a key
	// shared between names would hand out another secret's handle)
	okKey := false
	if kb, isB := eng.OriginX(do.Call.Args[1]).(*ssa.BinOp); isB && kb.Op == token.ADD && nameP != nil {
		_, xK := eng.ConstString(kb.X)
		_, yK := eng.ConstString(kb.Y)
		okKey = (xK && isName(kb.Y)) || (yK && isName(kb.X))
	}
	if !okKey && nameP != nil {
		if text, vars, isT := eng.StrTemplate(eng.OriginX(do.Call.Args[1])); isT && len(vars) == 1 && isName(vars[0]) && text != "%s" {
			okKey = true
		}
	}
	c.Check(okKey, "R-C16-2", lk, do.Pos(), "single-flight key "+eng.ValStr(do.Call.Args[1]), "\"lookup:\" + the name being looked up", "")
	// R-C16-2: the fetch is inside lit, for the same name
	var fetch *ssa.Call
	eng.Instrs(lit, func(in ssa.Instruction) {
		if call, ok := in.(*ssa.Call); ok && isStoreClientInvoke(&call.Call) {
			fetch = call
		}
	})
	eng.Instrs(lk, func(in ssa.Instruction) {
		if ci, ok := in.(ssa.CallInstruction); ok && isStoreClientInvoke(ci.Common()) {
			c.Bad("R-C16-2", lk, in.Pos(), eng.InstrStr(in), "the lookup fetch runs only inside the single-flight literal", "fetch outside the literal")
		}
	})
	if fetch == nil {
		// the body of the flight may be a helper method the literal returns the results of
		var hc *ssa.Call
		eng.Instrs(lit, func(in ssa.Instruction) {
			if call, ok := in.(*ssa.Call); ok && eng.IsHelper(lit, eng.Callee(&call.Call)) && isFetchCall(p, call) {
				hc = call
			}
		})
		if hc != nil {
			okFwd := true
			herr := saveErr(hc)
			for _, r := range eng.Returns(lit) {
				rv := eng.RetVals(r)
				if len(rv) != 2 {
					okFwd = false
					continue
				}
				v := eng.Origin(rv[0])
				if mi, isMI := v.(*ssa.MakeInterface); isMI {
					v = mi.X // (Secret, error) handed on as (any, error)
				}
				tc, idx := eng.TupleCall(v)
				valOK := (tc == hc && idx == 0) || eng.IsNilConst(eng.Origin(rv[0]))
				errOK := eng.Same(rv[1], herr)
				if eng.IsNilConst(eng.Origin(rv[1])) {
					// success is reported only on the nil edge of the helper's error, with its value
					for _, cond := range eng.FactsAt(r) {
						if x, isNil, isE := cond.ErrCheck(); isE && isNil && eng.Same(x, herr) {
							errOK = tc == hc && idx == 0
						}
					}
				}
				if !valOK || !errOK {
					okFwd = false
				}
			}
			c.Check(okFwd, "R-C16-2", lit, hc.Pos(), "lookup literal", "returns the results of "+eng.CallStr(&hc.Call)+" unchanged", "")
			lit = eng.Callee(&hc.Call)
			eng.Instrs(lit, func(in ssa.Instruction) {
				if call, ok := in.(*ssa.Call); ok && isStoreClientInvoke(&call.Call) {
					fetch = call
				}
			})
		}
	}
	if fetch == nil {
		c.Bad("R-C16-2", lit, lit.Pos(), "lookup literal", "fetches the secret", "no service request in the literal")
		return
	}
	c.Check(fetch.Call.Method.Name() == "Get" && isName(fetch.Call.Args[1]), "R-C16-2", lit, fetch.Pos(), eng.CallStr(&fetch.Call), "Get(ctx', name) for the same name as the single-flight key", "")

	// R-C16-4 fallback deadline
	c16Deadline(c, lk, lit, fetch)

	// R-C16-3 install discipline
	ferr := saveErr(fetch)
	var install *ssa.MapUpdate
	for _, m := range eng.MapOps(lit) {
		if n, isAct := activeMapOf(m.Map); isAct && n == "m" && m.Kind == "update" {
			install = m.In.(*ssa.MapUpdate)
		}
	}
	if install == nil {
		c.Bad("R-C16-3", lit, lit.Pos(), "lookup literal", "a fetched secret is installed into the active set", "no install")
	} else {
		c.Check(isName(install.Key), "R-C16-3", lit, install.Pos(), eng.InstrStr(install)+" [name]", "installed under the looked-up name", "")
		// flush and handle creation follow, in the same critical section
		hit, path := eng.Search(lit, install, nil, func(x ssa.Instruction) bool {
			if call, ok := x.(*ssa.Call); ok {
				if cal := eng.Callee(&call.Call); cal != nil && reachesCacheWrite(p, cal) {
					return true
				}
			}
			return false
		}, func(x ssa.Instruction) bool {
			if eng.IsReturn(x) {
				return true
			}
			if call, ok := x.(*ssa.Call); ok {
				if op, k, isL := eng.LockOp(&call.Call); isL && k == keyStore && op == "Unlock" {
					return true
				}
			}
			return false
		})
		c.Check(hit == nil, "R-C16-3", lit, install.Pos(), eng.InstrStr(install)+" [flush]", "the cache is flushed after the install, before the lock is released", func() string {
			if hit == nil {
				return ""
			}
			return "reaches " + eng.InstrStr(hit) + " first: " + p.PathStr(path)
		}())
		// success returns a handle for the same name created under the lock
		for _, r := range eng.Returns(lit) {
			rv := eng.RetVals(r)
			if !eng.IsNilConst(eng.Origin(rv[1])) {
				continue
			}
			hc, _ := eng.TupleCall(rv[0])
			okk := hc != nil && returnsSecret(hc) && len(hc.Call.Args) == 2 && isName(hc.Call.Args[1]) && eng.InstrDominates(install, hc)
			c.Check(okk, "R-C16-3", lit, r.Pos(), "success result of the lookup literal "+eng.InstrStr(r), "a handle for the same name, created after the install (all waiters receive a working handle)", "")
		}
	}
	// failure edge: no write, non-nil error
	failWrite, _ := eng.Search(lit, fetch, eng.AssumeErr(ferr, false), nil, func(x ssa.Instruction) bool {
		for _, m := range eng.MapOps(lit) {
			if m.In == x && m.IsWrite() {
				if _, isAct := activeMapOf(m.Map); isAct {
					return true
				}
			}
		}
		return false
	})
	c.Check(failWrite == nil, "R-C16-3", lit, fetch.Pos(), "failure edge of "+eng.CallStr(&fetch.Call), "a failed lookup installs nothing", func() string {
		if failWrite == nil {
			return ""
		}
		return "write reachable: " + eng.InstrStr(failWrite)
	}())
	badRet, _ := eng.Search(lit, fetch, eng.AssumeErr(ferr, false), nil, func(x ssa.Instruction) bool {
		r, ok := x.(*ssa.Return)
		if !ok {
			return false
		}
		rv := eng.RetVals(r)
		return nonNilAt(rv[1], eng.FactsAt(r)) != eng.Yes
	})
	c.Check(badRet == nil, "R-C16-3", lit, fetch.Pos(), "error of "+eng.CallStr(&fetch.Call), "a failed fetch is returned as a non-nil error", "")

	// R-C16-5/6/7 the retry loop
	c16Retry(c, lk, do, flightLit, attempt)
	// R-C16-8: the classification above sees the real error: nothing on the way up flattens it
	clientWrapDiscipline(c, "R-C16-8")
	// R-C16-9: "thereafter polled and cached like any other": the poll covers
	// every name of the active set, however it got there (C11's rule)
	includeOnly(c, "R-C16-9", func(sc *eng.Ctx) { runC11(sc, "quick") }, "R-C11-1")
	handleBoundToName(c, "R-C16-9")
}

func returnsSecret(call *ssa.Call) bool {
	res := call.Call.Signature().Results()
	return res.Len() == 1 && eng.IsNamed(res.At(0).Type(), setecPkg, "Secret")
}

func c16Deadline(c *eng.Ctx, lk, lit *ssa.Function, fetch *ssa.Call) {
	ctxP := ctxParam(lk)
	if ctxP == nil {
		c.Undecided("R-C16-4", lk, lk.Pos(), "context parameter", "none")
		return
	}
	ctxArg := fetch.Call.Args[0]
	leaves, phis := eng.PhiLeaves(ctxArg)
	if len(phis) == 0 {
		leaves = []eng.PhiLeaf{{Val: ctxArg, From: fetch.Block()}}
	}
	for _, lf := range leaves {
		site := "context of the lookup fetch: " + eng.ValStr(lf.Val)
		// the choice may be made by a helper returning (context, cancel)
		if hc, idx := eng.TupleCall(lf.Val); hc != nil && idx == 0 {
			if h := eng.Callee(&hc.Call); eng.IsHelper(lit, h) && len(h.Params) == 1 && len(hc.Call.Args) == 1 && h.Signature.Results().Len() == 2 && eng.OriginX(hc.Call.Args[0]) == eng.OriginX(ctxP) {
				okH := len(eng.Returns(h)) > 0
				why := ""
				for _, r := range eng.Returns(h) {
					rv := eng.RetVals(r)
					switch {
					case eng.Origin(rv[0]) == ssa.Value(h.Params[0]):
						has := false
						for _, cond := range eng.FactsAt(r) {
							if bv, truth, isB := cond.Bool(); isB && truth {
								if ex, isEx := eng.Origin(bv).(*ssa.Extract); isEx && ex.Index == 1 {
									if dc, isC := ex.Tuple.(*ssa.Call); isC && dc.Call.IsInvoke() && dc.Call.Method.Name() == "Deadline" && eng.Origin(dc.Call.Value) == ssa.Value(h.Params[0]) {
										has = true
									}
								}
							}
						}
						if !has {
							okH, why = false, "the caller's context is returned as it is where it was not found to have a deadline"
						}
					default:
						tc, ti := eng.TupleCall(rv[0])
						d := int64(0)
						isK := false
						if tc != nil && len(tc.Call.Args) == 2 {
							d, isK = eng.ConstInt(tc.Call.Args[1])
						}
						if tc == nil || ti != 0 || !eng.CalleeIs(&tc.Call, "context", "WithTimeout") || !isK || time.Duration(d) <= 0 || time.Duration(d) > 5*time.Minute || eng.Origin(tc.Call.Args[0]) != ssa.Value(h.Params[0]) {
							okH, why = false, "returns "+eng.ValStr(rv[0])
						} else if c2, i2 := eng.TupleCall(rv[1]); c2 != tc || i2 != 1 {
							okH, why = false, "the cancel function returned is not that of the derived context"
						}
					}
				}
				// the caller defers the cancel function it was handed
				deferred := false
				for _, r := range *hc.Referrers() {
					if ex2, ok := r.(*ssa.Extract); ok && ex2.Index == 1 {
						for _, rr := range *ex2.Referrers() {
							if df, ok := rr.(*ssa.Defer); ok && df.Call.Value == ssa.Value(ex2) {
								deferred = true
							}
						}
					}
				}
				c.Check(okH && deferred, "R-C16-4", lit, hc.Pos(), site, "the caller's context where it has a deadline, else context.WithTimeout(caller's ctx, constant d <= 5m), the cancel function deferred", why)
				continue
			}
		}
		v := eng.OriginX(lf.Val)
		if v == eng.OriginX(ctxP) {
			// only on the ok edge of ctx.Deadline()
			ok := false
			facts := eng.BlockFacts(lf.From)
			// the edge from lf.From into the phi block may itself be the ok edge
			var conds []eng.Cond
			for _, f := range facts {
				conds = append(conds, f.Cond())
			}
			if ifi, isIf := lf.From.Instrs[len(lf.From.Instrs)-1].(*ssa.If); isIf && lf.Phi != nil {
				conds = append(conds, eng.CondOf(ifi.Cond, lf.From.Succs[0] == lf.Phi.Block()))
			}
			for _, cd := range conds {
				bv, truth, isB := cd.Bool()
				if !isB || !truth {
					continue
				}
				if ex, isEx := eng.Origin(bv).(*ssa.Extract); isEx && ex.Index == 1 {
					if call, isC := ex.Tuple.(*ssa.Call); isC && call.Call.IsInvoke() && call.Call.Method.Name() == "Deadline" && eng.OriginX(call.Call.Value) == eng.OriginX(ctxP) {
						ok = true
					}
				}
			}
			c.Check(ok, "R-C16-4", lit, fetch.Pos(), site, "the caller's context is used as it is only where ctx.Deadline() reported a deadline", "no such edge")
			continue
		}
		if ex, isEx := v.(*ssa.Extract); isEx && ex.Index == 0 {
			if call, isC := ex.Tuple.(*ssa.Call); isC && (eng.CalleeIs(&call.Call, "context", "WithTimeout") || eng.CalleeIs(&call.Call, "context", "WithDeadline")) {
				d, isK := eng.ConstInt(call.Call.Args[1])
				okk := eng.CalleeIs(&call.Call, "context", "WithTimeout") && isK && time.Duration(d) > 0 && time.Duration(d) <= 5*time.Minute && eng.OriginX(call.Call.Args[0]) == eng.OriginX(ctxP)
				c.Check(okk, "R-C16-4", lit, call.Pos(), site, "context.WithTimeout(caller's ctx, constant d <= 5m): the five-minute safety limit", "timeout "+eng.ValStr(call.Call.Args[1]))
				// cancel deferred
				deferred := false
				for _, r := range *call.Referrers() {
					if ex2, ok := r.(*ssa.Extract); ok && ex2.Index == 1 {
						for _, rr := range *ex2.Referrers() {
							if df, ok := rr.(*ssa.Defer); ok && df.Call.Value == ssa.Value(ex2) {
								deferred = true
							}
						}
					}
				}
				c.Check(deferred, "R-C16-4", lit, call.Pos(), "cancel of "+eng.CallStr(&call.Call), "the cancel function is deferred", "not deferred")
				continue
			}
		}
		c.Bad("R-C16-4", lit, fetch.Pos(), site, "the caller's context (when it has a deadline) or a <= 5m timeout derived from it", "other context")
	}
}

func c16Retry(c *eng.Ctx, lk *ssa.Function, do *ssa.Call, lit *ssa.Function, attempt *ssa.Call) {
	p := c.P
	flight := do // the single-flight call itself
	if attempt != nil {
		// the attempt helper hands the flight's error on unchanged
		c.Check(eng.ErrorSource(attempt) == flight, "R-C16-7", attempt.Parent(), attempt.Pos(), "error of "+eng.CallStr(&attempt.Call), "is the error of the single-flight call inside it, unchanged (what the retry decision classifies is the shared lookup's own error)", "")
		do = attempt
	}
	header := do.Block()
	// find the loop header: the nearest dominator of do's block that is a back-edge target
	var backs []*ssa.BasicBlock // sources of back edges
	var hdr *ssa.BasicBlock
	for x := header; x != nil; x = x.Idom() {
		for _, pr := range x.Preds {
			if x.Dominates(pr) {
				hdr = x
			}
		}
		if hdr != nil {
			break
		}
	}
	derr := saveErr(do) // extract #1
	if hdr == nil {
		c.Bad("R-C16-6", lk, do.Pos(), "retry loop around "+eng.CallStr(&do.Call), "a waiter is not failed merely because the winner's context ended: the lookup is retried in that case", "the single-flight call is not in a loop")
		// R-C16-7 is then trivially true
		c.Ok("R-C16-7", lk, do.Pos(), "retries", "none at all")
		return
	}
	for _, pr := range hdr.Preds {
		if hdr.Dominates(pr) {
			backs = append(backs, pr)
		}
	}
	ctxP := ctxParam(lk)
	isCtxErrIs := func(cond eng.Cond) (bool, bool) {
		call, _, truth, isCall := cond.BoolCall()
		if !isCall || !eng.CalleeIs(&call.Call, "errors", "Is") || !eng.SameX(call.Call.Args[0], derr) {
			return false, false
		}
		if eng.IsGlobalLoad(call.Call.Args[1], "context", "DeadlineExceeded") || eng.IsGlobalLoad(call.Call.Args[1], "context", "Canceled") {
			return true, truth
		}
		return false, false
	}
	// R-C16-7: cut the true edges of errors.Is(err, ctx error): header unreachable from the Do call
	cut := func(b *ssa.BasicBlock, i int) bool {
		ifi, ok := b.Instrs[len(b.Instrs)-1].(*ssa.If)
		if !ok {
			return true
		}
		cond := eng.CondOf(ifi.Cond, i == 0)
		if is, truth := isCtxErrIs(cond); is && truth {
			return false
		}
		// the classification may sit in a boolean helper: the edge is closed
		// if the helper cannot give this answer for an error that is no
		// context error
		if hc, _, truth, isCall := cond.BoolCall(); isCall && eng.IsHelper(lk, eng.Callee(&hc.Call)) {
			canT, canF := eng.BoolHelperAssume(hc, func(v ssa.Value) (bool, bool) {
				if is, _ := isCtxErrIs(eng.CondOf(v, true)); is {
					return false, true
				}
				return false, false
			})
			if (truth && !canT) || (!truth && !canF) {
				return false
			}
		}
		return true
	}
	hit, path := eng.Search(lk, do, cut, nil, func(x ssa.Instruction) bool { return x.Block() == hdr && x == hdr.Instrs[0] })
	c.Check(hit == nil, "R-C16-7", lk, do.Pos(), "retry edges of the lookup loop", "only context errors (Canceled / DeadlineExceeded) are retried; any other failure is reported to the caller without automatic retry", func() string {
		if hit == nil {
			return ""
		}
		return "the loop header is reachable without passing errors.Is(err, context error): " + p.PathStr(path)
	}())
	// non-retried errors are returned as they are
	for _, r := range eng.Returns(lk) {
		rv := eng.RetVals(r)
		if eng.IsNilConst(eng.Origin(rv[1])) {
			continue
		}
		// (a refusal before any attempt -- lookups disabled -- is its own error)
		before := false
		if hitB, _ := eng.Search(lk, do, nil, nil, func(x ssa.Instruction) bool { return x == ssa.Instruction(r) }); hitB == nil && !eng.InstrDominates(do, r) {
			before = true
		}
		c.Check(eng.Same(rv[1], derr) || before, "R-C16-7", lk, r.Pos(), "error result "+eng.InstrStr(r), "the error of the shared lookup is returned to its caller", "returns "+eng.ValStr(rv[1]))
	}
	// per back edge: R-C16-5 and R-C16-6
	witness := func(v ssa.Value) bool {
		// (through the attempt helper: a result of it that is, on every
		// return, the cell written inside the function passed to Do)
		if attempt != nil {
			if hc, idx := eng.TupleCall(v); hc == attempt && idx >= 0 {
				h := eng.Callee(&attempt.Call)
				okAll := h != nil
				for _, r := range eng.Returns(h) {
					rv := r.Results
					if idx >= len(rv) {
						okAll = false
						continue
					}
					u, isU := rv[idx].(*ssa.UnOp)
					if !isU || u.Op != token.MUL {
						okAll = false
						continue
					}
					cell := eng.CellOf(u.X)
					in := false
					if cell != nil {
						for _, st := range eng.CellStores(cell) {
							if st.Parent() == lit {
								in = true
							}
						}
					}
					if !in {
						okAll = false
					}
				}
				return okAll
			}
		}
		u, ok := v.(*ssa.UnOp)
		if !ok || u.Op != token.MUL {
			return false
		}
		cell := eng.CellOf(u.X)
		if cell == nil {
			return false
		}
		for _, st := range eng.CellStores(cell) {
			if st.Parent() == lit {
				return true
			}
		}
		return false
	}
	for _, b := range backs {
		site := "retry edge from " + b.Comment + "#" + itoa(b.Index)
		// conditions established between the Do call and the back edge (including the edge itself)
		var conds []eng.Cond
		own := map[*ssa.If]bool{}
		for _, f := range eng.BlockFacts(do.Block()) {
			own[f.If] = true
		}
		for _, f := range eng.BlockFacts(b) {
			if !own[f.If] {
				conds = append(conds, f.Cond())
			}
		}
		if ifi, ok := b.Instrs[len(b.Instrs)-1].(*ssa.If); ok {
			conds = append(conds, eng.CondOf(ifi.Cond, b.Succs[0] == hdr))
		}
		dep := false
		bounded := false
		ownCtx := false
		for _, cd := range conds {
			if p.DependsOn(cd.X, witness) || (cd.Y != nil && p.DependsOn(cd.Y, witness)) {
				dep = true
			}
			// bounded counter: comparison of a loop-carried integer with a constant
			if op, x, y, isCmp := cd.Cmp(); isCmp && (op == token.LSS || op == token.LEQ || op == token.GTR || op == token.GEQ || op == token.NEQ) {
				if _, isK := eng.ConstInt(y); isK {
					if _, phis := eng.PhiLeaves(eng.Origin(x)); len(phis) > 0 {
						bounded = true
					}
				}
			}
			// the caller's own context is still alive
			if v, isNil, isE := cd.ErrCheck(); isE && isNil {
				if call, _ := eng.TupleCall(v); call != nil && call.Call.IsInvoke() && call.Call.Method.Name() == "Err" && ctxP != nil && eng.Origin(call.Call.Value) == ssa.Value(ctxP) {
					ownCtx = true
				}
			}
		}
		_ = bounded // a bounded counter alone is NOT accepted: it fails waiters for other callers' cancellations (R-C16-6)
		c.Check(dep, "R-C16-5", lk, b.Instrs[len(b.Instrs)-1].Pos(), site+" [winner vs waiter]",
			"the retry condition depends on a variable written inside the function passed to Do (a 'this call ran the fetch' witness)",
			"the edge depends only on "+factsStr(conds)+": the caller that ran the fetch itself and hit the fallback timeout has ctx.Err()==nil and retries forever when the service hangs (no answer within the five-minute limit)")
		c.Check(ownCtx, "R-C16-6", lk, b.Instrs[len(b.Instrs)-1].Pos(), site+" [own context]", "a retry happens only while the caller's own ctx.Err() is nil", "conditions: "+factsStr(conds))
	}
	// R-C16-6: a waiter is never failed by someone else's cancellation: assuming the shared
	// error is a context error, the caller's own context is alive and this call did not run
	// the fetch, no return is reachable (the only way on is another attempt).
	waiter := func(b *ssa.BasicBlock, i int) bool {
		ifi, ok := b.Instrs[len(b.Instrs)-1].(*ssa.If)
		if !ok {
			return true
		}
		cond := eng.CondOf(ifi.Cond, i == 0)
		if v, isNil, isE := cond.ErrCheck(); isE {
			if eng.Same(v, derr) {
				return !isNil // the shared lookup failed
			}
			if call, _ := eng.TupleCall(v); call != nil && call.Call.IsInvoke() && call.Call.Method.Name() == "Err" && ctxP != nil && eng.Origin(call.Call.Value) == ssa.Value(ctxP) {
				return isNil // own context alive
			}
		}
		if is, truth := isCtxErrIs(cond); is {
			// assume the error is context.DeadlineExceeded (first test true); Canceled analogous
			_ = truth
			call, _, _, _ := cond.BoolCall()
			if eng.IsGlobalLoad(call.Call.Args[1], "context", "DeadlineExceeded") {
				return truth
			}
			return true
		}
		if bv, truth, isB := cond.Bool(); isB && witness(eng.Origin(bv)) {
			return !truth // this call did not run the fetch
		}
		if hc, _, truth, isCall := cond.BoolCall(); isCall && eng.IsHelper(lk, eng.Callee(&hc.Call)) {
			canT, canF := eng.BoolHelperAssume(hc, func(v ssa.Value) (bool, bool) {
				cd := eng.CondOf(v, true)
				if is, _ := isCtxErrIs(cd); is {
					if c2, _, _, _ := cd.BoolCall(); c2 != nil && eng.IsGlobalLoad(c2.Call.Args[1], "context", "DeadlineExceeded") {
						return true, true
					}
				}
				return false, false
			})
			if (truth && !canT) || (!truth && !canF) {
				return false
			}
		}
		return true
	}
	hitW, pathW := eng.Search(lk, do, waiter, nil, eng.IsReturn)
	c.Check(hitW == nil, "R-C16-6", lk, do.Pos(), "waiter whose flight ended with a foreign context error", "is never handed that error: with a context error, its own context alive and the fetch not run by this call, the only continuation is another attempt (no attempt cap)", func() string {
		if hitW == nil {
			return ""
		}
		return "return at " + p.Pos(hitW.Pos()) + " reachable: " + p.PathStr(pathW)
	}())
}
