package rules

import (
	"go/token"
	"go/types"
	"strings"

	"golang.org/x/tools/go/ssa"

	"setecvet/eng"
)

func init() {
	register(&Prop{
		ID: "C18",
		Explanation: "Decides structural necessary conditions of C18: (R-C18-1) encoding agreement at every hop: PutRequest.Value and SecretValue.Value are []byte (base64 in JSON) with the documented wire signatures, the stored form uses one standard base64 on both sides (R-C03-4), cache and file client agree (R-C13-4); " +
			"(R-C18-2) transformer allow-list on the value path: following secret bytes from the request through the store and back out (db, server, client library), the only operations applied to them are []byte/string conversions, copies, json Marshal/Unmarshal, standard base64, Encrypt/Decrypt, readers; any other callee that takes the bytes and yields bytes or text (TrimSpace, ToValidUTF8, strings.*), any re-slicing with bounds and any concatenation is reported; " +
			"(R-C18-4) bytes held by the Store (current or superseded) are never overwritten in place, so a value once served stays byte-identical; (R-C18-3) CLI policy of `setec put`: every path to the Put request passes the false edge of (len(value) == 0 && !EmptyOK) for the value sent; on the file and pipe branches the value sent is checkPutText applied to exactly the bytes read; checkPutText returns its input for invalid UTF-8, for text without surrounding whitespace, and under --verbatim (tested before --trim-space), the trimmed text only under --trim-space, and otherwise an error, on which put returns before contacting the server. (R-C18-6) a lookup returns the handle of the name asked for: the single-flight key is per name (C16's R-C16-2). (R-C18-3, extended) the put command sends no request other than Put (a refused put contacts nothing). (R-C18-7) whatever bytes the service answers with (empty included) are installed by a poll (C11's R-C11-8).",
		NotDecided:  "Equality for all byte strings (depends on encoding/json, base64 and the AEAD: trusted); the interactive terminal branch's confirmation dialogue.",
		Trusted:     append([]string{"encoding/json round-trips []byte through base64", "bytes.TrimSpace removes only leading/trailing white space"}, commonTrusted...),
		Assumptions: []string{},
		Run:         runC18,
	})
}

func runC18(c *eng.Ctx, tier string) {
	p := c.P
	// R-C18-5: "byte-identical to what was put, also after a restart" rests on
	// put's numbering (the same-value short-cut compares with a version that
	// exists), on the exact rollback of a failed save, and on the file-backed
	// client using the decoded bytes unaltered
	includeOnly(c, "R-C18-5", func(sc *eng.Ctx) { runC02(sc, "quick") }, "R-C02-2", "R-C02-3")
	includeOnly(c, "R-C18-5", func(sc *eng.Ctx) { runC04(sc, "quick") }, "R-C04-3")
	includeOnly(c, "R-C18-5", func(sc *eng.Ctx) { c13Wire(sc) }, "R-C13-4")
	includeOnly(c, "R-C18-5", func(sc *eng.Ctx) { runC20(sc, "quick") }, "R-C20-1")
	// a lookup returns the handle of the name asked for, not of whatever lookup happened to be in flight
	includeOnly(c, "R-C18-6", func(sc *eng.Ctx) { runC16(sc, "quick") }, "R-C16-2")
	// R-C18-7: "the value later returned by ... a Store": whatever bytes the
	// service answers with (empty included) are installed (C11's rule)
	includeOnly(c, "R-C18-7", func(sc *eng.Ctx) { runC11(sc, "quick") }, "R-C11-8")
	// R-C18-1
	for _, row := range []struct{ name, want string }{
		{"PutRequest", `{"Name":string "Value":base64}`},
		{"SecretValue", `{"Value":base64 "Version":number(uint32)}`},
		{"GetRequest", `{"Name":string "UpdateIfChanged":bool "Version":number(uint32)}`},
	} {
		n := p.Named("types/api", row.name)
		if n == nil {
			c.Undecided("R-C18-1", nil, 0, "api."+row.name, "anchor does not resolve")
			continue
		}
		got := eng.JSONShape(n)
		c.Check(got == row.want, "R-C18-1", nil, n.Obj().Pos(), "wire signature of api."+row.name, row.want, "computed "+got)
	}
	// the client and the server use the same request/response types for put/get
	// (both sides import types/api: checked by the type checker); stored form:
	if bs := p.Named("db", "byteString"); bs != nil {
		c.Check(isStringType(bs), "R-C18-1", nil, bs.Obj().Pos(), "stored form db.byteString", "a string-kinded type holding the raw bytes", "")
	}

	// R-C18-2 transformer allow-list
	scopePkgs := map[*types.Package]bool{}
	for _, rel := range []string{"db", "server", "client/setec", "types/api"} {
		if tp := p.TypesPkg(rel); tp != nil {
			scopePkgs[tp] = true
		}
	}
	inScope := func(f *ssa.Function) bool { return f != nil && scopePkgs[eng.FuncPkg(f)] }
	var sources []ssa.Value
	for _, f := range p.AllFuncs() {
		if !inScope(f) {
			continue
		}
		for _, prm := range f.Params {
			// the value being put: the []byte parameter of a DB / kv / Client method
			if isByteSlice(prm.Type()) && (recvIs(f, "db", "DB") || recvIs(f, "db", "kv") || recvIs(f, setecPkg, "Client")) {
				sources = append(sources, prm)
			}
		}
		eng.Instrs(f, func(in ssa.Instruction) {
			switch x := in.(type) {
			case *ssa.UnOp, *ssa.Field:
				if fr, _, ok := eng.LoadedField(x.(ssa.Value)); ok && fr.Name == "Value" && (eng.IsNamed(fr.Owner, "types/api", "SecretValue") || eng.IsNamed(fr.Owner, "types/api", "PutRequest")) {
					sources = append(sources, x.(ssa.Value))
				}
			case *ssa.Lookup:
				if mt, ok := x.X.Type().Underlying().(*types.Map); ok && eng.IsNamed(mt.Elem(), "db", "byteString") {
					sources = append(sources, x)
				}
			case *ssa.Call:
				// the value a handle serves
				if isSecretBytesCall(x) {
					sources = append(sources, x)
				}
			}
		})
	}
	allowed := func(cc *ssa.CallCommon) bool {
		if cc.IsInvoke() {
			switch cc.Method.Name() {
			case "Encrypt", "Decrypt", "Write", "UnmarshalBinary", "Read", "Get", "GetIfChanged", "Put":
				return true
			}
			return false
		}
		cal := cc.StaticCallee()
		if cal == nil {
			// calls through function values: user-supplied builders/unmarshalers consume the bytes
			return true
		}
		if cal.Pkg == nil {
			return true
		}
		pp, nm := cal.Pkg.Pkg.Path(), cal.Name()
		switch {
		case pp == "encoding/json":
			return true
		case pp == "encoding/base64" && (nm == "EncodeToString" || nm == "DecodeString" || nm == "AppendEncode" || nm == "AppendDecode"):
			return true
		case pp == "bytes" && (nm == "NewReader" || nm == "Clone" || nm == "Equal" || nm == "NewBuffer"):
			return true
		case pp == "slices" && nm == "Clone":
			return true
		case pp == "io" && nm == "ReadAll":
			return true
		case pp == "reflect":
			return true
		case pp == "net/http":
			return true
		}
		return false
	}
	carries := func(t types.Type) bool {
		found := false
		var chk func(t types.Type)
		chk = func(t types.Type) {
			switch u := t.Underlying().(type) {
			case *types.Tuple:
				for i := 0; i < u.Len(); i++ {
					chk(u.At(i).Type())
				}
			case *types.Basic:
				if u.Info()&types.IsString != 0 {
					found = true
				}
			case *types.Slice:
				if b, ok := u.Elem().Underlying().(*types.Basic); ok && b.Kind() == types.Uint8 {
					found = true
				}
			}
		}
		chk(t)
		return found
	}
	hits := p.Taint(sources, eng.TaintCfg{
		Scope: inScope,
		Sanitizer: func(cc *ssa.CallCommon) bool {
			if b, ok := cc.Value.(*ssa.Builtin); ok && (b.Name() == "len" || b.Name() == "cap") {
				return true
			}
			// the HTTP transport is a boundary: a response is not a transformation of the request
			if cal := cc.StaticCallee(); cal != nil && cal.Pkg != nil && cal.Pkg.Pkg.Path() == "net/http" {
				return true
			}
			for _, a := range cc.Args {
				if eng.IsNamed(a.Type(), "net/http", "Request") {
					return true
				}
			}
			// error texts / logs are C05's business, not a transformation of the value that continues
			if cal := cc.StaticCallee(); cal != nil && cal.Pkg != nil && (cal.Pkg.Pkg.Path() == "fmt" || cal.Pkg.Pkg.Path() == "log" || cal.Pkg.Pkg.Path() == "errors") {
				return true
			}
			return false
		},
		Sink: func(in ssa.Instruction, v ssa.Value) (string, bool) {
			switch x := in.(type) {
			case *ssa.Slice:
				if x.X == v && (x.Low != nil || x.High != nil) {
					return "re-slicing with bounds", true
				}
			case *ssa.BinOp:
				if x.Op == token.ADD && isStringType(x.Type()) {
					return "string concatenation", true
				}
			case *ssa.Call:
				cc := &x.Call
				if _, isB := cc.Value.(*ssa.Builtin); isB {
					return "", false
				}
				cal := eng.Callee(cc)
				if cal != nil && inScope(eng.Unwrap(cal)) {
					return "", false
				}
				if allowed(cc) {
					return "", false
				}
				if carries(x.Type()) {
					name := eng.CallStr(cc)
					return "transforming call " + name, true
				}
			}
			return "", false
		},
	})
	for _, h := range hits {
		c.Bad("R-C18-2", h.Sink.Parent(), h.Sink.Pos(), h.What+": "+eng.InstrStr(h.Sink), "secret bytes are only converted, copied, (un)marshalled, base64'd with the standard alphabet, encrypted/decrypted or wrapped in readers on their way through db, server and client", "derived from "+eng.ValStr(h.From))
	}
	c.Check(len(sources) >= 10, "R-C18-2", nil, 0, "value sources followed", "at least 10", itoa(len(sources))+" found")
	if len(hits) == 0 {
		c.Ok("R-C18-2", nil, 0, "value path from "+itoa(len(sources))+" sources through db/server/client", "only allow-listed operations are applied")
	}

	// R-C18-4: what a Store serves is what was fetched: the bytes are never overwritten in place
	storeBytesImmutable(c, "R-C18-4")

	c18CLI(c)
}

func c18CLI(c *eng.Ctx) {
	p := c.P
	runPut := anchor(p, "cmd/setec", "runPut")
	check := anchor(p, "cmd/setec", "checkPutText")
	if runPut == nil || check == nil {
		c.Undecided("R-C18-3", nil, 0, "cmd/setec.runPut / checkPutText", "anchors do not resolve")
		return
	}
	var argField func(v ssa.Value, name string) bool
	argField = func(v ssa.Value, name string) bool {
		// a flag handed down as a parameter: the flag field at every call site
		if prm, isP := eng.Origin(v).(*ssa.Parameter); isP {
			f := prm.Parent()
			sites := eng.StaticCallSites(f)
			if len(sites) == 0 || (f.Object() != nil && f.Object().Exported()) {
				return false
			}
			for _, cs := range sites {
				okSite := false
				for i, q := range f.Params {
					if q == prm && i < len(cs.Common().Args) && cs.Parent() != f {
						okSite = argField(cs.Common().Args[i], name)
					}
				}
				if !okSite {
					return false
				}
			}
			return true
		}
		u, ok := eng.Origin(v).(*ssa.UnOp)
		if !ok || u.Op != token.MUL {
			return false
		}
		fa, ok := u.X.(*ssa.FieldAddr)
		if !ok {
			return false
		}
		g, isG := fa.X.(*ssa.Global)
		return isG && g.Pkg == check.Pkg && eng.FieldName(fa.X.Type(), fa.Field) == name
	}
	// (iii) checkPutText
	val := check.Params[0]
	var trimmed ssa.Value
	eng.Instrs(check, func(in ssa.Instruction) {
		if call, ok := in.(*ssa.Call); ok && eng.CalleeIs(&call.Call, "bytes", "TrimSpace") && eng.Origin(call.Call.Args[0]) == ssa.Value(val) {
			trimmed = call
		}
	})
	for _, r := range eng.Returns(check) {
		rv := eng.RetVals(r)
		facts := eng.FactsAt(r)
		var invalid, same, verb, notVerb, trim bool
		for _, cond := range facts {
			if call, _, truth, isCall := cond.BoolCall(); isCall && eng.CalleeIs(&call.Call, "unicode/utf8", "Valid") && eng.Origin(call.Call.Args[0]) == ssa.Value(val) && !truth {
				invalid = true
			}
			if op, x, y, isCmp := cond.Cmp(); isCmp && op == token.EQL {
				lx, okx := eng.BuiltinCall(instrOf(eng.Origin(x)), "len")
				ly, oky := eng.BuiltinCall(instrOf(eng.Origin(y)), "len")
				if okx && oky {
					a, b := eng.Origin(lx[0]), eng.Origin(ly[0])
					if (a == trimmed && b == ssa.Value(val)) || (b == trimmed && a == ssa.Value(val)) {
						same = true
					}
				}
			}
			if v, truth, isB := cond.Bool(); isB {
				if argField(v, "Verbatim") {
					verb = verb || truth
					notVerb = notVerb || !truth
				}
				if argField(v, "TrimSpace") && truth {
					trim = true
				}
			}
		}
		site := eng.InstrStr(r)
		switch {
		case eng.Origin(rv[0]) == ssa.Value(val) && eng.IsNilConst(eng.Origin(rv[1])):
			c.Check(invalid || same || verb, "R-C18-3", check, r.Pos(), site, "the input is returned unchanged only for invalid UTF-8, for text without surrounding white space, or under --verbatim", "holding: "+factsStr(facts))
		case trimmed != nil && eng.Origin(rv[0]) == trimmed:
			c.Check(trim && notVerb && eng.IsNilConst(eng.Origin(rv[1])), "R-C18-3", check, r.Pos(), site, "the trimmed text is returned only under --trim-space and not --verbatim (verbatim takes precedence)", "holding: "+factsStr(facts))
		case eng.IsNilConst(eng.Origin(rv[0])):
			c.Check(nonNilAt(rv[1], facts) == eng.Yes, "R-C18-3", check, r.Pos(), site, "with neither flag, text with surrounding white space is refused with an error", "")
		default:
			c.Bad("R-C18-3", check, r.Pos(), site, "checkPutText returns its input, the trimmed input, or an error", "returns "+eng.ValStr(rv[0]))
		}
	}
	// binary (invalid UTF-8) is decided before anything else
	if trimmed != nil {
		tc := trimmed.(*ssa.Call)
		okk := false
		for _, cond := range eng.FactsAt(tc) {
			if call, _, truth, isCall := cond.BoolCall(); isCall && eng.CalleeIs(&call.Call, "unicode/utf8", "Valid") && truth {
				okk = true
			}
		}
		c.Check(okk, "R-C18-3", check, tc.Pos(), "TrimSpace in checkPutText", "only valid UTF-8 is ever trimmed", "")
	}

	// (i)/(ii) runPut
	var put *ssa.Call
	eng.Instrs(runPut, func(in ssa.Instruction) {
		if call, ok := in.(*ssa.Call); ok && eng.CalleeIs(&call.Call, setecPkg, "Client.Put") {
			put = call
		}
	})
	if put == nil {
		c.Undecided("R-C18-3", runPut, runPut.Pos(), "Put request in runPut", "not found")
		return
	}
	// "refused without contacting the server": the put command talks to the
	// service through its Put request only -- no probe, pre-check or lookup
	// goes out before (or instead of) it
	eng.InstrsDeep(runPut, func(g *ssa.Function, in ssa.Instruction) {
		ci, ok := in.(ssa.CallInstruction)
		if !ok {
			return
		}
		cal := eng.Callee(ci.Common())
		if cal == nil || cal.Signature.Recv() == nil || !eng.IsNamed(cal.Signature.Recv().Type(), setecPkg, "Client") {
			return
		}
		c.Check(cal.Name() == "Put", "R-C18-3", g, in.Pos(), "request sent by `setec put`: "+eng.CallStr(ci.Common()), "the only request of the put command is Put, issued after the value was read and accepted (a refused put contacts nothing)", "another request: "+cal.Name())
	})
	nilErrReturn := func(x ssa.Instruction) bool {
		r, isR := x.(*ssa.Return)
		if !isR {
			return false
		}
		rv := eng.RetVals(r)
		return len(rv) == 0 || nonNilAt(rv[len(rv)-1], eng.FactsAt(r)) != eng.Yes
	}
	sent := put.Call.Args[len(put.Call.Args)-1]
	// the selection of the input (file / terminal / pipe) may live in a helper
	// of the command returning (value, error): the rules then apply inside it,
	// "the request" being its successful return
	top := runPut
	isTarget := func(x ssa.Instruction) bool { return x == ssa.Instruction(put) }
	if inner, hc := eng.ThroughHelper(sent, func(g *ssa.Function) bool { return eng.IsHelper(runPut, g) }); inner != nil && hc != nil {
		if _, isPhi := eng.Origin(inner).(*ssa.Phi); isPhi {
			hit, _ := eng.Search(runPut, hc, eng.AssumeErr(saveErr(hc), false), nil, isTarget)
			c.Check(hit == nil, "R-C18-3", runPut, hc.Pos(), "failure of "+eng.CallStr(&hc.Call), "when reading or checking the value fails, put returns without contacting the server", "the Put request is reachable after the failure")
			runPut = eng.Callee(&hc.Call)
			sent = inner
			isTarget = nilErrReturn
		}
	}
	defer func() { runPut = top }()
	leaves, phis := eng.PhiLeaves(eng.Origin(sent))
	if len(phis) == 0 {
		leaves = []eng.PhiLeaf{{Val: sent, From: put.Block()}}
	}
	nChecked := 0
	// emptyReach: assuming len(val) == 0 and !EmptyOK, is a target reachable from start in fn?
	var emptyReach func(fn *ssa.Function, start ssa.Instruction, val ssa.Value, target func(ssa.Instruction) bool) (ssa.Instruction, []*ssa.BasicBlock)
	emptyReach = func(fn *ssa.Function, start ssa.Instruction, val ssa.Value, target func(ssa.Instruction) bool) (ssa.Instruction, []*ssa.BasicBlock) {
		assume := func(b *ssa.BasicBlock, i int) bool {
			ifi, ok := b.Instrs[len(b.Instrs)-1].(*ssa.If)
			if !ok {
				return true
			}
			cond := eng.CondOf(ifi.Cond, i == 0)
			// the test may sit in a helper handed the value: its nil-error edge
			// is closed if, under the same assumption, the helper cannot
			// return a nil error
			if ev, isNil, isE := cond.ErrCheck(); isE && isNil {
				if hc, _ := eng.TupleCall(ev); hc != nil {
					if h := eng.Callee(&hc.Call); eng.IsHelper(fn, h) && len(hc.Call.Args) == len(h.Params) {
						for ai, a := range hc.Call.Args {
							if eng.Origin(a) == eng.Origin(val) {
								if hit, _ := emptyReach(h, nil, h.Params[ai], nilErrReturn); hit == nil {
									return false
								}
							}
						}
					}
				}
			}
			if op, x, y, isCmp := cond.Cmp(); isCmp {
				if k, isK := eng.ConstInt(y); isK && k == 0 {
					if args, isLen := eng.BuiltinCall(instrOf(eng.Origin(x)), "len"); isLen && eng.Origin(args[0]) == eng.Origin(val) {
						return op == token.EQL || op == token.LEQ
					}
				}
			}
			if v, truth, isB := cond.Bool(); isB && argField(v, "EmptyOK") {
				return !truth
			}
			return true
		}
		return eng.Search(fn, start, assume, nil, target)
	}
	okReadOf := func(arg ssa.Value) bool {
		rd, ridx := eng.TupleCall(arg)
		if rd == nil || ridx != 0 {
			return false
		}
		switch {
		case eng.CalleeIs(&rd.Call, "os", "ReadFile"):
			return argField(rd.Call.Args[0], "File")
		case eng.CalleeIs(&rd.Call, "io", "ReadAll"):
			// the whole of standard input, not a wrapped/limited reader
			if ci, isCI := rd.Call.Args[0].(*ssa.ChangeInterface); isCI {
				return eng.IsGlobalLoad(ci.X, "os", "Stdin")
			}
			if mi, isMI := rd.Call.Args[0].(*ssa.MakeInterface); isMI {
				return eng.IsGlobalLoad(mi.X, "os", "Stdin")
			}
			return eng.IsGlobalLoad(eng.OriginConv(rd.Call.Args[0]), "os", "Stdin")
		}
		return false
	}
	// terminalSource: the value is what term.ReadPassword returned, possibly
	// handed up through helpers of the command that return it unchanged
	var terminalSource func(v ssa.Value, depth int) bool
	terminalSource = func(v ssa.Value, depth int) bool {
		tc, tidx := eng.TupleCall(v)
		if tc == nil || depth > 3 {
			return false
		}
		if eng.CalleeIs(&tc.Call, "golang.org/x/term", "ReadPassword") {
			return tidx == 0
		}
		inner, _ := eng.ThroughHelper(v, func(g *ssa.Function) bool { return eng.FuncPkg(g) == eng.FuncPkg(runPut) })
		return inner != nil && terminalSource(inner, depth+1)
	}
	for _, lf := range leaves {
		site := "value sent by `setec put`: " + eng.ValStr(lf.Val)
		call, idx := eng.TupleCall(lf.Val)
		if call == nil {
			c.Bad("R-C18-3", runPut, put.Pos(), site, "the result of checkPutText on the bytes read, or the confirmed terminal input", "unexpected source")
			continue
		}
		emptyInHelper := false
		cal := eng.Callee(&call.Call)
		// a helper of the command that wraps checkPutText (and possibly the empty test)
		var inner *ssa.Call
		if cal != nil && cal != check && cal.Blocks != nil && eng.FuncPkg(cal) == eng.FuncPkg(runPut) && idx == 0 && len(call.Call.Args) == 1 && len(cal.Params) == 1 {
			eng.Instrs(cal, func(in ssa.Instruction) {
				if ic, ok := in.(*ssa.Call); ok && eng.Callee(&ic.Call) == check && eng.Origin(ic.Call.Args[0]) == ssa.Value(cal.Params[0]) {
					inner = ic
				}
			})
		}
		switch {
		case inner != nil:
			nChecked++
			okRet := true
			for _, r := range eng.Returns(cal) {
				if !nilErrReturn(r) {
					continue
				}
				rc, ri := eng.TupleCall(eng.RetVals(r)[0])
				if rc != inner || ri != 0 {
					okRet = false
				}
			}
			c.Check(okRet, "R-C18-3", cal, inner.Pos(), site+" [helper]", "the helper's successful result is exactly checkPutText(its argument)", "another value is returned with a nil error")
			c.Check(okReadOf(call.Call.Args[0]), "R-C18-3", runPut, call.Pos(), site+" [input]", "checkPutText is applied to exactly the bytes read: os.ReadFile(--from-file) or io.ReadAll(os.Stdin) of the whole input", "applied to "+eng.ValStr(call.Call.Args[0]))
			hitH, _ := eng.Search(cal, inner, eng.AssumeErr(saveErr(inner), false), nil, nilErrReturn)
			hit, _ := eng.Search(runPut, call, eng.AssumeErr(saveErr(call), false), nil, isTarget)
			c.Check(hit == nil && hitH == nil, "R-C18-3", runPut, call.Pos(), site+" [refusal]", "when checkPutText refuses, put returns without contacting the server", "the Put request is reachable after the refusal")
			if inv, _ := eng.TupleCall(eng.Origin(lf.Val)); inv != nil {
				var innerVal ssa.Value
				for _, rf := range *inner.Referrers() {
					if ex, isEx := rf.(*ssa.Extract); isEx && ex.Index == 0 {
						innerVal = ex
					}
				}
				if innerVal != nil {
					if h, _ := emptyReach(cal, inner, innerVal, nilErrReturn); h == nil {
						emptyInHelper = true
					}
				}
			}
		case cal == check && idx == 0:
			nChecked++
			// applied to exactly the bytes read
			c.Check(okReadOf(call.Call.Args[0]), "R-C18-3", runPut, call.Pos(), site+" [input]", "checkPutText is applied to exactly the bytes read: os.ReadFile(--from-file) or io.ReadAll(os.Stdin) of the whole input", "applied to "+eng.ValStr(call.Call.Args[0]))
			// its error returns before the request: from the err != nil edge Put is unreachable
			ev := saveErr(call)
			hit, _ := eng.Search(runPut, call, eng.AssumeErr(ev, false), nil, isTarget)
			c.Check(hit == nil, "R-C18-3", runPut, call.Pos(), site+" [refusal]", "when checkPutText refuses, put returns without contacting the server", "the Put request is reachable after the refusal")
		case eng.CalleeIs(&call.Call, "golang.org/x/term", "ReadPassword"):
			c.Ok("R-C18-3", runPut, call.Pos(), site, "terminal input (sent as typed)")
		case terminalSource(lf.Val, 0):
			c.Ok("R-C18-3", runPut, call.Pos(), site, "terminal input read by a helper (sent as typed)")
			// the empty test may be at any level of the helper chain
			v, fn := lf.Val, runPut
			for depth := 0; depth < 3 && !emptyInHelper; depth++ {
				hc, _ := eng.TupleCall(v)
				if hc == nil {
					break
				}
				h := eng.Callee(&hc.Call)
				inner, _ := eng.ThroughHelper(v, func(g *ssa.Function) bool { return eng.IsHelper(fn, g) })
				if inner == nil {
					break
				}
				if ic, _ := eng.TupleCall(inner); ic != nil {
					if hit, _ := emptyReach(h, ic, inner, nilErrReturn); hit == nil {
						emptyInHelper = true
						cal, inner2 := h, ic
						_ = cal
						c.Ok("R-C18-3", h, inner2.Pos(), site+" [empty]", "refused inside "+eng.FName(h)+": with len(value) == 0 and !EmptyOK it has no successful return")
					}
				}
				v, fn = inner, h
			}
			if emptyInHelper {
				continue
			}
		default:
			c.Bad("R-C18-3", runPut, put.Pos(), site, "the result of checkPutText on the bytes read, or the confirmed terminal input", "other source "+eng.CallStr(&call.Call))
		}
		// empty refused unless --empty-ok: assuming len(this value)==0 and !EmptyOK, Put unreachable from where the value is produced
		if emptyInHelper {
			c.Ok("R-C18-3", cal, inner.Pos(), site+" [empty]", "refused inside "+eng.FName(cal)+": with len(value) == 0 and !EmptyOK it has no successful return")
			continue
		}
		hit, path := emptyReach(runPut, call, lf.Val, isTarget)
		c.Check(hit == nil, "R-C18-3", runPut, call.Pos(), site+" [empty]", "an empty value is refused unless --empty-ok: with len(value) == 0 and !EmptyOK the request is unreachable", func() string {
			if hit == nil {
				return ""
			}
			return "reachable: " + p.PathStr(path)
		}())
	}
	c.Check(nChecked >= 2, "R-C18-3", runPut, put.Pos(), "file and pipe branches of `setec put`", "both pass through checkPutText", itoa(nChecked)+" do")
	_ = strings.Contains
}
