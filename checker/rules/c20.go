package rules

import (
	"go/token"
	"go/types"
	"sort"
	"strings"

	"golang.org/x/tools/go/ssa"

	"setecvet/eng"
)

func init() {
	register(&Prop{
		ID: "C20",
		Explanation: "Decides structural necessary conditions of C20: (R-C20-1) store-owned bytes (the result of invoking a Secret) never reach reflect.ValueOf -- i.e. caller-owned memory -- without passing a copying operation (bytes.Clone, slices.Clone, append onto nil, conversion to string); read-only consumers (json.Unmarshal, UnmarshalBinary) are allowed; " +
			"(R-C20-2) Fields.Secrets and Fields.Apply compute the full name with the same callee over the same two fields (path.Join(f.prefix, fi.secretName)), the name declared is the name looked up; (R-C20-3) the loop of Apply has no early exit and every non-nil field error flows into the returned errors.Join; " +
			"(R-C20-4) the set of plain types accepted by parseFields equals the case set of the assignment switch in apply, every other non-JSON, non-unmarshaler type is rejected with an error, an empty tag name is rejected before the field is recorded, the pointer-to-struct test precedes every reflective access, and no tagged field yields ErrNoFields; " +
			"(R-C20-7) the struct-tag plumbing keeps no package-level state (a parse result is bound to the struct value it was parsed from; only the reflect.Type constants and ErrNoFields are shared) and the json verb is recognised from the tag pieces after the name, never from the name itself; (R-C20-5) NewStore applies every parsed struct before it returns successfully and the struct-tagged names are merged into the declared list; (R-C20-6) string fields are filled by a []byte->string conversion and Secret fields receive the handle itself; (R-C20-8) the handle given to a field reads the entry stored under its name at each call; (R-C20-9) parseFields looks up the tag of every visible field and a field whose tag is present is appended or makes it return an error. (R-C20-10) the json verb and nothing else selects JSON decoding in fieldInfo.apply (with the verb no direct assignment is reachable, without it no JSON decoding); (R-C20-11) while parsing, a reflect call that writes lies past the present edge of the field's tag lookup (untagged fields are never touched). (R-C20-6, extended) from each type case no successful return is reachable around the reflective Set; (R-C20-9, extended) a walk over the struct's direct fields that does not descend into anonymous fields is a violation.",
		NotDecided:  "Behaviour over arbitrary run-time struct shapes (reflection); what a user's UnmarshalBinary does with the slice it is handed.",
		Trusted:     append([]string{"bytes.Clone / slices.Clone / string(b) copy", "BinaryUnmarshaler's contract requires copying"}, commonTrusted...),
		Assumptions: []string{},
		Run:         runC20,
	})
}

// secretBytesSource: v is the result of invoking a Secret (call of a
// Secret-typed value or Secret.Get).
func isSecretBytesCall(v ssa.Value) bool {
	call, ok := v.(*ssa.Call)
	if !ok || call.Call.IsInvoke() {
		return false
	}
	if eng.IsNamed(call.Call.Value.Type(), setecPkg, "Secret") {
		return true
	}
	return eng.CalleeIs(&call.Call, setecPkg, "Secret.Get")
}

// aliasesSecretBytes: v may alias store-owned bytes: follows slices, phis and
// ChangeType but stops at copying operations.
func aliasesSecretBytes(v ssa.Value, depth int) (bool, string) {
	if depth > 10 || v == nil {
		return false, ""
	}
	switch x := v.(type) {
	case *ssa.MakeInterface:
		return aliasesSecretBytes(x.X, depth+1)
	case *ssa.ChangeType:
		return aliasesSecretBytes(x.X, depth+1)
	case *ssa.Slice:
		return aliasesSecretBytes(x.X, depth+1)
	case *ssa.Phi:
		for _, e := range x.Edges {
			if a, w := aliasesSecretBytes(e, depth+1); a {
				return true, w
			}
		}
	case *ssa.Convert:
		return false, "" // []byte<->string conversions copy
	case *ssa.Call:
		if isSecretBytesCall(x) {
			return true, eng.ValStr(x)
		}
		if args, ok := eng.BuiltinCall(x, "append"); ok {
			// append(base, more...): aliases base (unless nil) -- never `more`
			if !eng.IsNilConst(args[0]) {
				return aliasesSecretBytes(args[0], depth+1)
			}
			return false, ""
		}
		// the known copying operations return fresh memory ...
		if eng.CalleeIs(&x.Call, "bytes", "Clone") || eng.CalleeIs(&x.Call, "slices", "Clone") || eng.CalleeIs(&x.Call, "bytes", "Repeat") {
			return false, ""
		}
		// ... any other call handed the store's bytes and returning a byte
		// slice may return (part of) its argument: slices.Clip, bytes.TrimSpace, ...
		if sl, isSl := x.Type().Underlying().(*types.Slice); isSl && types.Identical(sl.Elem(), types.Typ[types.Byte]) {
			for _, a := range x.Call.Args {
				if al, w := aliasesSecretBytes(a, depth+1); al {
					return true, w + " through " + eng.CallStr(&x.Call) + " (not a copying operation)"
				}
			}
		}
	case *ssa.UnOp:
		if x.Op == token.MUL {
			if al, ok := x.X.(*ssa.Alloc); ok {
				for _, st := range eng.CellStores(al) {
					if a, w := aliasesSecretBytes(st.Val, depth+1); a {
						return true, w
					}
				}
			}
		}
	}
	return false, ""
}

func runC20(c *eng.Ctx, tier string) {
	p := c.P
	apply := anchor(p, setecPkg, "fieldInfo.apply")
	fApply := p.Method(setecPkg, "Fields", "Apply")
	fSecrets := p.Method(setecPkg, "Fields", "Secrets")
	parse := anchor(p, setecPkg, "parseFields")
	if apply == nil || fApply == nil || fSecrets == nil || parse == nil {
		c.Undecided("anchor", nil, 0, "setec.fieldInfo.apply / Fields.Apply / Fields.Secrets / parseFields", "anchors do not resolve")
		return
	}
	wholeInputJSON(c, "R-C20-3")
	// R-C20-1
	n1 := 0
	for _, f := range p.PkgFuncs(setecPkg) {
		eng.Instrs(f, func(in ssa.Instruction) {
			call, ok := in.(*ssa.Call)
			if !ok {
				return
			}
			var arg ssa.Value
			switch {
			case eng.CalleeIs(&call.Call, "reflect", "ValueOf"):
				mi, isMI := call.Call.Args[0].(*ssa.MakeInterface)
				if !isMI {
					return
				}
				arg = mi.X
			case eng.CalleeIs(&call.Call, "reflect", "Value.SetBytes"):
				arg = call.Call.Args[len(call.Call.Args)-1]
			default:
				return
			}
			if sl, isSl := arg.Type().Underlying().(*types.Slice); !isSl || !types.Identical(sl.Elem(), types.Typ[types.Byte]) {
				return
			}
			n1++
			alias, what := aliasesSecretBytes(arg, 0)
			c.Check(!alias, "R-C20-1", f, in.Pos(), "bytes stored into caller memory: "+eng.CallStr(&call.Call), "a []byte field receives a private copy (bytes.Clone / slices.Clone / append onto nil) of the secret, never the store's own slice", "aliases "+what+": writing to the populated field changes what the store serves")
		})
	}
	if n1 == 0 {
		c.Undecided("R-C20-1", apply, apply.Pos(), "[]byte assignment through reflect.ValueOf", "no such site found")
	}

	// R-C20-2
	type joinSite struct {
		call *ssa.Call
		sig  string
		loop eng.RangeLoop
	}
	depthJoin := 0
	var findJoin func(f *ssa.Function) *joinSite
	findJoin = func(f *ssa.Function) *joinSite {
		var js *joinSite
		eng.Instrs(f, func(in ssa.Instruction) {
			call, ok := in.(*ssa.Call)
			if !ok {
				return
			}
			cal := call.Call.StaticCallee()
			if cal == nil || cal.Pkg == nil {
				return
			}
			// a call combining Fields.prefix with fieldInfo.secretName
			var parts []string
			usesPrefix, usesName := false, false
			var args []ssa.Value
			for _, a := range call.Call.Args {
				pa := eng.Path{Blocks: []*ssa.BasicBlock{call.Block()}}
				if el, known := pa.SliceElems(a); known && len(el) > 0 {
					args = append(args, el...)
				} else {
					args = append(args, a)
				}
			}
			for _, a := range args {
				fr, _, isF := eng.LoadedField(a)
				switch {
				case isF && fr.Is(setecPkg, "Fields", "prefix"):
					usesPrefix = true
					parts = append(parts, "Fields.prefix")
				case isF && fr.Is(setecPkg, "fieldInfo", fieldInfoField(p, "secretName")):
					usesName = true
					parts = append(parts, "fieldInfo.secretName")
				default:
					if s, isC := eng.ConstString(a); isC {
						parts = append(parts, "\""+s+"\"")
					} else {
						parts = append(parts, "?")
					}
				}
			}
			if usesPrefix && usesName {
				js = &joinSite{call: call, sig: cal.Pkg.Pkg.Path() + "." + cal.Name() + "(" + strings.Join(parts, ", ") + ")"}
			}
		})
		if js == nil && depthJoin < 1 {
			// the join may be in a small helper of Fields both callers share
			eng.Instrs(f, func(in ssa.Instruction) {
				call, ok := in.(*ssa.Call)
				if !ok || js != nil {
					return
				}
				h := eng.Callee(&call.Call)
				if !eng.IsHelper(f, h) || len(call.Call.Args) == 0 || len(f.Params) == 0 || eng.Origin(call.Call.Args[0]) != ssa.Value(f.Params[0]) || !isStringType(call.Type()) {
					return
				}
				depthJoin++
				inner := findJoin(h)
				depthJoin--
				if inner != nil && inner.call != nil {
					// the helper returns the join itself
					okRet := true
					for _, r := range eng.Returns(h) {
						if eng.Origin(eng.RetVals(r)[0]) != ssa.Value(inner.call) {
							okRet = false
						}
					}
					if okRet {
						js = &joinSite{call: call, sig: inner.sig}
					}
				}
			})
		}
		if js == nil {
			// string concatenation
			eng.Instrs(f, func(in ssa.Instruction) {
				if b, ok := in.(*ssa.BinOp); ok && b.Op == token.ADD && isStringType(b.Type()) {
					desc := eng.ValStr(b)
					if strings.Contains(desc, "prefix") && js == nil {
						js = &joinSite{sig: "concatenation " + desc}
					}
				}
			})
		}
		return js
	}
	ja, js := findJoin(fApply), findJoin(fSecrets)
	switch {
	case ja == nil || js == nil:
		c.Bad("R-C20-2", fApply, fApply.Pos(), "full-name computation in Fields.Secrets / Fields.Apply", "both combine Fields.prefix and fieldInfo.secretName", "not found in one of them")
	default:
		jpos := fApply.Pos()
		if ja.call != nil {
			jpos = ja.call.Pos()
		}
		c.Check(ja.sig == js.sig && strings.HasPrefix(ja.sig, "path.Join(Fields.prefix, fieldInfo.secretName)"), "R-C20-2", fApply, jpos, "name computed by Apply: "+ja.sig, "identical to the one computed by Secrets ("+js.sig+"): prefix/name joined with path.Join", "")
		// Apply looks up exactly that name
		if ja.call != nil {
			used := false
			eng.Instrs(fApply, func(in ssa.Instruction) {
				if call, ok := in.(*ssa.Call); ok && eng.Callee(&call.Call) == apply {
					for _, a := range call.Call.Args {
						if a == ssa.Value(ja.call) {
							used = true
						}
						// ... or the secret Apply itself looked up under that name
						if lc, idx := eng.TupleCall(a); lc != nil && idx == 0 && lc.Parent() == fApply {
							if cal := eng.Callee(&lc.Call); cal != nil && cal.Signature.Recv() != nil && eng.IsNamed(cal.Signature.Recv().Type(), setecPkg, "Store") {
								for _, la := range lc.Call.Args {
									if la == ssa.Value(ja.call) {
										used = true
									}
								}
							}
						}
					}
				}
			})
			c.Check(used, "R-C20-2", fApply, ja.call.Pos(), "name passed to the field assignment", "the computed full name", "")
		}
		// Secrets returns exactly those names, one per field
		if js.call != nil {
			stored := false
			for _, rl := range eng.RangeLoops(fSecrets) {
				eng.Instrs(fSecrets, func(in ssa.Instruction) {
					if st, ok := in.(*ssa.Store); ok {
						if ia, isIA := st.Addr.(*ssa.IndexAddr); isIA && ia.Index == rl.Idx && st.Val == ssa.Value(js.call) {
							stored = true
						}
					}
				})
			}
			c.Check(stored, "R-C20-2", fSecrets, js.call.Pos(), "names returned by Secrets", "out[i] = full name of field i, for every field", "")
		}
	}
	// apply looks the given name up
	eng.Instrs(apply, func(in ssa.Instruction) {
		call, ok := in.(*ssa.Call)
		if !ok {
			return
		}
		if cal := eng.Callee(&call.Call); cal != nil && (cal.Name() == "LookupSecret" || cal.Name() == "Secret" || cal == anchor(p, setecPkg, "(*Store).lookupWatcher")) && eng.IsNamed(cal.Signature.Recv().Type(), setecPkg, "Store") {
			var nameP *ssa.Parameter
			for _, prm := range apply.Params {
				if isStringType(prm.Type()) {
					nameP = prm
				}
			}
			okk := false
			for _, a := range call.Call.Args {
				if eng.Origin(a) == ssa.Value(nameP) {
					okk = true
				}
			}
			c.Check(okk, "R-C20-2", apply, in.Pos(), eng.CallStr(&call.Call), "the secret fetched for a field is the one named by its full name", "")
		}
	})

	// R-C20-3
	var loop *eng.RangeLoop
	for _, rl := range eng.RangeLoops(fApply) {
		if fr, _, isF := eng.LoadedField(rl.Slice); isF && fr.Is(setecPkg, "Fields", "fields") {
			r2 := rl
			loop = &r2
		}
	}
	if loop == nil {
		c.Undecided("R-C20-3", fApply, fApply.Pos(), "loop over the fields", "not found")
	} else {
		hit, path := eng.SearchBlock(fApply, loop.Body, nil, func(x ssa.Instruction) bool { return x.Block() == loop.Header }, func(x ssa.Instruction) bool {
			return eng.IsExit(x) || x.Block() == loop.Done
		})
		c.Check(hit == nil, "R-C20-3", fApply, loop.Body.Instrs[0].Pos(), "loop of Fields.Apply", "no return or break inside the loop: a failure on one field does not prevent the others from being filled", func() string {
			if hit == nil {
				return ""
			}
			return "early exit: " + p.PathStr(path)
		}())
		// error flow
		var acall *ssa.Call
		eng.Instrs(fApply, func(in ssa.Instruction) {
			if call, ok := in.(*ssa.Call); ok && eng.Callee(&call.Call) == apply {
				acall = call
			}
		})
		if acall != nil {
			var joined ssa.Value
			for _, r := range eng.Returns(fApply) {
				if call, _ := eng.TupleCall(eng.RetVals(r)[0]); call != nil && eng.CalleeIs(&call.Call, "errors", "Join") {
					joined = call.Call.Args[0]
				}
			}
			if joined == nil {
				c.Bad("R-C20-3", fApply, fApply.Pos(), "result of Fields.Apply", "errors.Join of all field errors", "not an errors.Join")
			} else {
				_, phis := eng.PhiLeaves(joined)
				// the calls whose failure is a failure of the field: the
				// assignment, and a lookup made for it in Apply itself
				fcalls := []*ssa.Call{acall}
				eng.Instrs(fApply, func(in ssa.Instruction) {
					if call, ok := in.(*ssa.Call); ok && call != acall && loop.InLoop(call.Block()) && errResultIndexOfCall(call) >= 0 {
						if cal := eng.Callee(&call.Call); cal != nil && cal.Signature.Recv() != nil && eng.IsNamed(cal.Signature.Recv().Type(), setecPkg, "Store") {
							fcalls = append(fcalls, call)
						}
					}
				})
				// every field is attempted: each iteration reaches the assignment
				// (only a failed lookup made for it in Apply may stand in the way;
				// what happened to an earlier field never does)
				{
					filt := eng.EdgeFilter(nil)
					for _, fc := range fcalls[1:] {
						filt = eng.AndFilters(filt, eng.AssumeErr(saveErr(fc), true))
					}
					isAssign := func(x ssa.Instruction) bool { return x == ssa.Instruction(acall) }
					hitA, pathA := eng.SearchBlock(fApply, loop.Body, filt, isAssign, func(x ssa.Instruction) bool {
						return x.Block() == loop.Header || eng.IsReturn(x)
					})
					if len(loop.Body.Instrs) > 0 && isAssign(loop.Body.Instrs[0]) {
						hitA = nil
					}
					c.Check(hitA == nil, "R-C20-3", fApply, acall.Pos(), "attempt of every field: "+eng.CallStr(&acall.Call), "each iteration of Apply reaches the assignment of its field (a failure on one field does not prevent the others from being filled)", func() string {
						if hitA == nil {
							return ""
						}
						return "the next field is taken without the assignment: " + p.PathStr(pathA)
					}())
				}
				for _, fc := range fcalls {
					fc := fc
					ev := saveErr(fc)
					atHeader := func(x ssa.Instruction) bool { return x.Block() == loop.Header || eng.IsReturn(x) }
					// a merge of error values that, on the ways from this
					// failed call, can only carry its error
					carries := func(v ssa.Value) bool {
						if eng.Same(v, ev) {
							return true
						}
						ph, isPhi := eng.Origin(v).(*ssa.Phi)
						if !isPhi {
							return false
						}
						some := false
						for k, e := range ph.Edges {
							if eng.Same(e, ev) {
								some = true
								continue
							}
							pred := ph.Block().Preds[k]
							if pred == fc.Block() {
								return false
							}
							if hit, _ := eng.Search(fApply, fc, eng.AssumeErr(ev, false), atHeader, func(x ssa.Instruction) bool { return x.Block() == pred }); hit != nil {
								return false
							}
						}
						return some
					}
					failed := func(b *ssa.BasicBlock, k int) bool {
						ifi, ok := b.Instrs[len(b.Instrs)-1].(*ssa.If)
						if !ok {
							return true
						}
						x, isNil, isN := eng.CondOf(ifi.Cond, k == 0).NilCheck()
						if !isN || !carries(x) {
							return true
						}
						return !isNil
					}
					isAppend := func(x ssa.Instruction) bool {
						args, ok := eng.BuiltinCall(x, "append")
						if !ok {
							return false
						}
						// the appended element wraps the error
						pa := eng.Path{Blocks: []*ssa.BasicBlock{x.Block()}}
						elems, _ := pa.SliceElems(args[1])
						wraps := false
						for _, e := range elems {
							for _, lf := range errorLeaves(pa, e) {
								if carries(lf) {
									wraps = true
								}
							}
							if carries(e) {
								wraps = true
							}
						}
						if !wraps {
							return false
						}
						for ph := range phis {
							for _, e := range ph.Edges {
								if e == ssa.Value(x.(*ssa.Call)) {
									return true
								}
							}
						}
						return false
					}
					hit, path := eng.Search(fApply, fc, failed, isAppend, atHeader)
					c.Check(hit == nil, "R-C20-3", fApply, fc.Pos(), "error of "+eng.CallStr(&fc.Call), "every field failure is appended to the slice Apply returns joined (none goes unreported)", func() string {
						if hit == nil {
							return ""
						}
						return "next field / return reached with the error unrecorded: " + p.PathStr(path)
					}())
				}
			}
		}
	}

	c20Types(c, parse, apply)
	c20NoSharedState(c, []*ssa.Function{parse, apply, fApply, fSecrets, p.Func(setecPkg, "ParseFields"), anchor(p, setecPkg, "checkUnmarshal")})
	if unit, _ := c20FieldUnit(parse); unit != nil {
		c20Verb(c, unit)
	} else {
		c20Verb(c, parse)
	}
	// a Secret-typed field (and every later Apply) reads the entry currently stored under its name
	handleBoundToName(c, "R-C20-8")
	c20EveryTaggedField(c, parse)
	c20VerbDecides(c, apply)
	c20ParseReadOnly(c, parse)

	// R-C20-5
	if ns := p.Func(setecPkg, "NewStore"); ns != nil {
		var names *ssa.Call
		eng.Instrs(ns, func(in ssa.Instruction) {
			if call, ok := in.(*ssa.Call); ok {
				if cal := eng.Callee(&call.Call); cal != nil && cal == anchor(p, setecPkg, "StoreConfig.secretNames") {
					names = call
				}
			}
		})
		applied := false
		// applyLoop: g applies every element of the slice `list` (a full-range
		// loop whose body calls Fields.Apply on the element) and returns a nil
		// error only after the loop is exhausted
		applyLoop := func(g *ssa.Function, isList func(ssa.Value) bool) bool {
			res := false
			for _, rl := range eng.RangeLoops(g) {
				rl := rl
				if !isList(rl.Slice) {
					continue
				}
				eng.Instrs(g, func(in ssa.Instruction) {
					if ac, ok := in.(*ssa.Call); ok && eng.Callee(&ac.Call) == fApply && rl.InLoop(ac.Block()) && rl.ElemOf(ac.Call.Args[0]) {
						okRet := true
						ei := errResultIndex(g)
						for _, r := range eng.Returns(g) {
							rv := eng.RetVals(r)
							if ei >= 0 && eng.IsNilConst(eng.Origin(rv[ei])) && !rl.Done.Dominates(r.Block()) {
								okRet = false
							}
						}
						res = okRet
					}
				})
			}
			return res
		}
		isParsed := func(v ssa.Value) bool {
			call, part := namesPartOf(v)
			return call != nil && call == names && part == "fields"
		}
		applied = applyLoop(ns, isParsed)
		if !applied {
			// the loop may live in a helper NewStore hands the parsed structs to;
			// NewStore then succeeds only on the nil edge of that helper's error
			eng.Instrs(ns, func(in ssa.Instruction) {
				hc, ok := in.(*ssa.Call)
				if !ok || applied {
					return
				}
				h := eng.Callee(&hc.Call)
				if !eng.IsHelper(ns, h) || errResultIndex(h) < 0 {
					return
				}
				pi := -1
				for i, a := range hc.Call.Args {
					if isParsed(a) && i < len(h.Params) {
						pi = i
					}
				}
				if pi < 0 || !applyLoop(h, func(v ssa.Value) bool { return eng.Origin(v) == ssa.Value(h.Params[pi]) }) {
					return
				}
				herr := saveErr(hc)
				okRet := true
				for _, r := range eng.Returns(ns) {
					rv := eng.RetVals(r)
					if !eng.IsNilConst(eng.Origin(rv[1])) {
						continue
					}
					dom := false
					for _, cond := range eng.FactsAt(r) {
						if v, isNil, isE := cond.ErrCheck(); isE && isNil && eng.Same(v, herr) {
							dom = true
						}
					}
					if !dom {
						okRet = false
					}
				}
				applied = okRet
			})
		}
		c.Check(applied, "R-C20-5", ns, ns.Pos(), "application of configured structs in NewStore", "every parsed struct is applied (full-range loop) before NewStore returns successfully", "")
	}
	if sn := anchor(p, setecPkg, "StoreConfig.secretNames"); sn != nil {
		merged := false
		eng.Instrs(sn, func(in ssa.Instruction) {
			args, ok := eng.BuiltinCall(in, "append")
			if !ok {
				return
			}
			if call, _ := eng.TupleCall(args[1]); call != nil && eng.Callee(&call.Call) == fSecrets {
				merged = true
			}
		})
		c.Check(merged, "R-C20-5", sn, sn.Pos(), "merging of struct-tagged names", "the names of every parsed struct (Fields.Secrets) are appended to the declared list", "")
	}
}

// c20Types: R-C20-4 and R-C20-6.
func c20Types(c *eng.Ctx, parse, apply *ssa.Function) {
	p := c.P
	// (the per-field logic may live in a helper parseFields calls for every
	// visible field: the rules on that logic are then decided there, and
	// "recording the field" is the helper's "use it" return)
	pf := parse
	unit, ucall := c20FieldUnit(parse)
	if ucall != nil {
		pf = unit
	}
	// comparisons `X.field == <type sentinel>` in f or in a helper it calls
	// (the operand then reaches the helper as its parameter); the value is
	// the comparison itself (it may be branched on, or combined with ||)
	cmps := map[ssa.Value]bool{}
	typeGlobals := func(f *ssa.Function, field string) map[string]*ssa.If {
		out := map[string]*ssa.If{}
		eng.InstrsDeep(f, func(_ *ssa.Function, in ssa.Instruction) {
			b, ok := in.(*ssa.BinOp)
			if !ok || b.Op != token.EQL {
				return
			}
			for _, pr := range [][2]ssa.Value{{b.X, b.Y}, {b.Y, b.X}} {
				g := eng.GlobalLoad(pr[1])
				if g == nil || !eng.IsNamed(eng.Deref(g.Type()), "reflect", "Type") {
					continue
				}
				fr, _, isF := eng.LoadedField(eng.OriginX(pr[0]))
				if !isF || fr.Name != field {
					continue
				}
				cmps[b] = true
				var site *ssa.If
				for _, r := range *b.Referrers() {
					if ifi, isIf := r.(*ssa.If); isIf {
						site = ifi
					}
				}
				out[g.Name()] = site
			}
		})
		return out
	}
	accepted := typeGlobals(parse, "Type")
	cases := typeGlobals(apply, fieldInfoField(p, "vtype"))
	keys := func(m map[string]*ssa.If) []string {
		var ks []string
		for k := range m {
			ks = append(ks, k)
		}
		sort.Strings(ks)
		return ks
	}
	ak, ck := keys(accepted), keys(cases)
	c.Check(strings.Join(ak, ",") == strings.Join(ck, ",") && len(ak) > 0, "R-C20-4", apply, apply.Pos(), "plain types accepted by parseFields {"+strings.Join(ak, ",")+"} vs cases of apply {"+strings.Join(ck, ",")+"}", "the validation switch and the assignment switch agree", "")
	want := []string{"bytesType", "secretType", "stringType"}
	c.Check(strings.Join(ak, ",") == strings.Join(want, ","), "R-C20-4", parse, parse.Pos(), "plain field types accepted", "[]byte, string and setec.Secret (documented on Fields)", "accepted: "+strings.Join(ak, ","))
	// the all-false branch of the validation chain returns an error
	if len(accepted) > 0 {
		// following only the edges possible when every type comparison is
		// false (a boolean helper holding the comparisons is evaluated under
		// that assumption), from the start of the field loop
		isCmp := func(v ssa.Value) bool { return v != nil && cmps[eng.Origin(v)] }
		allFalse := func(b *ssa.BasicBlock, i int) bool {
			ifi, ok := b.Instrs[len(b.Instrs)-1].(*ssa.If)
			if !ok {
				return true
			}
			cd := eng.CondOf(ifi.Cond, i == 0)
			v, truth, isB := cd.Bool()
			if cd.Op != token.ILLEGAL {
				// a comparison branched on directly
				if bo, isBO := eng.Origin(ifi.Cond).(*ssa.BinOp); isBO && cmps[bo] {
					return i == 1
				}
				return true
			}
			if !isB {
				return true
			}
			if call, _ := eng.TupleCall(v); call != nil && eng.IsHelper(parse, eng.Callee(&call.Call)) {
				canT, canF := eng.BoolHelperUnder(call, isCmp)
				if truth {
					return canT
				}
				return canF
			}
			return true
		}
		// start where the plain-type decision starts: the first branch on a
		// type comparison, or on a helper holding the comparisons
		var first *ssa.BasicBlock
		for _, b := range pf.Blocks {
			ifi, ok := b.Instrs[len(b.Instrs)-1].(*ssa.If)
			if !ok {
				continue
			}
			decides := false
			if bo, isBO := eng.Origin(ifi.Cond).(*ssa.BinOp); isBO && cmps[bo] {
				decides = true
			}
			if v, _, isB := eng.CondOf(ifi.Cond, true).Bool(); isB {
				if call, _ := eng.TupleCall(v); call != nil && eng.IsHelper(parse, eng.Callee(&call.Call)) {
					eng.Instrs(eng.Callee(&call.Call), func(x ssa.Instruction) {
						if bo, isBO := x.(*ssa.BinOp); isBO && cmps[bo] {
							decides = true
						}
					})
				}
			}
			if decides && (first == nil || b.Dominates(first)) {
				first = b
			}
		}
		if first == nil {
			c.Undecided("R-C20-4", parse, parse.Pos(), "plain-type decision in parseFields", "no branch on the type comparisons found")
			return
		}
		last := first.Instrs[len(first.Instrs)-1]
		hit, path := eng.SearchBlock(pf, first, allFalse, nil, func(x ssa.Instruction) bool {
			// reaching the recording of the field (append to the result) or the next field without an error
			if ucall != nil && unitRecords(unit, x) {
				return true
			}
			if args, ok := eng.BuiltinCall(x, "append"); ok {
				if sl, isSl := args[0].Type().Underlying().(*types.Slice); isSl && eng.IsNamed(sl.Elem(), setecPkg, "fieldInfo") {
					return true
				}
			}
			return false
		})
		_ = last
		c.Check(hit == nil, "R-C20-4", parse, parse.Pos(), "unsupported plain type in parseFields", "a tagged field of any other type (without json or an unmarshaler) is rejected up front, not recorded", func() string {
			if hit == nil {
				return ""
			}
			return "the field is recorded anyway: " + p.PathStr(path)
		}())
	}
	// untagged fields are never recorded: the append of a fieldInfo is edge-dominated by the ok edge of the tag lookup
	eng.Instrs(pf, func(in ssa.Instruction) {
		if ucall != nil {
			if !unitRecords(unit, in) {
				return
			}
		} else {
			args, ok := eng.BuiltinCall(in, "append")
			if !ok {
				return
			}
			sl, isSl := args[0].Type().Underlying().(*types.Slice)
			if !isSl || !eng.IsNamed(sl.Elem(), setecPkg, "fieldInfo") {
				return
			}
		}
		okk := false
		for _, cond := range eng.FactsAt(in) {
			if v, truth, isB := cond.Bool(); isB && truth {
				if ex, isEx := eng.Origin(v).(*ssa.Extract); isEx && ex.Index == 1 {
					if call, isC := ex.Tuple.(*ssa.Call); isC && eng.CalleeIs(&call.Call, "reflect", "StructTag.Lookup") {
						if tg, isK := eng.ConstString(call.Call.Args[1]); isK && tg == "setec" {
							okk = true
						}
					}
				}
			}
		}
		c.Check(okk, "R-C20-4", parse, in.Pos(), "recording of a field in parseFields", "only fields carrying a setec tag are recorded (untagged fields stay untouched)", "holding: "+eng.FactsString(in))
	})
	// empty tag name rejected before the field is recorded; pointer-to-struct test first; ErrNoFields
	var emptyIf *ssa.If
	eng.Instrs(pf, func(in ssa.Instruction) {
		ifi, ok := in.(*ssa.If)
		if !ok {
			return
		}
		op, _, y, isCmp := eng.CondOf(ifi.Cond, true).Cmp()
		if isCmp && op == token.EQL {
			if s, isC := eng.ConstString(y); isC && s == "" {
				emptyIf = ifi
			}
		}
	})
	okEmpty := false
	if emptyIf != nil {
		succ := emptyIf.Block().Succs[0]
		if r, isR := succ.Instrs[len(succ.Instrs)-1].(*ssa.Return); isR && errResultIndex(pf) >= 0 && nonNilAt(eng.RetVals(r)[errResultIndex(pf)], eng.FactsAt(r)) == eng.Yes {
			okEmpty = true
		}
	}
	c.Check(okEmpty, "R-C20-4", parse, parse.Pos(), "empty secret name in a tag", "rejected with an error", "")
	// reflective accesses dominated by the kind test
	var kindFacts int
	eng.InstrsDeep(parse, func(_ *ssa.Function, in ssa.Instruction) {
		call, ok := in.(*ssa.Call)
		if !ok {
			return
		}
		cal := call.Call.StaticCallee()
		if cal == nil || cal.Pkg == nil || cal.Pkg.Pkg.Path() != "reflect" {
			return
		}
		switch cal.Name() {
		case "FieldByIndex", "VisibleFields", "Addr":
		default:
			return
		}
		okk := 0
		for _, cond := range eng.FactsX(in) {
			op, x, y, isCmp := cond.Cmp()
			if !isCmp || op != token.EQL {
				continue
			}
			if kc, _ := eng.TupleCall(x); kc != nil && kc.Call.IsInvoke() && kc.Call.Method.Name() == "Kind" {
				if k, isK := eng.ConstInt(y); isK && (k == 22 || k == 25) { // reflect.Pointer, reflect.Struct
					okk++
				}
			}
		}
		kindFacts++
		c.Check(okk >= 2, "R-C20-4", parse, in.Pos(), eng.CallStr(&call.Call), "reflective access to fields happens only after 'kind is pointer' and 'element kind is struct' (non-struct arguments are rejected, not panicked on)", "holding: "+eng.FactsString(in))
	})
	if kindFacts == 0 {
		c.Undecided("R-C20-4", parse, parse.Pos(), "reflective field access in parseFields", "none found")
	}
	if pf := p.Func(setecPkg, "ParseFields"); pf != nil {
		okNo := false
		for _, r := range eng.Returns(pf) {
			rv := eng.RetVals(r)
			for _, cond := range eng.FactsAt(r) {
				if op, x, y, isCmp := cond.Cmp(); isCmp && op == token.EQL {
					if k, isK := eng.ConstInt(y); isK && k == 0 {
						if _, isLen := eng.BuiltinCall(instrOf(eng.Origin(x)), "len"); isLen {
							pa := eng.Path{Blocks: []*ssa.BasicBlock{r.Block()}}
							for _, lf := range errorLeaves(pa, rv[1]) {
								if eng.IsGlobalLoad(lf, setecPkg, "ErrNoFields") {
									okNo = true
								}
							}
						}
					}
				}
			}
		}
		c.Check(okNo, "R-C20-4", pf, pf.Pos(), "struct without tagged fields", "reported as an error wrapping ErrNoFields", "")
	}
	// R-C20-6
	for name, ifi := range cases {
		body := ifi.Block().Succs[0]
		var vo *ssa.Call
		caseFn := ifi.Parent()
		for _, b := range caseFn.Blocks {
			if b != body && !(len(body.Preds) == 1 && body.Dominates(b)) {
				continue
			}
			for _, in := range b.Instrs {
				if call, ok := in.(*ssa.Call); ok && eng.CalleeIs(&call.Call, "reflect", "ValueOf") && vo == nil {
					vo = call
				}
			}
		}
		// whatever the field held before, it is assigned: no way from the
		// case to a successful return around the reflective Set
		if len(body.Preds) == 1 {
			ei := errResultIndex(caseFn)
			hit, path := eng.SearchBlock(caseFn, body, nil, func(x ssa.Instruction) bool {
				call, ok := x.(*ssa.Call)
				if !ok {
					return false
				}
				cal := call.Call.StaticCallee()
				return cal != nil && cal.Pkg != nil && cal.Pkg.Pkg.Path() == "reflect" && strings.HasPrefix(cal.Name(), "Set")
			}, func(x ssa.Instruction) bool {
				r, isR := x.(*ssa.Return)
				return isR && (ei < 0 || nonNilAt(eng.RetVals(r)[ei], eng.FactsAt(r)) != eng.Yes)
			})
			c.Check(hit == nil, "R-C20-6", apply, ifi.Pos(), "case "+name+" [assigned]", "a field of this type is assigned on every path on which apply reports success (whatever it held before)", func() string {
				if hit == nil {
					return ""
				}
				return "success is reported without the reflective Set: " + p.PathStr(path)
			}())
		}
		if vo == nil {
			if name != "bytesType" { // the []byte case is judged by R-C20-1 wherever its ValueOf is
				c.Undecided("R-C20-6", apply, ifi.Pos(), "case "+name, "no reflect.ValueOf in the case body")
			}
			continue
		}
		mi, _ := vo.Call.Args[0].(*ssa.MakeInterface)
		if mi == nil {
			continue
		}
		switch name {
		case "stringType":
			cv, isConv := mi.X.(*ssa.Convert)
			c.Check(isConv && isSecretBytesCall(cv.X), "R-C20-6", apply, vo.Pos(), "string field value "+eng.ValStr(mi.X), "string(secret bytes): the text of the secret, unaltered", "")
		case "secretType":
			// (the handle may have been handed to a helper holding the assignment switch)
			call, idx := eng.TupleCall(eng.OriginX(mi.X))
			okk := call != nil && idx == 0 && eng.IsNamed(mi.X.Type(), setecPkg, "Secret")
			c.Check(okk, "R-C20-6", apply, vo.Pos(), "Secret field value "+eng.ValStr(mi.X), "the live handle obtained from the store", "")
		case "bytesType":
			// source of the copy is the secret
			src := mi.X
			okk := false
			if call, _ := eng.TupleCall(src); call != nil && len(call.Call.Args) >= 1 {
				last := call.Call.Args[len(call.Call.Args)-1]
				if isSecretBytesCall(last) {
					okk = true
				}
				if sl, isSl := last.(*ssa.Slice); isSl && isSecretBytesCall(sl.X) {
					okk = true
				}
			}
			c.Check(okk, "R-C20-6", apply, vo.Pos(), "[]byte field value "+eng.ValStr(mi.X), "a copy of exactly the secret's bytes", "")
		}
	}
}

// c20NoSharedState: R-C20-7, first half.
func c20NoSharedState(c *eng.Ctx, fns []*ssa.Function) {
	p := c.P
	n := 0
	for _, f := range fns {
		if f == nil {
			continue
		}
		eng.InstrsTree(f, func(ff *ssa.Function, in ssa.Instruction) {
			for _, op := range in.Operands(nil) {
				g, ok := (*op).(*ssa.Global)
				if !ok || g.Pkg == nil || g.Pkg.Pkg != p.TypesPkg(setecPkg) {
					continue
				}
				n++
				t := eng.Deref(g.Type())
				okk := eng.IsNamed(t, "reflect", "Type") || eng.IsErrorType(t)
				if okk {
					// read-only use
					if st, isSt := in.(*ssa.Store); isSt && st.Addr == ssa.Value(g) {
						okk = false
					}
				}
				c.Check(okk, "R-C20-7", ff, in.Pos(), "package-level variable "+g.Name()+" used in "+eng.FName(ff), "the tag plumbing shares only the reflect.Type constants and ErrNoFields between calls (no cache of parse results: they hold pointers and closures bound to one struct value)", "type "+eng.TypeShort(t))
			}
		})
	}
	if n == 0 {
		c.Undecided("R-C20-7", nil, 0, "package-level variables used by the tag plumbing", "none found (expected the type constants)")
	}
}

// c20Verb: R-C20-7, second half: isJSON comes from the tag pieces after the name.
func c20Verb(c *eng.Ctx, parse *ssa.Function) {
	p := c.P
	var tagVal ssa.Value
	eng.Instrs(parse, func(in ssa.Instruction) {
		if call, ok := in.(*ssa.Call); ok && eng.CalleeIs(&call.Call, "reflect", "StructTag.Lookup") {
			for _, r := range *call.Referrers() {
				if ex, isEx := r.(*ssa.Extract); isEx && ex.Index == 0 {
					tagVal = ex
				}
			}
		}
	})
	if tagVal == nil {
		c.Undecided("R-C20-7", parse, parse.Pos(), "tag lookup in parseFields", "no StructTag.Lookup found")
		return
	}
	n := 0
	eng.Instrs(parse, func(in ssa.Instruction) {
		st, ok := in.(*ssa.Store)
		if !ok {
			return
		}
		fr, ok := eng.FieldOfAddr(st.Addr)
		if !ok || !fr.Is(setecPkg, "fieldInfo", fieldInfoField(p, "isJSON")) {
			return
		}
		n++
		bad := ""
		p.BackwardSlice(st.Val, func(v ssa.Value) {
			switch x := v.(type) {
			case *ssa.Call:
				cal := x.Call.StaticCallee()
				if cal == nil {
					return
				}
				o := cal
				if cal.Origin() != nil {
					o = cal.Origin()
				}
				if o.Pkg == nil || (o.Pkg.Pkg.Path() != "strings" && o.Pkg.Pkg.Path() != "slices") {
					return
				}
				switch o.Name() {
				case "Split", "SplitN", "Cut", "Fields", "FieldsFunc", "SplitSeq":
					return
				}
				for _, a := range x.Call.Args {
					if eng.Origin(a) == tagVal {
						bad = "the verb is searched in the whole tag (" + eng.CallStr(&x.Call) + "): a secret NAME containing \"json\" switches JSON decoding on"
					}
				}
			case *ssa.BinOp:
				if eng.Origin(x.X) == tagVal || eng.Origin(x.Y) == tagVal {
					bad = "the whole tag is compared (" + eng.ValStr(x) + ")"
				}
			}
		})
		c.Check(bad == "", "R-C20-7", parse, in.Pos(), "recognition of the json verb: isJSON = "+eng.ValStr(st.Val), "decided from the comma-separated pieces after the secret name, never from a search over the whole tag", bad)
	})
	if n == 0 {
		c.Undecided("R-C20-7", parse, parse.Pos(), "store to fieldInfo.isJSON", "not found")
	}
}

// c20EveryTaggedField: R-C20-9.  "Every field with a setec tag" is plumbed or
// rejected: in the loop of parseFields over the visible fields nothing skips a
// field before its tag has been looked up, and from the present edge of that
// lookup every path appends an entry or returns an error before the next
// field is taken.
func c20EveryTaggedField(c *eng.Ctx, parse *ssa.Function) {
	p := c.P
	if parse == nil {
		return
	}
	if unit, ucall := c20FieldUnit(parse); ucall != nil {
		c20UnitProtocol(c, parse, unit, ucall)
		return
	}
	var loop *eng.RangeLoop
	for _, rl := range eng.RangeLoops(parse) {
		if call, _ := eng.TupleCall(rl.Slice); call != nil && eng.CalleeIs(&call.Call, "reflect", "VisibleFields") {
			r2 := rl
			loop = &r2
		}
	}
	var tag *ssa.Call
	eng.Instrs(parse, func(in ssa.Instruction) {
		if call, ok := in.(*ssa.Call); ok && eng.CalleeIs(&call.Call, "reflect", "StructTag.Lookup") {
			if k, isK := eng.ConstString(call.Call.Args[len(call.Call.Args)-1]); isK && k == "setec" {
				tag = call
			}
		}
	})
	if loop == nil {
		// walking the struct's direct fields only: fields promoted from an
		// embedded struct are never seen (unless the walk descends into
		// anonymous fields itself)
		var numField *ssa.Call
		descends := false
		eng.InstrsDeep(parse, func(_ *ssa.Function, in ssa.Instruction) {
			if call, ok := in.(*ssa.Call); ok && call.Call.IsInvoke() && call.Call.Method.Name() == "NumField" && eng.IsNamed(call.Call.Value.Type(), "reflect", "Type") {
				numField = call
			}
			if call, ok := in.(*ssa.Call); ok && eng.CalleeIs(&call.Call, "reflect", "Value.NumField") {
				numField = call
			}
			if fa, ok := in.(*ssa.FieldAddr); ok {
				if fr, isF := eng.FieldOfAddr(fa); isF && fr.Is("reflect", "StructField", "Anonymous") {
					descends = true
				}
			}
			if fa, ok := in.(*ssa.Field); ok {
				if st, isSt := fa.X.Type().Underlying().(*types.Struct); isSt && eng.IsNamed(fa.X.Type(), "reflect", "StructField") && st.Field(fa.Field).Name() == "Anonymous" {
					descends = true
				}
			}
		})
		if numField != nil && !descends {
			c.Bad("R-C20-9", parse, numField.Pos(), "fields examined by parseFields", "every visible field has its setec tag looked up (fields promoted from embedded structs included)", "only the struct's direct fields are walked ("+eng.CallStr(&numField.Call)+") and anonymous fields are not descended into")
			return
		}
	}
	if loop == nil || tag == nil || !loop.InLoop(tag.Block()) {
		c.Undecided("R-C20-9", parse, parse.Pos(), "loop over reflect.VisibleFields with a Tag.Lookup(\"setec\")", "not found in this form")
		return
	}
	isTag := func(x ssa.Instruction) bool { return x == ssa.Instruction(tag) }
	atHeader := func(x ssa.Instruction) bool { return x.Block() == loop.Header }
	hit, path := eng.SearchBlock(parse, loop.Body, nil, isTag, atHeader)
	if loop.Body.Instrs[0] == ssa.Instruction(tag) {
		hit = nil
	}
	c.Check(hit == nil, "R-C20-9", parse, tag.Pos(), "fields examined by parseFields", "every visible field has its setec tag looked up (embedded, unexported-looking or oddly typed fields included: a tagged field is never passed over unseen)", func() string {
		if hit == nil {
			return ""
		}
		return "a field can be skipped before its tag is read: " + p.PathStr(path)
	}())
	var present ssa.Value
	for _, r := range *tag.Referrers() {
		if ex, ok := r.(*ssa.Extract); ok && ex.Index == 1 {
			present = ex
		}
	}
	if present == nil {
		c.Bad("R-C20-9", parse, tag.Pos(), eng.CallStr(&tag.Call), "the presence result of the tag lookup decides whether the field is plumbed", "the ok result is unused")
		return
	}
	isAppend := func(x ssa.Instruction) bool {
		args, ok := eng.BuiltinCall(x, "append")
		if !ok || len(args) == 0 {
			return false
		}
		sl, _ := args[0].Type().Underlying().(*types.Slice)
		return sl != nil && eng.IsNamed(sl.Elem(), setecPkg, "fieldInfo")
	}
	hit2, path2 := eng.Search(parse, tag, eng.AssumeBool(present, true), func(x ssa.Instruction) bool { return isAppend(x) || eng.IsReturn(x) }, atHeader)
	c.Check(hit2 == nil, "R-C20-9", parse, tag.Pos(), "tagged fields in parseFields", "a field whose tag is present is appended to the result or makes parseFields return (an error): it is never silently dropped", func() string {
		if hit2 == nil {
			return ""
		}
		return "the next field is reached with neither: " + p.PathStr(path2)
	}())
	// ... and such a return is an error
	for _, r := range eng.Returns(parse) {
		if !loop.InLoop(r.Block()) {
			continue
		}
		rv := eng.RetVals(r)
		c.Check(nonNilAt(rv[len(rv)-1], eng.FactsAt(r)) == eng.Yes, "R-C20-9", parse, r.Pos(), eng.InstrStr(r), "leaving the field loop early is an error return", "may return nil error from inside the loop")
	}
}

// c20VerbDecides: R-C20-10.  The json verb, and nothing else, selects JSON
// decoding: in fieldInfo.apply, with isJSON true no path reaches a direct
// assignment (reflect Set*, the field's own unmarshaler) and every successful
// return has passed json.Unmarshal; with isJSON false json.Unmarshal is
// unreachable.
func c20VerbDecides(c *eng.Ctx, apply *ssa.Function) {
	p := c.P
	if apply == nil {
		return
	}
	fld := fieldInfoField(p, "isJSON")
	assume := func(want bool) eng.EdgeFilter {
		return func(b *ssa.BasicBlock, i int) bool {
			ifi, ok := b.Instrs[len(b.Instrs)-1].(*ssa.If)
			if !ok {
				return true
			}
			v, truth, isB := eng.CondOf(ifi.Cond, i == 0).Bool()
			if !isB {
				return true
			}
			if fr, _, isF := eng.LoadedField(v); isF && fr.Is(setecPkg, "fieldInfo", fld) {
				return truth == want
			}
			return true
		}
	}
	isJSONDecode := func(x ssa.Instruction) bool {
		ci, ok := x.(ssa.CallInstruction)
		return ok && (eng.CalleeIs(ci.Common(), "encoding/json", "Unmarshal") || eng.CalleeIs(ci.Common(), "encoding/json", "*Decoder.Decode"))
	}
	isDirect := func(x ssa.Instruction) bool {
		ci, ok := x.(ssa.CallInstruction)
		if !ok {
			return false
		}
		if cal := ci.Common().StaticCallee(); cal != nil && cal.Pkg != nil && cal.Pkg.Pkg.Path() == "reflect" && strings.HasPrefix(cal.Name(), "Set") {
			return true
		}
		// the field's own binary/text unmarshaler
		if fr, _, isF := eng.LoadedField(ci.Common().Value); isF && fr.Is(setecPkg, "fieldInfo", fieldInfoField(p, "unmarshal")) {
			return true
		}
		return false
	}
	nJ := 0
	eng.Instrs(apply, func(in ssa.Instruction) {
		if isJSONDecode(in) {
			nJ++
		}
	})
	if nJ == 0 {
		c.Undecided("R-C20-10", apply, apply.Pos(), "JSON decoding in "+eng.FName(apply), "no json.Unmarshal found")
		return
	}
	hit, path := eng.Search(apply, nil, assume(true), isJSONDecode, isDirect)
	c.Check(hit == nil, "R-C20-10", apply, apply.Pos(), "field with the json verb", "is JSON-decoded whatever its type (string, []byte and Secret fields included): no direct assignment is reachable with the verb set", func() string {
		if hit == nil {
			return ""
		}
		return eng.InstrStr(hit) + " reached with the verb set: " + p.PathStr(path)
	}())
	hit2, path2 := eng.Search(apply, nil, assume(false), nil, isJSONDecode)
	c.Check(hit2 == nil, "R-C20-10", apply, apply.Pos(), "field without the json verb", "is never JSON-decoded", func() string {
		if hit2 == nil {
			return ""
		}
		return "json decoding reached without the verb: " + p.PathStr(path2)
	}())
}

// c20ParseReadOnly: R-C20-11.  Parsing leaves untagged fields untouched:
// parseFields and its helpers call a mutating method of reflect.Value only
// past the present edge of the field's setec tag lookup.
func c20ParseReadOnly(c *eng.Ctx, parse *ssa.Function) {
	if parse == nil {
		return
	}
	n := 0
	eng.InstrsDeep(parse, func(g *ssa.Function, in ssa.Instruction) {
		ci, ok := in.(ssa.CallInstruction)
		if !ok {
			return
		}
		cal := ci.Common().StaticCallee()
		if cal == nil || cal.Pkg == nil || cal.Pkg.Pkg.Path() != "reflect" {
			return
		}
		n++
		mut := strings.HasPrefix(cal.Name(), "Set") || cal.Name() == "Grow" || cal.Name() == "Clear" || cal.Name() == "Copy" || cal.Name() == "Append" || cal.Name() == "Swapper"
		if cal.Signature.Recv() == nil && cal.Name() != "Copy" {
			mut = false // reflect.ValueOf, TypeOf, New, ...: create, do not modify
		}
		if mut {
			// allowed for a field whose setec tag was found (a nil pointer
			// field with its own unmarshaler is allocated when parsed): the
			// call lies past the present edge of the tag lookup
			tagged := false
			for _, cond := range eng.FactsX(in) {
				if v, truth, isB := cond.Bool(); isB && truth {
					if ex, isEx := eng.Origin(v).(*ssa.Extract); isEx && ex.Index == 1 {
						if tc, isC := ex.Tuple.(*ssa.Call); isC && eng.CalleeIs(&tc.Call, "reflect", "StructTag.Lookup") {
							tagged = true
						}
					}
				}
			}
			c.Check(tagged, "R-C20-11", g, in.Pos(), eng.CallStr(ci.Common()), "while parsing, a field is written (a nil unmarshaler pointer allocated) only after its setec tag was found: untagged fields are never touched", "a mutating reflect call not guarded by the presence of the tag")
		}
	})
	if n == 0 {
		c.Undecided("R-C20-11", parse, parse.Pos(), "reflect calls in the parse routine", "none found")
	} else {
		c.Ok("R-C20-11", parse, parse.Pos(), "reflect calls while parsing", "inspection only")
	}
}

// errResultIndexOfCall: the index of the error result of the call's
// signature (-1 if it has none).
func errResultIndexOfCall(call *ssa.Call) int {
	res := call.Call.Signature().Results()
	for i := res.Len() - 1; i >= 0; i-- {
		if eng.IsErrorType(res.At(i).Type()) {
			return i
		}
	}
	return -1
}

// c20FieldUnit: the function holding the per-field logic of parseFields:
// parseFields itself, or the helper it calls for every visible field (the
// function containing the tag lookup).  call is the call of that helper in
// parse (nil when the logic is in parse itself).
func c20FieldUnit(parse *ssa.Function) (unit *ssa.Function, call *ssa.Call) {
	unit = parse
	if parse == nil {
		return nil, nil
	}
	eng.InstrsDeep(parse, func(g *ssa.Function, in ssa.Instruction) {
		if cl, ok := in.(*ssa.Call); ok && eng.CalleeIs(&cl.Call, "reflect", "StructTag.Lookup") {
			unit = g
		}
	})
	if unit == parse {
		return parse, nil
	}
	eng.Instrs(parse, func(in ssa.Instruction) {
		if cl, ok := in.(*ssa.Call); ok && eng.Callee(&cl.Call) == unit {
			call = cl
		}
	})
	if call == nil || len(eng.StaticCallSites(unit)) != 1 {
		return parse, nil
	}
	return unit, call
}

// unitResults: the indices of the "use it" flag and of the error among the
// results of a per-field helper (fieldInfo, bool, error); -1 if absent.
func unitResults(unit *ssa.Function) (okIdx, errIdx int) {
	okIdx, errIdx = -1, -1
	res := unit.Signature.Results()
	for i := 0; i < res.Len(); i++ {
		if b, isB := res.At(i).Type().Underlying().(*types.Basic); isB && b.Kind() == types.Bool {
			okIdx = i
		}
		if eng.IsErrorType(res.At(i).Type()) {
			errIdx = i
		}
	}
	return
}

// unitRecords: r is a return of the per-field helper telling its caller to
// record the field (flag not constant false, error possibly nil).
func unitRecords(unit *ssa.Function, x ssa.Instruction) bool {
	r, isR := x.(*ssa.Return)
	if !isR {
		return false
	}
	okIdx, errIdx := unitResults(unit)
	rv := eng.RetVals(r)
	if okIdx < 0 || errIdx < 0 || okIdx >= len(rv) || errIdx >= len(rv) {
		return false
	}
	if k, isK := eng.Origin(rv[okIdx]).(*ssa.Const); isK && k.Value != nil && k.Value.String() == "false" {
		return false
	}
	return nonNilAt(rv[errIdx], eng.FactsAt(r)) != eng.Yes
}

// c20UnitProtocol: R-C20-9 for a per-field helper.  In parse the helper is
// called for every visible field; its error makes parse fail; a field it
// says to use is appended before the next one is taken.  In the helper the
// tag is looked up on every path, and past the present edge every return
// records the field or fails.
func c20UnitProtocol(c *eng.Ctx, parse, unit *ssa.Function, call *ssa.Call) {
	p := c.P
	var loop *eng.RangeLoop
	for _, rl := range eng.RangeLoops(parse) {
		if vc, _ := eng.TupleCall(rl.Slice); vc != nil && eng.CalleeIs(&vc.Call, "reflect", "VisibleFields") {
			r2 := rl
			loop = &r2
		}
	}
	okIdx, errIdx := unitResults(unit)
	if loop == nil || !loop.InLoop(call.Block()) || okIdx < 0 || errIdx < 0 {
		c.Undecided("R-C20-9", parse, parse.Pos(), "loop over reflect.VisibleFields calling the per-field helper "+eng.FName(unit), "not found in this form")
		return
	}
	// the element handed to the helper is the loop's
	elemOK := false
	for _, a := range call.Call.Args {
		if loop.ElemOf(a) {
			elemOK = true
		}
	}
	c.Check(elemOK, "R-C20-9", parse, call.Pos(), eng.CallStr(&call.Call), "the per-field helper is given the visible field of this iteration", "")
	atHeader := func(x ssa.Instruction) bool { return x.Block() == loop.Header }
	isCall := func(x ssa.Instruction) bool { return x == ssa.Instruction(call) }
	hit, path := eng.SearchBlock(parse, loop.Body, nil, isCall, atHeader)
	if len(loop.Body.Instrs) > 0 && isCall(loop.Body.Instrs[0]) {
		hit = nil
	}
	var tag *ssa.Call
	eng.Instrs(unit, func(in ssa.Instruction) {
		if cl, ok := in.(*ssa.Call); ok && eng.CalleeIs(&cl.Call, "reflect", "StructTag.Lookup") {
			if k, isK := eng.ConstString(cl.Call.Args[len(cl.Call.Args)-1]); isK && k == "setec" {
				tag = cl
			}
		}
	})
	if tag == nil {
		c.Undecided("R-C20-9", unit, unit.Pos(), "Tag.Lookup(\"setec\") in "+eng.FName(unit), "not found")
		return
	}
	isTag := func(x ssa.Instruction) bool { return x == ssa.Instruction(tag) }
	if hit == nil {
		hit, path = eng.Search(unit, nil, nil, isTag, eng.IsReturn)
	}
	c.Check(hit == nil, "R-C20-9", parse, tag.Pos(), "fields examined by parseFields", "every visible field has its setec tag looked up (embedded, unexported-looking or oddly typed fields included: a tagged field is never passed over unseen)", func() string {
		if hit == nil {
			return ""
		}
		return "a field can be skipped before its tag is read: " + p.PathStr(path)
	}())
	var present ssa.Value
	for _, r := range *tag.Referrers() {
		if ex, ok := r.(*ssa.Extract); ok && ex.Index == 1 {
			present = ex
		}
	}
	if present == nil {
		c.Bad("R-C20-9", unit, tag.Pos(), eng.CallStr(&tag.Call), "the presence result of the tag lookup decides whether the field is plumbed", "the ok result is unused")
		return
	}
	// in the helper: present => record or fail
	hit2, path2 := eng.Search(unit, tag, eng.AssumeBool(present, true), nil, func(x ssa.Instruction) bool {
		r, isR := x.(*ssa.Return)
		if !isR {
			return false
		}
		if unitRecords(unit, r) {
			return false
		}
		return nonNilAt(eng.RetVals(r)[errIdx], eng.FactsAt(r)) != eng.Yes
	})
	// in parse: the helper's error is parse's failure; "use it" is appended
	var okv, errv, fiv ssa.Value
	for _, r := range *call.Referrers() {
		if ex, ok := r.(*ssa.Extract); ok {
			switch ex.Index {
			case okIdx:
				okv = ex
			case errIdx:
				errv = ex
			default:
				fiv = ex
			}
		}
	}
	if hit2 == nil && (okv == nil || errv == nil || fiv == nil) {
		c.Bad("R-C20-9", parse, call.Pos(), eng.CallStr(&call.Call), "all three results of the per-field helper are used", "a result is dropped")
		return
	}
	isAppend := func(x ssa.Instruction) bool {
		args, ok := eng.BuiltinCall(x, "append")
		if !ok || len(args) != 2 {
			return false
		}
		sl, _ := args[0].Type().Underlying().(*types.Slice)
		if sl == nil || !eng.IsNamed(sl.Elem(), setecPkg, "fieldInfo") {
			return false
		}
		pa := eng.Path{Blocks: []*ssa.BasicBlock{x.Block()}}
		elems, _ := pa.SliceElems(args[1])
		for _, e := range elems {
			if eng.Origin(e) == fiv {
				return true
			}
		}
		return false
	}
	if hit2 == nil {
		hit2, path2 = eng.Search(parse, call, eng.AndFilters(eng.AssumeErr(errv, true), eng.AssumeBool(okv, true)), isAppend, func(x ssa.Instruction) bool {
			return atHeader(x) || eng.IsReturn(x)
		})
	}
	c.Check(hit2 == nil, "R-C20-9", parse, tag.Pos(), "tagged fields in parseFields", "a field whose tag is present is appended to the result or makes parseFields return (an error): it is never silently dropped", func() string {
		if hit2 == nil {
			return ""
		}
		return "the next field is reached with neither: " + p.PathStr(path2)
	}())
	pei := errResultIndex(parse)
	hit3, path3 := eng.Search(parse, call, eng.AssumeErr(errv, false), nil, func(x ssa.Instruction) bool {
		if atHeader(x) {
			return true
		}
		r, isR := x.(*ssa.Return)
		return isR && pei >= 0 && nonNilAt(eng.RetVals(r)[pei], eng.FactsAt(r)) != eng.Yes && !eng.Same(eng.RetVals(r)[pei], errv)
	})
	c.Check(hit3 == nil, "R-C20-9", parse, call.Pos(), "error of "+eng.CallStr(&call.Call), "a field the helper rejects makes parseFields fail", func() string {
		if hit3 == nil {
			return ""
		}
		return "parsing goes on or succeeds: " + p.PathStr(path3)
	}())
	// ... and nothing else is recorded: every append is past "use it"
	eng.Instrs(parse, func(in ssa.Instruction) {
		args, ok := eng.BuiltinCall(in, "append")
		if !ok || len(args) == 0 {
			return
		}
		sl, _ := args[0].Type().Underlying().(*types.Slice)
		if sl == nil || !eng.IsNamed(sl.Elem(), setecPkg, "fieldInfo") {
			return
		}
		okk := false
		for _, cond := range eng.FactsAt(in) {
			if v, truth, isB := cond.Bool(); isB && truth && eng.Origin(v) == okv {
				okk = true
			}
		}
		c.Check(okk && isAppend(in), "R-C20-4", parse, in.Pos(), "recording of a field in parseFields", "only what the per-field helper says to use is recorded", "holding: "+eng.FactsString(in))
	})
}
