package rules

import (
	"golang.org/x/tools/go/ssa"

	"setecvet/eng"
)

// notFoundDiscipline: in the kv accessors that work on an EXISTING secret
// (everything except creation by put and the documented no-op delete of a
// whole secret), the edge on which the named secret is absent -- and the edge
// on which a version given as a parameter is absent -- returns an error built
// from db.ErrNotFound.  That sentinel is what the HTTP layer turns into 404
// and what the clients map to api.ErrNotFound.
func notFoundDiscipline(c *eng.Ctx, rule string) {
	p := c.P
	k := loadKV(c)
	if k == nil {
		return
	}
	n := 0
	for _, f := range p.PkgFuncs("db") {
		if f.Parent() != nil || f.Signature.Recv() == nil || !eng.IsNamed(f.Signature.Recv().Type(), "db", "kv") {
			continue
		}
		ei := errResultIndex(f)
		if ei < 0 {
			continue
		}
		// creation / whole-secret deletion are exempt (documented semantics)
		exempt := false
		for g := range p.CallGraph().Reach(f, nil) {
			// (the insert / delete may sit in a helper the accessor dispatches to)
			for _, w := range k.forward(g) {
				if w.Loc == "kv.secrets" {
					exempt = true
				}
			}
		}
		if exempt {
			continue
		}
		isNotFound := func(r *ssa.Return) bool {
			rv := eng.RetVals(r)
			pa := eng.Path{Blocks: []*ssa.BasicBlock{r.Block()}}
			for _, lf := range errorLeaves(pa, rv[ei]) {
				if eng.IsGlobalLoad(lf, "db", "ErrNotFound") {
					return true
				}
			}
			return false
		}
		eng.Instrs(f, func(in ssa.Instruction) {
			ifi, ok := in.(*ssa.If)
			if !ok {
				return
			}
			for i, succ := range ifi.Block().Succs {
				cond := eng.CondOf(ifi.Cond, i == 0)
				what := ""
				if v, isNil, isN := cond.NilCheck(); isN && isNil {
					if lk, isLk := eng.Origin(v).(*ssa.Lookup); isLk {
						if fr, _, isF := eng.LoadedField(lk.X); isF && isKVRole(curProg, fr, "secrets") {
							what = "secret absent"
						}
					}
				}
				if src, truth, isCO := cond.CommaOk(); isCO && !truth {
					if lk, isLk := src.(*ssa.Lookup); isLk {
						if fr, _, isF := eng.LoadedField(lk.X); isF && fr.Is("db", "secret", "Versions") {
							if _, isParam := eng.Origin(lk.Index).(*ssa.Parameter); isParam {
								what = "requested version absent"
							}
						}
					}
				}
				if what == "" {
					continue
				}
				n++
				// every return reachable on this edge (it leads straight to returns) is ErrNotFound
				bad, _ := eng.SearchBlock(f, succ, nil, nil, func(x ssa.Instruction) bool {
					r, isR := x.(*ssa.Return)
					return isR && !isNotFound(r)
				})
				if r, isR := succ.Instrs[0].(*ssa.Return); isR && !isNotFound(r) {
					bad = r // Search starts after its first instruction
				}
				c.Check(bad == nil, rule, f, in.Pos(), eng.FName(f)+": "+what+" ("+cond.String()+")", "reported with an error built from db.ErrNotFound (404 / api.ErrNotFound; only deleting a whole absent secret succeeds)", func() string {
					if bad == nil {
						return ""
					}
					return "return at " + p.Pos(bad.Pos()) + " is not ErrNotFound: " + eng.InstrStr(bad)
				}())
			}
		})
	}
	if n < 5 {
		c.Undecided(rule, nil, 0, "absent-secret / absent-version edges in the kv accessors", "fewer than 5 found")
	}
}
