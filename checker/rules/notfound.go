package rules

import (
	"golang.org/x/tools/go/ssa"

	"setecvet/eng"
)

// notFoundDiscipline: in the kv accessors that work on an EXISTING secret
// (everything except creation by put and the documented no-op delete of a
// whole secret), the edge on which the named secret is absent -- and the edge
// on which a version given as a parameter is absent -- returns an error built
// from db.ErrNotFound.  That sentinel is what the HTTP layer turns into 404
// and what the clients map to api.ErrNotFound.
func notFoundDiscipline(c *eng.Ctx, rule string) {
	p := c.P
	k := loadKV(c)
	if k == nil {
		return
	}
	n := 0
	for _, f := range p.PkgFuncs("db") {
		if f.Parent() != nil || f.Signature.Recv() == nil || !eng.IsNamed(f.Signature.Recv().Type(), "db", "kv") {
			continue
		}
		ei := errResultIndex(f)
		if ei < 0 {
			continue
		}
		// creation / whole-secret deletion are exempt (documented semantics)
		exempt := false
		for g := range p.CallGraph().Reach(f, nil) {
			// (the insert / delete may sit in a helper the accessor dispatches to)
			for _, w := range k.forward(g) {
				if w.Loc == "kv.secrets" {
					exempt = true
				}
			}
		}
		if exempt {
			continue
		}
		var isNotFoundIn func(g *ssa.Function, r *ssa.Return, depth int) bool
		isNotFoundIn = func(g *ssa.Function, r *ssa.Return, depth int) bool {
			rv := eng.RetVals(r)
			gi := errResultIndex(g)
			if gi < 0 || gi >= len(rv) {
				return false
			}
			pa := eng.Path{Blocks: []*ssa.BasicBlock{r.Block()}}
			for _, lf := range errorLeaves(pa, rv[gi]) {
				if eng.IsGlobalLoad(lf, "db", "ErrNotFound") {
					return true
				}
				// the error of a lookup helper of kv all of whose failures are ErrNotFound
				if hc, _ := eng.TupleCall(lf); hc != nil && depth < 2 {
					h := eng.Callee(&hc.Call)
					if eng.IsHelper(g, h) && errResultIndex(h) >= 0 {
						all, any := true, false
						for _, hr := range eng.Returns(h) {
							hv := eng.RetVals(hr)[errResultIndex(h)]
							if eng.IsNilConst(eng.Origin(hv)) {
								continue
							}
							any = true
							if !isNotFoundIn(h, hr, depth+1) {
								all = false
							}
						}
						if all && any {
							return true
						}
					}
				}
			}
			return false
		}
		isNotFound := func(r *ssa.Return) bool { return isNotFoundIn(f, r, 0) }
		eng.Instrs(f, func(in ssa.Instruction) {
			ifi, ok := in.(*ssa.If)
			if !ok {
				return
			}
			for i, succ := range ifi.Block().Succs {
				cond := eng.CondOf(ifi.Cond, i == 0)
				what := ""
				if v, isNil, isN := cond.NilCheck(); isN && isNil {
					if lk, isLk := eng.Origin(v).(*ssa.Lookup); isLk {
						if fr, _, isF := eng.LoadedField(lk.X); isF && isKVRole(curProg, fr, "secrets") {
							what = "secret absent"
						}
					}
				}
				if src, truth, isCO := cond.CommaOk(); isCO && !truth {
					if lk, isLk := src.(*ssa.Lookup); isLk {
						if fr, _, isF := eng.LoadedField(lk.X); isF && fr.Is("db", "secret", "Versions") {
							if _, isParam := eng.Origin(lk.Index).(*ssa.Parameter); isParam {
								what = "requested version absent"
							}
						}
					}
				}
				// the failure edge of a kv lookup helper that reports an absent secret
				if v, isNil, isE := cond.ErrCheck(); isE && !isNil && what == "" {
					if hc, _ := eng.TupleCall(v); hc != nil {
						if h := eng.Callee(&hc.Call); eng.IsHelper(f, h) && recvIs(h, "db", "kv") && kvLookupHelper(h) {
							what = "secret absent (reported by " + eng.FName(h) + ")"
						}
					}
				}
				if what == "" {
					continue
				}
				n++
				// every return reachable on this edge (it leads straight to returns) is ErrNotFound
				bad, _ := eng.SearchBlock(f, succ, nil, nil, func(x ssa.Instruction) bool {
					r, isR := x.(*ssa.Return)
					return isR && !isNotFound(r)
				})
				if r, isR := succ.Instrs[0].(*ssa.Return); isR && !isNotFound(r) {
					bad = r // Search starts after its first instruction
				}
				c.Check(bad == nil, rule, f, in.Pos(), eng.FName(f)+": "+what+" ("+cond.String()+")", "reported with an error built from db.ErrNotFound (404 / api.ErrNotFound; only deleting a whole absent secret succeeds)", func() string {
					if bad == nil {
						return ""
					}
					return "return at " + p.Pos(bad.Pos()) + " is not ErrNotFound: " + eng.InstrStr(bad)
				}())
			}
		})
	}
	if n < 5 {
		c.Undecided(rule, nil, 0, "absent-secret / absent-version edges in the kv accessors", "fewer than 5 found")
	}
}

// kvLookupHelper: h reads kv.secrets and returns (record, error).
func kvLookupHelper(h *ssa.Function) bool {
	if h == nil || h.Blocks == nil || errResultIndex(h) < 0 {
		return false
	}
	// it hands out the record itself (an accessor of values or metadata that
	// another accessor delegates to is judged as an accessor of its own)
	res := h.Signature.Results()
	if res.Len() != 2 || !eng.IsNamed(res.At(0).Type(), "db", "secret") {
		return false
	}
	found := false
	for _, m := range eng.MapOps(h) {
		if m.SrcOK && isKVRole(curProg, m.Src, "secrets") && (m.Kind == "lookup" || m.Kind == "lookupok") {
			found = true
		}
	}
	return found
}
