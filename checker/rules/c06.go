package rules

import (
	"go/types"
	"sort"
	"strings"

	"golang.org/x/tools/go/ssa"

	"setecvet/eng"
)

func init() {
	register(&Prop{
		ID: "C06",
		Explanation: "Decides structural clauses of C06: (R-C06-1) in every db.DB operation each state mutation, and each return of a non-nil secret value, is edge-dominated by the nil edge of a permission helper that writes the audit record, called for the operation's caller, action and name; List's listing is dominated by its own audit write; " +
			"(R-C06-2) the helper cannot return nil when the audit write failed (path-enumerated), List returns an error on that edge; (R-C06-3) the helper writes the record on every path, and every refusal branch (Allow false) reaches it before returning; " +
			"(R-C06-4) no audit write lies on any path to the return of ErrValueNotChanged; (R-C06-5) the record's fields are the helper's own parameters / the Allow result, and operations with a version parameter pass it on; " +
			"(R-C06-6) audit.Writer: every Encode error is returned, success only through Sync whose result is returned, Sync forwards to the sink's Sync, the encoder writes to the very sink that is synced, no buffering layer; (R-C06-7) the audit file is opened O_WRONLY|O_APPEND|O_CREATE without O_TRUNC, owner-only; (R-C06-8) the principal is built from the request's own address and WhoIs answer; (R-C06-11) package audit writes no field of an Entry other than ID and Time. (R-C06-10) the Writer keeps the encoder it was built with (C14's R-C14-7: its fields are assigned only by the constructor), so a sink error stays latched and no later record is glued onto a torn one.",
		NotDecided:  "Interleaving of concurrent appends on a real file (O_APPEND semantics of the kernel, one Write per Encode: trusted); that the sink really reaches stable storage.",
		Trusted:     append([]string{"json.Encoder.Encode issues one Write per value", "O_APPEND appends atomically per write(2)", "multierr.New nil iff all elements nil"}, commonTrusted...),
		Assumptions: []string{"GetConditional's peek (kv.get before the audit write) is by design; the rule is on the return of the value, as the property states"},
		Run:         runC06,
	})
}

// reachesWriteEntries: functions that (transitively) call audit.(*Writer).WriteEntries.
func auditWriters(c *eng.Ctx) (map[*ssa.Function]bool, *ssa.Function) {
	we := c.P.Method("audit", "Writer", "WriteEntries")
	out := map[*ssa.Function]bool{}
	if we == nil {
		return out, nil
	}
	g := c.P.CallGraph()
	for _, f := range c.P.AllFuncs() {
		if g.Reach(f, nil)[we] {
			out[f] = true
		}
	}
	return out, we
}

func runC06(c *eng.Ctx, tier string) {
	defer eng.SetRoot(nil)
	d := loadDB(c)
	if d == nil {
		return
	}
	aw, we := auditWriters(c)
	if we == nil {
		c.Undecided("anchor", nil, 0, "audit.(*Writer).WriteEntries", "anchor does not resolve")
		return
	}
	// logging checkers: permission helpers that reach WriteEntries
	logging := map[*ssa.Function]checkerSig{}
	for f, sig := range d.checkers {
		if aw[f] {
			logging[f] = sig
		}
	}
	if len(logging) == 0 {
		c.Bad("R-C06-1", nil, 0, "permission helper that writes the audit log", "package db has a helper (Caller, Action, name) error that checks and logs", "none found")
	}
	dl := &dbInfo{c: c, p: c.P, checkers: logging, methods: d.methods, touch: d.touch, writes: d.writes, helpersOnly: true}

	isLogCall := func(in ssa.Instruction) bool {
		if ci, ok := in.(ssa.CallInstruction); ok {
			cal := eng.Callee(ci.Common())
			return cal != nil && aw[eng.Unwrap(cal)]
		}
		return false
	}

	// R-C06-1
	for _, m := range d.methods {
		eng.SetRoot(m.Fn) // helpers shared by several operations are resolved at their call site in this one
		action, inTable := tC01[m.Name]
		if !inTable || m.Caller == nil {
			continue
		}
		if m.Name == "List" {
			c06List(c, d, m, we, aw)
			continue
		}
		guarded := func(in ssa.Instruction) (bool, string) {
			var near []string
			for _, cond := range factsDeep(in) {
				ok, why := dl.successfulCheck(cond, m.Caller, action, m.NameP)
				if ok {
					return true, ""
				}
				if why != "" {
					near = append(near, why)
				}
			}
			return false, strings.Join(near, "; ")
		}
		want := "edge-dominated by the nil edge of the audit-writing permission helper for (" + m.Caller.Name() + ", " + action + ", " + nameOf(m.NameP) + ")"
		// mutations
		for _, s := range d.sites(m.Fn) {
			if !s.Write {
				continue
			}
			ok, why := guarded(s.In)
			c.Check(ok, "R-C06-1", s.Fn, s.In.Pos(), "mutation "+eng.InstrStr(s.In), want+" (audit before effect)", why+" | holding here: "+factsStr(factsDeep(s.In)))
		}
		// disclosures: returns of a possibly non-nil *api.SecretValue
		res := m.Fn.Signature.Results()
		if res.Len() > 0 && eng.IsNamed(res.At(0).Type(), "types/api", "SecretValue") {
			for _, r := range eng.Returns(m.Fn) {
				rv := eng.RetVals(r)
				if eng.IsNilConst(eng.Origin(rv[0])) {
					continue
				}
				ok, why := guarded(r)
				if !ok {
					// the value is what a read helper of the operation answers:
					// judged at the helper's own returns of a value (the helper
					// is handed the operation's caller, action and name)
					if hc, idx := eng.TupleCall(rv[0]); hc != nil && idx <= 0 && eng.IsHelper(m.Fn, eng.Callee(&hc.Call)) {
						h := eng.Callee(&hc.Call)
						all, n := true, 0
						for _, r2 := range eng.Returns(h) {
							rv2 := eng.RetVals(r2)
							if len(rv2) == 0 || eng.IsNilConst(eng.Origin(rv2[0])) {
								continue
							}
							n++
							if ok2, why2 := guarded(r2); !ok2 {
								all, why = false, why2
							}
						}
						ok = all && n > 0
					}
				}
				c.Check(ok, "R-C06-1", m.Fn, r.Pos(), "disclosure "+eng.InstrStr(r), want+" (audit before a value is returned)", why+" | holding here: "+factsStr(factsDeep(r)))
			}
		}
	}
	c.Floor("R-C06-1", 9)

	// a wrapper of package db around WriteEntries hands the failure on: every
	// rule above treats its error result as the audit write's
	for _, f := range c.P.PkgFuncs("db") {
		if _, isChk := d.checkers[f]; isChk || f.Parent() != nil {
			continue
		}
		isMethod := false
		for _, m := range d.methods {
			if m.Fn == f {
				isMethod = true
			}
		}
		if isMethod {
			continue
		}
		eng.Instrs(f, func(in ssa.Instruction) {
			call, ok := in.(*ssa.Call)
			if !ok || eng.Callee(&call.Call) != we {
				return
			}
			ei := errResultIndex(f)
			if ei < 0 {
				c.Bad("R-C06-2", f, in.Pos(), "audit wrapper "+eng.FName(f), "hands the error of the audit write to its caller", "no error result")
				return
			}
			hit, path := eng.Search(f, call, eng.AssumeErr(saveErr(call), false), nil, func(x ssa.Instruction) bool {
				r, isR := x.(*ssa.Return)
				return isR && nonNilAt(eng.RetVals(r)[ei], eng.FactsAt(r)) != eng.Yes && !eng.Same(eng.RetVals(r)[ei], saveErr(call))
			})
			c.Check(hit == nil, "R-C06-2", f, in.Pos(), "audit wrapper "+eng.FName(f), "a failed audit write is reported to the wrapper's caller (non-nil error)", func() string {
				if hit == nil {
					return ""
				}
				return "a return may report success after the failed write: " + c.P.PathStr(path)
			}())
		})
	}

	// R-C06-9: a denial is recorded whatever the state: the (audited) check
	// precedes every look at the database (C01's rule), so no refusal can come
	// from the state without a record
	includeOnly(c, "R-C06-9", func(sc *eng.Ctx) { runC01(sc, "quick") }, "R-C01-1")
	// the writer keeps the encoder it was built with (a failed write stays failed: no record is glued onto a torn one)
	includeOnly(c, "R-C06-10", func(sc *eng.Ctx) { runC14(sc, "quick") }, "R-C14-7")
	eng.SetRoot(nil)
	// R-C06-2 / R-C06-3 / R-C06-5 on each logging helper
	var lfs []*ssa.Function
	for f := range logging {
		lfs = append(lfs, f)
	}
	sort.Slice(lfs, func(i, j int) bool { return lfs[i].Pos() < lfs[j].Pos() })
	for _, f := range lfs {
		c06Helper(c, d, f, logging[f], we, isLogCall)
	}

	// R-C06-3 refusal branches reach the helper
	for _, m := range d.methods {
		eng.SetRoot(m.Fn) // helpers shared by several operations are resolved at their call site in this one
		if m.Name == "List" || m.Caller == nil {
			continue
		}
		eng.Instrs(m.Fn, func(in ssa.Instruction) {
			ifi, ok := in.(*ssa.If)
			if !ok {
				return
			}
			cond := eng.CondOf(ifi.Cond, true)
			call, _, _, isCall := cond.BoolCall()
			if !isCall {
				return
			}
			if _, _, _, isAllow := allowCall(&call.Call); !isAllow {
				return
			}
			v, _, _ := cond.Bool()
			hit, path := eng.SearchX(m.Fn, in, eng.AssumeBool(v, false), func(x ssa.Instruction) bool {
				if ci, ok := x.(ssa.CallInstruction); ok {
					_, isLog := logging[eng.Callee(ci.Common())]
					return isLog
				}
				return false
			}, eng.IsReturn)
			c.Check(hit == nil, "R-C06-3", m.Fn, in.Pos(), "refusal branch of "+cond.String(), "a request refused for lack of permission reaches the audit-writing helper before it returns", func() string {
				if hit == nil {
					return ""
				}
				return "return at " + c.P.Pos(hit.Pos()) + " reachable on the denied edge without an audit record: " + c.P.PathStr(path)
			}())
		})
	}

	// R-C06-4 unchanged conditional get writes nothing
	n4 := 0
	for _, m := range d.methods {
		eng.SetRoot(m.Fn) // helpers shared by several operations are resolved at their call site in this one
		for _, r := range eng.Returns(m.Fn) {
			ei := errResultIndex(m.Fn)
			if ei < 0 {
				continue
			}
			rv := eng.RetVals(r)
			if !mayBeNotChanged(m.Fn, rv[ei], 0) {
				continue
			}
			n4++
			var offending ssa.Instruction
			eng.Instrs(m.Fn, func(in ssa.Instruction) {
				if !isLogCall(in) || offending != nil {
					return
				}
				if hit, _ := eng.Search(m.Fn, in, nil, nil, func(x ssa.Instruction) bool { return x == ssa.Instruction(r) }); hit != nil {
					offending = in
				}
			})
			c.Check(offending == nil, "R-C06-4", m.Fn, r.Pos(), "return of ErrValueNotChanged", "no audit write lies on any path to the not-modified answer", func() string {
				if offending == nil {
					return ""
				}
				return "audit-writing call " + eng.InstrStr(offending) + " at " + c.P.Pos(offending.Pos()) + " can precede it"
			}())
		}
	}
	if n4 == 0 {
		c.Undecided("R-C06-4", nil, 0, "return of api.ErrValueNotChanged in db.DB", "no such return found")
	}

	// R-C06-5 version argument
	for _, m := range d.methods {
		eng.SetRoot(m.Fn)                                   // helpers shared by several operations are resolved at their call site in this one
		if m.Version == nil || m.Name == "GetConditional" { // tabled: oldVersion is the caller's cached version, not the version accessed
			continue
		}
		eng.Instrs(m.Fn, func(in ssa.Instruction) {
			call, ok := in.(*ssa.Call)
			if !ok {
				return
			}
			cal := eng.Callee(&call.Call)
			sig, isLog := logging[cal]
			if !isLog {
				return
			}
			// the helper's version parameter: first api.SecretVersion param
			vi := -1
			for i, prm := range cal.Params {
				if eng.IsNamed(prm.Type(), "types/api", "SecretVersion") {
					vi = i
					break
				}
			}
			_ = sig
			if vi < 0 {
				c.Bad("R-C06-5", m.Fn, in.Pos(), eng.CallStr(&call.Call), "the audit helper records the version acted on", "helper has no version parameter")
				return
			}
			c.Check(eng.Origin(call.Call.Args[vi]) == m.Version, "R-C06-5", m.Fn, in.Pos(), eng.CallStr(&call.Call), "the record carries the version the request designates ("+m.Version.Name()+")", "version argument is "+eng.ValStr(call.Call.Args[vi]))
		})
	}

	c06Writer(c)
	c06File(c)
	c06Principal(c)
	c06Forbidden(c)
}

// c06Forbidden (R-C06-3): the server answers 403 only (a) at the no-browsers
// header gate (not a permission decision) or (b) because the store returned
// ErrAccessDenied -- and the store wrote the denial to the audit log before
// doing so.  Any other 403 would be a refusal for lack of permission without
// a record.
func c06Forbidden(c *eng.Ctx) {
	p := c.P
	n := 0
	for _, er := range errReplies(p, "server") {
		func() {
			f, in := er.Fn, er.In
			k, isK := eng.ConstInt(er.Code)
			if !isK {
				return // a non-constant status is reported by C08 (R-C08-4)
			}
			if k != 403 {
				return
			}
			n++
			okk := false
			for _, cond := range eng.FactsAt(in) {
				if ec, _, truth, isCall := cond.BoolCall(); isCall && truth && eng.CalleeIs(&ec.Call, "errors", "Is") && eng.IsGlobalLoad(ec.Call.Args[1], "db", "ErrAccessDenied") {
					okk = true
				}
				if op, x, y, isCmp := cond.Cmp(); isCmp && op.String() == "!=" {
					if h, isH := headerGet(x); isH && h == "Sec-X-Tailscale-No-Browsers" {
						if s, isC := eng.ConstString(y); isC && s == "setec" {
							okk = true
						}
					}
				}
			}
			c.Check(okk, "R-C06-3", f, in.Pos(), "403 reply in "+eng.FName(f), "a request is answered 403 only at the no-browsers gate or when the store reported ErrAccessDenied (having audited the denial)", "holding: "+eng.FactsString(in))
		}()
	}
	if n < 3 {
		c.Undecided("R-C06-3", nil, 0, "403 replies in package server", "fewer than 3 found")
	}
}

func nameOf(p *ssa.Parameter) string {
	if p == nil {
		return "<none>"
	}
	return p.Name()
}

// c06List: the single List entry precedes the listing, fail-closed.
func c06List(c *eng.Ctx, d *dbInfo, m *dbMethod, we *ssa.Function, aw map[*ssa.Function]bool) {
	var wcall *ssa.Call
	// the audit write: WriteEntries itself or a helper of the package wrapping it
	eng.Instrs(m.Fn, func(in ssa.Instruction) {
		if call, ok := in.(*ssa.Call); ok {
			if cal := eng.Callee(&call.Call); cal != nil && (cal == we || (aw[eng.Unwrap(cal)] && eng.IsHelper(m.Fn, cal))) {
				if _, isChk := d.checkers[cal]; !isChk {
					wcall = call
				}
			}
		}
	})
	if wcall == nil {
		c.Bad("R-C06-1", m.Fn, m.Fn.Pos(), "List audit entry", "List writes one audit entry before listing", "no WriteEntries call in List")
		return
	}
	for _, s := range d.sites(m.Fn) {
		ok := false
		for _, cond := range factsDeep(s.In) {
			if v, isNil, isE := cond.ErrCheck(); isE && isNil && eng.Same(v, saveErr(wcall)) {
				ok = true
			}
		}
		c.Check(ok, "R-C06-1", s.Fn, s.In.Pos(), "List state read "+eng.InstrStr(s.In), "edge-dominated by the nil edge of List's WriteEntries", "holding here: "+factsStr(factsDeep(s.In)))
	}
	// fail closed
	bad := false
	for _, r := range eng.Returns(m.Fn) {
		for _, cond := range eng.FactsAt(r) {
			if v, isNil, isE := cond.ErrCheck(); isE && !isNil && eng.Same(v, saveErr(wcall)) {
				rv := eng.RetVals(r)
				ei := errResultIndex(m.Fn)
				if nonNilAt(rv[ei], eng.FactsAt(r)) != eng.Yes || !eng.IsNilConst(eng.Origin(rv[0])) {
					bad = true
					c.Bad("R-C06-2", m.Fn, r.Pos(), eng.InstrStr(r), "a failed audit write makes List fail with no result", "returns "+eng.ValStr(rv[0])+", "+eng.ValStr(rv[ei]))
				}
			}
		}
	}
	if !bad {
		c.Ok("R-C06-2", m.Fn, wcall.Pos(), "List: failed audit write", "returns (nil, non-nil error)")
	}
	// record: Principal = caller.Principal, Action = info, Authorized true
	elems := auditEntriesOf(wcall, we)
	if len(elems) == 1 {
		fields, mapv, ok := eng.LiteralThroughHelper(elems[0])
		if ok {
			fr, base, isF := eng.LoadedField(fields["Principal"])
			c.Check(isF && fr.Is("db", "Caller", "Principal") && (isParam(base, m.Caller) || isParam(mapv(base), m.Caller)), "R-C06-5", m.Fn, wcall.Pos(), "List entry Principal", "the caller's principal", "Principal = "+eng.ValStr(fields["Principal"]))
			act, _ := constAction(fields["Action"])
			c.Check(act == "info", "R-C06-5", m.Fn, wcall.Pos(), "List entry Action", "info", "Action = "+eng.ValStr(fields["Action"]))
		}
	}
}

// c06Helper: R-C06-2, R-C06-3 (record on every path), R-C06-5 (fields).
func c06Helper(c *eng.Ctx, d *dbInfo, f *ssa.Function, sig checkerSig, we *ssa.Function, isLogCall func(ssa.Instruction) bool) {
	// R-C06-3: every path from entry to a return passes an audit-writing call
	hit, path := eng.Search(f, nil, nil, isLogCall, eng.IsReturn)
	c.Check(hit == nil, "R-C06-3", f, f.Pos(), "audit write on every path of "+f.Name(), "every path through the helper (authorized or denied) writes the record", func() string {
		if hit == nil {
			return ""
		}
		return "return at " + c.P.Pos(hit.Pos()) + " reachable without writing: " + c.P.PathStr(path)
	}())
	// R-C06-2: no nil return on a path where the audit write failed
	paths, ok := eng.EnumPaths(f, 1, 512)
	if !ok {
		c.Undecided("R-C06-2", f, f.Pos(), "paths", "too many paths")
		return
	}
	var wcalls []*ssa.Call
	eng.Instrs(f, func(in ssa.Instruction) {
		if call, ok := in.(*ssa.Call); ok && isLogCall(in) {
			wcalls = append(wcalls, call)
		}
	})
	nfail := 0
	handedOn := false
	for _, pa := range paths {
		ret, isRet := pa.Last().(*ssa.Return)
		if !isRet || ret.Block() == f.Recover {
			continue
		}
		failed := false
		tested := map[*ssa.Call]bool{}
		for _, cond := range pa.Conds() {
			if v, isNil, isE := cond.ErrCheck(); isE {
				for _, w := range wcalls {
					if eng.Same(v, saveErr(w)) {
						tested[w] = true
						if !isNil {
							failed = true
						}
					}
				}
			}
		}
		rv := eng.RetVals(ret)
		// an audit call on the path whose error is never tested and not returned
		for _, w := range wcalls {
			if pa.Contains(w) && !tested[w] {
				if !eng.Same(pa.Resolve(rv[0]), saveErr(w)) && !leafIs(pa, rv[0], saveErr(w)) {
					c.Bad("R-C06-2", f, w.Pos(), "audit write "+eng.CallStr(&w.Call), "the error of the audit write is tested or returned", "result is dropped on path "+c.P.PathStr(pa.Blocks))
				} else {
					handedOn = true // its error is the helper's own result (a forwarding wrapper)
				}
			}
		}
		if !failed {
			continue
		}
		nfail++
		nl := pa.IsNil(rv[0])
		c.Check(nl == eng.No, "R-C06-2", f, ret.Pos(), "return after failed audit write on path "+c.P.PathStr(pa.Blocks), "fail-closed: when the record cannot be written the helper returns a non-nil error", "returned "+eng.ValStr(pa.Resolve(rv[0]))+" nil-ness="+nl.String())
	}
	if nfail == 0 && handedOn {
		c.Ok("R-C06-2", f, f.Pos(), "failed-audit paths of "+f.Name(), "the audit-writing call's error is returned as it is")
	} else if nfail == 0 {
		c.Bad("R-C06-2", f, f.Pos(), "failed-audit paths of "+f.Name(), "the helper tests the audit write's error", "no path distinguishes a failed audit write")
	}
	// R-C06-5: entry fields
	for _, w := range wcalls {
		elems := auditEntriesOf(w, we)
		if elems == nil {
			continue
		}
		if len(elems) != 1 {
			c.Undecided("R-C06-5", f, w.Pos(), eng.CallStr(&w.Call), "cannot identify the single entry written")
			continue
		}
		// the entry: a literal, or the literal a small constructor helper returns
		fields, mapv, ok := eng.LiteralThroughHelper(elems[0])
		if !ok {
			c.Undecided("R-C06-5", f, w.Pos(), eng.CallStr(&w.Call), "entry is not a literal")
			continue
		}
		callerP, actionP, secretP := f.Params[sig.Caller], f.Params[sig.Action], f.Params[sig.Name]
		fr, base, isF := eng.LoadedField(fields["Principal"])
		c.Check(isF && fr.Is("db", "Caller", "Principal") && (isParam(base, callerP) || isParam(mapv(base), callerP)), "R-C06-5", f, w.Pos(), "entry.Principal", "the helper's caller.Principal", "= "+eng.ValStr(fields["Principal"]))
		c.Check(fields["Action"] != nil && mapv(fields["Action"]) == ssa.Value(actionP), "R-C06-5", f, w.Pos(), "entry.Action", "the helper's action parameter", "= "+eng.ValStr(fields["Action"]))
		c.Check(fields["Secret"] != nil && mapv(fields["Secret"]) == ssa.Value(secretP), "R-C06-5", f, w.Pos(), "entry.Secret", "the helper's secret-name parameter", "= "+eng.ValStr(fields["Secret"]))
		var verP *ssa.Parameter
		for _, prm := range f.Params {
			if eng.IsNamed(prm.Type(), "types/api", "SecretVersion") {
				verP = prm
			}
		}
		c.Check(verP != nil && fields["SecretVersion"] != nil && mapv(fields["SecretVersion"]) == ssa.Value(verP), "R-C06-5", f, w.Pos(), "entry.SecretVersion", "the helper's version parameter", "= "+eng.ValStr(fields["SecretVersion"]))
		okAuth := false
		if call, _ := eng.TupleCall(mapv(fields["Authorized"])); call != nil {
			if holder, av, nv, isAllow := allowCall(&call.Call); isAllow && holder != nil && isParam(holder, callerP) && eng.Origin(av) == ssa.Value(actionP) && eng.Origin(nv) == ssa.Value(secretP) {
				okAuth = true
			}
		}
		c.Check(okAuth, "R-C06-5", f, w.Pos(), "entry.Authorized", "the result of caller.Permissions.Allow(action, secret)", "= "+eng.ValStr(fields["Authorized"]))
	}
}

func leafIs(pa eng.Path, v, want ssa.Value) bool {
	for _, l := range errorLeaves(pa, v) {
		if eng.Same(l, want) {
			return true
		}
	}
	return false
}

// c06Writer: R-C06-6.
func c06Writer(c *eng.Ctx) {
	p := c.P
	we := p.Method("audit", "Writer", "WriteEntries")
	syn := p.Method("audit", "Writer", "Sync")
	nw := p.Func("audit", "New")
	if we == nil || syn == nil || nw == nil {
		c.Undecided("R-C06-6", nil, 0, "audit.Writer.{WriteEntries,Sync}, audit.New", "anchors do not resolve")
		return
	}
	// the function that syncs the sink: Writer.Sync itself, or a helper
	// taking the sink that Sync hands l.w to (impl, sinkP)
	impl, sinkP := syn, ssa.Value(nil)
	isWriterSink := func(recv ssa.Value, v ssa.Value) bool {
		fr, base, isF := eng.LoadedField(v)
		return isF && fr.Is("audit", "Writer", auditField(p, "w")) && eng.Origin(base) == recv
	}
	for _, r := range eng.Returns(syn) {
		rv := eng.RetVals(r)
		if call, _ := eng.TupleCall(rv[0]); call != nil && len(eng.Returns(syn)) == 1 {
			if h := eng.Callee(&call.Call); h != nil && eng.IsHelper(syn, h) && !call.Call.IsInvoke() {
				for i, a := range call.Call.Args {
					if isWriterSink(syn.Params[0], a) && i < len(h.Params) {
						impl, sinkP = h, h.Params[i]
					}
				}
			}
		}
	}
	// isSyncOf: call syncs the sink of Writer recv (l.Sync(), or helper(l.w))
	isSyncOf := func(call *ssa.Call, recv ssa.Value) bool {
		if call == nil {
			return false
		}
		cal := eng.Callee(&call.Call)
		if cal == syn {
			return eng.Origin(call.Call.Args[0]) == recv
		}
		if impl != syn && cal == impl {
			for i, q := range impl.Params {
				if ssa.Value(q) == sinkP && i < len(call.Call.Args) {
					return isWriterSink(recv, call.Call.Args[i])
				}
			}
		}
		return false
	}
	// every Encode error is returned
	nEnc := 0
	isEncodeLike := map[ssa.Instruction]bool{}
	// propagates: from the failure edge of `call` (an Encode, or a helper that
	// returns the Encode error) every path of fn returns that error; if fn is
	// itself a helper of WriteEntries the same is required of its call site
	var propagates func(fn *ssa.Function, call *ssa.Call, what string)
	propagates = func(fn *ssa.Function, call *ssa.Call, what string) {
		isEncodeLike[call] = true
		ev := saveErr(call)
		returnsIt := func(x ssa.Instruction) bool {
			r, ok := x.(*ssa.Return)
			if !ok {
				return false
			}
			rv := eng.RetVals(r)
			return eng.Same(rv[len(rv)-1], ev) || nonNilAt(rv[len(rv)-1], eng.FactsAt(r)) == eng.Yes
		}
		hit, path := eng.Search(fn, call, eng.AssumeErr(ev, false), returnsIt, func(x ssa.Instruction) bool {
			if _, ok := x.(*ssa.Return); ok {
				return !returnsIt(x)
			}
			// carrying on (another record, or the sync) after a failed Encode
			if c2, ok := x.(*ssa.Call); ok {
				if eng.CalleeIs(&c2.Call, "encoding/json", "*Encoder.Encode") || eng.Callee(&c2.Call) == syn || eng.Callee(&c2.Call) == impl || isEncodeLike[c2] {
					return true
				}
			}
			return false
		})
		c.Check(hit == nil, "R-C06-6", fn, call.Pos(), "Encode error of "+what, "an Encode error is returned to the caller", func() string {
			if hit == nil {
				return ""
			}
			return eng.InstrStr(hit) + " at " + c.P.Pos(hit.Pos()) + " is reached after the failed Encode without returning its error: " + c.P.PathStr(path)
		}())
		// the error is tested or returned at all
		tested := false
		eng.Instrs(fn, func(x ssa.Instruction) {
			if ifi, ok := x.(*ssa.If); ok {
				if v, _, isE := eng.CondOf(ifi.Cond, true).ErrCheck(); isE && eng.Same(v, ev) {
					tested = true
				}
			}
			if r, ok := x.(*ssa.Return); ok {
				rv := eng.RetVals(r)
				if len(rv) > 0 && eng.Same(rv[len(rv)-1], ev) {
					tested = true
				}
			}
		})
		c.Check(tested, "R-C06-6", fn, call.Pos(), "Encode error tested", "the Encode error is tested (or handed straight to the caller)", "result unused")
		if fn != we {
			if cs, ok := eng.UniqueCallSite(fn).(*ssa.Call); ok && cs != nil {
				propagates(cs.Parent(), cs, what+" (through "+eng.FName(fn)+")")
			} else {
				c.Undecided("R-C06-6", fn, call.Pos(), "Encode call in "+eng.FName(fn), "not in WriteEntries nor in a helper called from exactly one place")
			}
		}
	}
	eng.InstrsDeep(we, func(fn *ssa.Function, in ssa.Instruction) {
		call, ok := in.(*ssa.Call)
		if !ok || !eng.CalleeIs(&call.Call, "encoding/json", "*Encoder.Encode") {
			return
		}
		nEnc++
		// the encoder is the Writer's own
		fr, base, isF := eng.LoadedField(call.Call.Args[0])
		c.Check(isF && fr.Is("audit", "Writer", auditField(p, "enc")) && eng.OriginX(base) == eng.OriginX(we.Params[0]), "R-C06-6", fn, in.Pos(), "encoder used by "+eng.CallStr(&call.Call), "the Writer's own encoder", "encoder is "+eng.ValStr(call.Call.Args[0]))
		propagates(fn, call, eng.CallStr(&call.Call))
	})
	if nEnc == 0 {
		c.Bad("R-C06-6", we, we.Pos(), "Encode call", "entries are written with the Writer's json.Encoder (one Write per record)", "no Encoder.Encode call found")
	}
	// every return whose value may be nil is the result of l.Sync()
	for _, r := range eng.Returns(we) {
		rv := eng.RetVals(r)
		if nonNilAt(rv[0], eng.FactsAt(r)) == eng.Yes {
			continue
		}
		call, _ := eng.TupleCall(rv[0])
		ok := isSyncOf(call, we.Params[0])
		c.Check(ok, "R-C06-6", we, r.Pos(), eng.InstrStr(r), "success is reported only as the result of l.Sync() (record synced before the caller proceeds)", "returns "+eng.ValStr(rv[0]))
	}
	// Sync forwards to the sink's Sync when it has one
	okSync := false
	eng.Instrs(impl, func(in ssa.Instruction) {
		r, ok := in.(*ssa.Return)
		if !ok {
			return
		}
		rv := eng.RetVals(r)
		call, _ := eng.TupleCall(rv[0])
		if call == nil || !call.Call.IsInvoke() || call.Call.Method.Name() != "Sync" {
			return
		}
		// receiver: a field of the Writer that New filled with the sink viewed
		// through an interface having Sync (the assertion hoisted into New) ...
		if fr, base, isF := eng.LoadedField(call.Call.Value); impl == syn && isF && eng.IsNamed(fr.Owner, "audit", "Writer") && eng.Origin(base) == syn.Params[0] {
			for _, a := range eng.FieldAccesses(nw) {
				if a.Kind != "store" || a.Field.Name != fr.Name || !eng.IsNamed(a.Field.Owner, "audit", "Writer") {
					continue
				}
				st := a.In.(*ssa.Store)
				v := eng.Origin(st.Val)
				if ex, isEx := v.(*ssa.Extract); isEx && ex.Index == 0 {
					v = ex.Tuple
				}
				if ta, isTA := v.(*ssa.TypeAssert); isTA && eng.Origin(ta.X) == ssa.Value(nw.Params[0]) {
					if iface, _ := ta.AssertedType.Underlying().(*types.Interface); iface != nil && iface.NumMethods() == 1 && iface.Method(0).Name() == "Sync" {
						okSync = true
					}
				}
			}
			return
		}
		// ... or extract#0 of typeassert,ok l.w
		ex, ok := call.Call.Value.(*ssa.Extract)
		if !ok {
			return
		}
		ta, ok := ex.Tuple.(*ssa.TypeAssert)
		if !ok {
			return
		}
		if (impl == syn && isWriterSink(syn.Params[0], ta.X)) || (impl != syn && eng.Origin(ta.X) == sinkP) {
			iface, _ := ta.AssertedType.Underlying().(*types.Interface)
			if iface != nil && iface.NumMethods() == 1 && iface.Method(0).Name() == "Sync" {
				okSync = true
			}
		}
	})
	c.Check(okSync, "R-C06-6", syn, syn.Pos(), "Writer.Sync forwards to the sink", "returns l.w.(interface{Sync() error}).Sync() when the sink has one", "no such forwarding return found")
	// ... and never swallows the sink's error: from each sink Sync call, on its error edge no nil return is reachable
	eng.Instrs(impl, func(in ssa.Instruction) {
		call, ok := in.(*ssa.Call)
		if !ok || !call.Call.IsInvoke() || call.Call.Method.Name() != "Sync" {
			return
		}
		hit, path := eng.Search(impl, call, eng.AssumeErr(call, false), nil, func(x ssa.Instruction) bool {
			r, isR := x.(*ssa.Return)
			if !isR {
				return false
			}
			rv := eng.RetVals(r)
			return !(eng.Same(rv[0], call) || nonNilAt(rv[0], eng.FactsAt(r)) == eng.Yes)
		})
		c.Check(hit == nil, "R-C06-6", syn, in.Pos(), "error of the sink's Sync", "returned to the caller whatever its kind (the record is acknowledged only when synced; an fsync error fails the request)", func() string {
			if hit == nil {
				return ""
			}
			return "return at " + c.P.Pos(hit.Pos()) + " may report success after a failed sync: " + c.P.PathStr(path)
		}())
	})
	// New: encoder built directly on the synced sink
	okNew := false
	detail := ""
	eng.Instrs(nw, func(in ssa.Instruction) {
		al, ok := in.(*ssa.Alloc)
		if !ok || !eng.IsNamed(al.Type(), "audit", "Writer") {
			return
		}
		fields, _, ok := eng.LiteralFields(al)
		if !ok {
			return
		}
		wv := fields[auditField(p, "w")]
		encCall, _ := eng.TupleCall(fields[auditField(p, "enc")])
		if wv != nil && encCall != nil && eng.CalleeIs(&encCall.Call, "encoding/json", "NewEncoder") && eng.Same(encCall.Call.Args[0], wv) && eng.Origin(wv) == nw.Params[0] {
			okNew = true
		} else if wv == nil && okSync && encCall != nil && eng.CalleeIs(&encCall.Call, "encoding/json", "NewEncoder") && eng.Origin(encCall.Call.Args[0]) == ssa.Value(nw.Params[0]) {
			// the sink itself is not kept: the encoder is over New's argument,
			// and what Sync syncs is that same argument (checked above)
			okNew = true
		} else {
			detail = "w = " + eng.ValStr(wv) + ", enc = " + eng.ValStr(fields[auditField(p, "enc")])
		}
	})
	c.Check(okNew, "R-C06-6", nw, nw.Pos(), "audit.New wiring", "enc = json.NewEncoder(w) on the same w that Sync syncs, w being New's argument (no buffering layer)", detail)
	// the record written is the entry the store handed in: the writer fills in
	// ID and Time (as documented) and touches no other field of it
	nSet := 0
	for _, f := range p.PkgFuncs("audit") {
		for _, a := range eng.FieldAccesses(f) {
			if !a.Write || !(eng.IsNamed(a.Field.Owner, "audit", "Entry") || eng.IsNamed(a.Field.Owner, "audit", "Principal")) || freshBase(a.Base) {
				continue
			}
			nSet++
			okk := eng.IsNamed(a.Field.Owner, "audit", "Entry") && (a.Field.Name == "ID" || a.Field.Name == "Time")
			c.Check(okk, "R-C06-11", f, a.In.Pos(), "audit writer sets Entry."+a.Field.Name, "the writer only stamps ID and Time; principal, action, secret name, version and authorization are recorded exactly as the store supplied them (never shortened, normalised or dropped)", "field "+a.Field.Name+" rewritten in "+eng.FName(f))
		}
	}
	if nSet == 0 {
		c.Ok("R-C06-11", we, we.Pos(), "fields of Entry written in package audit", "none")
	}
	// no bufio in package audit
	for _, f := range p.PkgFuncs("audit") {
		eng.Instrs(f, func(in ssa.Instruction) {
			if ci, ok := in.(ssa.CallInstruction); ok {
				if cal := ci.Common().StaticCallee(); cal != nil && cal.Pkg != nil && cal.Pkg.Pkg.Path() == "bufio" {
					c.Bad("R-C06-6", f, in.Pos(), eng.CallStr(ci.Common()), "no buffering layer between the encoder and the audit sink", "bufio used")
				}
			}
		})
	}
}

// c06File: R-C06-7.
func c06File(c *eng.Ctx) {
	n := 0
	for _, f := range c.P.PkgFuncs("audit") {
		eng.Instrs(f, func(in ssa.Instruction) {
			call, ok := in.(*ssa.Call)
			if !ok || !isFileMutatingCall(&call.Call) {
				return
			}
			n++
			if !eng.CalleeIs(&call.Call, "os", "OpenFile") {
				c.Bad("R-C06-7", f, in.Pos(), eng.CallStr(&call.Call), "the audit file is opened with os.OpenFile(O_WRONLY|O_APPEND|O_CREATE, owner-only)", "different file-creating call")
				return
			}
			flags, ok1 := eng.ConstInt(call.Call.Args[1])
			mode, ok2 := eng.ConstInt(call.Call.Args[2])
			const oAppend, oTrunc, oCreate, oWronly = 0x400, 0x200, 0x40, 0x1
			okk := ok1 && ok2 && flags&oAppend != 0 && flags&oTrunc == 0 && flags&oCreate != 0 && flags&oWronly != 0 && mode&0o077 == 0
			c.Check(okk, "R-C06-7", f, in.Pos(), eng.CallStr(&call.Call), "flags contain O_APPEND|O_CREATE|O_WRONLY, not O_TRUNC; constant mode without group/other bits", "flags="+eng.ValStr(call.Call.Args[1])+" mode="+eng.ValStr(call.Call.Args[2]))
		})
	}
	if n == 0 {
		c.Undecided("R-C06-7", nil, 0, "audit file creation", "no file-creating call in package audit")
	}
	// the sink a file-backed writer is built on can be synced: Writer.Sync
	// finds Sync by a type assertion, which a wrapper around the file silently
	// defeats (records would be acknowledged without reaching the disk)
	nw := c.P.Func("audit", "New")
	for _, f := range c.P.PkgFuncs("audit") {
		opens := false
		eng.Instrs(f, func(in ssa.Instruction) {
			if call, ok := in.(*ssa.Call); ok && eng.CalleeIs(&call.Call, "os", "OpenFile") {
				opens = true
			}
		})
		if !opens || nw == nil {
			continue
		}
		eng.Instrs(f, func(in ssa.Instruction) {
			call, ok := in.(*ssa.Call)
			if !ok || eng.Callee(&call.Call) != nw || len(call.Call.Args) != 1 {
				return
			}
			var dyn types.Type
			if mi, isMI := call.Call.Args[0].(*ssa.MakeInterface); isMI {
				dyn = mi.X.Type()
			} else {
				dyn = call.Call.Args[0].Type()
			}
			hasSync := false
			ms := c.P.SSA.MethodSets.MethodSet(dyn)
			for i := 0; i < ms.Len(); i++ {
				if ms.At(i).Obj().Name() == "Sync" {
					if sg, isSig := ms.At(i).Type().(*types.Signature); isSig && sg.Params().Len() == 0 && sg.Results().Len() == 1 && eng.IsErrorType(sg.Results().At(0).Type()) {
						hasSync = true
					}
				}
			}
			c.Check(hasSync, "R-C06-7", f, in.Pos(), "sink of the file-backed writer: "+eng.TypeShort(dyn), "a type with Sync() error (the file itself): every record is fsynced before it is acknowledged", "the method set of "+eng.TypeShort(dyn)+" has no Sync() error")
		})
	}
}

// c06Principal: R-C06-8.
func c06Principal(c *eng.Ctx) {
	f := anchor(c.P, "server", "(*Server).getIdentity")
	if f == nil {
		c.Undecided("R-C06-8", nil, 0, "server.(*Server).getIdentity", "anchor does not resolve")
		return
	}
	isRemoteAddr := func(v ssa.Value) bool { return isRequestAddr(f, v) }
	var whois, parse *ssa.Call
	eng.InstrsDeep(f, func(_ *ssa.Function, in ssa.Instruction) {
		call, ok := in.(*ssa.Call)
		if !ok {
			return
		}
		if eng.CalleeIs(&call.Call, "net/netip", "ParseAddrPort") {
			parse = call
		}
		if fr, _, ok := eng.LoadedField(call.Call.Value); ok && fr.Is("server", "Server", "whois") {
			whois = call
		}
	})
	if whois == nil || parse == nil {
		c.Undecided("R-C06-8", f, f.Pos(), "whois / ParseAddrPort calls", "not found")
		return
	}
	c.Check(isRemoteAddr(parse.Call.Args[0]), "R-C06-8", f, parse.Pos(), eng.CallStr(&parse.Call), "parses the request's own RemoteAddr", "argument "+eng.ValStr(parse.Call.Args[0]))
	c.Check(len(whois.Call.Args) == 2 && isRemoteAddr(whois.Call.Args[1]), "R-C06-8", f, whois.Pos(), eng.CallStr(&whois.Call), "WhoIs is asked about the request's own RemoteAddr", "argument "+eng.ValStr(whois.Call.Args[len(whois.Call.Args)-1]))
	// stores to Principal fields
	var who ssa.Value
	if refs := whois.Referrers(); refs != nil {
		for _, rr := range *refs {
			if ex, ok := rr.(*ssa.Extract); ok && ex.Index == 0 {
				who = ex
			}
		}
	}
	fromWho := func(v ssa.Value, path ...string) bool {
		// v is a load of who.<path...>
		cur := eng.Origin(v)
		for i := len(path) - 1; i >= 0; i-- {
			fr, base, ok := eng.LoadedField(cur)
			if !ok || fr.Name != path[i] {
				return false
			}
			cur = eng.Origin(base)
		}
		return eng.SameX(cur, who)
	}
	// (the principal may be filled in by a helper of getIdentity)
	var accs []eng.Access
	seenFn := map[*ssa.Function]bool{}
	eng.InstrsDeep(f, func(g *ssa.Function, _ ssa.Instruction) {
		if !seenFn[g] {
			seenFn[g] = true
			accs = append(accs, eng.FieldAccesses(g)...)
		}
	})
	for _, a := range accs {
		if !a.Write || a.Kind != "store" || !eng.IsNamed(a.Field.Owner, "audit", "Principal") {
			continue
		}
		st := a.In.(*ssa.Store)
		ok := false
		want := ""
		switch a.Field.Name {
		case "IP":
			want = "the address parsed from r.RemoteAddr"
			if call, _ := eng.TupleCall(eng.OriginX(st.Val)); call != nil && eng.CalleeIs(&call.Call, "net/netip", "AddrPort.Addr") {
				if pc, idx := eng.TupleCall(call.Call.Args[0]); pc == parse && idx == 0 {
					ok = true
				}
			}
		case "Hostname":
			want = "who.Node.Name"
			ok = fromWho(st.Val, "Node", "Name")
		case "Tags":
			want = "who.Node.Tags"
			ok = fromWho(st.Val, "Node", "Tags")
		case "User":
			want = "who.UserProfile.LoginName"
			ok = fromWho(st.Val, "UserProfile", "LoginName")
		default:
			want = "a documented principal field"
		}
		c.Check(ok, "R-C06-8", f, a.In.Pos(), "Principal."+a.Field.Name+" = "+eng.ValStr(st.Val), want, "")
	}
	c.Floor("R-C06-8", 5)
}

// auditEntriesOf returns the entries handed to the audit log by call: the
// variadic arguments of WriteEntries, or the *audit.Entry argument(s) of a
// wrapper of the package around it.
func auditEntriesOf(call *ssa.Call, we *ssa.Function) []ssa.Value {
	if eng.Callee(&call.Call) == we {
		pa := eng.Path{Blocks: []*ssa.BasicBlock{call.Block()}}
		elems, _ := pa.SliceElems(call.Call.Args[len(call.Call.Args)-1])
		return elems
	}
	var out []ssa.Value
	for _, a := range call.Call.Args {
		if pt, ok := a.Type().(*types.Pointer); ok && eng.IsNamed(pt.Elem(), "audit", "Entry") {
			out = append(out, a)
		}
	}
	return out
}

// mayBeNotChanged: v is api.ErrValueNotChanged, or the error result of a
// helper of the operation that can return it.
func mayBeNotChanged(fn *ssa.Function, v ssa.Value, depth int) bool {
	if eng.IsGlobalLoad(v, "types/api", "ErrValueNotChanged") {
		return true
	}
	if depth > 2 {
		return false
	}
	call, _ := eng.TupleCall(v)
	if call == nil {
		return false
	}
	h := eng.Callee(&call.Call)
	if !eng.IsHelper(fn, h) {
		return false
	}
	ei := errResultIndex(h)
	if ei < 0 {
		return false
	}
	for _, r := range eng.Returns(h) {
		if mayBeNotChanged(h, eng.RetVals(r)[ei], depth+1) {
			return true
		}
	}
	return false
}
