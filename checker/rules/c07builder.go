package rules

import (
	"go/token"
	"strings"

	"golang.org/x/tools/go/ssa"

	"setecvet/eng"
)

// builderChain recognises the strings.Builder form of the glob translation:
//
//	var b strings.Builder
//	b.WriteString(P)                        // constants, each exactly once, before the loop
//	for i, part := range strings.Split(pattern, SEP) {
//		if i > 0 { b.WriteString(W) }   // exactly on the iterations after the first
//		b.WriteString(regexp.QuoteMeta(part)) // on every iteration, after W
//	}
//	b.WriteString(S)                        // constants, each exactly once, after the loop
//	regexp.MustCompile(b.String())
//
// which builds exactly Sprintf(P+"%s"+S, Join(map(QuoteMeta, Split(pattern, SEP)), W)).
// It returns the equivalent format, W and SEP; detail says why the form was
// not recognised (then nothing is claimed).
func builderChain(cf *ssa.Function, patV ssa.Value, arg ssa.Value) (format, wild, sep string, ok bool, detail string) {
	sc, _ := eng.TupleCall(arg)
	if sc == nil || !isBuilderMethod(&sc.Call, "String") {
		return "", "", "", false, "not (*strings.Builder).String()"
	}
	b, isAl := sc.Call.Args[0].(*ssa.Alloc)
	if !isAl {
		return "", "", "", false, "the builder is not a local variable"
	}
	type write struct {
		call  *ssa.Call
		text  string
		isK   bool
		quote *ssa.Call
	}
	var writes []write
	for _, r := range *b.Referrers() {
		switch u := r.(type) {
		case *ssa.DebugRef:
		case *ssa.Call:
			switch {
			case u == sc:
			case isBuilderMethod(&u.Call, "WriteString") && u.Call.Args[0] == ssa.Value(b):
				w := write{call: u}
				if k, isK := eng.ConstString(u.Call.Args[1]); isK {
					w.text, w.isK = k, true
				} else if q, _ := eng.TupleCall(u.Call.Args[1]); q != nil && eng.CalleeIs(&q.Call, "regexp", "QuoteMeta") {
					w.quote = q
				} else {
					return "", "", "", false, "a piece is written that is neither a constant nor regexp.QuoteMeta(...): " + eng.InstrStr(u)
				}
				writes = append(writes, w)
			case (isBuilderMethod(&u.Call, "Grow") || isBuilderMethod(&u.Call, "Len")) && u.Call.Args[0] == ssa.Value(b):
			default:
				return "", "", "", false, "the builder is used in another way: " + eng.InstrStr(u)
			}
		default:
			return "", "", "", false, "the builder is used in another way: " + eng.InstrStr(r)
		}
	}
	// the loop over Split(pattern, SEP)
	var loop *eng.RangeLoop
	for _, l := range eng.RangeLoops(cf) {
		spl, _ := eng.TupleCall(l.Slice)
		if spl == nil || !eng.CalleeIs(&spl.Call, "strings", "Split") {
			continue
		}
		s2, isK := eng.ConstString(spl.Call.Args[1])
		if !isK || eng.OriginConv(spl.Call.Args[0]) != patV {
			continue
		}
		l := l
		loop, sep = &l, s2
	}
	if loop == nil {
		return "", "", "", false, "no full-range loop over strings.Split(pattern, constant)"
	}
	inAnyLoop := func(bl *ssa.BasicBlock) bool {
		// a block that can reach itself again
		seen := map[*ssa.BasicBlock]bool{}
		work := append([]*ssa.BasicBlock{}, bl.Succs...)
		for len(work) > 0 {
			x := work[0]
			work = work[1:]
			if x == bl {
				return true
			}
			if seen[x] {
				continue
			}
			seen[x] = true
			work = append(work, x.Succs...)
		}
		return false
	}
	var pre, post []write
	var sepW, quoteW *write
	for i := range writes {
		w := &writes[i]
		bl := w.call.Block()
		switch {
		case loop.InLoop(bl) && bl != loop.Header:
			if w.isK {
				if sepW != nil {
					return "", "", "", false, "more than one constant written inside the loop"
				}
				sepW = w
			} else {
				if quoteW != nil {
					return "", "", "", false, "more than one quoted piece written inside the loop"
				}
				quoteW = w
			}
		case !w.isK:
			return "", "", "", false, "a quoted piece is written outside the loop over the pieces"
		case bl.Dominates(loop.Header) && !inAnyLoop(bl) && bl.Dominates(sc.Block()):
			pre = append(pre, *w)
		case loop.Done.Dominates(bl) && !inAnyLoop(bl) && bl.Dominates(sc.Block()):
			post = append(post, *w)
		default:
			return "", "", "", false, "a constant is written conditionally or repeatedly outside the loop: " + eng.InstrStr(w.call)
		}
	}
	if quoteW == nil || sepW == nil {
		return "", "", "", false, "the loop does not write both a separator and the quoted piece"
	}
	if !loop.ElemOf(quoteW.quote.Call.Args[0]) {
		return "", "", "", false, "QuoteMeta is not applied to the loop's own element"
	}
	if !loop.Done.Dominates(sc.Block()) {
		return "", "", "", false, "String() is not taken after the loop has finished"
	}
	isInst := func(x ssa.Instruction) func(ssa.Instruction) bool {
		return func(in ssa.Instruction) bool { return in == x }
	}
	leaves := func(in ssa.Instruction) bool { return in.Block() == loop.Header || eng.IsReturn(in) }
	// the quoted piece is written on every iteration
	if loop.Body.Instrs[0] != ssa.Instruction(quoteW.call) {
		if hit, _ := eng.SearchBlock(cf, loop.Body, nil, isInst(quoteW.call), leaves); hit != nil {
			return "", "", "", false, "an iteration can skip writing its quoted piece"
		}
	}
	// the separator precedes the piece within an iteration
	if hit, _ := eng.Search(cf, quoteW.call, nil, leaves, isInst(sepW.call)); hit != nil {
		return "", "", "", false, "the separator can be written after the piece of the same iteration"
	}
	// the separator is written exactly on iterations with index > 0
	idxPositive := func(cd eng.Cond) (yes, known bool) {
		op, x, y, isCmp := cd.Cmp()
		if !isCmp {
			return false, false
		}
		if eng.Origin(y) == loop.Idx {
			x, y, op = y, x, eng.SwapOp(op)
		}
		if eng.Origin(x) != loop.Idx {
			return false, false
		}
		k, isK := eng.ConstInt(y)
		if !isK {
			return false, false
		}
		switch {
		case op == token.GTR && k == 0, op == token.NEQ && k == 0, op == token.GEQ && k == 1:
			return true, true
		case op == token.LEQ && k == 0, op == token.EQL && k == 0, op == token.LSS && k == 1:
			return false, true
		}
		return false, false
	}
	under := false
	for _, cd := range eng.FactsAt(sepW.call) {
		if yes, known := idxPositive(cd); known && yes {
			under = true
		}
	}
	if !under {
		return "", "", "", false, "the separator is not written under index > 0 (a leading separator would be added)"
	}
	assumePositive := func(bl *ssa.BasicBlock, i int) bool {
		ifi, isIf := bl.Instrs[len(bl.Instrs)-1].(*ssa.If)
		if !isIf {
			return true
		}
		yes, known := idxPositive(eng.CondOf(ifi.Cond, i == 0))
		return !known || yes
	}
	if hit, _ := eng.SearchBlock(cf, loop.Body, assumePositive, isInst(sepW.call), isInst(quoteW.call)); hit != nil || loop.Body.Instrs[0] == ssa.Instruction(quoteW.call) {
		return "", "", "", false, "an iteration after the first can write its piece without the separator"
	}
	// order of the constants before / after the loop: by dominance
	order := func(ws []write) (string, bool) {
		for i := 0; i < len(ws); i++ {
			for j := i + 1; j < len(ws); j++ {
				if eng.InstrDominates(ws[j].call, ws[i].call) {
					ws[i], ws[j] = ws[j], ws[i]
				}
			}
		}
		var sb strings.Builder
		for i, w := range ws {
			if i > 0 && !eng.InstrDominates(ws[i-1].call, w.call) {
				return "", false
			}
			sb.WriteString(strings.ReplaceAll(w.text, "%", "%%"))
		}
		return sb.String(), true
	}
	p, ok1 := order(pre)
	s, ok2 := order(post)
	if !ok1 || !ok2 {
		return "", "", "", false, "the constants around the loop are not written in one fixed order"
	}
	return p + "%s" + s, sepW.text, sep, true, ""
}

func isBuilderMethod(cc *ssa.CallCommon, name string) bool {
	cal := cc.StaticCallee()
	if cal == nil || cal.Name() != name || cal.Signature.Recv() == nil {
		return false
	}
	return eng.IsNamed(cal.Signature.Recv().Type(), "strings", "Builder")
}
