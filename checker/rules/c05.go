package rules

import (
	"go/token"
	"go/types"
	"strings"

	"golang.org/x/tools/go/ssa"

	"setecvet/eng"
)

func init() {
	register(&Prop{
		ID: "C05",
		Explanation: "Decides structural necessary conditions of C05: (R-C05-1) taint: secret bytes (the value parameter of put, PutRequest.Value, SecretValue.Value, elements of the version maps, the decrypted buffer, the marshalled plaintext) reach no log, error text, http.Error, metrics label, audit record field or file write in packages db, server and audit; the only way to the file is through dekCipher.Encrypt; " +
			"(R-C05-2) what reaches the file is Marshal(wrapped{Version, DEK, DB}) with exactly those three fields -- no plaintext index, no names (shares R-C03-2/4); (R-C05-3) every file- or directory-creating call in non-test code has a constant mode without group/other bits, and os.Create/os.WriteFile-style calls with laxer defaults do not occur; " +
			"(R-C05-4) all four AEAD operations pass associated data obtained from aeadContextDEK/aeadContextDB (never nil), reader and writer agree, and the read path feeds the checked wrapped.Version; (R-C05-5) authenticated load: the kv is constructed only past the schema version test and the nil-error edges of ReadWithAssociatedData(.., kek, ..) and of Decrypt, and its secrets are exactly what was decoded from the Decrypt result; " +
			"(R-C05-6) the key-encryption key is used only while opening/creating: the tink.AEAD parameter of Open flows only to Read/WriteWithAssociatedData and the field kv.kekCipher, that field is never read, and no AEAD other than kv.dekCipher is invoked by anything reachable from a db.DB operation; (R-C05-7) audit.Entry and Principal have no field able to hold secret bytes other than the secret's name. (R-C05-6, extended) package server never invokes a tink.AEAD itself, and the key-encryption-key parameters are found by flow from the exported entry points of package db.",
		NotDecided:  "Cryptographic strength of the AEAD and behaviour under bit flips/truncation (tink's contract, trusted); scanning real files.",
		Trusted:     append([]string{"tink AEAD: authenticated encryption, associated data is bound", "keyset.ReadWithAssociatedData fails for a wrong KEK"}, commonTrusted...),
		Assumptions: []string{"external callees do not retain and later leak their arguments"},
		Run:         runC05,
	})
}

func isByteSlice(t types.Type) bool {
	sl, ok := t.Underlying().(*types.Slice)
	return ok && types.Identical(sl.Elem(), types.Typ[types.Byte])
}

func runC05(c *eng.Ctx, tier string) {
	if tier == "thorough" {
		defer thoroughC05(c)
	}
	p := c.P
	k := loadKV(c)
	if k == nil {
		return
	}
	// R-C05-8: a damaged file is an error, never a reason to start afresh:
	// opening creates a database only when no file exists (C03's rule)
	includeOnly(c, "R-C05-8", func(sc *eng.Ctx) { runC03(sc, "quick") }, "R-C03-3")
	// R-C05-1 taint
	scopePkgs := map[*types.Package]bool{}
	for _, rel := range []string{"db", "server", "audit", "types/api"} {
		if tp := p.TypesPkg(rel); tp != nil {
			scopePkgs[tp] = true
		}
	}
	inScope := func(f *ssa.Function) bool { return f != nil && scopePkgs[eng.FuncPkg(f)] }
	var sources []ssa.Value
	srcDesc := map[ssa.Value]string{}
	addSrc := func(v ssa.Value, d string) {
		sources = append(sources, v)
		srcDesc[v] = d
	}
	for _, f := range p.AllFuncs() {
		if !inScope(f) {
			continue
		}
		if eng.FuncPkg(f) == p.TypesPkg("db") {
			for _, prm := range f.Params {
				// the secret bytes enter package db as the []byte parameter of a DB / kv method
				if isByteSlice(prm.Type()) && (recvIs(f, "db", "DB") || recvIs(f, "db", "kv")) {
					addSrc(prm, "parameter "+prm.Name()+" of "+eng.FName(f))
				}
			}
		}
		eng.Instrs(f, func(in ssa.Instruction) {
			switch x := in.(type) {
			case *ssa.UnOp, *ssa.Field:
				if fr, _, ok := eng.LoadedField(x.(ssa.Value)); ok && fr.Name == "Value" && (eng.IsNamed(fr.Owner, "types/api", "SecretValue") || eng.IsNamed(fr.Owner, "types/api", "PutRequest")) {
					if _, isLoad := x.(*ssa.UnOp); isLoad || true {
						addSrc(x.(ssa.Value), "field "+eng.TypeShort(eng.Deref(fr.Owner))+".Value")
					}
				}
			case *ssa.Lookup:
				if mt, ok := x.X.Type().Underlying().(*types.Map); ok && eng.IsNamed(mt.Elem(), "db", "byteString") {
					addSrc(x, "element of a version map")
				}
			case *ssa.Next:
				if rg, ok := x.Iter.(*ssa.Range); ok {
					if mt, ok := rg.X.Type().Underlying().(*types.Map); ok && eng.IsNamed(mt.Elem(), "db", "byteString") {
						addSrc(x, "iteration over a version map")
					}
				}
			case *ssa.Call:
				if x.Call.IsInvoke() && x.Call.Method.Name() == "Decrypt" {
					addSrc(x, "decrypted database")
				}
				if eng.CalleeIs(&x.Call, "encoding/json", "Marshal") {
					if _, al, ok := eng.LiteralFields(eng.Origin(x.Call.Args[0])); ok && al != nil && eng.IsNamed(al.Type(), "db", dbTypeName(c.P, "persist")) {
						addSrc(x, "marshalled plaintext database")
					}
				}
			}
		})
	}
	sinkOf := func(in ssa.Instruction, v ssa.Value) (string, bool) {
		switch x := in.(type) {
		case ssa.CallInstruction:
			cc := x.Common()
			if cal := cc.StaticCallee(); cal != nil && cal.Pkg != nil {
				pp := cal.Pkg.Pkg.Path()
				switch {
				case pp == "log":
					return "log." + cal.Name(), true
				case pp == "fmt" && (strings.HasPrefix(cal.Name(), "Errorf") || strings.HasPrefix(cal.Name(), "Sprint") || strings.HasPrefix(cal.Name(), "Fprint") || strings.HasPrefix(cal.Name(), "Print")):
					return "fmt." + cal.Name(), true
				case pp == "errors" && cal.Name() == "New":
					return "errors.New", true
				case pp == "net/http" && cal.Name() == "Error":
					return "http.Error", true
				case pp == "tailscale.com/metrics":
					return "metrics label", true
				case isFileMutatingCall(cc):
					return "file write " + pp + "." + cal.Name(), true
				case pp == "os" && (cal.Name() == "Write" || cal.Name() == "WriteString"):
					return "file write", true
				}
			}
			// logging through a function-typed field (logf)
			if fr, _, ok := eng.LoadedField(cc.Value); ok && strings.Contains(strings.ToLower(fr.Name), "log") {
				return "log function " + fr.Name, true
			}
		case *ssa.Store:
			if x.Val == v {
				if fr, ok := eng.FieldOfAddr(x.Addr); ok && (eng.IsNamed(fr.Owner, "audit", "Entry") || eng.IsNamed(fr.Owner, "audit", "Principal")) {
					return "audit record field " + fr.Name, true
				}
			}
		}
		return "", false
	}
	hits := p.Taint(sources, eng.TaintCfg{
		Scope: inScope,
		Sink:  sinkOf,
		Sanitizer: func(cc *ssa.CallCommon) bool {
			if cc.IsInvoke() && cc.Method.Name() == "Encrypt" {
				return true // ciphertext
			}
			if b, ok := cc.Value.(*ssa.Builtin); ok && (b.Name() == "len" || b.Name() == "cap") {
				return true
			}
			return false
		},
	})
	for _, h := range hits {
		c.Bad("R-C05-1", h.Sink.Parent(), h.Sink.Pos(), h.What+": "+eng.InstrStr(h.Sink), "secret bytes reach no log, error text, HTTP error, metrics label, audit field or file except as ciphertext", "value derived from "+srcDesc[h.From]+" ("+eng.ValStr(h.From)+") flows here")
	}
	c.Check(len(sources) >= 8, "R-C05-1", nil, 0, "taint sources identified", "at least 8 (put value, request value, returned values, version-map reads, decrypted and marshalled plaintext)", itoa(len(sources))+" found")
	if len(hits) == 0 {
		c.Ok("R-C05-1", nil, 0, "taint from "+itoa(len(sources))+" sources in db/server/audit", "no sink reached")
	}

	// R-C05-2
	c03SaveContentRule(c, k, "R-C05-2")
	if w := p.Named("db", dbTypeName(c.P, "wrapped")); w != nil {
		got := eng.JSONShape(w)
		c.Check(got == sv1Wrapped, "R-C05-2", nil, w.Obj().Pos(), "fields of the on-disk wrapper", sv1Wrapped+" and nothing else (no plaintext index, no names)", "computed "+got)
	}

	// R-C05-3 permissions
	n3 := 0
	for _, rel := range []string{"db", "audit", "client/setec", "server", "cmd/setec"} {
		for _, f := range p.PkgFuncs(rel) {
			eng.Instrs(f, func(in ssa.Instruction) {
				ci, ok := in.(ssa.CallInstruction)
				if !ok || !isFileMutatingCall(ci.Common()) {
					return
				}
				cc := ci.Common()
				cal := cc.StaticCallee()
				name := cal.Pkg.Pkg.Path() + "." + cal.Name()
				var modeArg ssa.Value
				switch name {
				case "tailscale.com/atomicfile.WriteFile", "os.WriteFile", "os.OpenFile", "io/ioutil.WriteFile":
					modeArg = cc.Args[2]
				case "os.MkdirAll", "os.Mkdir", "os.Chmod":
					modeArg = cc.Args[1]
				case "os.Remove", "os.RemoveAll", "os.Rename":
					return
				case "os.Create", "os.CreateTemp", "os.MkdirTemp":
					n3++
					c.Bad("R-C05-3", f, in.Pos(), eng.CallStr(cc), "secret-bearing files are created with an explicit owner-only mode", name+" uses a default mode")
					return
				default:
					return
				}
				n3++
				mode, isC := eng.ConstInt(modeArg)
				c.Check(isC && mode&0o077 == 0, "R-C05-3", f, in.Pos(), eng.CallStr(cc), "constant mode without group/other bits", "mode "+eng.ValStr(modeArg))
			})
		}
	}
	if n3 < 4 {
		c.Undecided("R-C05-3", nil, 0, "file-creating calls", "fewer than 4 found")
	}

	// R-C05-4 / R-C05-5 on the open path
	c05Open(c, k)
	c03LoadedState(c, k, "R-C05-5")

	// R-C05-6 KEK
	c05KEK(c, k)

	// R-C05-7
	for _, tn := range []string{"Entry", "Principal"} {
		n := p.Named("audit", tn)
		if n == nil {
			c.Undecided("R-C05-7", nil, 0, "audit."+tn, "anchor does not resolve")
			continue
		}
		st := n.Underlying().(*types.Struct)
		for i := 0; i < st.NumFields(); i++ {
			f := st.Field(i)
			ok := true
			switch {
			case f.Name() == "Secret" || f.Name() == "Hostname" || f.Name() == "User" || f.Name() == "Tags":
				// names and identity strings, by design
			case eng.IsNamed(f.Type(), "audit", "Principal"), eng.IsNamed(f.Type(), "acl", "Action"), eng.IsNamed(f.Type(), "time", "Time"), eng.IsNamed(f.Type(), "net/netip", "Addr"):
			default:
				ok = !canCarryBytes(f.Type(), 0)
			}
			c.Check(ok, "R-C05-7", nil, f.Pos(), "field audit."+tn+"."+f.Name()+" "+eng.TypeShort(f.Type()), "audit records have no field that could hold a secret value", "type can carry bytes")
		}
	}
}

func c05Open(c *eng.Ctx, k *kvAnalysis) {
	p := c.P
	for f := range dbReaders(c) {
		var readKS, decrypt, newAEAD *ssa.Call
		var verIf *ssa.If
		root := f
		// the chain may be spread over helpers of the reading function
		eng.InstrsDeep(f, func(_ *ssa.Function, in ssa.Instruction) {
			switch x := in.(type) {
			case *ssa.Call:
				if cal := x.Call.StaticCallee(); cal != nil && cal.Name() == "ReadWithAssociatedData" {
					readKS = x
				}
				if cal := x.Call.StaticCallee(); cal != nil && cal.Pkg != nil && strings.HasSuffix(cal.Pkg.Pkg.Path(), "/aead") && cal.Name() == "New" {
					newAEAD = x
				}
				if x.Call.IsInvoke() && x.Call.Method.Name() == "Decrypt" {
					decrypt = x
				}
			case *ssa.If:
				if _, xx, _, ok := eng.CondOf(x.Cond, true).Cmp(); ok {
					if fr, _, isF := eng.LoadedField(xx); isF && fr.Is("db", dbTypeName(c.P, "wrapped"), "Version") {
						verIf = x
					}
				}
			}
		})
		if readKS == nil || decrypt == nil || newAEAD == nil {
			c.Bad("R-C05-5", f, f.Pos(), "open path of "+f.Name(), "DEK = ReadWithAssociatedData(reader, kek, ctx); cipher = aead.New(DEK); clear = cipher.Decrypt(DB, ctx)", "chain not found")
			continue
		}
		// chain: decrypt receiver = aead.New(dek), dek = readKS#0, kek argument = f's tink.AEAD parameter
		var kekP *ssa.Parameter
		for _, prm := range root.Params {
			if eng.IsNamed(prm.Type(), "github.com/tink-crypto/tink-go/v2/tink", "AEAD") {
				kekP = prm
			}
		}
		f = decrypt.Parent()
		// (a link may pass through the result of a helper that builds it)
		via := func(v ssa.Value) ssa.Value {
			if inner, _ := eng.ThroughHelper(v, func(g *ssa.Function) bool { return eng.IsHelper(f, g) }); inner != nil {
				return inner
			}
			return v
		}
		okChain := eng.SameX(via(decrypt.Call.Value), firstResult(newAEAD)) && eng.SameX(via(newAEAD.Call.Args[0]), firstResult(readKS)) && kekP != nil && eng.OriginX(readKS.Call.Args[1]) == eng.OriginX(kekP)
		c.Check(okChain, "R-C05-5", f, decrypt.Pos(), "decryption chain in "+f.Name(), "the database is decrypted with the cipher of the DEK that the caller's key-encryption key unwrapped", "")
		// versions fed to the contexts are the checked wrapped.Version
		for _, call := range []*ssa.Call{readKS, decrypt} {
			ctxArg := call.Call.Args[len(call.Call.Args)-1]
			// the context evaluates to text with the version as its only
			// variable part: the schema constant, or the stored version after
			// it was tested (possibly before the helper holding this call was entered)
			tmpl, vars, okT := eng.StrTemplate(ctxArg)
			okCtx := okT && tmpl != ""
			for _, vv := range vars {
				fr, _, isF := eng.LoadedField(eng.OriginX(vv))
				tested := false
				if isF && fr.Is("db", dbTypeName(c.P, "wrapped"), "Version") {
					for _, cond := range eng.FactsX(call) {
						if _, xx, _, isCmp := cond.Cmp(); isCmp && verIf != nil {
							if fr2, _, isF2 := eng.LoadedField(xx); isF2 && fr2.Is("db", dbTypeName(c.P, "wrapped"), "Version") {
								tested = true
							}
						}
					}
				}
				if !tested {
					okCtx = false
				}
			}
			c.Check(okCtx && !eng.IsNilConst(eng.Origin(ctxArg)), "R-C05-4", f, call.Pos(), "associated data of "+eng.CallStr(&call.Call), "non-nil context built from the schema version that was checked first", "")
		}
		// the kv literal is dominated by version check and both nil errors
		eng.InstrsDeep(root, func(f *ssa.Function, in ssa.Instruction) {
			al, ok := in.(*ssa.Alloc)
			if !ok || !al.Heap || !eng.IsNamed(al.Type(), "db", "kv") {
				return
			}
			if hit, _ := eng.SearchX(root, nil, nil, nil, func(x ssa.Instruction) bool { return x == ssa.Instruction(decrypt) }); hit == nil {
				return
			}
			if f != decrypt.Parent() {
				return // the creating branch: judged by C04
			}
			var okKS, okDec, okVer bool
			for _, cond := range eng.FactsX(in) {
				if v, isNil, isE := cond.ErrCheck(); isE && isNil {
					// err is reassigned: compare through the call it came from
					if call, _ := eng.TupleCall(v); call != nil {
						if call == readKS {
							okKS = true
						}
						if call == decrypt {
							okDec = true
						}
					}
				}
				if op, xx, yy, isCmp := cond.Cmp(); isCmp && op == token.EQL {
					if fr, _, isF := eng.LoadedField(xx); isF && fr.Is("db", dbTypeName(c.P, "wrapped"), "Version") {
						if kk, isK := eng.ConstInt(yy); isK && kk == schemaConst(c) {
							okVer = true
						}
					}
				}
			}
			c.Check(okKS && okDec && okVer, "R-C05-5", f, in.Pos(), "construction of the kv in "+f.Name(), "edge-dominated by the schema version test and the nil errors of the DEK unwrap and of Decrypt (a wrong key or corrupted bytes never yields a store)", "unwrap-ok="+boolStr(okKS)+" decrypt-ok="+boolStr(okDec)+" version-ok="+boolStr(okVer))
		})
	}
	// writer side never nil either
	for _, f := range p.PkgFuncs("db") {
		eng.Instrs(f, func(in ssa.Instruction) {
			call, ok := in.(*ssa.Call)
			if !ok {
				return
			}
			isW := call.Call.IsInvoke() && call.Call.Method.Name() == "Encrypt"
			if cal := call.Call.StaticCallee(); cal != nil && cal.Name() == "WriteWithAssociatedData" {
				isW = true
			}
			if !isW {
				return
			}
			ctxArg := call.Call.Args[len(call.Call.Args)-1]
			cc, _ := eng.TupleCall(ctxArg)
			_ = cc
			tmpl, _, okT := eng.StrTemplate(ctxArg)
			okk := okT && (strings.HasPrefix(tmpl, "setec database v") || strings.HasPrefix(tmpl, "setec DEK v"))
			c.Check(okk, "R-C05-4", f, in.Pos(), "associated data of "+eng.CallStr(&call.Call), "a non-empty context naming the object and the schema version (\"setec database v..\" / \"setec DEK v..\")", "evaluates to \""+tmpl+"\"")
		})
	}
	c.Floor("R-C05-4", 4)
}

func firstResult(call *ssa.Call) ssa.Value {
	if call.Call.Signature().Results().Len() == 1 {
		return call
	}
	if refs := call.Referrers(); refs != nil {
		for _, r := range *refs {
			if ex, ok := r.(*ssa.Extract); ok && ex.Index == 0 {
				return ex
			}
		}
	}
	return call
}

func c05KEK(c *eng.Ctx, k *kvAnalysis) {
	p := c.P
	// the field holding the KEK is never read
	nR := 0
	for _, f := range p.PkgFuncs("db") {
		for _, a := range eng.FieldAccesses(f) {
			if a.Field.Is("db", "kv", "kekCipher") && !a.Write {
				nR++
				c.Bad("R-C05-6", f, a.In.Pos(), "read of kv.kekCipher", "the key-encryption key is not consulted after the database is open", "read in "+eng.FName(f))
			}
		}
	}
	if nR == 0 {
		c.Ok("R-C05-6", nil, 0, "reads of kv.kekCipher", "none")
	}
	// tink.AEAD parameters in package db flow only to Read/WriteWithAssociatedData, to constructor calls, and to kv.kekCipher
	isAEAD := func(t types.Type) bool { return eng.IsNamed(t, "github.com/tink-crypto/tink-go/v2/tink", "AEAD") }
	// (which AEAD parameters carry the KEK: those of the exported entry points,
	// and every parameter one of them is handed on to)
	isKEK := map[*ssa.Parameter]bool{}
	var work []*ssa.Parameter
	for _, f := range p.PkgFuncs("db") {
		if f.Object() == nil || !f.Object().Exported() {
			continue
		}
		for _, prm := range f.Params {
			if isAEAD(prm.Type()) && !isKEK[prm] {
				isKEK[prm] = true
				work = append(work, prm)
			}
		}
	}
	for len(work) > 0 {
		prm := work[0]
		work = work[1:]
		if prm.Referrers() == nil {
			continue
		}
		for _, r := range *prm.Referrers() {
			ci, isCall := r.(ssa.CallInstruction)
			if !isCall {
				continue
			}
			cal := ci.Common().StaticCallee()
			if cal == nil || eng.FuncPkg(cal) != p.TypesPkg("db") {
				continue
			}
			for i, a := range ci.Common().Args {
				if a == ssa.Value(prm) && i < len(cal.Params) && !isKEK[cal.Params[i]] {
					isKEK[cal.Params[i]] = true
					work = append(work, cal.Params[i])
				}
			}
		}
	}
	for _, f := range p.PkgFuncs("db") {
		for _, prm := range f.Params {
			if !isAEAD(prm.Type()) || !isKEK[prm] {
				continue
			}
			refs := prm.Referrers()
			if refs == nil {
				continue
			}
			for _, r := range *refs {
				ok := false
				what := eng.InstrStr(r)
				switch x := r.(type) {
				case *ssa.DebugRef:
					ok = true
				case *ssa.Store:
					if fr, isF := eng.FieldOfAddr(x.Addr); isF && fr.Is("db", "kv", "kekCipher") {
						ok = true
					}
					if _, isAl := x.Addr.(*ssa.Alloc); isAl {
						ok = true
					}
				case *ssa.Call:
					if cal := x.Call.StaticCallee(); cal != nil {
						if cal.Name() == "ReadWithAssociatedData" || cal.Name() == "WriteWithAssociatedData" {
							ok = true
						}
						if eng.FuncPkg(cal) == p.TypesPkg("db") {
							ok = true // handed on to another constructor, judged there
						}
					}
					if x.Call.IsInvoke() && x.Call.Value == ssa.Value(prm) {
						ok = false
						what = "direct use of the key-encryption key: " + what
					}
				case *ssa.BinOp, *ssa.MakeInterface, *ssa.ChangeInterface:
					ok = true // nil test / conversion for the calls above
				}
				c.Check(ok, "R-C05-6", f, r.Pos(), "use of the key-encryption key in "+eng.FName(f)+": "+what, "the KEK only wraps/unwraps the DEK (Read/WriteWithAssociatedData) and is parked in kv.kekCipher", "")
			}
		}
	}
	// AEAD invocations reachable from DB operations use kv.dekCipher only
	d := loadDB(c)
	if d == nil {
		return
	}
	g := p.CallGraph()
	open := p.Func("db", "Open")
	for _, m := range d.methods {
		hits := g.FindReachable(m.Fn, nil, func(in ssa.Instruction) bool {
			call, ok := in.(*ssa.Call)
			return ok && call.Call.IsInvoke() && isAEAD(call.Call.Value.Type())
		})
		for _, h := range hits {
			call := h.In.(*ssa.Call)
			fr, _, isF := eng.LoadedField(call.Call.Value)
			c.Check(isF && isKVRole(p, fr, "dekCipher"), "R-C05-6", h.Fn, h.In.Pos(), "AEAD use reachable from "+m.Name+": "+eng.CallStr(&call.Call), "a running server encrypts/decrypts only with the data key (kv.dekCipher)", "")
		}
	}
	_ = open
	// ... and the server around the database never invokes an AEAD at all
	// (it has no business with the access key once db.Open has returned: a
	// probe of the key would make a running server depend on the key service)
	nS, nBad := 0, 0
	for _, f := range p.PkgFuncs("server") {
		nS++
		eng.Instrs(f, func(in ssa.Instruction) {
			call, ok := in.(ssa.CallInstruction)
			if ok && call.Common().IsInvoke() && isAEAD(call.Common().Value.Type()) {
				nBad++
				c.Bad("R-C05-6", f, in.Pos(), "AEAD use in the server: "+eng.CallStr(call.Common()), "a running server encrypts/decrypts only with the data key inside package db (the key-encryption key is used by db.Open alone)", "direct invocation in "+eng.FName(f))
			}
		})
	}
	if nS > 0 && nBad == 0 {
		c.Ok("R-C05-6", nil, 0, "AEAD invocations in package server", "none")
	}
}
