package rules

import (
	"strings"

	"golang.org/x/tools/go/ssa"

	"setecvet/eng"
)

// errorfVerbs returns the verb letter used for each operand of a format.
func errorfVerbs(format string) []byte {
	var out []byte
	for i := 0; i < len(format); i++ {
		if format[i] != '%' {
			continue
		}
		i++
		for i < len(format) && strings.IndexByte("+-# 0123456789.[]*", format[i]) >= 0 {
			i++
		}
		if i < len(format) && format[i] != '%' {
			out = append(out, format[i])
		}
	}
	return out
}

// errorWrapDiscipline: in every function of package db reachable from a
// db.DB operation, an error passed to fmt.Errorf is wrapped with %w, so that
// the sentinel identities (ErrNotFound, ErrAccessDenied, ErrValueNotChanged)
// the HTTP status table and the clients rely on survive.
func errorWrapDiscipline(c *eng.Ctx, rule string) {
	d := loadDB(c)
	if d == nil {
		return
	}
	p := c.P
	g := p.CallGraph()
	seen := map[*ssa.Function]bool{}
	n := 0
	for _, m := range d.methods {
		if m.Caller == nil {
			continue
		}
		for f := range g.Reach(m.Fn, nil) {
			if seen[f] || eng.FuncPkg(f) != p.TypesPkg("db") {
				continue
			}
			seen[f] = true
			n += errorfWrapsIn(c, rule, f, "errors on the request path are wrapped with %w (the 403/404/304 mapping and the clients test them with errors.Is)")
		}
	}
	if n == 0 {
		c.Notes = append(c.Notes, rule+": no fmt.Errorf with an error operand on the request path")
	}
}

// errorfWrapsIn checks every fmt.Errorf of f: an operand of error type is
// formatted with %w.  It returns the number of such operands.
func errorfWrapsIn(c *eng.Ctx, rule string, f *ssa.Function, want string) int {
	n := 0
	eng.Instrs(f, func(in ssa.Instruction) {
		call, ok := in.(*ssa.Call)
		if !ok || !eng.CalleeIs(&call.Call, "fmt", "Errorf") {
			return
		}
		format, isC := eng.ConstString(call.Call.Args[0])
		if !isC {
			return
		}
		verbs := errorfVerbs(format)
		pa := eng.Path{Blocks: []*ssa.BasicBlock{call.Block()}}
		// operands in order: stores into the varargs array by index
		var ops []ssa.Value
		if sl, isSl := call.Call.Args[1].(*ssa.Slice); isSl {
			if al, isAl := sl.X.(*ssa.Alloc); isAl {
				byIdx := map[int64]ssa.Value{}
				for _, r := range *al.Referrers() {
					if ia, isIA := r.(*ssa.IndexAddr); isIA {
						k, _ := eng.ConstInt(ia.Index)
						for _, rr := range *ia.Referrers() {
							if st, isSt := rr.(*ssa.Store); isSt {
								byIdx[k] = st.Val
							}
						}
					}
				}
				for i := int64(0); i < int64(len(byIdx)); i++ {
					ops = append(ops, byIdx[i])
				}
			}
		}
		_ = pa
		for i, op := range ops {
			if op == nil {
				continue
			}
			isErr := false
			switch x := op.(type) {
			case *ssa.ChangeInterface:
				isErr = eng.IsErrorType(x.X.Type())
			case *ssa.MakeInterface:
				isErr = eng.IsErrorType(x.X.Type())
			}
			if !isErr {
				continue
			}
			n++
			verb := byte('?')
			if i < len(verbs) {
				verb = verbs[i]
			}
			c.Check(verb == 'w', rule, f, in.Pos(), "error operand of "+eng.CallStr(&call.Call), want, "operand "+eng.ValStr(op)+" is formatted with %"+string(verb))
		}
	})
	return n
}

// clientWrapDiscipline: the same in the client library, where the retry logic
// of lookups and the sentinel tests of callers use errors.Is on what the
// transport and the store hand up (a context error flattened with %v is no
// longer recognised as one).
func clientWrapDiscipline(c *eng.Ctx, rule string) {
	n := 0
	for _, f := range c.P.PkgFuncs(setecPkg) {
		n += errorfWrapsIn(c, rule, f, "errors passed up by the client library are wrapped with %w (lookups decide whether to retry with errors.Is(err, context.Canceled / DeadlineExceeded); callers test the api sentinels)")
	}
	if n == 0 {
		c.Notes = append(c.Notes, rule+": no fmt.Errorf with an error operand in the client library")
	}
}
