// Package rules holds the per-property rule sets of setecvet.
package rules

import (
	"sort"

	"setecvet/eng"
)

// Prop describes one property's static check.
type Prop struct {
	ID          string
	Explanation string   // what is decided
	NotDecided  string   // what is not
	Trusted     []string // trusted base
	Assumptions []string
	Run         func(c *eng.Ctx, tier string)
}

var registry = map[string]*Prop{}

// curProg is the program under analysis (role tables are per program).
var curProg *eng.Prog

func register(p *Prop) {
	orig := p.Run
	p.Run = func(c *eng.Ctx, tier string) {
		if curProg != c.P {
			curProg = c.P
			initLockKeys(c.P)
		}
		orig(c, tier)
	}
	registry[p.ID] = p
}

// Get returns the property's check.
func Get(id string) *Prop { return registry[id] }

// IDs lists the registered property ids.
func IDs() []string {
	var out []string
	for k := range registry {
		out = append(out, k)
	}
	sort.Strings(out)
	return out
}

var commonTrusted = []string{
	"go/types, go/ssa (SSA construction, dominator tree) of golang.org/x/tools v0.50.0",
	"Go memory model: accesses ordered by one mutex do not race",
}

// include runs another rule function on a scratch context and records its
// obligations in c under rule id `as` (the original id is kept in the site),
// so that a property whose statement depends on another property's mechanism
// also reports a break of that mechanism under its own id.
// includeOnly is include restricted to the named original rule ids.
func includeOnly(c *eng.Ctx, as string, run func(*eng.Ctx), only ...string) {
	sub := eng.NewCtx(c.P, c.Prop)
	run(sub)
	for _, o := range sub.Obs {
		keep := false
		for _, r := range only {
			if o.Rule == r {
				keep = true
			}
		}
		if !keep {
			continue
		}
		o.Site = "[" + o.Rule + "] " + o.Site
		o.Rule = as
		c.Obs = append(c.Obs, o)
	}
}

func include(c *eng.Ctx, as string, run func(*eng.Ctx)) {
	sub := eng.NewCtx(c.P, c.Prop)
	run(sub)
	for _, o := range sub.Obs {
		o.Site = "[" + o.Rule + "] " + o.Site
		o.Rule = as
		c.Obs = append(c.Obs, o)
	}
}
