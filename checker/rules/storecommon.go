package rules

import (
	"go/token"
	"go/types"

	"golang.org/x/tools/go/ssa"

	"setecvet/eng"
)

const setecPkg = "client/setec"

// activeField: if addr is &s.active.<m|f|w> (s a *Store) return the field name.
func activeFieldAddr(addr ssa.Value) (string, ssa.Value, bool) {
	fa, ok := addr.(*ssa.FieldAddr)
	if !ok {
		return "", nil, false
	}
	outer, ok := fa.X.(*ssa.FieldAddr)
	if !ok {
		return "", nil, false
	}
	fr, _ := eng.FieldOfAddr(outer)
	if !eng.IsNamed(fr.Owner, setecPkg, "Store") {
		return "", nil, false
	}
	// roles by type, whatever the fields are called: the guarded group is
	// the struct holding the map to *cachedSecret; in it "m" is that map,
	// "f" the map to Secret (handles), "w" the map to watcher lists
	st, ok := eng.Deref(fa.X.Type()).Underlying().(*types.Struct)
	if !ok || fa.Field >= st.NumFields() {
		return "", nil, false
	}
	role := func(t types.Type) string {
		mt, isMap := t.Underlying().(*types.Map)
		if !isMap {
			return ""
		}
		el := mt.Elem()
		if pt, isP := el.(*types.Pointer); isP && eng.IsNamed(pt.Elem(), setecPkg, "cachedSecret") {
			return "m"
		}
		if eng.IsNamed(el, setecPkg, "Secret") {
			return "f"
		}
		if sl, isSl := el.Underlying().(*types.Slice); isSl && eng.IsNamed(sl.Elem(), setecPkg, "watcher") {
			return "w"
		}
		return ""
	}
	isGroup := false
	for i := 0; i < st.NumFields(); i++ {
		if role(st.Field(i).Type()) == "m" {
			isGroup = true
		}
	}
	if !isGroup {
		return "", nil, false
	}
	name := role(st.Field(fa.Field).Type())
	if name == "" {
		return "", nil, false // the mutex itself
	}
	return name, outer.X, true
}

// activeMapOf: if v is a load of s.active.<name> return name.
func activeMapOf(v ssa.Value) (string, bool) {
	u, ok := eng.Origin(v).(*ssa.UnOp)
	if !ok || u.Op != token.MUL {
		return "", false
	}
	n, _, ok := activeFieldAddr(u.X)
	return n, ok
}

// storeAccess is an access to the Store's guarded state.
type storeAccess struct {
	Fn    *ssa.Function
	In    ssa.Instruction
	What  string // "active.m", "active.f", "active.w", "cachedSecret.<field>"
	Write bool
	Kind  string
	Map   *eng.MapOp
}

// storeAccesses lists every access to Store.active.{m,f,w} (field loads,
// stores, address escapes and map operations, including iteration steps) and
// to fields of cachedSecret, in package client/setec.
func storeAccesses(p *eng.Prog) []storeAccess {
	var out []storeAccess
	for _, f := range p.PkgFuncs(setecPkg) {
		for _, a := range eng.FieldAccesses(f) {
			if a.Addr != nil {
				if n, _, ok := activeFieldAddr(a.Addr); ok {
					out = append(out, storeAccess{Fn: f, In: a.In, What: "active." + n, Write: a.Write, Kind: a.Kind})
					continue
				}
			}
			if eng.IsNamed(a.Field.Owner, setecPkg, "cachedSecret") && !freshBase(a.Base) {
				out = append(out, storeAccess{Fn: f, In: a.In, What: "cachedSecret." + a.Field.Name, Write: a.Write, Kind: a.Kind})
			}
		}
		for _, m := range eng.MapOps(f) {
			if n, ok := activeMapOf(m.Map); ok {
				mm := m
				out = append(out, storeAccess{Fn: f, In: m.In, What: "active." + n, Write: m.IsWrite(), Kind: "map-" + m.Kind, Map: &mm})
			}
		}
		eng.Instrs(f, func(in ssa.Instruction) {
			if nx, ok := in.(*ssa.Next); ok {
				if rg, ok := nx.Iter.(*ssa.Range); ok {
					if n, ok := activeMapOf(rg.X); ok {
						out = append(out, storeAccess{Fn: f, In: in, What: "active." + n, Kind: "map-next"})
					}
				}
			}
		})
	}
	return out
}

// isStoreClientInvoke: an interface call of a StoreClient method.
func isStoreClientInvoke(cc *ssa.CallCommon) bool {
	return cc.IsInvoke() && eng.IsNamed(cc.Value.Type(), setecPkg, "StoreClient")
}

// slowInstr: an instruction that may wait for the service, the network, a
// timer or another goroutine.
func slowInstr(in ssa.Instruction) (string, bool) {
	switch x := in.(type) {
	case *ssa.Send:
		return "channel send", true
	case *ssa.Select:
		if x.Blocking {
			return "blocking select", true
		}
	case *ssa.UnOp:
		if x.Op == token.ARROW {
			return "channel receive", true
		}
	case ssa.CallInstruction:
		cc := x.Common()
		if isStoreClientInvoke(cc) {
			return "service request StoreClient." + cc.Method.Name(), true
		}
		if cal := cc.StaticCallee(); cal != nil && cal.Pkg != nil {
			pp := cal.Pkg.Pkg.Path()
			switch {
			case pp == "net/http":
				return "net/http call " + cal.Name(), true
			case pp == "golang.org/x/sync/singleflight" && (cal.Name() == "Do" || cal.Name() == "DoChan"):
				return "singleflight." + cal.Name(), true
			case pp == "time" && cal.Name() == "Sleep":
				return "time.Sleep", true
			case pp == "sync" && cal.Name() == "Wait":
				return "sync wait", true
			}
		}
	}
	return "", false
}

// slowFuncs: module functions that (transitively, through static calls and
// module-resolved interface calls, but not through literals that are merely
// created) contain a slow instruction.
func slowFuncs(p *eng.Prog) map[*ssa.Function]string {
	g := p.CallGraph()
	direct := map[*ssa.Function]string{}
	for _, f := range p.AllFuncs() {
		eng.Instrs(f, func(in ssa.Instruction) {
			if why, ok := slowInstr(in); ok && direct[f] == "" {
				direct[f] = why + " at " + p.Pos(in.Pos())
			}
		})
	}
	out := map[*ssa.Function]string{}
	for _, f := range p.AllFuncs() {
		reach := g.Reach(f, func(e eng.Edge) bool {
			// a literal that is only created is not executed by this call --
			// unless it is invoked directly
			if e.Kind == "closure" {
				mc := e.Site.(*ssa.MakeClosure)
				return !closureCalledHere(mc)
			}
			return e.Kind == "bound" || e.Kind == "funcvalue"
		})
		for r := range reach {
			if why, ok := direct[r]; ok {
				if r == f {
					out[f] = why
				} else {
					out[f] = "reaches " + eng.FName(r) + ": " + why
				}
				break
			}
		}
	}
	return out
}

func closureCalledHere(mc *ssa.MakeClosure) bool {
	refs := mc.Referrers()
	if refs == nil {
		return false
	}
	for _, r := range *refs {
		switch u := r.(type) {
		case *ssa.Call:
			if u.Call.Value == ssa.Value(mc) {
				return true
			}
		case *ssa.Defer:
			if u.Call.Value == ssa.Value(mc) {
				return true
			}
		}
	}
	return false
}

// secretClosures: function literals of type setec.Secret created in package
// client/setec that read the store (the handles).
func secretClosures(p *eng.Prog) []*ssa.Function {
	var out []*ssa.Function
	for _, f := range p.PkgFuncs(setecPkg) {
		if f.Parent() == nil {
			continue
		}
		sig := f.Signature
		if sig.Params().Len() != 0 || sig.Results().Len() != 1 {
			continue
		}
		if sl, ok := sig.Results().At(0).Type().Underlying().(*types.Slice); !ok || !types.Identical(sl.Elem(), types.Typ[types.Byte]) {
			continue
		}
		// a thin literal `func() []byte { return s.helper(name) }`: the body is the helper
		body := f
		var calls []*ssa.Call
		eng.Instrs(f, func(in ssa.Instruction) {
			if call, ok := in.(*ssa.Call); ok {
				calls = append(calls, call)
			}
		})
		if len(calls) == 1 && eng.IsHelper(f, eng.Callee(&calls[0].Call)) {
			if rets := eng.Returns(f); len(rets) == 1 && eng.Origin(eng.RetVals(rets[0])[0]) == ssa.Value(calls[0]) {
				body = eng.Callee(&calls[0].Call)
			}
		}
		f = body
		touches := false
		for _, a := range storeAccesses1(f) {
			_ = a
			touches = true
		}
		// ... or works on an entry object directly
		for _, a := range eng.FieldAccesses(f) {
			if eng.IsNamed(a.Field.Owner, setecPkg, "cachedSecret") {
				touches = true
			}
		}
		if touches {
			out = append(out, f)
		}
	}
	return out
}

func storeAccesses1(f *ssa.Function) []storeAccess {
	var out []storeAccess
	for _, a := range eng.FieldAccesses(f) {
		if a.Addr != nil {
			if n, _, ok := activeFieldAddr(a.Addr); ok {
				out = append(out, storeAccess{Fn: f, In: a.In, What: "active." + n})
			}
		}
	}
	return out
}

// applyFuncs: the functions that install poll results: those containing a
// post-construction store to cachedSecret.Secret (found by effect, so a
// refactoring that renames or splits applyUpdates is followed).
func applyFuncs(c *eng.Ctx) []*ssa.Function {
	p := c.P
	l := moduleLocks(c)
	seen := map[*ssa.Function]bool{}
	var out []*ssa.Function
	for _, a := range storeAccesses(p) {
		if a.What != "cachedSecret.Secret" || !a.Write || a.Kind != "store" {
			continue
		}
		st := l.HeldBefore(a.In)
		if l.Holds(st, keyStore) && !l.HoldsReal(st, keyStore) {
			continue
		}
		if !seen[a.Fn] {
			seen[a.Fn] = true
			out = append(out, a.Fn)
		}
	}
	return out
}

// removalGuardedByHandle: the delete of active.m[key] at a is edge-dominated
// by the not-present edge of a comma-ok lookup of the same key in active.f,
// with no unlock in between.
func removalGuardedByHandle(a storeAccess) bool {
	for _, cond := range eng.FactsX(a.In) {
		src, truth, isCO := cond.CommaOk()
		if !isCO || truth {
			continue
		}
		lk, isLk := src.(*ssa.Lookup)
		if !isLk {
			continue
		}
		if n, isAct := activeMapOf(lk.X); isAct && n == "f" && eng.SameX(lk.Index, a.Map.Key) {
			hit, _ := eng.SearchX(lk.Parent(), lk, nil, func(x ssa.Instruction) bool { return x == a.In }, func(x ssa.Instruction) bool {
				if call, isC := x.(*ssa.Call); isC {
					op, k, isL := eng.LockOp(&call.Call)
					return isL && k == keyStore && op == "Unlock"
				}
				return false
			})
			if hit == nil {
				return true
			}
		}
	}
	return false
}

// checkPrepubRemovals: while the store is being constructed, entries of the
// active set are only discarded wholesale (clear) when the cache was rejected
// (decode error or invalid); nothing is expired or dropped at load time.
func checkPrepubRemovals(c *eng.Ctx, rule string) {
	p := c.P
	l := moduleLocks(c)
	for _, a := range storeAccesses(p) {
		if a.Map == nil || a.What != "active.m" || !(a.Map.Kind == "delete" || a.Map.Kind == "clear") {
			continue
		}
		st := l.HeldBefore(a.In)
		if !(l.Holds(st, keyStore) && !l.HoldsReal(st, keyStore)) {
			continue
		}
		okReset := a.Map.Kind == "clear"
		if okReset {
			okReset = false
			for _, cond := range eng.FactsAt(a.In) {
				if v, isNil, isE := cond.ErrCheck(); isE && !isNil {
					if call, _ := eng.TupleCall(v); call != nil && eng.CalleeIs(&call.Call, "encoding/json", "Unmarshal") {
						okReset = true
					}
					// (a validity gate that answers with an error)
					if call, _ := eng.TupleCall(v); call != nil {
						if cal := eng.Callee(&call.Call); cal != nil && cal == anchor(c.P, setecPkg, "(*Store).isActiveSetValid") {
							okReset = true
						}
					}
				}
				if call, _, truth, isCall := cond.BoolCall(); isCall && !truth {
					if cal := eng.Callee(&call.Call); cal != nil && cal == anchor(c.P, setecPkg, "(*Store).isActiveSetValid") {
						okReset = true
					}
				}
			}
		}
		c.Check(okReset, rule, a.Fn, a.In.Pos(), "removal before publication: "+eng.InstrStr(a.In), "while the store is being constructed entries are only discarded wholesale when the cache was rejected (decode error or invalid); a valid cache entry is used, nothing is expired at load time", "holding: "+eng.FactsString(a.In))
	}
}

// noForget: single-flight's mutual exclusion per key ("one function per key
// at a time") holds only as long as nobody calls Group.Forget while a flight
// is in progress; the client library never needs it.
func noForget(c *eng.Ctx, rule string) {
	n := 0
	for _, f := range c.P.PkgFuncs(setecPkg) {
		eng.Instrs(f, func(in ssa.Instruction) {
			ci, ok := in.(ssa.CallInstruction)
			if !ok {
				return
			}
			cal := ci.Common().StaticCallee()
			if cal == nil || cal.Pkg == nil || cal.Pkg.Pkg.Path() != "golang.org/x/sync/singleflight" || cal.Name() != "Forget" {
				return
			}
			n++
			c.Bad(rule, f, in.Pos(), eng.CallStr(ci.Common()), "the store never forgets a single-flight key (Forget lets a second function run under a key whose flight is still in progress: overlapping polls / duplicate lookup requests)", "Group.Forget called in "+eng.FName(f))
		})
	}
	if n == 0 {
		c.Ok(rule, nil, 0, "singleflight.Group.Forget calls in the client library", "none")
	}
}

// handleBoundToName: a handle must find its entry through the active map at
// the time of the call.  Polls update entries in place, but a lookup that
// fetches a name again replaces the entry object, and the handle is memoised
// per name: a handle bound to the entry object would then serve (and stamp) an
// orphan for ever, also to every watcher wrapping it.
func handleBoundToName(c *eng.Ctx, rule string) {
	p := c.P
	n := 0
	for _, f := range secretClosures(p) {
		for _, a := range eng.FieldAccesses(f) {
			if !eng.IsNamed(a.Field.Owner, setecPkg, "cachedSecret") || a.Addr == nil {
				continue
			}
			fa := a.Addr
			n++
			base := eng.Origin(fa.X)
			okk := false
			found := eng.ValStr(fa.X)
			if ex, isEx := base.(*ssa.Extract); isEx {
				base = ex.Tuple
			}
			if lk, isLk := base.(*ssa.Lookup); isLk && lk.Parent() == f {
				if nm, isAct := activeMapOf(lk.X); isAct && nm == "m" {
					okk = true
				}
			}
			if _, isFV := base.(*ssa.FreeVar); isFV {
				found = "the entry object captured when the handle was created (" + found + ")"
			}
			c.Check(okk, rule, f, a.In.Pos(), "entry used by handle body "+eng.FName(f)+": "+eng.InstrStr(a.In), "looked up in Store.active.m by name inside the call (a later lookup of the same name replaces the entry object; the memoised handle must follow)", found)
		}
	}
	if n == 0 {
		c.Undecided(rule, nil, 0, "handle bodies", "no entry access found in a handle body")
	}
}

// wholeInputJSON: the client library decodes JSON it must reject when
// malformed (cache documents, secret values for struct fields, service
// replies) with json.Unmarshal, which fails on anything after the first
// value; a json.Decoder stops after the first value and would accept a
// document followed by garbage.
func wholeInputJSON(c *eng.Ctx, rule string) {
	n := 0
	for _, f := range c.P.PkgFuncs(setecPkg) {
		eng.Instrs(f, func(in ssa.Instruction) {
			ci, ok := in.(ssa.CallInstruction)
			if !ok {
				return
			}
			if eng.CalleeIs(ci.Common(), "encoding/json", "*Decoder.Decode") || eng.CalleeIs(ci.Common(), "encoding/json", "NewDecoder") {
				n++
				c.Bad(rule, f, in.Pos(), eng.CallStr(ci.Common()), "JSON is decoded with json.Unmarshal (the whole input must be one value: trailing bytes are an error)", "a json.Decoder accepts a valid value followed by anything")
			}
		})
	}
	if n == 0 {
		c.Ok(rule, nil, 0, "json.Decoder uses in the client library", "none")
	}
}
