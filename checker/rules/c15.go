package rules

import (
	"go/token"
	"go/types"

	"golang.org/x/tools/go/ssa"

	"setecvet/eng"
)

const keyUpdater eng.LockKey = "setec.Updater.mu"

func init() {
	register(&Prop{
		ID: "C15",
		Explanation: "Decides structural necessary conditions of C15: (R-C15-1) level trigger: every watcher is created with a ready channel of constant capacity >= 1 and notify sends on it only inside a select with a default (never blocks the poller; a pending notification is never lost, further ones coalesce); " +
			"(R-C15-2) in the apply phase every notify for a name is dominated by the install for that same name within the same critical section, and every installing iteration reaches the notification loop over that name's watchers; (R-C15-3) registration: the watcher is appended to the watcher list of the looked-up name under the lock and wraps the handle of that same name; NewUpdater builds its initial value from the watcher it registered (so an install between registration and first read is either seen or signalled); " +
			"(R-C15-4) Updater.value and Updater.err are accessed only with Updater.mu held; (R-C15-5) rebuild discipline in Updater.Get: the builder runs only on the ready edge of a non-blocking receive from the watcher, with the watcher's current bytes; the store to value and the Close of the previous value are edge-dominated by the builder's nil error; what is closed is the value loaded before the store, never the new one, at most once; err is stored on both edges; the result is the field's value after the update. (R-C15-6) inside the client library every receive from a watcher's ready channel lies in Updater.Get or a helper of it (a notification is consumed only where it triggers the rebuild). (R-C15-5, extended) once the notification has been consumed every path rebuilds before returning; (R-C15-7) watcher.notify is called only where a poll result has just been installed. (R-C15-5, extended) with a successful rebuild and an old value that is an io.Closer no path reaches the replacement around the Close; (R-C15-8) the entry a watcher's handle reads is never removed once the handle exists (C19's R-C19-1).",
		NotDecided:  "Sequences of values observed over histories; that a user-supplied builder is deterministic.",
		Trusted:     commonTrusted,
		Assumptions: []string{"a buffered channel of capacity >= 1 with non-blocking sends keeps at least one pending notification"},
		Run:         runC15,
	})
}

func runC15(c *eng.Ctx, tier string) {
	p := c.P
	if p.Named(setecPkg, "watcher") == nil {
		c.Undecided("anchor", nil, 0, "setec.watcher", "anchor does not resolve")
		return
	}
	l := moduleLocks(c)
	// a watcher wraps the memoised handle of its name: what Updater.Get rebuilds
	// from is what that handle reads
	handleBoundToName(c, "R-C15-3")
	// R-C15-8: an updater created while a poll is in flight still sees installs:
	// the entry its watcher's handle reads is never removed once the handle
	// exists (the removal re-checks the handle registry: C19's rule)
	includeOnly(c, "R-C15-8", func(sc *eng.Ctx) { runC19(sc, "quick") }, "R-C19-1")
	// R-C15-1 creation sites
	n := 0
	for _, f := range p.PkgFuncs(setecPkg) {
		eng.Instrs(f, func(in ssa.Instruction) {
			al, ok := in.(*ssa.Alloc)
			if !ok || !eng.IsNamed(al.Type(), setecPkg, "watcher") {
				return
			}
			fields, _, ok := eng.LiteralFields(al)
			if !ok || len(fields) == 0 {
				return
			}
			rd, has := fields[watcherChanField(p)]
			if !has {
				return // zero watcher (error returns)
			}
			n++
			mk, isMk := eng.Origin(rd).(*ssa.MakeChan)
			okk := false
			detail := "ready = " + eng.ValStr(rd)
			if isMk {
				if k, isC := eng.ConstInt(mk.Size); isC {
					okk = k >= 1
					detail = "capacity " + itoa(int(k))
				}
			}
			c.Check(okk, "R-C15-1", f, in.Pos(), "watcher created in "+eng.FName(f), "ready channel has constant capacity >= 1 (with a non-blocking send an unbuffered channel would drop every notification nobody is waiting for)", detail)
		})
	}
	if n == 0 {
		c.Undecided("R-C15-1", nil, 0, "watcher creation sites", "none found")
	}
	notify := anchor(p, setecPkg, "watcher.notify") // may be nil: the send written in place
	isReadyChan := func(ch ssa.Value) (ssa.Value, bool) {
		fr, base, isF := eng.LoadedField(ch)
		if isF && fr.Is(setecPkg, "watcher", watcherChanField(p)) {
			return base, true
		}
		return nil, false
	}
	sends := 0
	for _, f := range p.PkgFuncs(setecPkg) {
		eng.Instrs(f, func(in ssa.Instruction) {
			switch x := in.(type) {
			case *ssa.Send:
				if _, isR := isReadyChan(x.Chan); isR {
					sends++
					c.Bad("R-C15-1", f, in.Pos(), eng.InstrStr(in), "a notification never blocks: it is sent only inside a select with default", "plain channel send")
				}
			case *ssa.Select:
				for _, st := range x.States {
					if st.Dir != types.SendOnly {
						continue
					}
					if _, isR := isReadyChan(st.Chan); isR {
						sends++
						c.Check(!x.Blocking, "R-C15-1", f, in.Pos(), "send on a watcher's ready channel in "+eng.FName(f), "a non-blocking select (with default) sending on the watcher's own ready channel", "blocking="+boolStr(x.Blocking))
					}
				}
			}
		})
	}
	if sends == 0 {
		c.Bad("R-C15-1", nil, 0, "notification of watchers", "signals the ready channel", "no send found")
	}

	// R-C15-2 install then notify
	afs := applyFuncs(c)
	if len(afs) == 0 {
		c.Undecided("R-C15-2", nil, 0, "the function installing poll results", "not found")
	}
	for _, apply := range afs {
		// the loop over the update set may be in the caller of an installing helper
		paramLoop := func(f *ssa.Function) *mapLoop {
			for _, ml := range mapLoops(f) {
				if _, isP := eng.Origin(ml.Range.X).(*ssa.Parameter); isP {
					mm := ml
					return &mm
				}
			}
			return nil
		}
		outer := paramLoop(eng.HelperRoot(apply, func(f *ssa.Function) bool { return paramLoop(f) != nil }))
		var installs []*ssa.Store
		for _, a := range storeAccesses(p) {
			if a.Fn == apply && a.What == "cachedSecret.Secret" && a.Kind == "store" {
				installs = append(installs, a.In.(*ssa.Store))
			}
		}
		type notification struct {
			in      ssa.Instruction // the call of notify, or the non-blocking send written in place
			watcher ssa.Value
		}
		var notifies []notification
		// (the loop over the name's watchers may live in a helper applyUpdates calls from one place)
		notifySite := map[ssa.Instruction]ssa.Instruction{} // where it happens in apply itself
		eng.InstrsDeep(apply, func(g *ssa.Function, in ssa.Instruction) {
			var nt *notification
			if call, ok := in.(*ssa.Call); ok && notify != nil && eng.Callee(&call.Call) == notify && len(call.Call.Args) > 0 {
				nt = &notification{in, call.Call.Args[0]}
			}
			if sel, ok := in.(*ssa.Select); ok && g != notify {
				for _, st := range sel.States {
					if st.Dir == types.SendOnly {
						if w, isR := isReadyChan(st.Chan); isR {
							nt = &notification{in, w}
						}
					}
				}
			}
			if nt == nil {
				return
			}
			if g == apply {
				notifies = append(notifies, *nt)
				notifySite[in] = in
			} else if site := eng.UniqueCallSite(g); site != nil && site.Parent() == apply && g.Parent() == nil {
				notifies = append(notifies, *nt)
				notifySite[in] = site
			}
		})
		if outer == nil || len(installs) == 0 {
			c.Undecided("R-C15-2", apply, apply.Pos(), "apply loop / installs", "not found")
		} else {
			if len(notifies) == 0 {
				c.Bad("R-C15-2", apply, apply.Pos(), "notification after install", "watchers of an updated secret are notified", "applyUpdates never calls notify")
			}
			for _, nt := range notifies {
				nc := nt.in
				// the watcher notified belongs to the list of the same name
				okName := false
				for _, rl := range eng.RangeLoops(nc.Parent()) {
					if rl.ElemOf(nt.watcher) {
						if lk, isLk := eng.Origin(rl.Slice).(*ssa.Lookup); isLk {
							if nm, isAct := activeMapOf(lk.X); isAct && nm == "w" && eng.OriginX(lk.Index) == outer.Key {
								okName = true
							}
						}
					}
				}
				dom := false
				for _, st := range installs {
					if eng.InstrDominates(st, notifySite[nc]) {
						dom = true
					}
				}
				hs := l.HeldBefore(nc)
				c.Check(okName && dom && l.HoldsReal(hs, keyStore), "R-C15-2", apply, nc.Pos(), eng.InstrStr(nc), "notify is called for the watchers of the very name just installed, after the install, with the lock still held", "same-name="+boolStr(okName)+" install-dominates="+boolStr(dom)+" held="+l.StateStr(hs))
			}
			// every installing iteration reaches the notification loop
			for _, st := range installs {
				var wl *eng.RangeLoop
				fns := map[*ssa.Function]bool{apply: true}
				for _, nt := range notifies {
					fns[nt.in.Parent()] = true
				}
				for g := range fns {
					for _, rl := range eng.RangeLoops(g) {
						if lk, isLk := eng.Origin(rl.Slice).(*ssa.Lookup); isLk {
							if nm, isAct := activeMapOf(lk.X); isAct && nm == "w" {
								r2 := rl
								wl = &r2
							}
						}
					}
				}
				if wl == nil {
					continue
				}
				hit, path := eng.SearchX(apply, st, nil, func(x ssa.Instruction) bool { return x.Block() == wl.Header }, func(x ssa.Instruction) bool {
					return x.Block() == outer.Header || eng.IsReturn(x)
				})
				c.Check(hit == nil, "R-C15-2", apply, st.Pos(), eng.InstrStr(st), "every installing iteration goes on to notify that name's watchers", func() string {
					if hit == nil {
						return ""
					}
					return "next iteration / return reached without notifying: " + p.PathStr(path)
				}())
			}
		}
	}

	// R-C15-3 registration
	lw := anchor(p, setecPkg, "(*Store).lookupWatcher")
	if lw == nil {
		c.Undecided("R-C15-3", nil, 0, "setec.(*Store).lookupWatcher", "anchor does not resolve")
	} else {
		var nameP *ssa.Parameter
		for _, prm := range lw.Params {
			if isStringType(prm.Type()) {
				nameP = prm
			}
		}
		nReg := 0
		// the handle field of a watcher (the embedded Secret on the pinned tree)
		secField := structFieldByType(p, setecPkg, "watcher", func(t types.Type) bool { return eng.IsNamed(t, setecPkg, "Secret") })
		if secField == "" {
			secField = "Secret"
		}
		// (the registration may live in a helper lookupWatcher calls from one place)
		var regs []eng.MapOp
		seenFn := map[*ssa.Function]bool{}
		eng.InstrsDeep(lw, func(g *ssa.Function, _ ssa.Instruction) {
			if seenFn[g] {
				return
			}
			seenFn[g] = true
			if g != lw && (g.Parent() != nil || eng.UniqueCallSite(g) == nil || eng.UniqueCallSite(g).Parent() != lw) {
				return
			}
			regs = append(regs, eng.MapOps(g)...)
		})
		for _, m := range regs {
			nm, isAct := activeMapOf(m.Map)
			if !isAct || nm != "w" || m.Kind != "update" {
				continue
			}
			nReg++
			rf := m.In.Parent()
			var site *ssa.Call
			if rf != lw {
				site, _ = eng.UniqueCallSite(rf).(*ssa.Call)
			}
			c.Check(eng.OriginX(m.Key) == eng.OriginX(nameP), "R-C15-3", rf, m.In.Pos(), eng.InstrStr(m.In)+" [name]", "registered under the looked-up name", "")
			// appended value: append(w[name], watcher literal)
			args, isApp := eng.BuiltinCall(instrOf(eng.Origin(m.Val)), "append")
			okk := false
			var elems []ssa.Value
			if isApp {
				pa := eng.Path{Blocks: []*ssa.BasicBlock{m.In.Block()}}
				elems, _ = pa.SliceElems(args[1])
				if len(elems) == 1 {
					// (the literal may be built by a constructor helper)
					fields, mapv, okF := eng.LiteralThroughHelper(elems[0])
					if okF {
						// the wrapped Secret comes only from handle creation for the same name
						sec := fields[secField]
						okk = sec != nil
						if sec != nil {
							sec = eng.OriginX(mapv(sec))
						}
						leaves, phis := eng.PhiLeaves(eng.Origin(sec))
						if len(phis) == 0 {
							leaves = []eng.PhiLeaf{{Val: sec}}
						}
						for _, lf := range leaves {
							call, _ := eng.TupleCall(lf.Val)
							if call == nil {
								okk = false
								continue
							}
							// the call, or the immediately-invoked literal's inner call, takes the same name
							target := call
							if cal := eng.Callee(&call.Call); cal != nil && cal.Parent() == lw {
								for _, r := range eng.Returns(cal) {
									if c2, _ := eng.TupleCall(eng.RetVals(r)[0]); c2 != nil {
										target = c2
									}
								}
							}
							hasName := false
							for _, a := range target.Call.Args {
								if eng.OriginX(a) == eng.OriginX(nameP) {
									hasName = true
								}
							}
							if !hasName {
								okk = false
							}
						}
					}
				}
			}
			c.Check(okk, "R-C15-3", rf, m.In.Pos(), eng.InstrStr(m.In)+" [handle]", "the registered watcher wraps the handle obtained for the same name", "")
			// every caller gets a watcher of its own: what is returned with a nil
			// error is the watcher registered by this very call (a shared one
			// would have its single pending signal consumed by whoever asks first)
			if isApp {
				isReg := func(v ssa.Value) bool {
					return len(elems) == 1 && (eng.Origin(v) == eng.Origin(elems[0]) || eng.Same(v, elems[0]))
				}
				if site != nil {
					// the helper hands the registered watcher back ...
					for _, r := range eng.Returns(rf) {
						rv := eng.RetVals(r)
						c.Check(len(rv) > 0 && isReg(rv[0]) && eng.InstrDominates(m.In, r), "R-C15-3", rf, r.Pos(), "watcher returned by "+eng.FName(rf)+": "+eng.InstrStr(r), "the watcher it created and registered", "returns another watcher, or returns without registering")
					}
				}
				ei := errResultIndex(lw)
				for _, r := range eng.Returns(lw) {
					rv := eng.RetVals(r)
					if ei < 0 || !eng.IsNilConst(eng.Origin(rv[ei])) {
						continue
					}
					same := false
					if site == nil {
						same = isReg(rv[0]) && eng.InstrDominates(m.In, r)
					} else {
						// ... and lookupWatcher returns what the helper handed back
						hc, _ := eng.TupleCall(rv[0])
						same = hc == site
					}
					c.Check(same, "R-C15-3", lw, r.Pos(), "watcher returned: "+eng.ValStr(rv[0]), "the watcher created and registered by this call (one per caller)", "returns another watcher, or returns without registering")
				}
			}
		}
		if nReg == 0 {
			c.Bad("R-C15-3", lw, lw.Pos(), "registration", "the watcher is added to the name's watcher list", "no update of Store.active.w")
		}
	}
	// NewUpdater: initial value from the registered watcher
	if nu := p.Func(setecPkg, "NewUpdater"); nu != nil {
		var lwCall *ssa.Call
		eng.Instrs(nu, func(in ssa.Instruction) {
			if call, ok := in.(*ssa.Call); ok && eng.Callee(&call.Call) == lw && lw != nil {
				lwCall = call
			}
		})
		okk := false
		// (the construction may be finished by a helper NewUpdater hands the watcher to)
		fromLW := func(v ssa.Value) bool {
			if lwCall == nil {
				return false
			}
			if v == ssa.Value(lwCall) {
				return true
			}
			if prm, isP := v.(*ssa.Parameter); isP && prm.Parent() != nu {
				hc, _ := eng.TupleCall(eng.OriginX(prm))
				return hc == lwCall
			}
			return false
		}
		eng.InstrsDeep(nu, func(_ *ssa.Function, in ssa.Instruction) {
			call, ok := in.(*ssa.Call)
			if !ok {
				return
			}
			if prm, isP := eng.Origin(call.Call.Value).(*ssa.Parameter); isP && isBuilderType(prm.Type()) && len(call.Call.Args) == 1 {
				if p.DependsOn(call.Call.Args[0], fromLW) {
					okk = true
				}
			}
		})
		c.Check(okk, "R-C15-3", nu, nu.Pos(), "initial value of NewUpdater", "built from the bytes read through the watcher that was just registered (read after registration)", "")
	}

	// R-C15-4 Updater fields under Updater.mu
	n4 := 0
	for _, f := range p.PkgFuncs(setecPkg) {
		for _, a := range eng.FieldAccesses(f) {
			if !eng.IsNamed(a.Field.Owner, setecPkg, "Updater") || (a.Field.Name != updaterField(p, "value") && a.Field.Name != updaterField(p, "err")) || freshBase(a.Base) {
				continue
			}
			n4++
			hs := l.HeldBefore(a.In)
			c.Check(l.HoldsReal(hs, keyUpdater), "R-C15-4", f, a.In.Pos(), "access of Updater."+a.Field.Name+" in "+eng.FName(f), "Updater.mu is held", "held: "+l.StateStr(hs))
		}
	}
	if n4 < 4 {
		c.Undecided("R-C15-4", nil, 0, "accesses of Updater.value/err", "fewer than 4 found")
	}
	c15Get(c)
	c15Receives(c)
	c15WhoNotifies(c)
}

func c15Get(c *eng.Ctx) {
	p := c.P
	get := p.Method(setecPkg, "Updater", "Get")
	if get == nil {
		c.Undecided("R-C15-5", nil, 0, "setec.(*Updater).Get", "anchor does not resolve")
		return
	}
	// the builder call
	var build *ssa.Call
	eng.InstrsDeep(get, func(_ *ssa.Function, in ssa.Instruction) {
		if call, ok := in.(*ssa.Call); ok {
			if fr, _, isF := eng.LoadedField(call.Call.Value); isF && eng.IsNamed(fr.Owner, setecPkg, "Updater") && isBuilderType(call.Call.Value.Type()) {
				build = call
			}
		}
	})
	if build == nil {
		c.Undecided("R-C15-5", get, get.Pos(), "builder call", "not found")
		return
	}
	// the rebuild may live in a helper of Get: the rules below look at the
	// function holding the builder call, with the facts of its call site
	top := get
	get = build.Parent()
	defer func() { get = top }()
	// on the ready edge of a non-blocking receive from the watcher
	ready := false
	var readyEdge *ssa.BasicBlock
	for _, cond := range eng.FactsX(build) {
		op, x, y, isCmp := cond.Cmp()
		if !isCmp || op != token.EQL {
			continue
		}
		ex, isEx := eng.Origin(x).(*ssa.Extract)
		if !isEx || ex.Index != 0 {
			continue
		}
		sel, isSel := ex.Tuple.(*ssa.Select)
		k, isK := eng.ConstInt(y)
		if !isSel || !isK || sel.Blocking || int(k) >= len(sel.States) {
			continue
		}
		st := sel.States[k]
		if st.Dir != types.RecvOnly {
			continue
		}
		if call, _ := eng.TupleCall(st.Chan); call != nil && eng.CalleeIs(&call.Call, setecPkg, "watcher.Ready") {
			ready = true
		} else if fr, _, isF := eng.LoadedField(st.Chan); isF && fr.Is(setecPkg, "watcher", watcherChanField(p)) {
			ready = true
		}
		if ready && cond.If != nil && readyEdge == nil {
			for i, succ := range cond.If.Block().Succs {
				if cd := eng.CondOf(cond.If.Cond, i == 0); cd.Op == token.EQL {
					readyEdge = succ
				}
			}
		}
	}
	// a consumed notification always leads to a rebuild: from the ready edge
	// no return is reached without the builder having been called (whatever
	// the new bytes are: an empty value is a value)
	if readyEdge != nil && readyEdge.Parent() == build.Parent() {
		isBuild := func(x ssa.Instruction) bool { return x == ssa.Instruction(build) }
		hit, path := eng.SearchBlock(get, readyEdge, nil, isBuild, eng.IsReturn)
		if len(readyEdge.Instrs) > 0 && isBuild(readyEdge.Instrs[0]) {
			hit = nil
		}
		c.Check(hit == nil, "R-C15-5", get, build.Pos(), eng.CallStr(&build.Call)+" [always]", "once the notification has been consumed the value is rebuilt from the current bytes on every path (no early return that leaves the old value in place with nothing pending)", func() string {
			if hit == nil {
				return ""
			}
			return "return reached without rebuilding: " + p.PathStr(path)
		}())
	}
	c.Check(ready, "R-C15-5", get, build.Pos(), eng.CallStr(&build.Call)+" [when]", "the value is rebuilt only on the ready edge of a non-blocking receive from the watcher (only if an install happened since the previous Get)", "holding: "+factsStr(eng.FactsX(build)))
	// with the watcher's current bytes
	okArg := p.DependsOn(build.Call.Args[0], func(v ssa.Value) bool {
		fr, _, isF := eng.LoadedField(v)
		return isF && fr.Is(setecPkg, "Updater", updaterField(p, "w"))
	})
	c.Check(okArg, "R-C15-5", get, build.Pos(), eng.CallStr(&build.Call)+" [input]", "built from the bytes read through the updater's own watcher at that moment", "")
	berr := saveErr(build)
	var nv ssa.Value
	for _, r := range *build.Referrers() {
		if ex, ok := r.(*ssa.Extract); ok && ex.Index == 0 {
			nv = ex
		}
	}
	okErr := func(in ssa.Instruction) bool {
		for _, cond := range eng.FactsAt(in) {
			if v, isNil, isE := cond.ErrCheck(); isE && isNil && eng.Same(v, berr) {
				return true
			}
		}
		return false
	}
	var valStores []*ssa.Store
	var errStores []*ssa.Store
	for _, a := range eng.FieldAccesses(get) {
		if !eng.IsNamed(a.Field.Owner, setecPkg, "Updater") || a.Kind != "store" {
			continue
		}
		switch a.Field.Name {
		case updaterField(p, "value"):
			valStores = append(valStores, a.In.(*ssa.Store))
		case updaterField(p, "err"):
			errStores = append(errStores, a.In.(*ssa.Store))
		}
	}
	for _, st := range valStores {
		c.Check(okErr(st) && eng.Same(st.Val, nv), "R-C15-5", get, st.Pos(), eng.InstrStr(st), "the value is replaced only by the builder's result and only on its nil-error edge (a failed build keeps the previous value)", "holding: "+eng.FactsString(st))
	}
	if len(valStores) == 0 {
		c.Bad("R-C15-5", get, get.Pos(), "store to Updater.value", "a successful rebuild replaces the value", "none")
	}
	// Close calls
	nClose := 0
	var closeSite ssa.Instruction
	// closedOperand: the value whose Close method the invoke calls (through
	// the `if c, ok := any(v).(io.Closer)` assertion)
	closedOperand := func(cc *ssa.CallCommon) ssa.Value {
		src := cc.Value
		if ex, isEx := src.(*ssa.Extract); isEx {
			if ta, isTA := ex.Tuple.(*ssa.TypeAssert); isTA {
				src = ta.X
			}
		}
		return eng.OriginConv(src)
	}
	eng.Instrs(get, func(in ssa.Instruction) {
		call, ok := in.(ssa.CallInstruction)
		if !ok {
			return
		}
		var src ssa.Value
		if call.Common().IsInvoke() && call.Common().Method.Name() == "Close" {
			src = closedOperand(call.Common())
		} else if h := eng.Callee(call.Common()); eng.IsHelper(get, h) && len(h.Params) == len(call.Common().Args) {
			// a "close it if it is a Closer" helper: its only effect is one
			// Close invoke on its own parameter
			var inner ssa.CallInstruction
			nInner := 0
			eng.Instrs(h, func(x ssa.Instruction) {
				if ci, isC := x.(ssa.CallInstruction); isC {
					nInner++
					if ci.Common().IsInvoke() && ci.Common().Method.Name() == "Close" {
						inner = ci
					}
				}
			})
			if inner == nil || nInner != 1 {
				return
			}
			op := closedOperand(inner.Common())
			for i, q := range h.Params {
				if ssa.Value(q) == op {
					src = eng.OriginConv(call.Common().Args[i])
				}
			}
			if src == nil {
				return
			}
		} else {
			return
		}
		_, deferred := in.(*ssa.Defer)
		nClose++
		closeSite = in
		ld, fa, isL := loadField(src)
		okOld := false
		if isL {
			if fr, _ := eng.FieldOfAddr(fa); fr.Is(setecPkg, "Updater", updaterField(p, "value")) {
				okOld = true
				for _, st := range valStores {
					// the load must not be after the store
					if hit, _ := eng.Search(get, st, nil, nil, func(x ssa.Instruction) bool { return x == ssa.Instruction(ld) }); hit != nil {
						okOld = false
					}
					// and the Close must happen before the new value could be closed: the close is before the store too
					// (a deferred Close runs at exit with the operand evaluated at the defer statement)
					if hit, _ := eng.Search(get, st, nil, nil, func(x ssa.Instruction) bool { return x == ssa.Instruction(call) }); hit != nil && !deferred {
						okOld = false
					}
				}
			}
		}
		c.Check(okOld && okErr(call), "R-C15-5", get, call.Pos(), eng.CallStr(call.Common()), "only the value held before the replacement is closed, only when the rebuild succeeded (a Close deferred before the builder ran also fires when the build fails and the value is kept), never the current one", "operand "+eng.ValStr(call.Common().Value)+"; holding: "+eng.FactsString(call))
	})
	c.Check(nClose == 1, "R-C15-5", get, get.Pos(), "number of Close sites in Get", "a replaced value is closed exactly once", itoa(nClose)+" sites")
	if nClose == 1 {
		// the close is on every successful-rebuild path (closed exactly once, not zero times) when the value is a Closer:
		// from the ok edge of the type assertion the Close is reached before the store
		isCloserOK := func(b *ssa.BasicBlock, i int) bool {
			ifi, ok := b.Instrs[len(b.Instrs)-1].(*ssa.If)
			if !ok {
				return true
			}
			if src, truth, isCO := eng.CondOf(ifi.Cond, i == 0).CommaOk(); isCO {
				if ta, isTA := src.(*ssa.TypeAssert); isTA && eng.IsNamed(ta.AssertedType, "io", "Closer") {
					return truth // the value is a Closer
				}
			}
			return true
		}
		hit, path := eng.Search(get, build, eng.AndFilters(eng.AssumeErr(berr, true), isCloserOK), func(x ssa.Instruction) bool { return x == closeSite }, func(x ssa.Instruction) bool {
			for _, st := range valStores {
				if x == ssa.Instruction(st) {
					return true
				}
			}
			return false
		})
		c.Check(hit == nil, "R-C15-5", get, closeSite.Pos(), "Close of the replaced value", "whenever the rebuild succeeded and the old value is an io.Closer it is closed before it is replaced (no further condition: exactly once, not zero times)", func() string {
			if hit == nil {
				return ""
			}
			return "the replacement is reached without the Close: " + p.PathStr(path)
		}())
	}
	// err stored on both edges with the builder's error
	for _, st := range errStores {
		// the builder's error itself, or nil where that error is known to be nil
		c.Check(eng.Same(st.Val, berr) || (eng.IsNilConst(eng.Origin(st.Val)) && okErr(st)), "R-C15-5", get, st.Pos(), eng.InstrStr(st), "Err reports the error of the latest rebuild", "stores "+eng.ValStr(st.Val))
	}
	hit, path := eng.Search(get, build, nil, func(x ssa.Instruction) bool {
		for _, st := range errStores {
			if x == ssa.Instruction(st) {
				return true
			}
		}
		return false
	}, eng.IsReturn)
	c.Check(hit == nil && len(errStores) > 0, "R-C15-5", get, build.Pos(), "recording of the rebuild outcome", "after every rebuild (failed or not) err is updated before returning", func() string {
		if hit == nil {
			return "no store to Updater.err"
		}
		return "return reached without updating err: " + p.PathStr(path)
	}())
	// result: the field's value, loaded after any store
	for _, r := range eng.Returns(top) {
		rv := eng.RetVals(r)
		ld, fa, isL := loadField(eng.Origin(rv[0]))
		okk := false
		if isL {
			if fr, _ := eng.FieldOfAddr(fa); fr.Is(setecPkg, "Updater", updaterField(p, "value")) {
				okk = true
				for _, st := range valStores {
					// a store after the load would make the result stale
					if hit, _ := eng.SearchX(top, ld, nil, nil, func(x ssa.Instruction) bool { return x == ssa.Instruction(st) }); hit != nil {
						okk = false
					}
				}
			}
		}
		c.Check(okk, "R-C15-5", top, r.Pos(), eng.InstrStr(r), "Get returns the current value of the field, read after any replacement", "returns "+eng.ValStr(rv[0]))
	}
}

// isBuilderType: func([]byte) (T, error), the value builder of an Updater.
func isBuilderType(t types.Type) bool {
	sg, ok := t.Underlying().(*types.Signature)
	return ok && sg.Params().Len() == 1 && isByteSlice(sg.Params().At(0).Type()) && sg.Results().Len() == 2 && eng.IsErrorType(sg.Results().At(1).Type())
}

// c15Receives: R-C15-6.  A pending notification is consumed only where it
// triggers a rebuild: inside the client library every receive from a
// watcher's ready channel (the field, or what Ready() returns) lies in
// Updater.Get or a helper of it.  A receive anywhere else (draining the
// channel in the constructor, say) throws away the only record that the
// secret changed after the value was built.
func c15Receives(c *eng.Ctx) {
	p := c.P
	get := p.Method(setecPkg, "Updater", "Get")
	if get == nil {
		return
	}
	region := map[*ssa.Function]bool{}
	eng.InstrsDeep(get, func(g *ssa.Function, _ ssa.Instruction) { region[g] = true })
	isReady := func(ch ssa.Value) bool {
		if call, _ := eng.TupleCall(ch); call != nil && eng.CalleeIs(&call.Call, setecPkg, "watcher.Ready") {
			return true
		}
		fr, _, isF := eng.LoadedField(ch)
		return isF && fr.Is(setecPkg, "watcher", watcherChanField(p))
	}
	n := 0
	for _, f := range p.PkgFuncs(setecPkg) {
		eng.Instrs(f, func(in ssa.Instruction) {
			var chans []ssa.Value
			switch x := in.(type) {
			case *ssa.Select:
				for _, st := range x.States {
					if st.Dir == types.RecvOnly {
						chans = append(chans, st.Chan)
					}
				}
			case *ssa.UnOp:
				if x.Op == token.ARROW {
					chans = append(chans, x.X)
				}
			case *ssa.Range:
				if _, isCh := x.X.Type().Underlying().(*types.Chan); isCh {
					chans = append(chans, x.X)
				}
			}
			for _, ch := range chans {
				if !isReady(ch) {
					continue
				}
				n++
				c.Check(region[f] || region[eng.Outer(f)], "R-C15-6", f, in.Pos(), "receive from a watcher's ready channel in "+eng.FName(f), "a notification is consumed only by Updater.Get, where it triggers the rebuild", "consumed elsewhere: the update it announced is never seen by the updater")
			}
		})
	}
	if n == 0 {
		c.Undecided("R-C15-6", get, get.Pos(), "receives from the ready channel", "none found")
	}
}

// c15WhoNotifies: R-C15-7.  A notification is raised only by an install: the
// only callers of watcher.notify are the function applying poll results and
// its helpers ("rebuilt only if an install happened since the previous Get":
// re-arming the channel from anywhere else makes the next Get rebuild with no
// install in between).
func c15WhoNotifies(c *eng.Ctx) {
	p := c.P
	notify := anchor(p, setecPkg, "watcher.notify") // nil when the send is written in place
	region := map[*ssa.Function]bool{}
	for _, af := range applyFuncs(c) {
		eng.InstrsDeep(af, func(g *ssa.Function, _ ssa.Instruction) { region[eng.Outer(g)] = true })
	}
	n := 0
	for _, f := range p.PkgFuncs(setecPkg) {
		eng.Instrs(f, func(in ssa.Instruction) {
			raised := false
			if ci, ok := in.(ssa.CallInstruction); ok && notify != nil && eng.Callee(ci.Common()) == notify {
				raised = true
			}
			if sel, ok := in.(*ssa.Select); ok && f != notify {
				for _, st := range sel.States {
					if st.Dir == types.SendOnly {
						if fr, _, isF := eng.LoadedField(st.Chan); isF && fr.Is(setecPkg, "watcher", watcherChanField(p)) {
							raised = true
						}
					}
				}
			}
			if snd, ok := in.(*ssa.Send); ok && f != notify {
				if fr, _, isF := eng.LoadedField(snd.Chan); isF && fr.Is(setecPkg, "watcher", watcherChanField(p)) {
					raised = true
				}
			}
			if !raised {
				return
			}
			n++
			c.Check(region[eng.Outer(f)], "R-C15-7", f, in.Pos(), "notification raised in "+eng.FName(f)+": "+eng.InstrStr(in), "watchers are notified only where a poll result has just been installed", "notified from "+eng.FName(f))
		})
	}
	if n == 0 {
		c.Undecided("R-C15-7", nil, 0, "places raising a watcher notification", "none found")
	}
}
