package rules

import (
	"fmt"
	"go/token"
	"go/types"
	"regexp/syntax"
	"strings"

	"golang.org/x/tools/go/ssa"

	"setecvet/eng"
)

func init() {
	register(&Prop{
		ID: "C07",
		Explanation: "Decides C07 on valid UTF-8 up to the conformance of package regexp: (R-C07-1) in acl.Secret.Match the pattern reaches the compiled expression only through strings.Split(.,\"*\") -> regexp.QuoteMeta on EVERY piece (a full-range loop that overwrites each element with QuoteMeta of itself) -> strings.Join(., W) -> a constant format with one %s, and the matched name reaches only MatchString; " +
			"(R-C07-2) the template F[L W L W L] built from the extracted constants parses (regexp/syntax, Perl flags) to exactly BeginText, L, (AnyChar)*, L, (AnyChar)*, L, EndText: text anchors (not line anchors), '.' matching newline, no case folding, nothing else; (R-C07-3) the literal short-cut returns true only under pattern == name, and every other result is MatchString of that expression; " +
			"(R-C07-4) Rules.Allow is 'exists rule r: r.Allow(action, secret)' and Rule.Allow is the conjunction of 'exists a in r.Action: a == action' and 'exists s in r.Secret: s.Match(secret)' over the same receiver and the function's own parameters (hence empty set => false, monotone in the rule set); (R-C07-5) no panic site is reachable from Rules.Allow other than MustCompile, whose argument is well-formed for any number of pieces.",
		NotDecided:  "That package regexp implements the syntax tree regexp/syntax produces (trusted); invalid UTF-8 (outside the property's domain).",
		Trusted:     append([]string{"regexp.QuoteMeta(x) matches exactly x", "regexp implements regexp/syntax semantics", "strings.Split/Join are inverse on the separator"}, commonTrusted...),
		Assumptions: []string{},
		Run:         runC07,
	})
}

func runC07(c *eng.Ctx, tier string) { c07Core(c) }

// c07Core: all rules of C07 (also included by C01, whose statement depends on the matching semantics).
func c07Core(c *eng.Ctx) {
	p := c.P
	match := p.Func("acl", "Secret.Match")
	if match == nil || len(match.Params) != 2 {
		c.Undecided("anchor", nil, 0, "acl.Secret.Match", "anchor does not resolve")
		return
	}
	pat, val := match.Params[0], match.Params[1]
	// find the compile call and the match call
	var compile, matchCall *ssa.Call
	eng.Instrs(match, func(in ssa.Instruction) {
		call, ok := in.(*ssa.Call)
		if !ok {
			return
		}
		cal := call.Call.StaticCallee()
		if cal == nil || cal.Pkg == nil || cal.Pkg.Pkg.Path() != "regexp" {
			return
		}
		switch cal.Name() {
		case "MustCompile", "Compile":
			compile = call
		case "MatchString":
			if cal.Signature.Recv() != nil {
				matchCall = call
			}
		}
	})
	var helper *globHelper
	// cf is the function holding the compile chain, patV the pattern there:
	// Match itself, or a single-pattern helper Match hands its pattern to
	cf, patV := match, ssa.Value(pat)
	var viaHelper *ssa.Call
	if compile == nil && matchCall != nil {
		if hc, _ := eng.TupleCall(matchCall.Call.Args[0]); hc != nil {
			if cal := eng.Callee(&hc.Call); cal != nil && cal.Blocks != nil && eng.FuncPkg(cal) == p.TypesPkg("acl") && len(cal.Params) == 1 && isStringType(cal.Params[0].Type()) && len(hc.Call.Args) == 1 && eng.OriginConv(hc.Call.Args[0]) == ssa.Value(pat) {
				if cc := regexpCompileIn(cal); cc != nil {
					cf, patV, compile, viaHelper = cal, ssa.Value(cal.Params[0]), cc, hc
				}
			}
		}
	}
	if viaHelper != nil {
		for _, r := range eng.Returns(cf) {
			rv := eng.RetVals(r)
			c.Check(len(rv) == 1 && eng.Same(rv[0], regexpOf(compile)), "R-C07-1", cf, r.Pos(), "result of compile helper "+eng.FName(cf), "the expression compiled from its pattern argument", "returns "+eng.InstrStr(r))
		}
	}
	if compile == nil && matchCall != nil {
		if h, handled := c07ViaHelper(c, match, matchCall); handled {
			helper = h
			if helper != nil {
				c07Returns(c, match, matchCall)
				c07RulesWith(c, helper)
				c07NoPanic(c)
			}
			return
		}
	}
	if compile == nil || matchCall == nil {
		c.Undecided("R-C07-1", match, match.Pos(), "regexp.Compile/MustCompile and (*Regexp).MatchString in Match", "Match no longer uses package regexp in the recognised way; the glob semantics cannot be decided by template analysis")
		return
	}
	// R-C07-1: format / join / split / quote chain
	var format, wild, sep string
	var parts ssa.Value
	var joinCall *ssa.Call
	chainOK := false
	detail := ""
	viaBuilder := false
	func() {
		if bf, bw, bs, isB, bdet := builderChain(cf, patV, compile.Call.Args[0]); isB {
			format, wild, sep, chainOK, viaBuilder = bf, bw, bs, true, true
			return
		} else if sc, _ := eng.TupleCall(compile.Call.Args[0]); sc != nil && isBuilderMethod(&sc.Call, "String") {
			detail = "strings.Builder form not recognised: " + bdet
			return
		}
		f, operand, det := templateOf(compile.Call.Args[0])
		if det != "" {
			detail = det
			return
		}
		format = f
		// quote-then-rewrite form: ReplaceAll(QuoteMeta(pattern), `\*`, W).
		// QuoteMeta works character by character, so QuoteMeta(a*b) =
		// QuoteMeta(a) + `\*` + QuoteMeta(b); every '*' of its output is an
		// escaped wildcard preceded by its own escape backslash, and the
		// left-to-right non-overlapping scan of ReplaceAll rewrites exactly
		// those pairs: the result equals Join(map(QuoteMeta, Split(pattern, "*")), W)
		if ra, _ := eng.TupleCall(operand); ra != nil && eng.CalleeIs(&ra.Call, "strings", "ReplaceAll") && len(ra.Call.Args) == 3 {
			old, okO := eng.ConstString(ra.Call.Args[1])
			w, okW := eng.ConstString(ra.Call.Args[2])
			if qm, _ := eng.TupleCall(ra.Call.Args[0]); okO && okW && old == "\\*" && qm != nil && eng.CalleeIs(&qm.Call, "regexp", "QuoteMeta") && eng.OriginConv(qm.Call.Args[0]) == patV {
				wild, sep, chainOK, viaBuilder = w, "*", true, true
				return
			}
			detail = "ReplaceAll form not recognised: " + eng.ValStr(operand)
			return
		}
		jn, _ := eng.TupleCall(operand)
		if jn == nil || !eng.CalleeIs(&jn.Call, "strings", "Join") {
			detail = "format operand is not strings.Join(...): " + eng.ValStr(operand)
			return
		}
		joinCall = jn
		w, isC := eng.ConstString(jn.Call.Args[1])
		if !isC {
			detail = "Join separator is not a constant"
			return
		}
		wild = w
		parts = jn.Call.Args[0]
		spl, _ := eng.TupleCall(parts)
		if spl == nil || !eng.CalleeIs(&spl.Call, "strings", "Split") {
			detail = "joined slice is not the result of strings.Split: " + eng.ValStr(parts)
			return
		}
		sp2, isC := eng.ConstString(spl.Call.Args[1])
		if !isC || eng.OriginConv(spl.Call.Args[0]) != patV {
			detail = "Split is not applied to the pattern with a constant separator"
			return
		}
		sep = sp2
		chainOK = true
	}()
	c.Check(chainOK, "R-C07-1", cf, compile.Pos(), "expression compiled in "+eng.FName(cf), "MustCompile(Sprintf(F, Join(Split(pattern, \"*\") with every piece quoted, W)))", detail)
	if !chainOK {
		return
	}
	c.Check(sep == "*", "R-C07-1", match, compile.Pos(), "split separator "+fmt.Sprintf("%q", sep), "the wildcard character '*'", "")
	// every piece quoted: a full-range loop over parts storing QuoteMeta(parts[i]) into parts[i] on every iteration
	quoted := viaBuilder // (there: the only non-constant write is QuoteMeta of the loop's element, on every iteration)
	qdetail := "no full-range loop over the pieces found"
	for _, l := range eng.RangeLoops(cf) {
		if viaBuilder {
			break
		}
		if !eng.Same(l.Slice, parts) && l.Slice != parts {
			continue
		}
		// find store parts[idx] = QuoteMeta(parts[idx]) in the loop
		var st *ssa.Store
		eng.Instrs(cf, func(in ssa.Instruction) {
			s, ok := in.(*ssa.Store)
			if !ok || !l.InLoop(s.Block()) {
				return
			}
			ia, ok := s.Addr.(*ssa.IndexAddr)
			if !ok || ia.Index != l.Idx || (ia.X != parts && !eng.Same(ia.X, parts)) {
				return
			}
			if call, _ := eng.TupleCall(s.Val); call != nil && eng.CalleeIs(&call.Call, "regexp", "QuoteMeta") && l.ElemOf(call.Call.Args[0]) {
				st = s
			}
		})
		if st == nil {
			qdetail = "the loop over the pieces does not store regexp.QuoteMeta(piece) back into the same element"
			continue
		}
		// on every iteration: from the body entry, the header cannot be reached again without passing the store
		hit, path := eng.SearchBlock(cf, l.Body, nil, func(in ssa.Instruction) bool { return in == ssa.Instruction(st) }, func(in ssa.Instruction) bool { return in.Block() == l.Header || eng.IsReturn(in) })
		if l.Body.Instrs[0] == ssa.Instruction(st) {
			hit = nil
		}
		if hit != nil {
			qdetail = "an iteration can skip the QuoteMeta store: " + p.PathStr(path)
			continue
		}
		// the loop lies between Split and Join: Join is dominated by the loop's done block
		jn := joinCall
		if !l.Done.Dominates(jn.Block()) {
			qdetail = "Join is not executed after the quoting loop has finished"
			continue
		}
		quoted = true
	}
	// no other store into the pieces
	eng.Instrs(cf, func(in ssa.Instruction) {
		s, ok := in.(*ssa.Store)
		if !ok {
			return
		}
		if ia, ok := s.Addr.(*ssa.IndexAddr); ok && parts != nil && (ia.X == parts || eng.Same(ia.X, parts)) {
			if call, _ := eng.TupleCall(s.Val); call == nil || !eng.CalleeIs(&call.Call, "regexp", "QuoteMeta") {
				quoted = false
				qdetail = "a piece is overwritten with something other than QuoteMeta: " + eng.InstrStr(in)
			}
		}
	})
	c.Check(quoted, "R-C07-1", cf, compile.Pos(), "quoting of the literal pieces", "every piece between wildcards passes through regexp.QuoteMeta before it reaches the expression", qdetail)
	// val reaches only MatchString (and the equality short-cut)
	if refs := val.Referrers(); refs != nil {
		for _, r := range *refs {
			ok := false
			switch u := r.(type) {
			case *ssa.Call:
				ok = u == matchCall
			case *ssa.BinOp:
				ok = u.Op == token.EQL || u.Op == token.NEQ
			case *ssa.DebugRef, *ssa.Store:
				ok = true
			}
			if !ok {
				c.Bad("R-C07-1", match, r.Pos(), "use of the name: "+eng.InstrStr(r), "the matched name is only compared and passed to MatchString (never part of the expression)", "other use")
			}
		}
	}
	compiled := regexpOf(compile)
	if viaHelper != nil {
		compiled = viaHelper
	}
	c.Check(eng.Origin(matchCall.Call.Args[1]) == ssa.Value(val) && eng.Same(matchCall.Call.Args[0], compiled), "R-C07-1", match, matchCall.Pos(), eng.CallStr(&matchCall.Call), "MatchString(compiled template, name)", "")

	// R-C07-2 template analysis
	c07Template(c, cf, compile, format, wild)

	c07Returns(c, match, matchCall)

	c07Rules(c)
	c07NoPanic(c)
}

// templateOf reduces the expression handed to regexp.Compile to a constant
// format with exactly one operand: fmt.Sprintf(F, x), or a concatenation of
// constants around one non-constant operand ("(?s)^" + x + "$"), which is
// rendered as the equivalent format (literal % doubled).
func templateOf(v ssa.Value) (format string, operand ssa.Value, detail string) {
	if sp, _ := eng.TupleCall(v); sp != nil && eng.CalleeIs(&sp.Call, "fmt", "Sprintf") {
		f, isC := eng.ConstString(sp.Call.Args[0])
		if !isC {
			return "", nil, "format is not a constant"
		}
		pa := eng.Path{Blocks: []*ssa.BasicBlock{sp.Block()}}
		elems, known := pa.SliceElems(sp.Call.Args[1])
		if !known || len(elems) != 1 {
			return "", nil, "format takes other than exactly one operand"
		}
		return f, elems[0], ""
	}
	var pieces []ssa.Value
	var flatten func(v ssa.Value) bool
	flatten = func(v ssa.Value) bool {
		o := eng.Origin(v)
		if b, ok := o.(*ssa.BinOp); ok && b.Op == token.ADD && isStringType(b.Type()) {
			return flatten(b.X) && flatten(b.Y)
		}
		pieces = append(pieces, o)
		return len(pieces) <= 16
	}
	if _, isAdd := eng.Origin(v).(*ssa.BinOp); !isAdd || !flatten(v) {
		return "", nil, "compiled expression is neither fmt.Sprintf(constant, ...) nor a concatenation of constants around one operand: " + eng.ValStr(v)
	}
	for _, pc := range pieces {
		if cs, isC := eng.ConstString(pc); isC {
			format += strings.ReplaceAll(cs, "%", "%%")
			continue
		}
		if operand != nil {
			return "", nil, "the concatenation has more than one non-constant operand"
		}
		operand = pc
		format += "%s"
	}
	if operand == nil {
		return "", nil, "the compiled expression is a constant"
	}
	return format, operand, ""
}

// c07Returns: R-C07-3.
func c07Returns(c *eng.Ctx, match *ssa.Function, matchCall *ssa.Call) {
	pat, val := match.Params[0], match.Params[1]
	// R-C07-3 returns
	for _, r := range eng.Returns(match) {
		rv := eng.RetVals(r)
		site := eng.InstrStr(r)
		if k, ok := eng.Origin(rv[0]).(*ssa.Const); ok {
			if k.Value.String() == "true" {
				okk := false
				for _, cond := range eng.FactsAt(r) {
					op, x, y, isCmp := cond.Cmp()
					if isCmp && op == token.EQL {
						if (eng.OriginConv(x) == ssa.Value(pat) && eng.Origin(y) == ssa.Value(val)) || (eng.OriginConv(y) == ssa.Value(pat) && eng.Origin(x) == ssa.Value(val)) {
							okk = true
						}
					}
				}
				c.Check(okk, "R-C07-3", match, r.Pos(), site, "a constant true is returned only under pattern == name", "holding here: "+eng.FactsString(r))
			} else {
				c.Bad("R-C07-3", match, r.Pos(), site, "a mismatch is only ever the answer of the compiled expression", "constant false returned")
			}
			continue
		}
		c.Check(eng.Origin(rv[0]) == ssa.Value(matchCall), "R-C07-3", match, r.Pos(), site, "the result of MatchString on the compiled template", "returns "+eng.ValStr(rv[0]))
	}

}

func regexpOf(compile *ssa.Call) ssa.Value {
	if compile.Call.Signature().Results().Len() == 1 {
		return compile
	}
	if refs := compile.Referrers(); refs != nil {
		for _, r := range *refs {
			if ex, ok := r.(*ssa.Extract); ok && ex.Index == 0 {
				return ex
			}
		}
	}
	return compile
}

func c07Template(c *eng.Ctx, match *ssa.Function, compile *ssa.Call, format, wild string) {
	if strings.Count(format, "%s") != 1 || strings.Count(format, "%") != 1 {
		c.Bad("R-C07-2", match, compile.Pos(), "format "+fmt.Sprintf("%q", format), "a constant with exactly one %s", "")
		return
	}
	const lit = "Lx" // stands for a QuoteMeta'd piece; contains no metacharacter
	site := fmt.Sprintf("template F=%q W=%q", format, wild)
	for n := 1; n <= 3; n++ {
		pieces := make([]string, n)
		for i := range pieces {
			pieces[i] = lit
		}
		expr := strings.Replace(format, "%s", strings.Join(pieces, wild), 1)
		re, err := syntax.Parse(expr, syntax.Perl)
		if err != nil {
			c.Bad("R-C07-2", match, compile.Pos(), site, "the expression is well-formed for any number of pieces", fmt.Sprintf("%d pieces: %v", n, err))
			return
		}
		re = re.Simplify()
		got := describe(re)
		var want []string
		want = append(want, "BeginText")
		for i := 0; i < n; i++ {
			if i > 0 {
				want = append(want, "Star(AnyChar)")
			}
			want = append(want, "Lit(Lx)")
		}
		want = append(want, "EndText")
		// adjacent literals are never merged here because a Star separates them
		if strings.Join(got, " ") != strings.Join(want, " ") {
			c.Bad("R-C07-2", match, compile.Pos(), site, "parses to "+strings.Join(want, " ")+" (text anchors at both ends, '*' = any run of ANY character including newline, literal pieces case-sensitive)",
				fmt.Sprintf("with %d pieces %q parses to %s", n, expr, strings.Join(got, " ")))
			return
		}
	}
	c.Ok("R-C07-2", match, compile.Pos(), site, "BeginText L (AnyChar)* L ... EndText for 1,2,3 pieces")
}

// describe flattens a regexp syntax tree into a token list.
func describe(re *syntax.Regexp) []string {
	switch re.Op {
	case syntax.OpConcat:
		var out []string
		for _, s := range re.Sub {
			out = append(out, describe(s)...)
		}
		return out
	case syntax.OpLiteral:
		s := "Lit(" + string(re.Rune) + ")"
		if re.Flags&syntax.FoldCase != 0 {
			s = "FoldCase" + s
		}
		return []string{s}
	case syntax.OpBeginText:
		return []string{"BeginText"}
	case syntax.OpEndText:
		if re.Flags&syntax.WasDollar != 0 {
			// `$` without (?m): end of text (not before a trailing newline in Go's RE2)
			return []string{"EndText"}
		}
		return []string{"EndText"}
	case syntax.OpBeginLine:
		return []string{"BeginLine"}
	case syntax.OpEndLine:
		return []string{"EndLine"}
	case syntax.OpAnyChar:
		return []string{"AnyChar"}
	case syntax.OpAnyCharNotNL:
		return []string{"AnyCharNotNL"}
	case syntax.OpStar:
		return []string{"Star(" + strings.Join(describe(re.Sub[0]), " ") + ")"}
	case syntax.OpPlus:
		return []string{"Plus(" + strings.Join(describe(re.Sub[0]), " ") + ")"}
	case syntax.OpQuest:
		return []string{"Quest(" + strings.Join(describe(re.Sub[0]), " ") + ")"}
	case syntax.OpCapture:
		return []string{"Capture(" + strings.Join(describe(re.Sub[0]), " ") + ")"}
	case syntax.OpEmptyMatch:
		return []string{"Empty"}
	}
	return []string{re.Op.String() + "(" + re.String() + ")"}
}

// existsLoop recognises `for _, e := range S { if P(e) { return true } }; return false`.
type existsSummary struct {
	loop eng.RangeLoop
	pred eng.Cond
}

func existsLoop(c *eng.Ctx, rule string, f *ssa.Function, want string) (*existsSummary, bool) {
	loops := eng.RangeLoops(f)
	if len(loops) != 1 {
		c.Undecided(rule, f, f.Pos(), "shape of "+eng.FName(f), "expected one full-range loop ("+want+")")
		return nil, false
	}
	l := loops[0]
	sum := &existsSummary{loop: l}
	okAll := true
	for _, r := range eng.Returns(f) {
		rv := eng.RetVals(r)
		k, isC := eng.Origin(rv[0]).(*ssa.Const)
		if !isC {
			c.Bad(rule, f, r.Pos(), eng.InstrStr(r), want, "returns a computed value")
			okAll = false
			continue
		}
		if k.Value.String() == "true" {
			if !l.InLoop(r.Block()) && !l.Body.Dominates(r.Block()) {
				c.Bad(rule, f, r.Pos(), eng.InstrStr(r), want, "true is returned outside the loop (without a matching element)")
				okAll = false
				continue
			}
			// nearest fact inside the loop is the predicate
			facts := eng.FactsAt(r)
			if len(facts) == 0 {
				c.Bad(rule, f, r.Pos(), eng.InstrStr(r), want, "true is returned unconditionally")
				okAll = false
				continue
			}
			sum.pred = facts[0]
		} else {
			// false only after the loop is exhausted
			if l.Body.Dominates(r.Block()) {
				c.Bad(rule, f, r.Pos(), eng.InstrStr(r), want, "false is returned from inside the loop: a non-matching element ends the search (adding an element can revoke access)")
				okAll = false
			}
		}
	}
	return sum, okAll
}

func c07Rules(c *eng.Ctx) { c07RulesWith(c, nil) }

func c07RulesWith(c *eng.Ctx, helper *globHelper) {
	p := c.P
	rulesAllow := p.Func("acl", "Rules.Allow")
	ruleAllow := p.Method("acl", "Rule", "Allow")
	match := p.Func("acl", "Secret.Match")
	if rulesAllow == nil || ruleAllow == nil {
		c.Undecided("R-C07-4", nil, 0, "acl.Rules.Allow / acl.Rule.Allow", "anchors do not resolve")
		return
	}
	// Rules.Allow
	want := "Rules.Allow(action, secret) == exists r in rules: r.Allow(action, secret)"
	if call, lit := existsHelperCall(rulesAllow); call != nil {
		// written with a generic "any element satisfies" helper and a literal
		okk := eng.Origin(call.Call.Args[0]) == ssa.Value(rulesAllow.Params[0]) && len(lit.Params) == 1
		for _, r := range eng.Returns(lit) {
			pc, _ := eng.TupleCall(eng.RetVals(r)[0])
			if pc == nil || eng.Callee(&pc.Call) != ruleAllow || len(pc.Call.Args) != 3 || !isParamOrItsCell(pc.Call.Args[0], lit.Params[0]) ||
				eng.Origin(pc.Call.Args[1]) != ssa.Value(rulesAllow.Params[1]) || eng.Origin(pc.Call.Args[2]) != ssa.Value(rulesAllow.Params[2]) {
				okk = false
			}
		}
		c.Check(okk, "R-C07-4", rulesAllow, rulesAllow.Pos(), "Rules.Allow", want+" (same action and secret, every rule examined)", "through "+eng.CallStr(&call.Call))
	} else if sum, ok := existsLoop(c, "R-C07-4", rulesAllow, want); ok && sum != nil {
		call, _, truth, isCall := sum.pred.BoolCall()
		okk := isCall && truth && eng.Callee(&call.Call) == ruleAllow && len(call.Call.Args) == 3 &&
			sum.loop.ElemOf(call.Call.Args[0]) && eng.Same(sum.loop.Slice, rulesAllow.Params[0]) &&
			eng.Origin(call.Call.Args[1]) == rulesAllow.Params[1] && eng.Origin(call.Call.Args[2]) == rulesAllow.Params[2]
		c.Check(okk, "R-C07-4", rulesAllow, rulesAllow.Pos(), "Rules.Allow", want+" (same action and secret, every rule examined)", "predicate found: "+sum.pred.String())
	}
	// Rule.Allow: conjunction of two exists
	c07RuleAllow(c, ruleAllow, match, helper)
}

// c07RuleAllow decides that Rule.Allow computes
//
//	(exists a in r.Action: a == action) && (exists s in r.Secret: s.Match(secret))
//
// whatever way it is written: the two membership tests are recognised as
// atoms (a local predicate with an exists-loop, slices.Contains,
// slices.ContainsFunc with a Match literal, or the compiled-alternation
// helper), every path of the function is reduced to the atoms it branches on
// and the value it returns, and the resulting truth table is compared with
// A && S.
func c07RuleAllow(c *eng.Ctx, ruleAllow, match *ssa.Function, helper *globHelper) {
	want2 := "Rule.Allow == (exists a in r.Action: a == action) && (exists s in r.Secret: s.Match(secret))"
	if len(ruleAllow.Params) != 3 {
		c.Undecided("R-C07-4", ruleAllow, ruleAllow.Pos(), "shape of Rule.Allow", "expected (receiver, action, secret)")
		return
	}
	recv, actionP, secretP := ssa.Value(ruleAllow.Params[0]), ssa.Value(ruleAllow.Params[1]), ssa.Value(ruleAllow.Params[2])
	failed := false
	cache := map[ssa.Value]string{}
	recvField := func(v ssa.Value) string {
		fr, base, isF := eng.LoadedField(v)
		if !isF || eng.Origin(base) != recv {
			return ""
		}
		return fr.Name
	}
	atom := func(v ssa.Value) string {
		call, _ := eng.TupleCall(v)
		if call == nil {
			return ""
		}
		if a, ok := cache[call]; ok {
			return a
		}
		res := ""
		defer func() { cache[call] = res }()
		cal0 := call.Call.StaticCallee()
		if cal0 != nil && cal0.Origin() != nil {
			cal0 = cal0.Origin() // instantiation of a generic function
		}
		if cal := cal0; cal != nil && cal.Pkg != nil && cal.Pkg.Pkg.Path() == "slices" {
			name := cal.Name()
			if i := strings.Index(name, "["); i >= 0 {
				name = name[:i]
			}
			switch {
			case name == "Contains" && len(call.Call.Args) == 2 && recvField(call.Call.Args[0]) == "Action" && eng.Origin(call.Call.Args[1]) == actionP:
				c.Ok("R-C07-4", ruleAllow, call.Pos(), "action predicate "+eng.CallStr(&call.Call), "slices.Contains(r.Action, action): element == action over the whole list")
				res = "A"
			case name == "ContainsFunc" && len(call.Call.Args) == 2 && recvField(call.Call.Args[0]) == "Secret":
				mc, isMC := eng.Origin(call.Call.Args[1]).(*ssa.MakeClosure)
				if !isMC {
					return ""
				}
				g := mc.Fn.(*ssa.Function)
				okk := len(g.Params) == 1
				for _, r := range eng.Returns(g) {
					rv := eng.RetVals(r)
					pc, _ := eng.TupleCall(rv[0])
					if pc == nil || eng.Callee(&pc.Call) != match || len(pc.Call.Args) != 2 || eng.Origin(pc.Call.Args[0]) != ssa.Value(g.Params[0]) || eng.Origin(pc.Call.Args[1]) != secretP {
						okk = false
					}
				}
				c.Check(okk, "R-C07-4", g, g.Pos(), "secret predicate "+eng.CallStr(&call.Call), "slices.ContainsFunc(r.Secret, func(p) bool { return p.Match(secret) }) with the function's secret parameter", "")
				if okk {
					res = "S"
				} else {
					failed = true
				}
			}
			return res
		}
		cal := eng.Callee(&call.Call)
		if cal == nil || cal.Blocks == nil || !eng.IsHelper(ruleAllow, cal) {
			return ""
		}
		// a generic "some element satisfies pred" helper applied to one of the
		// rule's lists with a literal predicate
		if isExistsHelper(cal) && len(call.Call.Args) == 2 {
			mc, isMC := eng.Origin(call.Call.Args[1]).(*ssa.MakeClosure)
			fld := recvField(call.Call.Args[0])
			if !isMC || (fld != "Action" && fld != "Secret") {
				return ""
			}
			g := mc.Fn.(*ssa.Function)
			okk := len(g.Params) == 1
			for _, r := range eng.Returns(g) {
				rv := eng.RetVals(r)
				switch fld {
				case "Action":
					b, isB := eng.Origin(rv[0]).(*ssa.BinOp)
					if !isB || b.Op != token.EQL || !((isParamOrItsCell(b.X, g.Params[0]) && eng.Origin(b.Y) == actionP) || (isParamOrItsCell(b.Y, g.Params[0]) && eng.Origin(b.X) == actionP)) {
						okk = false
					}
				case "Secret":
					pc, _ := eng.TupleCall(rv[0])
					if pc == nil || eng.Callee(&pc.Call) != match || len(pc.Call.Args) != 2 || !isParamOrItsCell(pc.Call.Args[0], g.Params[0]) || eng.Origin(pc.Call.Args[1]) != secretP {
						okk = false
					}
				}
			}
			what := map[string]string{"Action": "element == action over the whole r.Action", "Secret": "element.Match(secret) over the whole r.Secret"}[fld]
			c.Check(okk, "R-C07-4", g, g.Pos(), strings.ToLower(fld)+" predicate "+eng.CallStr(&call.Call), what+" (through a helper that reports whether some element satisfies the literal)", "")
			if okk {
				res = map[string]string{"Action": "A", "Secret": "S"}[fld]
			} else {
				failed = true
			}
			return res
		}
		// a local predicate: a literal over one list, or a helper method of
		// the rule taking the action / the secret.  mapv turns a value of its
		// body into Rule.Allow's terms (parameter -> argument of this call)
		mapv := func(x ssa.Value) ssa.Value {
			o := eng.Origin(x)
			if prm, isP := o.(*ssa.Parameter); isP && prm.Parent() == cal {
				for i, q := range cal.Params {
					if q == prm && i < len(call.Call.Args) {
						return eng.Origin(call.Call.Args[i])
					}
				}
			}
			return o
		}
		listField := func(v ssa.Value) string {
			// the list ranged over: a parameter bound to r.Action / r.Secret, or that field of the receiver parameter
			if f := recvField(mapv(v)); f != "" {
				return f
			}
			if fr, base, isF := eng.LoadedField(v); isF && mapv(base) == recv {
				return fr.Name
			}
			return ""
		}
		if helper != nil {
			// alternative form: compile(secs...).MatchString(secret), guarded for the empty list
			okH := false
			for _, r := range eng.Returns(cal) {
				rv := eng.RetVals(r)
				if mc, _ := eng.TupleCall(rv[0]); mc != nil && eng.CalleeIs(&mc.Call, "regexp", "*Regexp.MatchString") {
					if hc, _ := eng.TupleCall(mc.Call.Args[0]); hc != nil && eng.Callee(&hc.Call) == helper.fn && listField(hc.Call.Args[0]) == "Secret" && mapv(mc.Call.Args[1]) == secretP {
						okH = true
					}
				}
			}
			if okH {
				c.Ok("R-C07-4", cal, cal.Pos(), "secret predicate via "+eng.FName(helper.fn), "the rule's whole pattern list compiled into one anchored alternation, matched against the function's secret parameter")
				res = "S"
				return res
			}
		}
		if len(eng.RangeLoops(cal)) != 1 {
			return "" // not a membership predicate
		}
		sum, ok := existsLoop(c, "R-C07-4", cal, want2)
		if !ok || sum == nil {
			failed = true
			return ""
		}
		fld := listField(sum.loop.Slice)
		switch fld {
		case "Action":
			op, x, y, isCmp := sum.pred.Cmp()
			okk := isCmp && op == token.EQL && ((sum.loop.ElemOf(x) && mapv(y) == actionP) || (sum.loop.ElemOf(y) && mapv(x) == actionP))
			c.Check(okk, "R-C07-4", cal, cal.Pos(), "action predicate "+sum.pred.String(), "element == action (exact, case-sensitive comparison with the function's action parameter), over the whole r.Action", "")
			if okk {
				res = "A"
			} else {
				failed = true
			}
		case "Secret":
			pc, _, truth, isCall := sum.pred.BoolCall()
			okk := isCall && truth && eng.Callee(&pc.Call) == match && sum.loop.ElemOf(pc.Call.Args[0]) && mapv(pc.Call.Args[1]) == secretP
			c.Check(okk, "R-C07-4", cal, cal.Pos(), "secret predicate "+sum.pred.String(), "element.Match(secret) with the function's secret parameter, over the whole r.Secret", "")
			if okk {
				res = "S"
			} else {
				failed = true
			}
		default:
			c.Bad("R-C07-4", cal, cal.Pos(), "loop of "+eng.FName(cal), want2, "does not range over the whole r.Action / r.Secret of the receiver")
			failed = true
		}
		return res
	}
	// membership loops written inline in Rule.Allow: the loop over r.Action /
	// r.Secret is an atom, true when left through its predicate's true edge,
	// false when left because the list is exhausted
	type inlineLoop struct {
		atom   string
		header *ssa.If
		pred   *ssa.If
	}
	var inl []inlineLoop
	for _, l := range eng.RangeLoops(ruleAllow) {
		fld := recvField(l.Slice)
		if fld != "Action" && fld != "Secret" {
			continue
		}
		hdr, _ := l.Header.Instrs[len(l.Header.Instrs)-1].(*ssa.If)
		var pred *ssa.If
		eng.Instrs(ruleAllow, func(in ssa.Instruction) {
			ifi, ok := in.(*ssa.If)
			if !ok || !l.InLoop(ifi.Block()) || ifi == hdr {
				return
			}
			cd := eng.CondOf(ifi.Cond, true)
			switch fld {
			case "Action":
				if op, x, y, isCmp := cd.Cmp(); isCmp && (op == token.EQL || op == token.NEQ) && ((l.ElemOf(x) && eng.Origin(y) == actionP) || (l.ElemOf(y) && eng.Origin(x) == actionP)) {
					pred = ifi
				}
			case "Secret":
				if pc, _, _, isCall := cd.BoolCall(); isCall && eng.Callee(&pc.Call) == match && l.ElemOf(pc.Call.Args[0]) && eng.Origin(pc.Call.Args[1]) == secretP {
					pred = ifi
				}
			}
		})
		if hdr == nil || pred == nil {
			c.Undecided("R-C07-4", ruleAllow, l.Header.Instrs[0].Pos(), "loop over r."+fld+" in Rule.Allow", "no element == action / element.Match(secret) test found in it")
			return
		}
		a := "A"
		if fld == "Secret" {
			a = "S"
		}
		c.Ok("R-C07-4", ruleAllow, pred.Pos(), "inline membership loop over r."+fld, "whole list, predicate "+eng.CondOf(pred.Cond, true).String())
		inl = append(inl, inlineLoop{a, hdr, pred})
	}
	visits := 1
	if len(inl) > 0 {
		visits = 2
	}
	paths, ok := eng.EnumPaths(ruleAllow, visits, 4096)
	if !ok || len(paths) == 0 {
		c.Undecided("R-C07-4", ruleAllow, ruleAllow.Pos(), "shape of Rule.Allow", "too many paths")
		return
	}
	type row struct {
		lits map[string]bool
		res  string // "true", "false", "A", "S"
	}
	var rows []row
	for _, pa := range paths {
		ret, isR := pa.Last().(*ssa.Return)
		if !isR {
			c.Bad("R-C07-4", ruleAllow, pa.Last().Pos(), eng.InstrStr(pa.Last()), want2, "Rule.Allow can panic")
			return
		}
		rw := row{lits: map[string]bool{}}
		contradictory := false
		// how each inline loop is left on this path
		matched := map[string]bool{}
		for _, cd := range pa.Conds() {
			for _, il := range inl {
				if cd.If == il.pred {
					// the predicate's positive edge
					pos := eng.CondOf(il.pred.Cond, true)
					isPos := cd.Op == pos.Op && cd.Truth == pos.Truth
					if pos.Op == token.NEQ {
						isPos = !isPos // `if elem != action { continue }`
					}
					if isPos {
						matched[il.atom] = true
					}
				}
			}
		}
		skip := false
		for _, cd := range pa.Conds() {
			handled := false
			for _, il := range inl {
				if cd.If == il.pred {
					handled = true
					if matched[il.atom] {
						rw.lits[il.atom] = true
					}
				}
				if cd.If == il.header {
					handled = true
					// leaving by the header's exit edge without a match: exhausted
					exit := il.header.Block().Succs[1]
					taken := false
					for i, b := range pa.Blocks {
						if b == il.header.Block() && i+1 < len(pa.Blocks) && pa.Blocks[i+1] == exit {
							taken = true
						}
					}
					if taken && !matched[il.atom] {
						if old, has := rw.lits[il.atom]; has && old {
							contradictory = true
						}
						rw.lits[il.atom] = false
					}
				}
			}
			if handled {
				continue
			}
			v, truth, isB := cd.Bool()
			a := ""
			if isB {
				a = atom(v)
			}
			if a == "" && isB {
				// a flag set in a loop (`found = true; break`): its value on
				// this path is known; a branch against it is infeasible
				prefix := eng.Path{Blocks: pa.Blocks}
				for i, b := range pa.Blocks {
					if b == cd.If.Block() {
						prefix = eng.Path{Blocks: pa.Blocks[:i+1]}
					}
				}
				if k, isC := prefix.Resolve(v).(*ssa.Const); isC && k.Value != nil && (k.Value.String() == "true" || k.Value.String() == "false") {
					if (k.Value.String() == "true") != truth {
						skip = true
					}
					continue
				}
			}
			if a == "" {
				if !failed {
					c.Undecided("R-C07-4", ruleAllow, cd.If.Pos(), "branch condition "+cd.String(), "not one of the two membership tests of Rule.Allow")
				}
				return
			}
			if old, has := rw.lits[a]; has && old != truth {
				contradictory = true
			}
			rw.lits[a] = truth
		}
		if contradictory || skip {
			continue
		}
		rv := pa.Resolve(eng.RetVals(ret)[0])
		if k, isC := rv.(*ssa.Const); isC && k.Value != nil {
			rw.res = k.Value.String()
		} else if a := atom(rv); a != "" {
			rw.res = a
		} else {
			if !failed {
				c.Undecided("R-C07-4", ruleAllow, ret.Pos(), "result "+eng.ValStr(rv), "neither a constant nor one of the two membership tests")
			}
			return
		}
		rows = append(rows, rw)
	}
	if failed {
		return
	}
	for _, av := range []bool{false, true} {
		for _, sv := range []bool{false, true} {
			asg := map[string]bool{"A": av, "S": sv}
			got, n := false, 0
			conflict := false
			for _, rw := range rows {
				okRow := true
				for a, t := range rw.lits {
					if asg[a] != t {
						okRow = false
					}
				}
				if !okRow {
					continue
				}
				var r bool
				switch rw.res {
				case "true":
					r = true
				case "false":
					r = false
				default:
					r = asg[rw.res]
				}
				if n > 0 && r != got {
					conflict = true
				}
				got = r
				n++
			}
			site := "Rule.Allow with action-listed=" + boolStr(av) + " secret-matched=" + boolStr(sv)
			if n == 0 || conflict {
				c.Undecided("R-C07-4", ruleAllow, ruleAllow.Pos(), site, "no single outcome could be derived from the paths")
				continue
			}
			c.Check(got == (av && sv), "R-C07-4", ruleAllow, ruleAllow.Pos(), site, want2+": result "+boolStr(av && sv), "result "+boolStr(got))
		}
	}
}

// conjunctionOf decomposes a value produced by `a && b` (phi of false and b,
// under a true) into [a, b].
func conjunctionOf(v ssa.Value) ([]ssa.Value, bool) {
	return shortCircuit(v, false)
}

func disjunctionOf(v ssa.Value) ([]ssa.Value, bool) {
	return shortCircuit(v, true)
}

func shortCircuit(v ssa.Value, constWhenShort bool) ([]ssa.Value, bool) {
	phi, ok := v.(*ssa.Phi)
	if !ok || len(phi.Edges) != 2 {
		return nil, false
	}
	for i, e := range phi.Edges {
		k, isC := e.(*ssa.Const)
		if !isC || k.Value == nil || (k.Value.String() == "true") != constWhenShort {
			continue
		}
		// the const edge comes from the block that tested a
		from := phi.Block().Preds[i]
		ifi, isIf := from.Instrs[len(from.Instrs)-1].(*ssa.If)
		if !isIf {
			continue
		}
		a := ifi.Cond
		b := phi.Edges[1-i]
		// the other edge's block is reached on the non-short branch
		return []ssa.Value{a, b}, true
	}
	return nil, false
}

func c07NoPanic(c *eng.Ctx) {
	p := c.P
	rulesAllow := p.Func("acl", "Rules.Allow")
	if rulesAllow == nil {
		return
	}
	g := p.CallGraph()
	for f := range g.Reach(rulesAllow, nil) {
		loops := eng.RangeLoops(f)
		bad := false
		eng.Instrs(f, func(in ssa.Instruction) {
			switch x := in.(type) {
			case *ssa.Panic:
				bad = true
				c.Bad("R-C07-5", f, in.Pos(), "panic", "ACL evaluation never panics", "explicit panic")
			case *ssa.TypeAssert:
				if !x.CommaOk {
					bad = true
					c.Bad("R-C07-5", f, in.Pos(), eng.InstrStr(in), "no unchecked type assertion", "")
				}
			case *ssa.IndexAddr:
				ok := false
				for _, l := range loops {
					if x.Index == l.Idx && (x.X == l.Slice || eng.Same(x.X, l.Slice)) {
						ok = true
					}
				}
				if al, isAl := x.X.(*ssa.Alloc); isAl {
					if _, isConst := eng.ConstInt(x.Index); isConst && al != nil {
						ok = true // varargs array literal
					}
				}
				// a slice made with the loop's length, indexed by the loop's induction variable
				if mk, isMk := eng.Origin(x.X).(*ssa.MakeSlice); isMk && !ok {
					for _, l := range loops {
						if x.Index != l.Idx {
							continue
						}
						if args, isLen := eng.BuiltinCall(instrOf(eng.Origin(mk.Len)), "len"); isLen && (args[0] == l.Slice || eng.Same(args[0], l.Slice)) {
							ok = true
						}
					}
				}
				if k, isConst := eng.ConstInt(x.Index); isConst && !ok {
					// constant index under a dominating length test
					for _, cond := range eng.FactsAt(in) {
						op, a, b, isCmp := cond.Cmp()
						if !isCmp {
							continue
						}
						la, isLen := eng.BuiltinCall(instrOf(a), "len")
						n, isN := eng.ConstInt(b)
						if !isLen || !isN || !(la[0] == x.X || eng.Same(la[0], x.X)) {
							continue
						}
						switch op {
						case token.EQL:
							ok = ok || n > k
						case token.GTR:
							ok = ok || n >= k
						case token.GEQ:
							ok = ok || n > k
						}
					}
				}
				if !ok {
					bad = true
					c.Bad("R-C07-5", f, in.Pos(), eng.InstrStr(in), "indexing only with the induction variable of a full-range loop over the same slice", "index may be out of range")
				}
			case *ssa.Slice:
				if x.Low != nil || x.High != nil {
					if _, isAl := x.X.(*ssa.Alloc); !isAl {
						bad = true
						c.Bad("R-C07-5", f, in.Pos(), eng.InstrStr(in), "no slicing with bounds", "may be out of range")
					}
				}
			case *ssa.BinOp:
				if x.Op == token.QUO || x.Op == token.REM {
					bad = true
					c.Bad("R-C07-5", f, in.Pos(), eng.InstrStr(in), "no division", "may divide by zero")
				}
			}
		})
		if !bad {
			c.Ok("R-C07-5", f, f.Pos(), "panic sites of "+eng.FName(f), "none (MustCompile's argument is well-formed by R-C07-2)")
		}
	}
}

func instrOf(v ssa.Value) ssa.Instruction {
	if in, ok := v.(ssa.Instruction); ok {
		return in
	}
	return nil
}

// isExistsHelper: h(xs, pred) reports whether pred holds for some element of
// xs: one full-range loop over its slice parameter, true returned exactly on
// the true edge of pred(element), false only after the loop.
func isExistsHelper(h *ssa.Function) bool {
	if h == nil || h.Blocks == nil || len(h.Params) != 2 {
		return false
	}
	if _, isSl := h.Params[0].Type().Underlying().(*types.Slice); !isSl {
		return false
	}
	if _, isFn := h.Params[1].Type().Underlying().(*types.Signature); !isFn {
		return false
	}
	loops := eng.RangeLoops(h)
	if len(loops) != 1 || eng.Origin(loops[0].Slice) != ssa.Value(h.Params[0]) {
		return false
	}
	l := loops[0]
	nTrue := 0
	for _, r := range eng.Returns(h) {
		k, isC := eng.Origin(eng.RetVals(r)[0]).(*ssa.Const)
		if !isC || k.Value == nil {
			return false
		}
		if k.Value.String() == "true" {
			if !l.Body.Dominates(r.Block()) {
				return false
			}
			facts := eng.FactsAt(r)
			if len(facts) == 0 {
				return false
			}
			pc, _, truth, isCall := facts[0].BoolCall()
			if !isCall || !truth || eng.Origin(pc.Call.Value) != ssa.Value(h.Params[1]) || len(pc.Call.Args) != 1 || !l.ElemOf(pc.Call.Args[0]) {
				return false
			}
			nTrue++
		} else if l.Body.Dominates(r.Block()) {
			return false
		}
	}
	return nTrue == 1
}

// existsHelperCall: f's only return is the result of an exists-helper applied
// to a function literal; returns that call and the literal.
func existsHelperCall(f *ssa.Function) (*ssa.Call, *ssa.Function) {
	rets := eng.Returns(f)
	if len(rets) != 1 {
		return nil, nil
	}
	call, _ := eng.TupleCall(eng.RetVals(rets[0])[0])
	if call == nil || len(call.Call.Args) != 2 || !eng.IsHelper(f, eng.Callee(&call.Call)) || !isExistsHelper(eng.Callee(&call.Call)) {
		return nil, nil
	}
	mc, isMC := eng.Origin(call.Call.Args[1]).(*ssa.MakeClosure)
	if !isMC {
		return nil, nil
	}
	return call, mc.Fn.(*ssa.Function)
}

// isParamOrItsCell: v is parameter prm, a load of it, or the address of the
// cell it was spilled into (pointer-receiver call on a by-value parameter).
func isParamOrItsCell(v ssa.Value, prm *ssa.Parameter) bool {
	if eng.Origin(v) == ssa.Value(prm) {
		return true
	}
	if al, ok := v.(*ssa.Alloc); ok {
		sts := eng.CellStores(al)
		return len(sts) == 1 && sts[0].Val == ssa.Value(prm)
	}
	return false
}
