package rules

import (
	"fmt"
	"go/token"
	"go/types"
	"strings"

	"golang.org/x/tools/go/ssa"

	"setecvet/eng"
)

func init() {
	register(&Prop{
		ID: "C11",
		Explanation: "Decides structural necessary conditions of C11: (R-C11-1) in Store.poll every iteration over the snapshot either issues GetIfChanged for that name or takes a skip path whose deciding condition depends (data/control dependence, through the snapshot's struct field and module callees) on a comma-ok read of the handle map Store.active.f: the store may only skip what it is going to forget, and it never forgets a name that has a handle; " +
			"(R-C11-2) poll errors abort before applying: applyUpdates is edge-dominated by the nil edge of poll, every GetIfChanged error other than ErrValueNotChanged flows into the returned errors.Join, the refresh closure reports both failures; (R-C11-3) pairing: the name fetched, the version sent and the key written to the update set are the same snapshot entry, and apply installs updates[name] under name; " +
			"(R-C11-8) a successful answer whose version differs from the held one reaches the update set on every path (path search with the == edge of the version comparison removed: an ordering test such as > leaves a path and is reported), and the poll loop has no early exit that lets poll return nil with names unvisited; (R-C11-4) apply happens in one critical section followed by a cache flush; (R-C11-5) single-flight keys are the constant \"poll\" or \"lookup:\"+name (disjoint families) and Refresh is the only route to poll/applyUpdates; (R-C11-7) cadence: the poller waits on one ticker created with interval plus a jitter of at most a tenth of the interval either way, and nothing resets that ticker; (R-C11-6) poll itself writes nothing to the active set, so a failed poll leaves every old value in place. (R-C11-1, extended) every iteration of the poll loop either asks the service about that name or records the expired marker for it, and every name of the active set enters the snapshot the loop runs over. (R-C11-9) a handle reads the entry stored under its name at each call (handleBoundToName) and the cache document is the whole live active set (C13's R-C13-2). (R-C11-10) a failed cache flush in the apply phase makes the poll fail (the failure reaches apply's caller as a non-nil error); (R-C11-11) the apply phase re-checks the handle registry before it removes an entry (C19's R-C19-1).",
		NotDecided:  "Freshness against the service's history; poll cadence +/-10% (arithmetic on a random value); convergence after failures.",
		Trusted:     append([]string{"singleflight.Group runs one function per key at a time and hands every waiter its result", "errors.Join is nil iff all elements are nil"}, commonTrusted...),
		Assumptions: []string{},
		Run:         runC11,
	})
}

func runC11(c *eng.Ctx, tier string) {
	p := c.P
	poll := anchor(p, setecPkg, "(*Store).poll")
	refresh := p.Method(setecPkg, "Store", "Refresh")
	afs := applyFuncs(c)
	if poll == nil || refresh == nil || len(afs) == 0 {
		c.Undecided("anchor", nil, 0, "setec.(*Store).poll / Refresh / the function installing poll results", "anchors do not resolve")
		return
	}
	// R-C11-9: "every secret the store knows yields ...": a handle reads the
	// entry stored under its name at each call (what a poll installs is what
	// handles yield), and "the cache holds the same": the document written is
	// the whole live active set (C13's rule)
	handleBoundToName(c, "R-C11-9")
	includeOnly(c, "R-C11-9", func(sc *eng.Ctx) { runC13(sc, "quick") }, "R-C13-2")
	// R-C11-11: "every secret the store knows yields ...": an entry a handle
	// refers to stays in the set whatever a poll decided earlier (the apply
	// phase re-checks the handle registry before it removes: C19's rule)
	includeOnly(c, "R-C11-11", func(sc *eng.Ctx) { runC19(sc, "quick") }, "R-C19-1")
	// the function the refresh round calls to apply: the callee of the round
	// (the closure calling poll) that reaches an installing function
	apply := afs[0]
	for _, e := range p.CallGraph().CallersOf(poll) {
		eng.Instrs(e.Caller, func(in ssa.Instruction) {
			if call, ok := in.(*ssa.Call); ok {
				if cal := eng.Callee(&call.Call); cal != nil && cal != poll {
					for _, af := range afs {
						if p.CallGraph().Reach(cal, nil)[af] {
							apply = cal
						}
					}
				}
			}
		})
	}
	c11Poll(c, poll)
	c11Refresh(c, refresh, poll, apply)
	for _, af := range afs {
		c11Apply(c, af)
	}
	c11Keys(c, refresh, poll, apply)
	c11Cadence(c)
	// the cache is written with the lock held (a flush encoded earlier can
	// otherwise land after a newer one: the cache would not hold what the store yields)
	l := moduleLocks(c)
	for _, f := range p.PkgFuncs(setecPkg) {
		eng.Instrs(f, func(in ssa.Instruction) {
			call, ok := in.(*ssa.Call)
			if !ok || !call.Call.IsInvoke() || call.Call.Method.Name() != "Write" || !eng.IsNamed(call.Call.Value.Type(), setecPkg, "Cache") {
				return
			}
			st := l.HeldBefore(in)
			c.Check(l.Holds(st, keyStore), "R-C11-4", f, in.Pos(), eng.CallStr(&call.Call)+" [lock]", "the cache is written inside the critical section in which the document was encoded (flushes cannot overtake each other)", "held: "+l.StateStr(st))
		})
	}
	// R-C11-6 poll writes nothing
	g := p.CallGraph()
	reach := g.Reach(poll, nil)
	n := 0
	for _, a := range storeAccesses(p) {
		if reach[a.Fn] && a.Write {
			n++
			c.Bad("R-C11-6", a.Fn, a.In.Pos(), eng.InstrStr(a.In), "poll performs no write to the active set (old values survive a failed poll)", "write of "+a.What+" reachable from poll via "+strings.Join(g.PathTo(poll, a.Fn), " -> "))
		}
	}
	if n == 0 {
		c.Ok("R-C11-6", poll, poll.Pos(), "effects of poll", "read-only on the active set")
	}
}

// mapRange finds `for k, v := range <map>` loops: the Next instruction, the
// loop header/body, and the key/value extracts.
type mapLoop struct {
	Range  *ssa.Range
	Next   *ssa.Next
	Header *ssa.BasicBlock
	Body   *ssa.BasicBlock
	Done   *ssa.BasicBlock
	Key    ssa.Value
	Val    ssa.Value
	Elems  *eng.RangeLoop // set for a loop over a slice of entries (Range, Next and Key are then nil)
}

// Src is the collection the loop runs over.
func (l *mapLoop) Src() ssa.Value {
	if l.Elems != nil {
		return l.Elems.Slice
	}
	return l.Range.X
}

// At is a position for reports about the loop.
func (l *mapLoop) At() token.Pos {
	if l.Next != nil {
		return l.Next.Pos()
	}
	if l.Header != nil && len(l.Header.Instrs) > 0 {
		return l.Header.Instrs[len(l.Header.Instrs)-1].Pos()
	}
	return token.NoPos
}

// IsKey: v is the name of the entry of this iteration: the map key, or --
// for a loop over a slice of entries -- the string field of the element.
func (l *mapLoop) IsKey(v ssa.Value) bool {
	if l.Elems == nil {
		return l.Key != nil && (eng.Origin(v) == l.Key || eng.OriginX(v) == l.Key)
	}
	for _, w := range []ssa.Value{eng.Origin(v), eng.OriginX(v)} {
		if fr, base, isF := eng.LoadedField(w); isF && isStringType(w.Type()) && fr.Name != "" && (eng.Origin(base) == l.Val || l.Elems.ElemOf(base)) {
			return true
		}
	}
	return false
}

// entryLoops: the map loops of f, and its full-range loops over a slice of
// struct entries (Val is the element loaded in the body; the key is the
// element's string field: IsKey).
func entryLoops(f *ssa.Function) []mapLoop {
	out := mapLoops(f)
	for _, rl := range eng.RangeLoops(f) {
		rl := rl
		sl, ok := rl.Slice.Type().Underlying().(*types.Slice)
		if !ok {
			continue
		}
		if _, isSt := sl.Elem().Underlying().(*types.Struct); !isSt {
			continue
		}
		l := mapLoop{Header: rl.Header, Body: rl.Body, Done: rl.Done, Elems: &rl}
		eng.Instrs(f, func(in ssa.Instruction) {
			if u, isU := in.(*ssa.UnOp); isU && u.Op == token.MUL && l.Val == nil && rl.InLoop(u.Block()) {
				if ia, isIA := u.X.(*ssa.IndexAddr); isIA && ia.Index == rl.Idx && (ia.X == rl.Slice || eng.Same(ia.X, rl.Slice)) {
					l.Val = u
				}
			}
		})
		if l.Val != nil {
			out = append(out, l)
		}
	}
	return out
}

func mapLoops(f *ssa.Function) []mapLoop {
	var out []mapLoop
	eng.Instrs(f, func(in ssa.Instruction) {
		nx, ok := in.(*ssa.Next)
		if !ok {
			return
		}
		rg, ok := nx.Iter.(*ssa.Range)
		if !ok {
			return
		}
		l := mapLoop{Range: rg, Next: nx, Header: nx.Block()}
		for _, r := range *nx.Referrers() {
			if ex, ok := r.(*ssa.Extract); ok {
				switch ex.Index {
				case 1:
					l.Key = ex
				case 2:
					l.Val = ex
				}
			}
		}
		if ifi, ok := l.Header.Instrs[len(l.Header.Instrs)-1].(*ssa.If); ok {
			_ = ifi
			l.Body, l.Done = l.Header.Succs[0], l.Header.Succs[1]
		}
		out = append(out, l)
	})
	return out
}

func c11Poll(c *eng.Ctx, poll *ssa.Function) {
	p := c.P
	var loop *mapLoop
	for _, l := range entryLoops(poll) {
		// (the snapshot may be taken by poll's only caller and handed in)
		if call, _ := eng.TupleCall(eng.OriginX(l.Src())); call != nil {
			if cal := eng.Callee(&call.Call); cal != nil && p.CallGraph() != nil && returnsSnapshot(p, cal) {
				ll := l
				loop = &ll
			}
		}
	}
	if loop == nil || loop.Body == nil {
		c.Undecided("R-C11-1", poll, poll.Pos(), "poll loop", "no loop over a snapshot of the active set found")
		return
	}
	// the fetch: the request itself, or the call of a helper of poll making it
	var fetch *ssa.Call // in poll: the request or the helper call
	var req *ssa.Call   // the request (in poll or in the helper)
	eng.Instrs(poll, func(in ssa.Instruction) {
		if call, ok := in.(*ssa.Call); ok && isStoreClientInvoke(&call.Call) {
			fetch, req = call, call
		}
	})
	if fetch == nil {
		eng.Instrs(poll, func(in ssa.Instruction) {
			call, ok := in.(*ssa.Call)
			if !ok || !eng.IsHelper(poll, eng.Callee(&call.Call)) || !isFetchCall(p, call) || eng.UniqueCallSite(eng.Callee(&call.Call)) == nil {
				return
			}
			eng.Instrs(eng.Callee(&call.Call), func(x ssa.Instruction) {
				if ic, isC := x.(*ssa.Call); isC && isStoreClientInvoke(&ic.Call) {
					fetch, req = call, ic
				}
			})
		})
	}
	if fetch == nil {
		c.Bad("R-C11-1", poll, poll.Pos(), "poll loop", "each known name is fetched with GetIfChanged", "no service request in poll")
		return
	}
	viaHelper := fetch != req
	// R-C11-3 pairing of the request
	a := req.Call.Args
	okPair := req.Call.Method.Name() == "GetIfChanged" && len(a) == 3 && loop.IsKey(a[1])
	verOK := false
	if fr, base, isF := eng.LoadedField(eng.OriginX(a[2])); isF && fr.Name == "version" && eng.Origin(base) != nil {
		if eng.Origin(base) == loop.Val || isCellOf(base, loop.Val) {
			verOK = true
		}
	}
	c.Check(okPair && verOK, "R-C11-3", req.Parent(), req.Pos(), eng.CallStr(&req.Call), "GetIfChanged(ctx, name, version) with name and version of the same snapshot entry", "")
	if ctxP := ctxParam(poll); ctxP != nil {
		c.Check(eng.OriginX(a[0]) == eng.OriginX(ctxP), "R-C11-3", req.Parent(), req.Pos(), "context of the fetch", "poll's own context", "context "+eng.ValStr(a[0]))
	}
	if viaHelper {
		c11FetchHelper(c, req)
	}
	// updates[name] = got
	eng.Instrs(poll, func(in ssa.Instruction) {
		mu, ok := in.(*ssa.MapUpdate)
		if !ok {
			return
		}
		// the update set: a parameter, or a map poll makes and returns
		switch eng.Origin(mu.Map).(type) {
		case *ssa.Parameter, *ssa.MakeMap:
		default:
			return
		}
		if eng.IsNilConst(eng.Origin(mu.Value)) {
			return // the "delete me" marker: C19
		}
		got, idx := eng.TupleCall(mu.Value)
		c.Check(loop.IsKey(mu.Key) && got == fetch && idx == 0, "R-C11-3", poll, in.Pos(), eng.InstrStr(in), "the value recorded for a name is the one fetched for that name in this iteration", "")
	})

	// R-C11-8: a successful answer carrying a version different from the held
	// one is always recorded (no ordering test, no other way round it)
	{
		ferr := saveErr(fetch)
		isVer := func(v ssa.Value) int { // 1 = fetched Version, 2 = held version
			fr, base, isF := eng.LoadedField(v)
			if !isF {
				if cv, ok := eng.Origin(v).(*ssa.Convert); ok {
					fr, base, isF = eng.LoadedField(cv.X)
				}
			}
			if !isF {
				return 0
			}
			if fr.Name == "Version" {
				if call, idx := eng.TupleCall(base); call == fetch && idx == 0 {
					return 1
				}
			}
			if fr.Name == "version" && (eng.Origin(base) == loop.Val || isCellOf(base, loop.Val)) {
				return 2
			}
			return 0
		}
		differ := func(b *ssa.BasicBlock, i int) bool {
			ifi, ok := b.Instrs[len(b.Instrs)-1].(*ssa.If)
			if !ok {
				return true
			}
			cd := eng.CondOf(ifi.Cond, i == 0)
			if call, _, truth, isCall := cd.BoolCall(); isCall && (eng.CalleeIs(&call.Call, "errors", "Is") || eng.CalleeIs(&call.Call, "errors", "As")) && eng.Same(call.Call.Args[0], ferr) {
				return !truth // errors.Is(nil, x) is false
			}
			op, x, y, isCmp := cd.Cmp()
			if !isCmp || isVer(x)*isVer(y) != 2 {
				return true
			}
			return op != token.EQL // versions differ: the == edge is infeasible, every other is possible
		}
		recorded := func(in ssa.Instruction) bool {
			mu, ok := in.(*ssa.MapUpdate)
			if !ok {
				return false
			}
			got, idx := eng.TupleCall(mu.Value)
			return got == fetch && idx == 0
		}
		filt := eng.AndFilters(eng.AssumeErr(ferr, true), differ)
		if viaHelper {
			// the helper answers a non-nil value exactly when the versions differ (c11FetchHelper)
			var hv ssa.Value
			for _, rf := range *fetch.Referrers() {
				if ex, isEx := rf.(*ssa.Extract); isEx && ex.Index == 0 {
					hv = ex
				}
			}
			filt = eng.AndFilters(eng.AssumeErr(ferr, true), eng.AssumeErr(hv, false))
		}
		hit, path := eng.Search(poll, fetch, filt, recorded, func(x ssa.Instruction) bool {
			return eng.IsReturn(x) || x.Block() == loop.Header
		})
		c.Check(hit == nil, "R-C11-8", poll, fetch.Pos(), "answer of "+eng.CallStr(&fetch.Call), "an answer whose version differs from the held one is recorded for installation on every path (also when the service's active version moved backwards)", func() string {
			if hit == nil {
				return ""
			}
			return "with err == nil and got.Version != held version the next iteration / return is reached without recording the answer: " + p.PathStr(path)
		}())
	}

	// R-C11-1 early exits: leaving the loop from inside its body abandons the
	// names not visited yet; that is acceptable only if poll then fails.
	{
		inLoop := map[*ssa.BasicBlock]bool{loop.Header: true}
		for _, b := range poll.Blocks {
			if !loop.Body.Dominates(b) || len(b.Instrs) == 0 {
				continue
			}
			if hit, _ := eng.SearchBlock(poll, b, nil, nil, func(x ssa.Instruction) bool { return x.Block() == loop.Header }); hit != nil {
				inLoop[b] = true
			}
		}
		normalRet := map[ssa.Instruction]bool{}
		if loop.Done != nil && len(loop.Done.Instrs) > 0 {
			for _, r := range eng.Returns(poll) {
				if hit, _ := eng.SearchBlock(poll, loop.Done, nil, nil, func(x ssa.Instruction) bool { return x == ssa.Instruction(r) }); hit != nil {
					normalRet[r] = true
				}
			}
		}
		n := 0
		for _, b := range poll.Blocks {
			if !inLoop[b] || b == loop.Header {
				continue
			}
			for _, s2 := range b.Succs {
				if inLoop[s2] || len(s2.Instrs) == 0 {
					continue
				}
				n++
				site := "exit from the poll loop at " + p.Pos(b.Instrs[len(b.Instrs)-1].Pos())
				bad := ""
				for _, r := range eng.Returns(poll) {
					if hit, _ := eng.SearchBlock(poll, s2, nil, nil, func(x ssa.Instruction) bool { return x == ssa.Instruction(r) }); hit == nil {
						continue
					}
					rv := eng.RetVals(r)
					if normalRet[r] {
						bad = "reaches the ordinary return " + eng.InstrStr(r) + " (nil when no error was recorded so far)"
					} else if ei := errResultIndex(poll); ei >= 0 && ei < len(rv) && eng.IsNilConst(eng.Origin(rv[ei])) {
						bad = "returns nil"
					}
				}
				if bad != "" {
					// an error appended to the joined slice just before leaving makes poll fail
					for _, in := range b.Instrs {
						if args, ok := eng.BuiltinCall(in, "append"); ok && len(args) == 2 && eng.IsErrorSlice(args[0].Type()) {
							bad = ""
						}
					}
				}
				c.Check(bad == "", "R-C11-1", poll, b.Instrs[len(b.Instrs)-1].Pos(), site, "the loop over the known names is left early only on a path on which poll reports failure (the names not yet visited were not refreshed)", bad)
			}
		}
		if n == 0 {
			c.Ok("R-C11-1", poll, loop.At(), "exits of the poll loop", "only the exhausted-iterator exit")
		}
	}

	// R-C11-1 skip paths
	isFetch := func(in ssa.Instruction) bool { return in == ssa.Instruction(fetch) }
	// an iteration that does not ask the service records the expired marker
	// for that name (the only thing a poll may do instead of refreshing a
	// name is to schedule it for removal)
	{
		isMarker := func(in ssa.Instruction) bool {
			mu, ok := in.(*ssa.MapUpdate)
			if !ok || !eng.IsNilConst(eng.Origin(mu.Value)) || !loop.IsKey(mu.Key) {
				return false
			}
			mt, _ := mu.Map.Type().Underlying().(*types.Map)
			return mt != nil && eng.IsNamed(mt.Elem(), "types/api", "SecretValue")
		}
		hit, path := eng.SearchBlock(poll, loop.Body, nil, func(x ssa.Instruction) bool { return isFetch(x) || isMarker(x) }, func(x ssa.Instruction) bool {
			return x.Block() == loop.Header
		})
		if len(loop.Body.Instrs) > 0 && (isFetch(loop.Body.Instrs[0]) || isMarker(loop.Body.Instrs[0])) {
			hit = nil
		}
		if hit != nil {
			// two passes over one snapshot: an earlier loop over the same
			// snapshot records the marker for every element whose flag F is
			// set; this loop may then pass over exactly those elements
			flagOf := func(l *mapLoop, v ssa.Value) string {
				fr, base, isF := eng.LoadedField(v)
				if !isF || base == nil || !(eng.Origin(base) == l.Val || isCellOf(base, l.Val)) {
					return ""
				}
				return fr.Name
			}
			marked := map[string]bool{}
			for _, l1 := range entryLoops(poll) {
				l1 := l1
				if l1.Header == loop.Header || l1.Body == nil || l1.Done == nil || !eng.Same(l1.Src(), loop.Src()) || !l1.Done.Dominates(loop.Header) {
					continue
				}
				isMarker1 := func(in ssa.Instruction) bool {
					mu, ok := in.(*ssa.MapUpdate)
					if !ok || !eng.IsNilConst(eng.Origin(mu.Value)) || eng.Origin(mu.Key) != l1.Key {
						return false
					}
					mt, _ := mu.Map.Type().Underlying().(*types.Map)
					return mt != nil && eng.IsNamed(mt.Elem(), "types/api", "SecretValue")
				}
				// candidate flags: fields of the element branched on in l1
				flags := map[string]bool{}
				eng.Instrs(poll, func(in ssa.Instruction) {
					if ifi, ok := in.(*ssa.If); ok && l1.Body.Dominates(ifi.Block()) {
						if v, _, isB := eng.CondOf(ifi.Cond, true).Bool(); isB {
							if f := flagOf(&l1, v); f != "" {
								flags[f] = true
							}
						}
					}
				})
				for f := range flags {
					assume := func(b *ssa.BasicBlock, i int) bool {
						ifi, ok := b.Instrs[len(b.Instrs)-1].(*ssa.If)
						if !ok {
							return true
						}
						v, truth, isB := eng.CondOf(ifi.Cond, i == 0).Bool()
						if isB && flagOf(&l1, v) == f {
							return truth
						}
						return true
					}
					if miss, _ := eng.SearchBlock(poll, l1.Body, assume, isMarker1, func(x ssa.Instruction) bool { return x.Block() == l1.Header || eng.IsReturn(x) }); miss == nil {
						marked[f] = true
					}
				}
			}
			if len(marked) > 0 {
				notMarked := func(b *ssa.BasicBlock, i int) bool {
					ifi, ok := b.Instrs[len(b.Instrs)-1].(*ssa.If)
					if !ok {
						return true
					}
					v, truth, isB := eng.CondOf(ifi.Cond, i == 0).Bool()
					if isB && marked[flagOf(loop, v)] {
						return !truth // elements with the flag set were marked by the earlier pass
					}
					return true
				}
				hit, path = eng.SearchBlock(poll, loop.Body, notMarked, func(x ssa.Instruction) bool { return isFetch(x) || isMarker(x) }, func(x ssa.Instruction) bool {
					return x.Block() == loop.Header
				})
			}
		}
		c.Check(hit == nil, "R-C11-1", poll, loop.At(), "iterations of the poll loop", "every known name is either asked about or marked for removal in each poll (no name is silently left as it is: a successful poll brings EVERY known secret up to date)", func() string {
			if hit == nil {
				return ""
			}
			return "the next name is reached with neither: " + p.PathStr(path)
		}())
	}
	// ... and the snapshot the loop runs over holds every name of the active set
	if call, _ := eng.TupleCall(eng.OriginX(loop.Src())); call != nil {
		if sn := eng.Callee(&call.Call); sn != nil {
			for _, sl := range mapLoops(sn) {
				if nm, isAct := activeMapOf(sl.Range.X); !isAct || nm != "m" || sl.Body == nil {
					continue
				}
				isPut := func(in ssa.Instruction) bool {
					if mu, ok := in.(*ssa.MapUpdate); ok {
						return eng.Origin(mu.Key) == sl.Key
					}
					// (a snapshot kept as a slice of entries: the entry appended carries the name)
					if args, ok := eng.BuiltinCall(in, "append"); ok && len(args) == 2 && types.Identical(args[0].Type(), sn.Signature.Results().At(0).Type()) {
						named := false
						for _, x := range in.Block().Instrs {
							if st, isSt := x.(*ssa.Store); isSt && eng.Origin(st.Val) == sl.Key {
								if _, isF := eng.FieldOfAddr(st.Addr); isF {
									named = true
								}
							}
						}
						return named
					}
					return false
				}
				hit, path := eng.SearchBlock(sn, sl.Body, nil, isPut, func(x ssa.Instruction) bool { return x.Block() == sl.Header })
				if len(sl.Body.Instrs) > 0 && isPut(sl.Body.Instrs[0]) {
					hit = nil
				}
				c.Check(hit == nil, "R-C11-1", sn, sl.Next.Pos(), "iterations of the snapshot loop in "+eng.FName(sn), "every name of the active set enters the snapshot a poll works from (declared or not, with or without a handle)", func() string {
					if hit == nil {
						return ""
					}
					return "a name can be left out: " + p.PathStr(path)
				}())
			}
		}
	}
	// enumerate body paths from body entry to header avoiding the fetch
	// a skip path leaves the set of blocks from which the fetch is reachable
	// at one branch: that branch's condition is the deciding one.
	canFetch := map[*ssa.BasicBlock]bool{}
	for _, b := range poll.Blocks {
		if b == fetch.Block() {
			canFetch[b] = true
			continue
		}
		if len(b.Instrs) > 0 {
			if hit, _ := eng.SearchBlock(poll, b, nil, func(x ssa.Instruction) bool { return x.Block() == loop.Header }, isFetch); hit != nil {
				canFetch[b] = true
			}
		}
	}
	var skipConds [][]eng.Cond
	for _, b := range poll.Blocks {
		if !canFetch[b] || b == fetch.Block() || !loop.Body.Dominates(b) {
			continue
		}
		ifi, ok := b.Instrs[len(b.Instrs)-1].(*ssa.If)
		if !ok {
			continue
		}
		for i, s2 := range b.Succs {
			if canFetch[s2] {
				continue
			}
			// does this edge come back to the loop header (next iteration)?
			back := s2 == loop.Header
			if !back && len(s2.Instrs) > 0 {
				if hit, _ := eng.SearchBlock(poll, s2, nil, nil, func(x ssa.Instruction) bool { return x.Block() == loop.Header }); hit != nil {
					back = true
				}
			}
			if back {
				cd := eng.CondOf(ifi.Cond, i == 0)
				skipConds = append(skipConds, []eng.Cond{cd})
			}
		}
	}
	if len(skipConds) == 0 {
		c.Ok("R-C11-1", poll, fetch.Pos(), "poll loop", "every known name is fetched on every path (no skip path)")
		return
	}
	handleRead := func(v ssa.Value) bool {
		lk, ok := v.(*ssa.Lookup)
		if !ok || !lk.CommaOk {
			return false
		}
		n, isAct := activeMapOf(lk.X)
		return isAct && n == "f"
	}
	for _, conds := range skipConds {
		site := "skip path in poll under: " + factsStr(conds)
		ok := false
		for _, cd := range conds {
			v := cd.X
			// direct dependence inside poll
			if p.DependsOn(v, handleRead) {
				ok = true
				break
			}
			// through a field of the snapshot element: find every store to that field
			fr, base, isF := eng.LoadedField(v)
			if !isF || !(eng.Origin(base) == loop.Val || isCellOf(base, loop.Val)) {
				continue
			}
			all := true
			n := 0
			for _, f := range p.PkgFuncs(setecPkg) {
				eng.Instrs(f, func(in ssa.Instruction) {
					st, isSt := in.(*ssa.Store)
					if !isSt {
						return
					}
					fr2, isF2 := eng.FieldOfAddr(st.Addr)
					if !isF2 || fr2.Name != fr.Name || !types.Identical(eng.Deref(fr2.Owner), eng.Deref(fr.Owner)) {
						return
					}
					n++
					if !p.DependsOn(st.Val, handleRead) {
						all = false
					}
				})
			}
			if n > 0 && all {
				ok = true
				break
			}
		}
		c.Check(ok, "R-C11-1", poll, loop.At(), site,
			"a name may be skipped by a poll only under a condition that depends on a comma-ok read of the handle map Store.active.f (what is skipped is forgotten, and a name with a handle is never forgotten)",
			"the skip condition does not depend on the handle map: a secret that is kept (it has a handle) but judged expired is never refreshed again although Refresh reports success")
	}
}

func returnsSnapshot(p *eng.Prog, f *ssa.Function) bool {
	// a module function whose result is a map built from Store.active.m
	if f == nil || f.Blocks == nil {
		return false
	}
	res := f.Signature.Results()
	if res.Len() != 1 {
		return false
	}
	switch t := res.At(0).Type().Underlying().(type) {
	case *types.Map:
	case *types.Slice:
		// (a slice of entries carrying their name)
		if _, isSt := t.Elem().Underlying().(*types.Struct); !isSt {
			return false
		}
	default:
		return false
	}
	found := false
	for _, a := range storeAccesses1(f) {
		if a.What == "active.m" {
			found = true
		}
	}
	return found
}

func isCellOf(cell ssa.Value, v ssa.Value) bool {
	al, ok := cell.(*ssa.Alloc)
	if !ok {
		return false
	}
	sts := eng.CellStores(al)
	return len(sts) == 1 && sts[0].Val == v
}

func ctxParam(f *ssa.Function) *ssa.Parameter {
	for _, prm := range f.Params {
		if eng.IsNamed(prm.Type(), "context", "Context") {
			return prm
		}
	}
	return nil
}

func c11Refresh(c *eng.Ctx, refresh, poll, apply *ssa.Function) {
	p := c.P
	// the closure that calls poll
	var cl *ssa.Function
	var pollCall, applyCall *ssa.Call
	for _, e := range p.CallGraph().CallersOf(poll) {
		if call, ok := e.Site.(*ssa.Call); ok {
			cl, pollCall = e.Caller, call
		}
	}
	if cl == nil {
		c.Undecided("R-C11-2", poll, poll.Pos(), "caller of poll", "not found")
		return
	}
	eng.Instrs(cl, func(in ssa.Instruction) {
		if call, ok := in.(*ssa.Call); ok && eng.Callee(&call.Call) == apply {
			applyCall = call
		}
	})
	if applyCall == nil {
		c.Bad("R-C11-2", cl, cl.Pos(), "refresh round "+eng.FName(cl), "a successful poll is applied", "applyUpdates is not called after poll")
		return
	}
	ok := false
	for _, cond := range eng.FactsAt(applyCall) {
		if v, isNil, isE := cond.ErrCheck(); isE && isNil && eng.Same(v, saveErr(pollCall)) {
			ok = true
		}
	}
	c.Check(ok, "R-C11-2", cl, applyCall.Pos(), eng.CallStr(&applyCall.Call), "updates are applied only on the nil-error edge of poll (a failed poll applies nothing)", "holding here: "+eng.FactsString(applyCall))
	// same update set, made afresh for this round
	// either the round makes the map and hands it to both, or poll makes it and returns it
	var sameSet, fresh bool
	handed := applyCall.Call.Args[len(applyCall.Call.Args)-1]
	if pc, idx := eng.TupleCall(handed); pc == pollCall && idx == 0 {
		sameSet = true
		inner, _ := eng.ThroughHelper(handed, func(g *ssa.Function) bool { return g == poll })
		if inner != nil {
			_, fresh = eng.Origin(inner).(*ssa.MakeMap)
		}
	} else {
		last := pollCall.Call.Args[len(pollCall.Call.Args)-1]
		sameSet = len(applyCall.Call.Args) == 2 && eng.Same(last, handed)
		_, fresh = eng.Origin(last).(*ssa.MakeMap)
	}
	c.Check(sameSet && fresh, "R-C11-2", cl, applyCall.Pos(), "update set handed from poll to the apply step", "the same map, created empty for this round (nothing fetched by an earlier, failed round can be applied later)", "same="+boolStr(sameSet)+" fresh="+boolStr(fresh)+": "+eng.ValStr(handed))
	// both failures reported by the closure
	for _, call := range []*ssa.Call{pollCall, applyCall} {
		ev := saveErr(call)
		hit, path := eng.Search(cl, call, eng.AssumeErr(ev, false), nil, func(x ssa.Instruction) bool {
			r, isR := x.(*ssa.Return)
			if !isR {
				return false
			}
			rv := eng.RetVals(r)
			// (handing the failed call's own error on is returning it)
			if eng.Same(rv[len(rv)-1], ev) {
				return false
			}
			return nonNilAt(rv[len(rv)-1], eng.FactsAt(r)) != eng.Yes
		})
		c.Check(hit == nil, "R-C11-2", cl, call.Pos(), "failure of "+eng.CallStr(&call.Call), "the refresh round returns a non-nil error", func() string {
			if hit == nil {
				return ""
			}
			return "return at " + p.Pos(hit.Pos()) + " drops it: " + p.PathStr(path)
		}())
	}
	// poll: every fetch error is joined into the result (the fetch: the
	// request, or the call of the helper making it)
	var fetch *ssa.Call
	eng.Instrs(poll, func(in ssa.Instruction) {
		if call, ok := in.(*ssa.Call); ok && isFetchCall(p, call) {
			fetch = call
		}
	})
	if fetch == nil {
		return
	}
	ferr := saveErr(fetch)
	// the returned value
	var joined ssa.Value
	ei := errResultIndex(poll)
	if ei < 0 {
		c.Undecided("R-C11-2", poll, poll.Pos(), "result of poll", "no error result")
		return
	}
	isJoin := func(v ssa.Value) *ssa.Call {
		if call, _ := eng.TupleCall(v); call != nil && (eng.CalleeIs(&call.Call, "errors", "Join") || eng.CalleeIs(&call.Call, "tailscale.com/util/multierr", "New")) {
			return call
		}
		return nil
	}
	for _, r := range eng.Returns(poll) {
		rv := eng.RetVals(r)
		okRet := false
		if call := isJoin(rv[ei]); call != nil {
			joined, okRet = call.Call.Args[0], true
		}
		// ... or the join wrapped with %w where it is non-nil, and nil where it is nil
		pa := eng.Path{Blocks: []*ssa.BasicBlock{r.Block()}}
		if w, _ := eng.TupleCall(rv[ei]); w != nil && eng.CalleeIs(&w.Call, "fmt", "Errorf") && len(w.Call.Args) == 2 && errorfHasW(w) {
			elems, _ := pa.SliceElems(w.Call.Args[1])
			for _, e := range elems {
				if call := isJoin(pa.Resolve(e)); call != nil {
					joined, okRet = call.Call.Args[0], true
				}
			}
		}
		if eng.IsNilConst(eng.Origin(rv[ei])) {
			for _, cond := range eng.FactsAt(r) {
				if v, isNil, isN := cond.NilCheck(); isN && isNil {
					if call := isJoin(v); call != nil {
						joined, okRet = call.Call.Args[0], true
					}
				}
			}
		}
		if !okRet && !eng.Same(rv[ei], ferr) {
			c.Bad("R-C11-2", poll, r.Pos(), eng.InstrStr(r), "poll returns the join of all fetch errors", "returns "+eng.ValStr(rv[ei]))
		}
	}
	if joined == nil {
		c.Undecided("R-C11-2", poll, poll.Pos(), "result of poll", "not errors.Join of an accumulated slice")
		return
	}
	_, phis := eng.PhiLeaves(joined)
	isAppendOfErr := func(in ssa.Instruction) bool {
		args, ok := eng.BuiltinCall(in, "append")
		if !ok {
			return false
		}
		pa := eng.Path{Blocks: []*ssa.BasicBlock{in.Block()}}
		elems, _ := pa.SliceElems(args[1])
		has := false
		for _, e := range elems {
			if eng.Same(e, ferr) {
				has = true
			}
		}
		if !has {
			return false
		}
		// the append result feeds the accumulated slice
		res := in.(*ssa.Call)
		for ph := range phis {
			for _, e := range ph.Edges {
				if e == ssa.Value(res) {
					return true
				}
			}
		}
		return false
	}
	// from the fetch, assuming err != nil and not "not changed": reach header/return without the append?
	notChanged := func(b *ssa.BasicBlock, i int) bool {
		ifi, ok := b.Instrs[len(b.Instrs)-1].(*ssa.If)
		if !ok {
			return true
		}
		cond := eng.CondOf(ifi.Cond, i == 0)
		if call, _, truth, isCall := cond.BoolCall(); isCall && eng.CalleeIs(&call.Call, "errors", "Is") && eng.Same(call.Call.Args[0], ferr) && eng.IsGlobalLoad(call.Call.Args[1], "types/api", "ErrValueNotChanged") {
			return !truth // follow only the "is not ErrValueNotChanged" edge
		}
		return true
	}
	var loopHeader *ssa.BasicBlock
	for _, l := range mapLoops(poll) {
		loopHeader = l.Header
	}
	hit, path := eng.Search(poll, fetch, eng.AndFilters(eng.AssumeErr(ferr, false), notChanged), isAppendOfErr, func(x ssa.Instruction) bool {
		return eng.IsReturn(x) || (loopHeader != nil && x.Block() == loopHeader)
	})
	c.Check(hit == nil, "R-C11-2", poll, fetch.Pos(), "error of "+eng.CallStr(&fetch.Call), "every fetch error other than ErrValueNotChanged is appended to the slice poll returns joined (never dropped)", func() string {
		if hit == nil {
			return ""
		}
		return "the next iteration / return is reached with the error unrecorded: " + p.PathStr(path)
	}())
}

func c11Apply(c *eng.Ctx, apply *ssa.Function) {
	p := c.P
	// the loop over the update set may be in the function that calls the
	// installing helper
	paramLoop := func(f *ssa.Function) *mapLoop {
		for _, l := range mapLoops(f) {
			if _, isP := eng.Origin(l.Range.X).(*ssa.Parameter); isP {
				ll := l
				return &ll
			}
		}
		return nil
	}
	root := eng.HelperRoot(apply, func(f *ssa.Function) bool { return paramLoop(f) != nil })
	loop := paramLoop(root)
	if loop == nil {
		c.Undecided("R-C11-3", apply, apply.Pos(), "applyUpdates loop", "no loop over the update set")
		return
	}
	l := moduleLocks(c)
	n := 0
	for _, a := range storeAccesses(p) {
		if a.Fn != apply || !a.Write || a.What != "cachedSecret.Secret" {
			continue
		}
		n++
		st := a.In.(*ssa.Store)
		// the entry written is active.m[name] for the loop's name, value is the loop's value
		fa := st.Addr.(*ssa.FieldAddr)
		okName := false
		if lk, isLk := eng.Origin(fa.X).(*ssa.Lookup); isLk {
			if nm, isAct := activeMapOf(lk.X); isAct && nm == "m" && eng.OriginX(lk.Index) == loop.Key {
				okName = true
			}
		}
		c.Check(okName && eng.OriginX(st.Val) == loop.Val, "R-C11-3", apply, a.In.Pos(), eng.InstrStr(a.In), "applyUpdates installs updates[name] into the entry of that same name", "")
		// R-C11-4: under the lock, followed by a flush before return
		hs := l.HeldBefore(a.In)
		c.Check(l.HoldsReal(hs, keyStore), "R-C11-4", apply, a.In.Pos(), eng.InstrStr(a.In)+" [lock]", "installs happen with Store.active.Mutex held", "held: "+l.StateStr(hs))
		hit, path := eng.SearchX(apply, a.In, nil, func(x ssa.Instruction) bool {
			if call, ok := x.(*ssa.Call); ok {
				if cal := eng.Callee(&call.Call); cal != nil && reachesCacheWrite(p, cal) {
					return true
				}
			}
			return false
		}, eng.IsReturn)
		c.Check(hit == nil, "R-C11-4", apply, a.In.Pos(), eng.InstrStr(a.In)+" [flush]", "every path from an install to the return flushes the cache", func() string {
			if hit == nil {
				return ""
			}
			return "return reachable without flush: " + p.PathStr(path)
		}())
	}
	if n == 0 {
		c.Bad("R-C11-3", apply, apply.Pos(), "applyUpdates", "new values are installed", "no store to cachedSecret.Secret in applyUpdates")
	}
	// every recorded new value is installed: with a non-nil update the next
	// iteration is not reached without passing an install (no "same bytes,
	// skip it": the version number would never be taken over)
	if loop.Next != nil {
		isInstall := func(x ssa.Instruction) bool {
			for _, a := range storeAccesses(p) {
				if a.In == x && a.Write && a.What == "cachedSecret.Secret" {
					return true
				}
			}
			return false
		}
		hit, path := eng.SearchX(root, loop.Next, eng.AssumeErr(loop.Val, false), isInstall, func(x ssa.Instruction) bool {
			return x == ssa.Instruction(loop.Next)
		})
		c.Check(hit == nil, "R-C11-3", root, loop.Next.Pos(), "apply loop: a recorded new value", "is installed on every path before the next update is looked at", func() string {
			if hit == nil {
				return ""
			}
			return "the next iteration is reached without an install: " + p.PathStr(path)
		}())
	}
	// R-C11-10: a poll whose cache flush failed is not a successful poll: the
	// failure of the flush in the apply phase reaches apply's caller
	{
		nf := 0
		eng.Instrs(apply, func(in ssa.Instruction) {
			call, ok := in.(*ssa.Call)
			if !ok {
				return
			}
			cal := eng.Callee(&call.Call)
			if cal == nil || !reachesCacheWrite(p, cal) {
				return
			}
			nf++
			site := "failure of " + eng.CallStr(&call.Call) + " in the apply phase"
			want := "apply returns a non-nil error (the poll is reported as failed: memory and cache differ)"
			ei, fei := errResultIndex(apply), errResultIndex(cal)
			if ei < 0 || fei < 0 {
				c.Bad("R-C11-10", apply, in.Pos(), site, want, "no error result to carry it")
				return
			}
			ev := saveErr(call)
			hit, path := eng.Search(apply, call, eng.AssumeErr(ev, false), nil, func(x ssa.Instruction) bool {
				r, isR := x.(*ssa.Return)
				if !isR {
					return false
				}
				rv := eng.RetVals(r)
				if eng.Same(rv[ei], ev) {
					return false
				}
				return nonNilAt(rv[ei], eng.FactsAt(r)) != eng.Yes
			})
			c.Check(hit == nil, "R-C11-10", apply, in.Pos(), site, want, func() string {
				if hit == nil {
					return ""
				}
				return "a return that may answer nil is reachable after the failed flush: " + p.PathStr(path)
			}())
		})
		if nf == 0 && root == apply {
			c.Undecided("R-C11-10", apply, apply.Pos(), "cache flush of the apply phase", "no call reaching Cache.Write found directly in "+eng.FName(apply))
		}
	}
	// single critical section: no unlock inside the loop
	eng.InstrsDeep(root, func(_ *ssa.Function, in ssa.Instruction) {
		if call, ok := in.(*ssa.Call); ok {
			if op, k, isL := eng.LockOp(&call.Call); isL && k == keyStore && op == "Unlock" {
				c.Bad("R-C11-4", apply, in.Pos(), eng.InstrStr(in), "all installs of one poll happen in one critical section", "explicit unlock inside applyUpdates")
			}
		}
	})
}

// reachesCacheWrite: f (transitively) invokes Cache.Write.
func reachesCacheWrite(p *eng.Prog, f *ssa.Function) bool {
	hits := p.CallGraph().FindReachable(f, func(e eng.Edge) bool { return e.Kind == "closure" || e.Kind == "bound" }, func(in ssa.Instruction) bool {
		if ci, ok := in.(ssa.CallInstruction); ok {
			cc := ci.Common()
			return cc.IsInvoke() && cc.Method.Name() == "Write" && eng.IsNamed(cc.Value.Type(), setecPkg, "Cache")
		}
		return false
	})
	return len(hits) > 0
}

func c11Keys(c *eng.Ctx, refresh, poll, apply *ssa.Function) {
	p := c.P
	n := 0
	for _, f := range p.PkgFuncs(setecPkg) {
		eng.Instrs(f, func(in ssa.Instruction) {
			call, ok := in.(*ssa.Call)
			if !ok {
				return
			}
			cal := call.Call.StaticCallee()
			if cal == nil || cal.Pkg == nil || cal.Pkg.Pkg.Path() != "golang.org/x/sync/singleflight" || (cal.Name() != "Do" && cal.Name() != "DoChan") {
				return
			}
			n++
			key := call.Call.Args[1]
			okk := false
			desc := eng.ValStr(key)
			if s, isC := eng.ConstString(key); isC {
				okk = s == "poll"
				// the function run under "poll" is the one calling poll
				if okk {
					if mc, isMC := eng.Origin(call.Call.Args[2]).(*ssa.MakeClosure); isMC {
						reach := p.CallGraph().Reach(mc.Fn.(*ssa.Function), nil)
						okk = reach[poll] && reach[apply]
					}
				}
			} else if text, vars, isT := eng.StrTemplate(eng.OriginX(key)); isT && len(vars) >= 1 {
				// a constant label joined with a name (possibly computed by the
				// caller of a helper): it can never equal "poll" if the constant
				// part before the first variable is no prefix of "poll"
				pre := text
				if i := strings.Index(text, "%"); i >= 0 {
					pre = text[:i]
				}
				okk = pre != "" && !strings.HasPrefix("poll", pre)
			}
			c.Check(okk, "R-C11-5", f, in.Pos(), "single-flight key "+desc+" in "+eng.FName(f), "keys are the constant \"poll\" (for the poll round) or \"lookup:\"+name: the two families cannot collide", "")
		})
	}
	if n < 2 {
		c.Undecided("R-C11-5", nil, 0, "single-flight call sites", "fewer than 2 found")
	}
	noForget(c, "R-C11-5")
	// Refresh's single-flight round is the only route to poll/applyUpdates:
	// walking up the call graph from either, every chain of callers ends in
	// the function literal handed to the "poll" flight (possibly through
	// helpers called from it), never in another entry point
	var gate *ssa.Function
	eng.Instrs(refresh, func(in ssa.Instruction) {
		call, ok := in.(*ssa.Call)
		if !ok || len(call.Call.Args) < 3 {
			return
		}
		cal := call.Call.StaticCallee()
		if cal == nil || cal.Pkg == nil || cal.Pkg.Pkg.Path() != "golang.org/x/sync/singleflight" {
			return
		}
		if mc, isMC := eng.Origin(call.Call.Args[2]).(*ssa.MakeClosure); isMC {
			gate = mc.Fn.(*ssa.Function)
		}
	})
	for _, target := range []*ssa.Function{poll, apply} {
		seen := map[*ssa.Function]bool{target: true}
		work := []*ssa.Function{target}
		for len(work) > 0 {
			f := work[0]
			work = work[1:]
			edges := p.CallGraph().CallersOf(f)
			if len(edges) == 0 {
				c.Bad("R-C11-5", f, f.Pos(), "route to "+target.Name()+" from "+eng.FName(f), "poll and applyUpdates run only inside Refresh's single-flight round (two apply phases never overlap)", eng.FName(f)+" has no caller inside the round: it is an entry point of its own")
			}
			for _, e := range edges {
				switch {
				case e.Caller == gate:
					c.Ok("R-C11-5", e.Caller, e.Site.Pos(), "caller of "+f.Name()+": "+eng.FName(e.Caller), "inside the function run by the \"poll\" flight")
				case e.Kind != "static" || (e.Caller.Object() != nil && e.Caller.Object().Exported()):
					c.Bad("R-C11-5", e.Caller, e.Site.Pos(), "caller of "+f.Name()+": "+eng.FName(e.Caller), "poll and applyUpdates run only inside Refresh's single-flight round (two apply phases never overlap)", "called outside the round")
				case !seen[e.Caller]:
					seen[e.Caller] = true
					work = append(work, e.Caller)
				}
			}
		}
	}
}

// c11Cadence: R-C11-7.
func c11Cadence(c *eng.Ctx) {
	p := c.P
	// no Reset of a time.Ticker anywhere in the client library
	n := 0
	for _, f := range p.PkgFuncs(setecPkg) {
		eng.Instrs(f, func(in ssa.Instruction) {
			if call, ok := in.(*ssa.Call); ok && eng.CalleeIs(&call.Call, "time", "*Ticker.Reset") {
				n++
				c.Bad("R-C11-7", f, in.Pos(), eng.CallStr(&call.Call), "the poll ticker is never reset (a reset after each poll stretches the period by the poll's duration)", "Ticker.Reset")
			}
		})
	}
	run := anchor(p, setecPkg, "(*Store).run")
	if run == nil {
		c.Undecided("R-C11-7", nil, 0, "setec.(*Store).run", "anchor does not resolve")
		return
	}
	// every turn of the poller's loop polls: no cycle avoids the Refresh call
	// (a tick that is sat out stretches the period to a multiple of the interval)
	refresh := p.Method(setecPkg, "Store", "Refresh")
	hasRefresh := func(b *ssa.BasicBlock) bool {
		for _, in := range b.Instrs {
			if call, ok := in.(*ssa.Call); ok {
				if cal := eng.Callee(&call.Call); cal != nil && (cal == refresh || (refresh != nil && eng.IsHelper(run, cal) && p.CallGraph().Reach(cal, nil)[refresh])) {
					return true
				}
			}
		}
		return false
	}
	if cyc := eng.CycleAvoiding(run, hasRefresh); cyc != nil {
		c.Bad("R-C11-7", run, cyc[0].Instrs[0].Pos(), "cycle "+p.PathStr(cyc)+" of the poller", "every turn of the poller's loop runs a poll (background polls happen once per interval)", "this cycle passes no call of Refresh")
	} else {
		c.Ok("R-C11-7", run, run.Pos(), "cycles of the poller", "each passes the Refresh call")
	}
	// jitter = Intn(2*int(interval)/10) - int(interval)/10, ticker(interval + jitter)
	var intervalP *ssa.Parameter
	for _, prm := range run.Params {
		if eng.IsNamed(prm.Type(), "time", "Duration") {
			intervalP = prm
		}
	}
	okJ, undecidedJ := false, false
	detail := "no ticker creation found"
	eng.Instrs(run, func(in ssa.Instruction) {
		call, ok := in.(*ssa.Call)
		if !ok {
			return
		}
		fr, _, isF := eng.LoadedField(call.Call.Value)
		if !isF || !fr.Is(setecPkg, "Store", storeField("newTicker")) || len(call.Call.Args) != 1 {
			return
		}
		// the period as bounds linear in the interval (interval arithmetic over
		// + - * / by constants, rand.Intn and helpers): any algebraically
		// equivalent way of writing the jitter is accepted
		bnd, known := linBounds(call.Call.Args[0], map[*ssa.Parameter]linIv{intervalP: {1, 0, 1, 0}}, 0)
		if !known {
			undecidedJ = true
			detail = "ticker period " + eng.ValStr(call.Call.Args[0]) + " is not an expression of the interval this analysis can bound"
			return
		}
		const eps, slack = 1e-9, 16
		if bnd.loA >= 0.9-eps && bnd.hiA <= 1.1+eps && bnd.loB >= -slack && bnd.hiB <= slack {
			okJ = true
		} else {
			detail = fmt.Sprintf("ticker period ranges over [%.4g*interval%+.0f, %.4g*interval%+.0f]", bnd.loA, bnd.loB, bnd.hiA, bnd.hiB)
		}
	})
	if undecidedJ {
		c.Undecided("R-C11-7", run, run.Pos(), "period of the poll ticker", detail)
		okJ = true
	}
	c.Check(okJ, "R-C11-7", run, run.Pos(), "period of the poll ticker", "within +/-10% of the configured interval for every value the random source can return (as interval + rand.Intn(2*interval/10) - interval/10 is)", detail)
	if n == 0 {
		c.Ok("R-C11-7", run, run.Pos(), "Ticker.Reset calls in the client library", "none")
	}
}

// c11FetchHelper: the conditional request lives in a helper of poll that
// answers (value, error).  Decided inside it: every request error other than
// not-changed is returned as an error (R-C11-2), and an answer whose version
// differs from the held one is returned as the (non-nil) value (R-C11-8); poll
// then only has to record non-nil values and join the errors.
func c11FetchHelper(c *eng.Ctx, req *ssa.Call) {
	p := c.P
	h := req.Parent()
	ferr := saveErr(req)
	var got ssa.Value
	for _, rf := range *req.Referrers() {
		if ex, ok := rf.(*ssa.Extract); ok && ex.Index == 0 {
			got = ex
		}
	}
	ei := errResultIndex(h)
	if ei < 0 || got == nil {
		c.Undecided("R-C11-2", h, h.Pos(), "fetch helper "+eng.FName(h), "does not answer (value, error)")
		return
	}
	notChanged := func(b *ssa.BasicBlock, i int) bool {
		ifi, ok := b.Instrs[len(b.Instrs)-1].(*ssa.If)
		if !ok {
			return true
		}
		cond := eng.CondOf(ifi.Cond, i == 0)
		if call, _, truth, isCall := cond.BoolCall(); isCall && eng.CalleeIs(&call.Call, "errors", "Is") && eng.Same(call.Call.Args[0], ferr) {
			if eng.IsGlobalLoad(call.Call.Args[1], "types/api", "ErrValueNotChanged") {
				return !truth
			}
		}
		return true
	}
	hit, path := eng.Search(h, req, eng.AndFilters(eng.AssumeErr(ferr, false), notChanged), nil, func(x ssa.Instruction) bool {
		r, isR := x.(*ssa.Return)
		return isR && nonNilAt(eng.RetVals(r)[ei], eng.FactsAt(r)) != eng.Yes && !eng.Same(eng.RetVals(r)[ei], ferr)
	})
	c.Check(hit == nil, "R-C11-2", h, req.Pos(), "error of "+eng.CallStr(&req.Call), "every request error other than ErrValueNotChanged is returned to poll as an error (never dropped)", func() string {
		if hit == nil {
			return ""
		}
		return "a return may report success: " + p.PathStr(path)
	}())
	have := req.Call.Args[len(req.Call.Args)-1]
	differ := func(b *ssa.BasicBlock, i int) bool {
		ifi, ok := b.Instrs[len(b.Instrs)-1].(*ssa.If)
		if !ok {
			return true
		}
		cd := eng.CondOf(ifi.Cond, i == 0)
		if call, _, truth, isCall := cd.BoolCall(); isCall && eng.CalleeIs(&call.Call, "errors", "Is") && eng.Same(call.Call.Args[0], ferr) {
			return !truth
		}
		op, x, y, isCmp := cd.Cmp()
		if !isCmp {
			return true
		}
		isGot := func(v ssa.Value) bool {
			fr, base, isF := eng.LoadedField(v)
			return isF && fr.Name == "Version" && eng.Origin(base) == got
		}
		isHave := func(v ssa.Value) bool { return eng.Origin(v) == eng.Origin(have) }
		if (isGot(x) && isHave(y)) || (isGot(y) && isHave(x)) {
			return op != token.EQL
		}
		return true
	}
	hit2, path2 := eng.Search(h, req, eng.AndFilters(eng.AssumeErr(ferr, true), differ), nil, func(x ssa.Instruction) bool {
		r, isR := x.(*ssa.Return)
		return isR && eng.Origin(eng.RetVals(r)[0]) != got
	})
	c.Check(hit2 == nil, "R-C11-8", h, req.Pos(), "answer of "+eng.CallStr(&req.Call), "an answer whose version differs from the held one is handed to poll as the value (also when the service's active version moved backwards)", func() string {
		if hit2 == nil {
			return ""
		}
		return "with err == nil and differing versions another value is returned: " + p.PathStr(path2)
	}())
}

// linIv bounds a value by lo = loA*I + loB and hi = hiA*I + hiB for the
// (positive) poll interval I.
type linIv struct{ loA, loB, hiA, hiB float64 }

// linBounds evaluates an integer/duration expression to such bounds: constants,
// parameters bound in env, + and -, multiplication and division by a constant
// (integer division contributes a rounding slack of one unit), unary minus,
// conversions, rand.Intn-like calls (0 <= result < bound) and module helpers
// with a single return (parameters bound to the bounds of the arguments).
func linBounds(v ssa.Value, env map[*ssa.Parameter]linIv, depth int) (linIv, bool) {
	if depth > 12 {
		return linIv{}, false
	}
	for {
		switch x := v.(type) {
		case *ssa.Convert:
			v = x.X
			continue
		case *ssa.ChangeType:
			v = x.X
			continue
		}
		break
	}
	cst := func(b linIv) (float64, bool) {
		if b.loA == 0 && b.hiA == 0 && b.loB == b.hiB {
			return b.loB, true
		}
		return 0, false
	}
	scale := func(b linIv, k float64) linIv {
		r := linIv{b.loA * k, b.loB * k, b.hiA * k, b.hiB * k}
		if k < 0 {
			r = linIv{b.hiA * k, b.hiB * k, b.loA * k, b.loB * k}
		}
		return r
	}
	switch x := v.(type) {
	case *ssa.Const:
		if k, ok := eng.ConstInt(x); ok {
			return linIv{0, float64(k), 0, float64(k)}, true
		}
	case *ssa.Parameter:
		if b, ok := env[x]; ok {
			return b, true
		}
	case *ssa.UnOp:
		if x.Op == token.SUB {
			if b, ok := linBounds(x.X, env, depth+1); ok {
				return scale(b, -1), true
			}
		}
	case *ssa.BinOp:
		a, ok1 := linBounds(x.X, env, depth+1)
		b, ok2 := linBounds(x.Y, env, depth+1)
		if !ok1 || !ok2 {
			return linIv{}, false
		}
		switch x.Op {
		case token.ADD:
			return linIv{a.loA + b.loA, a.loB + b.loB, a.hiA + b.hiA, a.hiB + b.hiB}, true
		case token.SUB:
			return linIv{a.loA - b.hiA, a.loB - b.hiB, a.hiA - b.loA, a.hiB - b.loB}, true
		case token.MUL:
			if k, isK := cst(a); isK {
				return scale(b, k), true
			}
			if k, isK := cst(b); isK {
				return scale(a, k), true
			}
		case token.QUO:
			if k, isK := cst(b); isK && k != 0 {
				r := scale(a, 1/k)
				r.loB--
				r.hiB++
				return r, true
			}
		}
	case *ssa.Call:
		cal := x.Call.StaticCallee()
		if cal == nil {
			return linIv{}, false
		}
		if cal.Pkg != nil && (cal.Pkg.Pkg.Path() == "math/rand" || cal.Pkg.Pkg.Path() == "math/rand/v2") && len(x.Call.Args) >= 1 {
			switch cal.Name() {
			case "Intn", "Int63n", "Int31n", "IntN", "Int64N", "Int32N":
				a, ok := linBounds(x.Call.Args[len(x.Call.Args)-1], env, depth+1)
				if !ok {
					return linIv{}, false
				}
				return linIv{0, 0, a.hiA, a.hiB - 1}, true
			}
			return linIv{}, false
		}
		if !eng.IsHelper(x.Parent(), cal) || len(x.Call.Args) != len(cal.Params) {
			return linIv{}, false
		}
		rets := eng.Returns(cal)
		if len(rets) != 1 || len(eng.RetVals(rets[0])) != 1 {
			return linIv{}, false
		}
		inner := map[*ssa.Parameter]linIv{}
		for i, prm := range cal.Params {
			if b, ok := linBounds(x.Call.Args[i], env, depth+1); ok {
				inner[prm] = b
			}
		}
		return linBounds(eng.RetVals(rets[0])[0], inner, depth+1)
	}
	return linIv{}, false
}

// errorfHasW reports whether the constant format of a fmt.Errorf call has a
// %w verb.
func errorfHasW(call *ssa.Call) bool {
	format, isC := eng.ConstString(call.Call.Args[0])
	return isC && strings.Contains(format, "%w")
}
