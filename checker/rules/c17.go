package rules

import (
	"go/token"
	"go/types"
	"time"

	"golang.org/x/tools/go/ssa"

	"setecvet/eng"
)

func init() {
	register(&Prop{
		ID: "C17",
		Explanation: "Decides structural clauses of C17 on the backup task (the function server.New starts with `go`): (R-C17-1) every cycle of its control-flow graph passes a blocking select that receives from Done() of the task's own context and whose Done branch leads to return without re-entering the loop (quiescent and cancellable); " +
			"(R-C17-2) every other channel of that select is time.After(d) with constant d >= 1 minute, so any two uploads are separated by such a wait; (R-C17-3) the upload is edge-dominated by `g != last` with g a db.WriteGen() result read in the same iteration and last the loop-carried variable, whose only sources are the constant 0 and g on the nil-error edge of the upload; WriteGen is never 0 for an open database; " +
			"(R-C17-4) that generation read dominates the upload; (R-C17-5) the uploaded body is bytes.NewReader of the unmodified os.ReadFile(db.Path()) result and read/upload errors are returned; (R-C17-7) the task is started by exactly one go statement, under BackupBucket != \"\", with New's context.  The consistency of what is read rests on C04 (file only replaced by rename). (R-C17-8) the write generation moves only with a write that reached the file (C04's R-C04-4).",
		NotDecided:  "S3 behaviour and wall-clock spacing; that a snapshot opens with the key (C04/C05).",
		Trusted:     append([]string{"time.After(d) fires no earlier than d", "os.ReadFile returns the bytes of one file version when the file is only replaced by rename"}, commonTrusted...),
		Assumptions: []string{},
		Run:         runC17,
	})
}

func runC17(c *eng.Ctx, tier string) {
	p := c.P
	newFn := p.Func("server", "New")
	if newFn == nil {
		c.Undecided("anchor", nil, 0, "server.New", "anchor does not resolve")
		return
	}
	// R-C17-7: the go statement(s) in New
	var task *ssa.Function
	var goSites []*ssa.Go
	// (the start-up may be in a helper New calls)
	eng.InstrsDeep(newFn, func(_ *ssa.Function, in ssa.Instruction) {
		if g, ok := in.(*ssa.Go); ok {
			goSites = append(goSites, g)
		}
	})
	if len(goSites) != 1 {
		c.Undecided("R-C17-7", newFn, newFn.Pos(), "go statements in server.New", "expected exactly one background task, found "+itoa(len(goSites)))
		return
	}
	gs := goSites[0]
	task = eng.Callee(gs.Common())
	if task != nil {
		task = eng.Unwrap(task)
	}
	if task == nil || task.Blocks == nil {
		c.Undecided("R-C17-7", newFn, gs.Pos(), eng.InstrStr(gs), "cannot resolve the task function")
		return
	}
	okGate := false
	for _, cond := range eng.FactsX(gs) {
		op, x, y, ok := cond.Cmp()
		if !ok || op != token.NEQ {
			continue
		}
		if s, isC := eng.ConstString(y); isC && s == "" {
			if fr, _, isF := eng.LoadedField(x); isF && fr.Is("server", "Config", "BackupBucket") {
				okGate = true
			}
		}
	}
	c.Check(okGate, "R-C17-7", newFn, gs.Pos(), eng.InstrStr(gs), "the backup task is started only when Config.BackupBucket != \"\"", "holding here: "+eng.FactsString(gs))
	ctxOK := false
	for _, a := range eng.CallArgs(gs.Common()) {
		if prm, ok := eng.OriginX(a).(*ssa.Parameter); ok && prm.Parent() == newFn && eng.IsNamed(prm.Type(), "context", "Context") {
			ctxOK = true
		}
	}
	c.Check(ctxOK, "R-C17-7", newFn, gs.Pos(), "context of "+eng.InstrStr(gs), "the task runs under the context given to New (the server's context)", "no argument is New's context parameter")
	// nobody else calls the task
	for _, e := range p.CallGraph().CallersOf(task) {
		if e.Site != ssa.Instruction(gs) {
			c.Bad("R-C17-7", e.Caller, e.Site.Pos(), eng.InstrStr(e.Site), "the backup task is started once, by New", "another call site")
		}
	}

	var ctxP *ssa.Parameter
	for _, prm := range task.Params {
		if eng.IsNamed(prm.Type(), "context", "Context") {
			ctxP = prm
		}
	}
	if ctxP == nil {
		c.Bad("R-C17-1", task, task.Pos(), "signature of "+task.Name(), "the task takes the server's context", "no context parameter")
		return
	}

	// qualifying selects
	type qsel struct {
		sel     *ssa.Select
		doneIdx int
		ok      bool
		why     string
	}
	var sels []qsel
	eng.Instrs(task, func(in ssa.Instruction) {
		sel, ok := in.(*ssa.Select)
		if !ok || !sel.Blocking {
			return
		}
		q := qsel{sel: sel, doneIdx: -1}
		for i, st := range sel.States {
			if st.Dir != types.RecvOnly {
				continue
			}
			if call, _ := eng.TupleCall(st.Chan); call != nil && call.Call.IsInvoke() && call.Call.Method.Name() == "Done" && eng.Origin(call.Call.Value) == ctxP {
				q.doneIdx = i
			}
		}
		if q.doneIdx < 0 {
			q.why = "no case receives from Done() of the task's context"
			sels = append(sels, q)
			return
		}
		// the Done branch reaches return and cannot re-enter the select's block
		idxVal := ssa.Value(nil)
		if refs := sel.Referrers(); refs != nil {
			for _, r := range *refs {
				if ex, ok := r.(*ssa.Extract); ok && ex.Index == 0 {
					idxVal = ex
				}
			}
		}
		var branch *ssa.BasicBlock
		eng.Instrs(task, func(x ssa.Instruction) {
			ifi, ok := x.(*ssa.If)
			if !ok {
				return
			}
			cond := eng.CondOf(ifi.Cond, true)
			op, a, b, ok := cond.Cmp()
			if !ok || op != token.EQL || a != idxVal {
				return
			}
			if k, isC := eng.ConstInt(b); isC && int(k) == q.doneIdx {
				branch = ifi.Block().Succs[0]
			}
		})
		if branch == nil {
			q.why = "cannot find the branch taken for the Done case"
			sels = append(sels, q)
			return
		}
		// from branch: must not reach sel's block again, must reach a return
		reSel, _ := eng.SearchBlock(task, branch, nil, nil, func(x ssa.Instruction) bool { return x.Block() == sel.Block() })
		if branch == sel.Block() {
			reSel = sel
		}
		ret, _ := eng.Search(task, nil, nil, nil, nil)
		_ = ret
		reachesRet := false
		if _, ok := branch.Instrs[len(branch.Instrs)-1].(*ssa.Return); ok {
			reachesRet = true
		} else if hit, _ := eng.SearchBlock(task, branch, nil, nil, eng.IsReturn); hit != nil {
			reachesRet = true
		}
		if reSel != nil || !reachesRet {
			q.why = "the Done branch does not lead straight to return"
			sels = append(sels, q)
			return
		}
		q.ok = true
		sels = append(sels, q)
	})
	good := map[*ssa.BasicBlock]bool{}
	for _, q := range sels {
		if q.ok {
			good[q.sel.Block()] = true
		}
	}
	// the wait may be a call of a small helper: func(ctx, d) bool whose body is
	// one blocking select on <-ctx.Done() and <-time.After(d), answering a
	// constant on each branch; the task must return on the "context ended" answer
	eng.Instrs(task, func(in ssa.Instruction) {
		call, ok := in.(*ssa.Call)
		if !ok {
			return
		}
		h := eng.Callee(&call.Call)
		if !eng.IsHelper(task, h) || len(h.Params) != len(call.Call.Args) {
			return
		}
		var hsel *ssa.Select
		nSel := 0
		eng.Instrs(h, func(x ssa.Instruction) {
			if sl, isSel := x.(*ssa.Select); isSel {
				hsel = sl
				nSel++
			}
		})
		if nSel != 1 || !hsel.Blocking || len(hsel.States) != 2 {
			return
		}
		doneIdx, durArg := -1, ssa.Value(nil)
		for i, st := range hsel.States {
			if st.Dir != types.RecvOnly {
				return
			}
			cc, _ := eng.TupleCall(st.Chan)
			if cc == nil {
				return
			}
			argOf := func(v ssa.Value) ssa.Value {
				prm, isP := eng.Origin(v).(*ssa.Parameter)
				if !isP {
					return nil
				}
				for j, q := range h.Params {
					if q == prm {
						return call.Call.Args[j]
					}
				}
				return nil
			}
			switch {
			case cc.Call.IsInvoke() && cc.Call.Method.Name() == "Done":
				if a := argOf(cc.Call.Value); a != nil && eng.Origin(a) == ssa.Value(ctxP) {
					doneIdx = i
				}
			case eng.CalleeIs(&cc.Call, "time", "After"):
				durArg = argOf(cc.Call.Args[0])
			}
		}
		if doneIdx < 0 || durArg == nil {
			return
		}
		// the helper's answer on the Done branch
		var doneAns *bool
		for _, r := range eng.Returns(h) {
			k, isC := eng.Origin(eng.RetVals(r)[0]).(*ssa.Const)
			if !isC || k.Value == nil {
				return
			}
			for _, cond := range eng.FactsAt(r) {
				if op, x, y, isCmp := cond.Cmp(); isCmp && op == token.EQL {
					if ex, isEx := eng.Origin(x).(*ssa.Extract); isEx && ex.Tuple == ssa.Value(hsel) && ex.Index == 0 {
						if kk, isK := eng.ConstInt(y); isK && int(kk) == doneIdx {
							b := k.Value.String() == "true"
							doneAns = &b
						}
					}
				}
			}
		}
		if doneAns == nil {
			// the Done case may be the else of `idx == timerIdx`: take the return not on the timer branch
			for _, r := range eng.Returns(h) {
				k, _ := eng.Origin(eng.RetVals(r)[0]).(*ssa.Const)
				onTimer := false
				for _, cond := range eng.FactsAt(r) {
					if op, x, y, isCmp := cond.Cmp(); isCmp && op == token.EQL {
						if ex, isEx := eng.Origin(x).(*ssa.Extract); isEx && ex.Tuple == ssa.Value(hsel) {
							if kk, isK := eng.ConstInt(y); isK && int(kk) != doneIdx {
								onTimer = true
							}
						}
					}
				}
				if !onTimer && k != nil && k.Value != nil {
					b := k.Value.String() == "true"
					doneAns = &b
				}
			}
		}
		if doneAns == nil {
			return
		}
		// in the task: the edge on which the call answered "context ended" leads straight to return
		okRet := false
		eng.Instrs(task, func(x ssa.Instruction) {
			ifi, isIf := x.(*ssa.If)
			if !isIf {
				return
			}
			for i, succ := range ifi.Block().Succs {
				v, truth, isB := eng.CondOf(ifi.Cond, i == 0).Bool()
				if !isB || eng.Origin(v) != ssa.Value(call) || truth != *doneAns {
					continue
				}
				re, _ := eng.SearchBlock(task, succ, nil, nil, func(y ssa.Instruction) bool { return y.Block() == call.Block() })
				ret, _ := eng.SearchBlock(task, succ, nil, nil, eng.IsReturn)
				if re == nil && ret != nil {
					okRet = true
				}
			}
		})
		if !okRet {
			return
		}
		good[call.Block()] = true
		d, isC := eng.ConstInt(durArg)
		c.Check(isC && time.Duration(d) >= time.Minute, "R-C17-2", task, call.Pos(), "wake-up source of "+eng.CallStr(&call.Call), "besides cancellation the task only wakes on time.After(d), constant d >= 1m (at most one upload a minute)", "d = "+eng.ValStr(durArg))
	})
	// R-C17-1
	cyc := eng.CycleAvoiding(task, func(b *ssa.BasicBlock) bool { return good[b] })
	if cyc != nil {
		why := ""
		for _, q := range sels {
			if !q.ok {
				why += "; select at " + p.Pos(q.sel.Pos()) + " does not qualify: " + q.why
			}
		}
		c.Bad("R-C17-1", task, cyc[0].Instrs[0].Pos(), "cycle "+p.PathStr(cyc), "every cycle of the backup loop passes a blocking select on <-ctx.Done() whose Done branch returns (the task sleeps when idle and stops on cancellation)",
			"this cycle contains no such select"+why)
	} else if len(good) == 0 {
		c.Undecided("R-C17-1", task, task.Pos(), "loop of "+task.Name(), "the task has no loop with a qualifying select")
	} else {
		c.Ok("R-C17-1", task, task.Pos(), "all cycles of "+task.Name(), "pass a blocking select on <-ctx.Done() that returns")
	}
	// R-C17-2
	for _, q := range sels {
		if !q.ok {
			continue
		}
		for i, st := range q.sel.States {
			if i == q.doneIdx {
				continue
			}
			okk := false
			detail := "channel " + eng.ValStr(st.Chan)
			if st.Dir == types.RecvOnly {
				if call, _ := eng.TupleCall(st.Chan); call != nil && eng.CalleeIs(&call.Call, "time", "After") {
					if d, isC := eng.ConstInt(call.Call.Args[0]); isC {
						okk = time.Duration(d) >= time.Minute
						detail = "time.After(" + time.Duration(d).String() + ")"
					}
				}
				// ... or the channel of a timer created afresh in this round:
				// time.NewTimer(d).C with the NewTimer call inside the loop,
				// before the select, and never Reset
				if fr, base, isF := eng.LoadedField(st.Chan); isF && fr.Name == "C" && eng.IsNamed(fr.Owner, "time", "Timer") {
					if tc, _ := eng.TupleCall(base); tc != nil && eng.CalleeIs(&tc.Call, "time", "NewTimer") {
						if d, isC := eng.ConstInt(tc.Call.Args[0]); isC {
							reset := false
							if refs := tc.Referrers(); refs != nil {
								for _, r := range *refs {
									if rc, isRC := r.(ssa.CallInstruction); isRC && eng.CalleeIs(rc.Common(), "time", "*Timer.Reset") {
										reset = true
									}
								}
							}
							okk = time.Duration(d) >= time.Minute && eng.InCycle(tc.Block()) && eng.InstrDominates(tc, q.sel) && !reset
							detail = "time.NewTimer(" + time.Duration(d).String() + ").C"
						}
					}
				}
			}
			c.Check(okk, "R-C17-2", task, q.sel.Pos(), "wake-up source of the select: "+detail, "besides cancellation the task only wakes on time.After(d), constant d >= 1m (at most one upload a minute)", detail)
		}
	}
	// the upload call
	var uploads []*ssa.Call
	doBackup := anchor(p, "server", "(*Server).doBackup")
	// the upload: the call of doBackup, in the task or in a helper the loop body was moved to
	eng.InstrsDeep(task, func(g *ssa.Function, in ssa.Instruction) {
		if call, ok := in.(*ssa.Call); ok {
			cal := eng.Callee(&call.Call)
			if cal == nil {
				return
			}
			if (doBackup != nil && cal == doBackup) || (doBackup == nil && g == task && reachesPutObject(p, cal)) {
				uploads = append(uploads, call)
			}
		}
	})
	if len(uploads) == 0 {
		c.Undecided("R-C17-3", task, task.Pos(), "upload call", "no call reaching s3 PutObject in the task")
		return
	}
	for _, up := range uploads {
		g := up.Parent()
		var site ssa.CallInstruction // the call of g in the task, when g is a helper
		if g != task {
			site = eng.UniqueCallSite(g)
			if site == nil || site.Parent() != task {
				c.Undecided("R-C17-3", g, up.Pos(), eng.CallStr(&up.Call), "the upload is neither in the task nor in a helper the task calls from one place")
				continue
			}
		}
		// R-C17-3: dominated by g != last
		var gen *ssa.Call
		var last ssa.Value
		for _, cond := range eng.FactsAt(up) {
			op, x, y, ok := cond.Cmp()
			if !ok || op != token.NEQ {
				continue
			}
			for _, pair := range [][2]ssa.Value{{x, y}, {y, x}} {
				if call, _ := eng.TupleCall(pair[0]); call != nil && eng.CalleeIs(&call.Call, "db", "*DB.WriteGen") {
					gen, last = call, pair[1]
				}
			}
		}
		if gen == nil {
			c.Bad("R-C17-3", g, up.Pos(), eng.CallStr(&up.Call), "the upload is edge-dominated by db.WriteGen() != last (uploads happen only after a write)", "holding here: "+eng.FactsString(up))
			continue
		}
		c.Ok("R-C17-3", g, up.Pos(), eng.CallStr(&up.Call), "edge-dominated by WriteGen() != last")
		// same iteration: the gen call lies in the loop and dominates the upload (R-C17-4)
		inLoop := eng.InCycle(gen.Block())
		if site != nil {
			inLoop = eng.InCycle(site.Block())
		}
		c.Check(eng.InstrDominates(gen, up) && inLoop, "R-C17-4", g, gen.Pos(), "generation read "+eng.CallStr(&gen.Call), "the generation compared and remembered is read in the same iteration, before the file is read", "not in the loop before the upload")
		uerr := saveErr(up)
		// sources of last (in the task: the loop-carried variable)
		lastParam, _ := eng.Origin(last).(*ssa.Parameter)
		if site != nil {
			if lastParam == nil || lastParam.Parent() != g {
				c.Bad("R-C17-3", g, up.Pos(), "generation compared with: "+eng.ValStr(last), "the generation covered by the last successful upload, handed in by the task", "another value")
				continue
			}
			last = eng.OriginX(last)
		}
		leaves, phis := eng.PhiLeaves(last)
		if len(phis) == 0 {
			c.Bad("R-C17-3", task, up.Pos(), "loop-carried generation "+eng.ValStr(last), "last is a loop-carried variable", "not a phi")
			continue
		}
		for _, lf := range leaves {
			lsite := "source of last: " + eng.ValStr(lf.Val) + " via " + lf.From.Comment + "#" + itoa(lf.From.Index)
			if k, isC := eng.ConstInt(lf.Val); isC && k == 0 {
				c.Ok("R-C17-3", task, lf.Phi.Pos(), lsite, "initial value 0 (never a real generation)")
				continue
			}
			if site != nil && lf.Val == site.Value() {
				// what the helper answers: the generation it was given, or the
				// one it read, the latter only after a successful upload
				for _, r := range eng.Returns(g) {
					rv := eng.RetVals(r)[0]
					rsite := "answer of " + eng.FName(g) + ": " + eng.InstrStr(r)
					switch {
					case eng.Origin(rv) == ssa.Value(lastParam):
						c.Ok("R-C17-3", g, r.Pos(), rsite, "the generation handed in (nothing new is covered)")
					case eng.Origin(rv) == ssa.Value(gen):
						okk := false
						for _, cond := range eng.FactsAt(r) {
							if v, isNil, isE := cond.ErrCheck(); isE && isNil && eng.Same(v, uerr) {
								okk = true
							}
						}
						c.Check(okk, "R-C17-3", g, r.Pos(), rsite, "last takes the new generation only on the nil-error edge of the upload (a failed upload is retried)", "the return is not dominated by a successful upload")
					default:
						c.Bad("R-C17-3", g, r.Pos(), rsite, "last is only ever 0 or the generation read before a successful upload", "other value "+eng.ValStr(rv))
					}
				}
				continue
			}
			if site == nil && lf.Val == ssa.Value(gen) {
				okk := false
				facts := eng.BlockFacts(lf.From)
				for _, f := range facts {
					if v, isNil, isE := f.Cond().ErrCheck(); isE && isNil && eng.Same(v, uerr) {
						okk = true
					}
				}
				c.Check(okk, "R-C17-3", task, lf.Phi.Pos(), lsite, "last takes the new generation only on the nil-error edge of the upload (a failed upload is retried)", "the edge is not dominated by a successful upload")
				continue
			}
			c.Bad("R-C17-3", task, lf.Phi.Pos(), lsite, "last is only ever 0 or the generation read before a successful upload", "other source")
		}
	}
	// WriteGen never 0: kv.gen is 1 in the open literal, and the creating save bumps it
	// the generation moves only with a write that reached the file (C04's rule)
	includeOnly(c, "R-C17-8", func(sc *eng.Ctx) { runC04(sc, "quick") }, "R-C04-4")
	c17GenNonZero(c)

	// R-C17-5 byte-exact upload
	if doBackup == nil {
		c.Undecided("R-C17-5", nil, 0, "server.(*Server).doBackup", "anchor does not resolve")
		return
	}
	c17Body(c, doBackup)
}

func reachesPutObject(p *eng.Prog, f *ssa.Function) bool {
	if f == nil || f.Blocks == nil {
		return false
	}
	hits := p.CallGraph().FindReachable(f, nil, func(in ssa.Instruction) bool {
		if ci, ok := in.(ssa.CallInstruction); ok {
			if cal := ci.Common().StaticCallee(); cal != nil && cal.Name() == "PutObject" {
				return true
			}
		}
		return false
	})
	return len(hits) > 0
}

func c17GenNonZero(c *eng.Ctx) {
	k := loadKV(c)
	if k == nil {
		return
	}
	for _, f := range c.P.PkgFuncs("db") {
		eng.Instrs(f, func(in ssa.Instruction) {
			al, ok := in.(*ssa.Alloc)
			if !ok || !al.Heap || !eng.IsNamed(al.Type(), "db", "kv") {
				return
			}
			fields, _, ok := eng.LiteralFields(al)
			if !ok {
				return
			}
			if g, has := fields[kvField(c.P, "gen")]; has {
				v, isC := eng.ConstInt(g)
				c.Check(isC && v >= 1, "R-C17-3", f, in.Pos(), "initial kv.gen in "+f.Name(), "an opened database has a non-zero write generation (0 is the task's 'never uploaded' marker)", "gen = "+eng.ValStr(g))
				return
			}
			// (a constructor helper answering the object as it is: judged where
			// its callers finish the construction)
			if freshCtor(f) {
				nc := 0
				for _, e := range c.P.CallGraph().CallersOf(f) {
					call, isCall := e.Site.(*ssa.Call)
					if !isCall {
						continue
					}
					nc++
					done := ""
					for _, rf := range *call.Referrers() {
						fa, isFA := rf.(*ssa.FieldAddr)
						if !isFA {
							continue
						}
						if fr, isF := eng.FieldOfAddr(fa); !isF || !isKVRole(c.P, fr, "gen") {
							continue
						}
						for _, st := range *fa.Referrers() {
							if s2, isSt := st.(*ssa.Store); isSt && s2.Addr == ssa.Value(fa) && s2.Block() == call.Block() {
								if v, isC := eng.ConstInt(s2.Val); isC && v >= 1 {
									done = "gen set"
								}
							}
						}
					}
					for _, s := range k.saveCalls(e.Caller) {
						if len(s.Call.Args) > 0 && eng.Origin(s.Call.Args[0]) == ssa.Value(call) {
							done = "saved"
						}
					}
					c.Check(done != "", "R-C17-3", e.Caller, call.Pos(), "initial kv.gen in "+e.Caller.Name(), "an opened database has a non-zero write generation: the caller of the constructor helper sets it to a constant >= 1 or saves the new database", "gen is 0 after "+eng.CallStr(&call.Call))
				}
				if nc > 0 {
					return
				}
			}
			// gen left 0: must be followed by a save (which bumps it) before the kv is returned
			saved := false
			for _, s := range k.saveCalls(f) {
				if len(s.Call.Args) > 0 && eng.Origin(s.Call.Args[0]) == ssa.Value(al) {
					saved = true
				}
			}
			c.Check(saved, "R-C17-3", f, in.Pos(), "initial kv.gen in "+f.Name(), "a created database is saved (generation becomes 1) before it is used", "gen is 0 and the kv is not saved in its constructor")
		})
	}
}

func c17Body(c *eng.Ctx, f *ssa.Function) {
	var put *ssa.Call
	// (the upload itself may live in a helper doBackup calls from one place)
	eng.InstrsDeep(f, func(_ *ssa.Function, in ssa.Instruction) {
		if call, ok := in.(*ssa.Call); ok {
			if cal := call.Call.StaticCallee(); cal != nil && cal.Name() == "PutObject" {
				put = call
			} else if call.Call.IsInvoke() && call.Call.Method.Name() == "PutObject" {
				put = call
			}
		}
	})
	if put == nil {
		c.Undecided("R-C17-5", f, f.Pos(), "PutObject call", "not found")
		return
	}
	putFn := put.Parent()
	var putSite *ssa.Call
	if putFn != f {
		putSite, _ = eng.UniqueCallSite(putFn).(*ssa.Call)
		if putSite == nil || putSite.Parent() != f {
			c.Undecided("R-C17-5", putFn, put.Pos(), eng.CallStr(&put.Call), "the upload is neither in doBackup nor in a helper it calls from one place")
			return
		}
	}
	// input literal
	var input ssa.Value
	for _, a := range put.Call.Args {
		if eng.IsNamed(a.Type(), "github.com/aws/aws-sdk-go-v2/service/s3", "PutObjectInput") {
			input = a
		}
	}
	fields, _, ok := eng.LiteralFields(eng.Origin(input))
	if input == nil || !ok {
		c.Undecided("R-C17-5", f, put.Pos(), eng.CallStr(&put.Call), "cannot read the PutObjectInput literal")
		return
	}
	body := fields["Body"]
	okBody := false
	detail := "Body = " + eng.ValStr(body)
	if nr, _ := eng.TupleCall(body); nr != nil && eng.CalleeIs(&nr.Call, "bytes", "NewReader") {
		if rf, idx := eng.TupleCall(eng.OriginX(nr.Call.Args[0])); rf != nil && idx == 0 && eng.CalleeIs(&rf.Call, "os", "ReadFile") && rf.Parent() == f {
			if pc, _ := eng.TupleCall(rf.Call.Args[0]); pc != nil && eng.CalleeIs(&pc.Call, "db", "*DB.Path") {
				okBody = true
				// error discipline
				chk := []*ssa.Call{rf, put}
				if putSite != nil {
					chk = append(chk, putSite)
				}
				for _, call := range chk {
					f := call.Parent()
					ev := saveErr(call)
					hit, path := eng.Search(f, call, eng.AssumeErr(ev, false), nil, func(x ssa.Instruction) bool {
						r, ok := x.(*ssa.Return)
						if !ok {
							return false
						}
						rv := eng.RetVals(r)
						ri := errResultIndex(f)
						if ri < 0 || ri >= len(rv) {
							return true
						}
						return !(eng.Same(rv[ri], ev) || nonNilAt(rv[ri], eng.FactsAt(r)) == eng.Yes)
					})
					tested := false
					eng.Instrs(f, func(x ssa.Instruction) {
						if ifi, ok := x.(*ssa.If); ok {
							if v, _, isE := eng.CondOf(ifi.Cond, true).ErrCheck(); isE && eng.Same(v, ev) {
								tested = true
							}
						}
					})
					for _, r := range eng.Returns(f) {
						if rv := eng.RetVals(r); len(rv) > 0 && eng.Same(rv[len(rv)-1], ev) {
							tested = true // handed straight to the caller
						}
					}
					c.Check(hit == nil && tested, "R-C17-5", f, call.Pos(), "error of "+eng.CallStr(&call.Call), "a failed read or upload is returned (so the generation is not marked as backed up)", func() string {
						if !tested {
							return "error is never tested"
						}
						if hit != nil {
							return "return at " + c.P.Pos(hit.Pos()) + " drops it: " + c.P.PathStr(path)
						}
						return ""
					}())
				}
			} else {
				detail = "file read is " + eng.ValStr(rf.Call.Args[0])
			}
		} else {
			detail = "reader over " + eng.ValStr(nr.Call.Args[0])
		}
	}
	c.Check(okBody, "R-C17-5", f, put.Pos(), "uploaded body", "Body = bytes.NewReader(bs) with bs the unmodified result of os.ReadFile(s.db.Path())", detail)
}
