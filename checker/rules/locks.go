package rules

import (
	"go/types"

	"golang.org/x/tools/go/ssa"

	"setecvet/eng"
)

const (
	keyDB    eng.LockKey = "db.DB.mu"
	keyStore eng.LockKey = "setec.Store.active.Mutex"
)

var locksCache = map[*eng.Prog]*eng.Locks{}

// moduleLocks runs the lock-set analysis once with the pre-publication table.
//
// Pre-publication functions (the object they build is not yet shared; each is
// checked to be reachable only from its constructor by the entry-state
// computation itself: any other caller would contribute an empty lock set):
//
//	db.Open, db.openOrCreateKV, db.newKV         -- build the kv before *DB exists
//	setec.NewStore (until the publication point), (*Store).initializeActive,
//	(*Store).isActiveSetValid, (*Store).loadCache
func moduleLocks(c *eng.Ctx) *eng.Locks {
	p := c.P
	if l, ok := locksCache[p]; ok {
		return l
	}
	pre := map[*ssa.Function][]eng.LockKey{}
	add := func(pkg, name string, k eng.LockKey) {
		if f := p.Func(pkg, name); f != nil {
			pre[f] = []eng.LockKey{k}
		}
	}
	add("db", "Open", keyDB)
	add("db", "openOrCreateKV", keyDB)
	add("db", "newKV", keyDB)
	add("client/setec", "NewStore", keyStore)
	add("client/setec", "(*Store).initializeActive", keyStore)
	add("client/setec", "(*Store).isActiveSetValid", keyStore)
	add("client/setec", "(*Store).loadCache", keyStore)
	storeT := p.Named("client/setec", "Store")
	prepubFns := pre
	cfg := eng.LockCfg{
		Prepub: pre,
		Publishes: func(fn *ssa.Function, in ssa.Instruction, k eng.LockKey) bool {
			if k != keyStore || storeT == nil {
				return false
			}
			// the *Store escapes: passed to a non-prepub function, captured by
			// a goroutine, or returned
			isStore := func(v ssa.Value) bool {
				return v != nil && eng.IsNamed(v.Type(), "client/setec", "Store") && isPtrType(v.Type())
			}
			switch x := in.(type) {
			case *ssa.Go:
				for _, a := range eng.CallArgs(x.Common()) {
					if isStore(a) {
						return true
					}
				}
				if mc, ok := x.Common().Value.(*ssa.MakeClosure); ok {
					for _, b := range mc.Bindings {
						if isStore(b) || isStore(derefAllocType(b)) {
							return true
						}
					}
				}
			case *ssa.Call:
				cal := eng.Callee(x.Common())
				if cal != nil {
					cal = eng.Unwrap(cal)
					if _, isPre := prepubFns[cal]; isPre {
						return false
					}
					// helpers that never take the lock themselves and start no
					// goroutine (the "...Locked" helpers) do not publish
					if !locksOrSpawns(p, cal) {
						return false
					}
				}
				for _, a := range eng.CallArgs(x.Common()) {
					if isStore(a) {
						return true
					}
				}
			case *ssa.Return:
				for _, r := range x.Results {
					if isStore(r) {
						return true
					}
				}
			}
			return false
		},
	}
	l := p.AnalyzeLocks(cfg)
	locksCache[p] = l
	return l
}

func isPtrType(t types.Type) bool { _, ok := t.Underlying().(*types.Pointer); return ok }

// derefAllocType: for a closure binding that is the cell of a *Store
// variable, return a value typed like the variable (nil otherwise).
func derefAllocType(v ssa.Value) ssa.Value {
	if al, ok := v.(*ssa.Alloc); ok {
		for _, st := range eng.CellStores(al) {
			return st.Val
		}
	}
	return nil
}

var locksOrSpawnsCache = map[*ssa.Function]bool{}

// locksOrSpawns: f (transitively, module call graph) performs a mutex
// operation on the Store's lock or starts a goroutine.
func locksOrSpawns(p *eng.Prog, f *ssa.Function) bool {
	if v, ok := locksOrSpawnsCache[f]; ok {
		return v
	}
	hits := p.CallGraph().FindReachable(f, nil, func(in ssa.Instruction) bool {
		if _, isGo := in.(*ssa.Go); isGo {
			return true
		}
		if ci, ok := in.(ssa.CallInstruction); ok {
			if _, k, isL := eng.LockOp(ci.Common()); isL && k == keyStore {
				return true
			}
		}
		return false
	})
	locksOrSpawnsCache[f] = len(hits) > 0
	return len(hits) > 0
}
