package rules

import (
	"go/types"

	"golang.org/x/tools/go/ssa"

	"setecvet/eng"
)

// The two locks the properties speak about, named from the types (so that
// renaming a field changes no verdict): keyDB is the mutex field of db.DB,
// keyStore the mutex inside the Store's guarded group (the struct holding the
// map to *cachedSecret).  The defaults are the names on the pinned tree.
var (
	keyDB    eng.LockKey = "db.DB.mu"
	keyStore eng.LockKey = "setec.Store.active.Mutex"
)

func isMutexType(t types.Type) bool {
	return eng.IsNamed(t, "sync", "Mutex") || eng.IsNamed(t, "sync", "RWMutex")
}

func initLockKeys(p *eng.Prog) {
	if n := p.Named("db", "DB"); n != nil {
		if st, ok := n.Underlying().(*types.Struct); ok {
			var names []string
			for i := 0; i < st.NumFields(); i++ {
				if isMutexType(st.Field(i).Type()) {
					names = append(names, st.Field(i).Name())
				}
			}
			if len(names) == 1 {
				keyDB = eng.LockKey("db.DB." + names[0])
			}
		}
	}
	if n := p.Named(setecPkg, "Store"); n != nil {
		if st, ok := n.Underlying().(*types.Struct); ok {
			for i := 0; i < st.NumFields(); i++ {
				g, isSt := st.Field(i).Type().Underlying().(*types.Struct)
				if !isSt {
					continue
				}
				hasMap, mu := false, ""
				for j := 0; j < g.NumFields(); j++ {
					if mt, isMap := g.Field(j).Type().Underlying().(*types.Map); isMap {
						if pt, isP := mt.Elem().(*types.Pointer); isP && eng.IsNamed(pt.Elem(), setecPkg, "cachedSecret") {
							hasMap = true
						}
					}
					if isMutexType(g.Field(j).Type()) {
						mu = g.Field(j).Name()
					}
				}
				if hasMap && mu != "" {
					keyStore = eng.LockKey("setec.Store." + st.Field(i).Name() + "." + mu)
				}
			}
		}
	}
}

var locksCache = map[*eng.Prog]*eng.Locks{}

// moduleLocks runs the lock-set analysis once with the pre-publication table.
//
// Pre-publication functions (the object they build is not yet shared; each is
// checked to be reachable only from its constructor by the entry-state
// computation itself: any other caller would contribute an empty lock set):
//
//	db.Open, db.openOrCreateKV, db.newKV         -- build the kv before *DB exists
//	setec.NewStore (until the publication point), (*Store).initializeActive,
//	(*Store).isActiveSetValid, (*Store).loadCache
func moduleLocks(c *eng.Ctx) *eng.Locks {
	p := c.P
	if l, ok := locksCache[p]; ok {
		return l
	}
	pre := map[*ssa.Function][]eng.LockKey{}
	add := func(pkg, name string, k eng.LockKey) {
		if f := p.Func(pkg, name); f != nil {
			pre[f] = []eng.LockKey{k}
		}
	}
	add("db", "Open", keyDB)
	add("client/setec", "NewStore", keyStore)
	storeT := p.Named("client/setec", "Store")
	prepubFns := pre
	cfg := eng.LockCfg{
		Prepub: pre,
		Publishes: func(fn *ssa.Function, in ssa.Instruction, k eng.LockKey) bool {
			if k != keyStore || storeT == nil {
				return false
			}
			// the *Store escapes: passed to a non-prepub function, captured by
			// a goroutine, or returned
			isStore := func(v ssa.Value) bool {
				return v != nil && eng.IsNamed(v.Type(), "client/setec", "Store") && isPtrType(v.Type())
			}
			switch x := in.(type) {
			case *ssa.Go:
				for _, a := range eng.CallArgs(x.Common()) {
					if isStore(a) {
						return true
					}
				}
				if mc, ok := x.Common().Value.(*ssa.MakeClosure); ok {
					for _, b := range mc.Bindings {
						if isStore(b) || isStore(derefAllocType(b)) {
							return true
						}
					}
				}
			case *ssa.Call:
				cal := eng.Callee(x.Common())
				if cal != nil {
					cal = eng.Unwrap(cal)
					if _, isPre := prepubFns[cal]; isPre {
						return false
					}
					// helpers that never take the lock themselves and start no
					// goroutine (the "...Locked" helpers) do not publish
					if !locksOrSpawns(p, cal) {
						return false
					}
				}
				for _, a := range eng.CallArgs(x.Common()) {
					if isStore(a) {
						return true
					}
				}
			case *ssa.Return:
				for _, r := range x.Results {
					if isStore(r) {
						return true
					}
				}
			}
			return false
		},
	}
	l := p.AnalyzeLocks(cfg)
	locksCache[p] = l
	return l
}

func isPtrType(t types.Type) bool { _, ok := t.Underlying().(*types.Pointer); return ok }

// derefAllocType: for a closure binding that is the cell of a *Store
// variable, return a value typed like the variable (nil otherwise).
func derefAllocType(v ssa.Value) ssa.Value {
	if al, ok := v.(*ssa.Alloc); ok {
		for _, st := range eng.CellStores(al) {
			return st.Val
		}
	}
	return nil
}

var locksOrSpawnsCache = map[*ssa.Function]bool{}

// locksOrSpawns: f (transitively, module call graph) performs a mutex
// operation on the Store's lock or starts a goroutine.
func locksOrSpawns(p *eng.Prog, f *ssa.Function) bool {
	if v, ok := locksOrSpawnsCache[f]; ok {
		return v
	}
	hits := p.CallGraph().FindReachable(f, nil, func(in ssa.Instruction) bool {
		if _, isGo := in.(*ssa.Go); isGo {
			return true
		}
		if ci, ok := in.(ssa.CallInstruction); ok {
			if _, k, isL := eng.LockOp(ci.Common()); isL && k == keyStore {
				return true
			}
		}
		return false
	})
	locksOrSpawnsCache[f] = len(hits) > 0
	return len(hits) > 0
}
