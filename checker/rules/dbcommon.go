package rules

import (
	"go/constant"
	"go/types"
	"strings"

	"golang.org/x/tools/go/ssa"

	"setecvet/eng"
)

// dbMethod is an exported method of db.DB.
type dbMethod struct {
	Fn      *ssa.Function
	Name    string
	Caller  *ssa.Parameter // parameter of type db.Caller, or nil
	NameP   *ssa.Parameter // first string parameter (the secret name), or nil
	Version *ssa.Parameter // first api.SecretVersion parameter, or nil
}

type dbInfo struct {
	c           *eng.Ctx
	p           *eng.Prog
	checkAndLog *ssa.Function
	checkers    map[*ssa.Function]checkerSig // candidate permission-checking helpers (by signature)
	helpersOnly bool                         // successfulCheck accepts only helper calls, not bare Allow (C06: audit-writing helpers)
	methods     []*dbMethod
	touch       map[*ssa.Function]bool // functions that (transitively) access the secrets state
	writes      map[*ssa.Function]bool // functions that (transitively) mutate the secrets state
	kvFuncs     []*ssa.Function
}

// checkerSig gives the parameter positions of a permission-checking helper
// func(..., caller Caller, action acl.Action, name string, ...) error.
type checkerSig struct{ Caller, Action, Name int }

// checkerCandidates finds the unexported helpers of package db whose
// signature is that of a permission check: a db.Caller, an acl.Action and a
// string parameter, and a single error result.  They are identified by shape,
// not by name, so renaming or wrapping checkAndLog is transparent.
func checkerCandidates(p *eng.Prog) map[*ssa.Function]checkerSig {
	out := map[*ssa.Function]checkerSig{}
	for _, f := range p.PkgFuncs("db") {
		if f.Parent() != nil {
			continue
		}
		res := f.Signature.Results()
		if res.Len() != 1 || !eng.IsErrorType(res.At(0).Type()) {
			continue
		}
		sig := checkerSig{-1, -1, -1}
		for i, prm := range f.Params {
			switch {
			case sig.Caller < 0 && eng.IsNamed(prm.Type(), "db", "Caller") && !isPtr(prm.Type()):
				sig.Caller = i
			case sig.Action < 0 && eng.IsNamed(prm.Type(), "acl", "Action"):
				sig.Action = i
			case sig.Name < 0 && types.Identical(prm.Type(), types.Typ[types.String]):
				sig.Name = i
			}
		}
		if sig.Caller >= 0 && sig.Action >= 0 && sig.Name >= 0 {
			out[f] = sig
		}
	}
	return out
}

func isPtr(t types.Type) bool { _, ok := t.Underlying().(*types.Pointer); return ok }

// isSecretsField: kv.secrets or any field of db.secret.
func isSecretsField(fr eng.FieldRef) bool {
	return isKVRole(curProg, fr, "secrets") || eng.IsNamed(fr.Owner, "db", "secret")
}

// secretsAccess classifies an instruction as a direct access to the secrets
// state: "" (none), "read" or "write".
func secretsAccessIn(fn *ssa.Function) (reads, writes []ssa.Instruction) {
	for _, a := range eng.FieldAccesses(fn) {
		if !isSecretsField(a.Field) {
			continue
		}
		if a.Write {
			writes = append(writes, a.In)
		} else {
			reads = append(reads, a.In)
		}
	}
	for _, m := range eng.MapOps(fn) {
		if !m.SrcOK || !isSecretsField(m.Src) {
			continue
		}
		if m.IsWrite() {
			writes = append(writes, m.In)
		} else {
			reads = append(reads, m.In)
		}
	}
	return
}

func loadDB(c *eng.Ctx) *dbInfo {
	p := c.P
	d := &dbInfo{c: c, p: p, touch: map[*ssa.Function]bool{}, writes: map[*ssa.Function]bool{}}
	if p.Pkg("db") == nil {
		c.Undecided("anchor", nil, 0, "package db", "package github.com/tailscale/setec/db not found")
		return nil
	}
	dbT := p.Named("db", "DB")
	callerT := p.Named("db", "Caller")
	if dbT == nil || callerT == nil || p.Named("db", "kv") == nil || p.Named("db", "secret") == nil {
		c.Undecided("anchor", nil, 0, "db.DB/db.Caller/db.kv/db.secret", "type anchors do not resolve")
		return nil
	}
	d.checkAndLog = p.Method("db", "DB", "checkAndLog")
	d.checkers = checkerCandidates(p)
	// exported methods of *DB
	ms := p.SSA.MethodSets.MethodSet(types.NewPointer(dbT))
	for i := 0; i < ms.Len(); i++ {
		fo, ok := ms.At(i).Obj().(*types.Func)
		if !ok || !fo.Exported() {
			continue
		}
		fn := p.SSA.FuncValue(fo)
		if fn == nil || fn.Blocks == nil {
			continue
		}
		m := &dbMethod{Fn: fn, Name: fo.Name()}
		for _, prm := range fn.Params[1:] {
			switch {
			case m.Caller == nil && eng.IsNamed(prm.Type(), "db", "Caller"):
				m.Caller = prm
			case m.NameP == nil && types.Identical(prm.Type(), types.Typ[types.String]):
				m.NameP = prm
			case m.Version == nil && eng.IsNamed(prm.Type(), "types/api", "SecretVersion"):
				m.Version = prm
			}
		}
		d.methods = append(d.methods, m)
	}
	// touch / write sets
	g := p.CallGraph()
	direct := map[*ssa.Function]int{}
	for _, f := range p.PkgFuncs("db") {
		r, w := secretsAccessIn(f)
		if len(r)+len(w) > 0 {
			direct[f] |= 1
		}
		if len(w) > 0 {
			direct[f] |= 2
		}
	}
	for _, f := range p.PkgFuncs("db") {
		for r := range g.Reach(f, nil) {
			if direct[r]&1 != 0 {
				d.touch[f] = true
			}
			if direct[r]&2 != 0 {
				d.writes[f] = true
			}
		}
	}
	return d
}

func (d *dbInfo) method(name string) *dbMethod {
	for _, m := range d.methods {
		if m.Name == name {
			return m
		}
	}
	return nil
}

// site is a state-touching construct inside a DB method (or its closures).
type dbSite struct {
	Fn    *ssa.Function
	In    ssa.Instruction
	Call  *ssa.CallCommon // nil for direct accesses
	Write bool
}

// sites lists the state-touching constructs in method m: calls whose callee
// reaches the secrets state, and direct accesses.
func (d *dbInfo) sites(root *ssa.Function) []dbSite { return d.sitesDepth(root, 0) }

func (d *dbInfo) sitesDepth(root *ssa.Function, depth int) []dbSite {
	var out []dbSite
	eng.InstrsTree(root, func(f *ssa.Function, in ssa.Instruction) {
		if ci, ok := in.(ssa.CallInstruction); ok {
			cal := eng.Callee(ci.Common())
			if cal != nil {
				cal = eng.Unwrap(cal)
			}
			if cal != nil && d.touch[cal] && cal.Parent() == nil {
				// an unexported helper method of db.DB itself is part of the
				// operation: its own state accesses are the sites
				if depth < 2 && eng.IsHelper(root, cal) && recvIs(cal, "db", "DB") && cal != eng.Outer(root) {
					if _, isChk := d.checkers[cal]; !isChk {
						out = append(out, d.sitesDepth(cal, depth+1)...)
						return
					}
				}
				out = append(out, dbSite{Fn: f, In: in, Call: ci.Common(), Write: d.writes[cal]})
			}
		}
	})
	var visit func(f *ssa.Function)
	visit = func(f *ssa.Function) {
		r, w := secretsAccessIn(f)
		for _, in := range r {
			out = append(out, dbSite{Fn: f, In: in})
		}
		for _, in := range w {
			out = append(out, dbSite{Fn: f, In: in, Write: true})
		}
		for _, a := range f.AnonFuncs {
			visit(a)
		}
	}
	visit(root)
	return out
}

// isParam: v denotes parameter prm (directly, through its spill cell, or
// after Origin).
func isParam(v ssa.Value, prm *ssa.Parameter) bool {
	if prm == nil || v == nil {
		return false
	}
	if v == prm || eng.Origin(v) == prm || eng.OriginX(v) == ssa.Value(prm) {
		return true
	}
	if al, ok := v.(*ssa.Alloc); ok {
		sts := eng.CellStores(al)
		if len(sts) != 1 {
			return false
		}
		if sts[0].Val == ssa.Value(prm) {
			return true
		}
		// (the spill cell of a helper's own parameter, bound at its call site)
		if _, isP := sts[0].Val.(*ssa.Parameter); isP {
			return eng.OriginX(sts[0].Val) == ssa.Value(prm) || eng.OriginX(sts[0].Val) == eng.OriginX(prm)
		}
		return false
	}
	if fv, ok := v.(*ssa.FreeVar); ok {
		if cell := eng.CellOf(fv); cell != nil {
			return isParam(cell, prm)
		}
	}
	return false
}

// constAction returns the acl.Action constant value of v.
func constAction(v ssa.Value) (string, bool) {
	c, ok := eng.OriginX(v).(*ssa.Const)
	if !ok || c.Value == nil || c.Value.Kind() != constant.String {
		return "", false
	}
	if !eng.IsNamed(c.Type(), "acl", "Action") {
		return "", false
	}
	return constant.StringVal(c.Value), true
}

// allowCall matches caller.Permissions.Allow(action, name) and returns its
// operands: the object whose Permissions field is the receiver, action, name.
func allowCall(cc *ssa.CallCommon) (holder ssa.Value, action ssa.Value, name ssa.Value, ok bool) {
	if !eng.CalleeIs(cc, "acl", "Rules.Allow") || len(cc.Args) != 3 {
		// a one-line wrapper in package db: func (c Caller) allows(a, n) bool
		// { return c.Permissions.Allow(a, n) }, judged with the arguments of
		// this call
		h := eng.Callee(cc)
		if h == nil || h.Blocks == nil || eng.FuncPkg(h) == nil || !strings.HasSuffix(eng.FuncPkg(h).Path(), "/db") || cc.IsInvoke() || len(cc.Args) != len(h.Params) {
			return nil, nil, nil, false
		}
		rets := eng.Returns(h)
		if len(rets) != 1 || len(eng.RetVals(rets[0])) != 1 {
			return nil, nil, nil, false
		}
		ic, _ := eng.TupleCall(eng.RetVals(rets[0])[0])
		if ic == nil || !eng.CalleeIs(&ic.Call, "acl", "Rules.Allow") || len(ic.Call.Args) != 3 {
			return nil, nil, nil, false
		}
		arg := func(v ssa.Value) ssa.Value {
			o := eng.Origin(v)
			if al, isAl := o.(*ssa.Alloc); isAl {
				if sts := eng.CellStores(al); len(sts) == 1 {
					o = sts[0].Val
				}
			}
			for i, q := range h.Params {
				if ssa.Value(q) == o {
					return cc.Args[i]
				}
			}
			return nil
		}
		fr, base, isField := eng.LoadedField(ic.Call.Args[0])
		if !isField || !fr.Is("db", "Caller", "Permissions") {
			return nil, nil, nil, false
		}
		hv, av, nv := arg(base), arg(ic.Call.Args[1]), arg(ic.Call.Args[2])
		if hv == nil || av == nil || nv == nil {
			return nil, nil, nil, false
		}
		return hv, av, nv, true
	}
	fr, base, isField := eng.LoadedField(eng.OriginX(cc.Args[0]))
	if !isField || !fr.Is("db", "Caller", "Permissions") {
		return nil, cc.Args[1], cc.Args[2], true
	}
	return base, cc.Args[1], cc.Args[2], true
}

// successfulCheck reports whether condition c establishes that caller prm is
// allowed `action` on the value name: either checkAndLog(prm, action, name,
// _) == nil or prm.Permissions.Allow(action, name) == true.
func (d *dbInfo) successfulCheck(c eng.Cond, prm *ssa.Parameter, action string, name ssa.Value) (matched bool, why string) {
	if v, isNil, ok := c.ErrCheck(); ok && isNil {
		call, _ := eng.TupleCall(v)
		if call != nil {
			if sig, isChk := d.checkers[eng.Callee(&call.Call)]; isChk && len(call.Call.Args) > sig.Name && len(call.Call.Args) > sig.Caller && len(call.Call.Args) > sig.Action {
				a := call.Call.Args
				cn := eng.Callee(&call.Call).Name()
				act, okA := constAction(a[sig.Action])
				switch {
				case !isParam(eng.Origin(a[sig.Caller]), prm) && !isParam(a[sig.Caller], prm):
					return false, cn + " is given a different caller: " + eng.ValStr(a[sig.Caller])
				case !okA:
					return false, cn + " action is not a constant: " + eng.ValStr(a[sig.Action])
				case act != action:
					return false, cn + " checks action " + act + ", operation requires " + action
				case !eng.SameX(a[sig.Name], name):
					return false, cn + " checks name " + eng.ValStr(a[sig.Name]) + ", access uses " + eng.ValStr(name)
				}
				return true, ""
			}
		}
	}
	if call, _, truth, ok := c.BoolCall(); ok && truth && !d.helpersOnly {
		if holder, av, nv, ok := allowCall(&call.Call); ok {
			act, okA := constAction(av)
			switch {
			case holder == nil || !isParam(holder, prm):
				return false, "Allow is evaluated on different permissions: " + eng.ValStr(call.Call.Args[0])
			case !okA:
				return false, "Allow action is not a constant"
			case act != action:
				return false, "Allow checks action " + act + ", operation requires " + action
			case !eng.SameX(nv, name):
				return false, "Allow checks name " + eng.ValStr(nv) + ", access uses " + eng.ValStr(name)
			}
			return true, ""
		}
	}
	return false, ""
}

// factsDeep returns the conditions holding at in, plus (for instructions in
// function literals) those holding where the literal was created: facts are
// about immutable SSA values, so they still hold when the literal runs.
func factsDeep(in ssa.Instruction) []eng.Cond {
	// ... and, for instructions in a helper with a single call site, those
	// holding at that call site
	return eng.FactsX(in)
}

func factsStr(cs []eng.Cond) string {
	s := ""
	for i, c := range cs {
		if i > 0 {
			s += " ; "
		}
		s += c.String()
	}
	if s == "" {
		return "(no dominating condition)"
	}
	return s
}

// filteredByCheck: name is an element of slices.DeleteFunc(L, func(n) bool {
// return !<successful check of action on n for caller> }): every element the
// filter keeps passed the check.
func (d *dbInfo) filteredByCheck(name ssa.Value, caller *ssa.Parameter, action string) bool {
	u, ok := eng.Origin(name).(*ssa.UnOp)
	if !ok {
		return false
	}
	ia, ok := u.X.(*ssa.IndexAddr)
	if !ok {
		return false
	}
	call, _ := eng.TupleCall(ia.X)
	if call == nil || !eng.CalleeIs(&call.Call, "slices", "DeleteFunc") || len(call.Call.Args) != 2 {
		return false
	}
	mc, ok := eng.Origin(call.Call.Args[1]).(*ssa.MakeClosure)
	if !ok {
		return false
	}
	g := mc.Fn.(*ssa.Function)
	if len(g.Params) != 1 {
		return false
	}
	rets := eng.Returns(g)
	if len(rets) == 0 {
		return false
	}
	for _, r := range rets {
		// the element is kept when the literal answers false
		kept := eng.CondOf(eng.RetVals(r)[0], false)
		if matched, _ := d.successfulCheck(kept, caller, action, g.Params[0]); !matched {
			return false
		}
	}
	return true
}
