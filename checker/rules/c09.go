package rules

import (
	"go/token"

	"golang.org/x/tools/go/ssa"

	"setecvet/eng"
)

func init() {
	register(&Prop{
		ID: "C09",
		Explanation: "Decides structural necessary conditions of C09: (R-C09-1) in db.DB.GetConditional the not-modified answer is returned exactly on the true edge of (active read).Version == oldVersion, and on the other edge the value returned is that same read result; (R-C09-2) the active read looks the bytes up under secret.ActiveVersion and reports that same number (never a non-active version, never one version's number with another's bytes); " +
			"(R-C09-3) server dispatch: GetConditional is called only under Version != 0 and UpdateIfChanged with (identity, name, version) of the request, GetVersion under Version != 0 and not UpdateIfChanged, Get under Version == 0 (the flag is ignored for V = 0); (R-C09-4) Client.GetIfChanged delegates to Get for oldVersion == 0 and otherwise posts GetRequest{Name, Version: oldVersion, UpdateIfChanged: true} to /api/get; " +
			"(R-C09-5) FileClient.GetIfChanged answers ErrNotFound for an absent name, ErrValueNotChanged exactly on stored.Version == oldVersion, else the stored value, and never stores version 0; (R-C09-6) the 304/403/404 round trip is R-C08-4. (R-C09-7) reads of the store write nothing (C02's R-C02-1) and a failed activation is rolled back (C04's R-C04-3): what the conditional get compares with is the one record of the active version.",
		NotDecided:  "The iff over histories of put/activate/delete interleaved with conditional gets.",
		Trusted:     commonTrusted,
		Assumptions: []string{},
		Run:         runC09,
	})
}

func runC09(c *eng.Ctx, tier string) {
	d := loadDB(c)
	if d == nil {
		return
	}
	m := d.method("GetConditional")
	if m == nil || m.Version == nil {
		c.Undecided("R-C09-1", nil, 0, "db.(*DB).GetConditional", "anchor does not resolve")
	} else {
		eng.SetRoot(m.Fn)
		defer eng.SetRoot(nil)
		// the function that compares and answers: GetConditional itself, or a
		// helper it hands (name, oldVersion) to
		g := m.Fn
		eng.InstrsDeep(m.Fn, func(f *ssa.Function, in ssa.Instruction) {
			if r, ok := in.(*ssa.Return); ok && f != m.Fn {
				rv := eng.RetVals(r)
				if ei := errResultIndex(f); ei >= 0 && eng.IsGlobalLoad(rv[ei], "types/api", "ErrValueNotChanged") {
					g = f
				}
			}
		})
		var hcall *ssa.Call
		if g != m.Fn {
			hcall, _ = eng.ContextCallSite(g).(*ssa.Call)
			if hcall == nil || hcall.Parent() != m.Fn {
				c.Undecided("R-C09-1", m.Fn, m.Fn.Pos(), "compare-and-answer helper "+eng.FName(g), "not called from GetConditional at exactly one place")
				g = nil
			}
		}
		// the active read: a call in g returning *api.SecretValue whose callee looks up Versions[ActiveVersion]
		readsActive := readsActiveVersion
		var read *ssa.Call
		if g != nil {
			eng.Instrs(g, func(in ssa.Instruction) {
				if call, ok := in.(*ssa.Call); ok {
					res := call.Call.Signature().Results()
					if res.Len() == 2 && eng.IsNamed(res.At(0).Type(), "types/api", "SecretValue") && readsActive(eng.Callee(&call.Call)) && eng.Callee(&call.Call) != g {
						read = call
					}
				}
			})
		}
		if g == nil {
		} else if read == nil {
			c.Undecided("R-C09-1", g, g.Pos(), "active read in GetConditional", "not found")
		} else {
			var val ssa.Value
			for _, r := range *read.Referrers() {
				if ex, ok := r.(*ssa.Extract); ok && ex.Index == 0 {
					val = ex
				}
			}
			isCmp := func(cond eng.Cond, want token.Token) bool {
				op, x, y, ok := cond.Cmp()
				if !ok || op != want {
					return false
				}
				for _, pr := range [][2]ssa.Value{{x, y}, {y, x}} {
					fr, base, isF := eng.LoadedField(pr[0])
					if isF && fr.Is("types/api", "SecretValue", "Version") && eng.Origin(base) == val && eng.OriginX(pr[1]) == eng.OriginX(m.Version) {
						return true
					}
				}
				return false
			}
			nNC := 0
			for _, r := range eng.Returns(g) {
				rv := eng.RetVals(r)
				if eng.IsGlobalLoad(rv[1], "types/api", "ErrValueNotChanged") {
					nNC++
					okk := false
					for _, cond := range eng.FactsAt(r) {
						if isCmp(cond, token.EQL) {
							okk = true
						}
					}
					c.Check(okk && eng.IsNilConst(eng.Origin(rv[0])), "R-C09-1", g, r.Pos(), eng.InstrStr(r), "not-modified is answered exactly on the true edge of (active value).Version == oldVersion, with no value", "holding: "+eng.FactsString(r))
				}
				if !eng.IsNilConst(eng.Origin(rv[0])) {
					okk := false
					for _, cond := range eng.FactsAt(r) {
						if isCmp(cond, token.NEQ) {
							okk = true
						}
					}
					c.Check(okk && eng.Origin(rv[0]) == val, "R-C09-1", g, r.Pos(), eng.InstrStr(r), "otherwise the value returned is the very result of the active read, on the != edge of that comparison", "returns "+eng.ValStr(rv[0])+"; holding: "+eng.FactsString(r))
				}
			}
			c.Check(nNC == 1, "R-C09-1", g, g.Pos(), "returns of ErrValueNotChanged in GetConditional", "exactly one", itoa(nNC))
			// with a successful active read and a differing version there is no
			// third outcome: the value is returned, unless the (audited)
			// permission check that follows fails
			rerr := saveErr(read)
			differEdge := func(b *ssa.BasicBlock, i int) bool {
				ifi, ok := b.Instrs[len(b.Instrs)-1].(*ssa.If)
				if !ok {
					return true
				}
				cd := eng.CondOf(ifi.Cond, i == 0)
				if isCmp(cd, token.EQL) {
					return false
				}
				return true
			}
			isCheckerErr := func(v ssa.Value) bool {
				call, _ := eng.TupleCall(v)
				if call == nil {
					return false
				}
				if _, isChk := d.checkers[eng.Callee(&call.Call)]; isChk {
					return true
				}
				// (a local helper that only hands on the check's verdict)
				if ev := eng.ForwardedError(call); ev != nil {
					if ic, _ := eng.TupleCall(ev); ic != nil {
						_, isChk := d.checkers[eng.Callee(&ic.Call)]
						return isChk
					}
				}
				return false
			}
			for _, fn := range []*ssa.Function{g, m.Fn} {
				start := ssa.Instruction(read)
				filt := eng.AndFilters(eng.AssumeErr(rerr, true), differEdge)
				if fn != g {
					if hcall == nil {
						continue
					}
					start = hcall
					filt = eng.AssumeErr(saveErr(hcall), true)
				} else if g != m.Fn && fn == m.Fn {
					continue
				}
				ei := errResultIndex(fn)
				hit, path := eng.Search(fn, start, filt, nil, func(x ssa.Instruction) bool {
					r, isR := x.(*ssa.Return)
					if !isR {
						return false
					}
					rv := eng.RetVals(r)
					if !eng.IsNilConst(eng.Origin(rv[0])) {
						return false
					}
					return ei < 0 || !isCheckerErr(rv[ei])
				})
				c.Check(hit == nil, "R-C09-1", fn, start.Pos(), "outcomes after a successful read of a differing active version", "the value is returned (only the audited permission check may still refuse)", func() string {
					if hit == nil {
						return ""
					}
					return "another outcome: " + eng.InstrStr(hit) + " via " + c.P.PathStr(path)
				}())
				if g == m.Fn {
					break
				}
			}
			// the name read is the operation's own
			nameOK := false
			for _, a := range read.Call.Args {
				if isStringType(a.Type()) && eng.OriginX(a) == eng.OriginX(m.NameP) {
					nameOK = true
				}
			}
			c.Check(nameOK, "R-C09-2", g, read.Pos(), eng.CallStr(&read.Call), "the read compared with oldVersion is the read of the ACTIVE version of that name", "")
			// GetConditional hands the helper's answer on unchanged
			if hcall != nil {
				herr := saveErr(hcall)
				for _, r := range eng.Returns(m.Fn) {
					rv := eng.RetVals(r)
					if !eng.IsNilConst(eng.Origin(rv[0])) {
						hc, idx := eng.TupleCall(rv[0])
						okk := hc == hcall && idx == 0
						dom := false
						for _, cond := range eng.FactsAt(r) {
							if v, isNil, isE := cond.ErrCheck(); isE && isNil && eng.Same(v, herr) {
								dom = true
							}
						}
						c.Check(okk && dom, "R-C09-1", m.Fn, r.Pos(), eng.InstrStr(r), "the value returned is the helper's answer, on the nil edge of its error", "returns "+eng.ValStr(rv[0]))
					}
				}
				hit, path := eng.Search(m.Fn, hcall, eng.AssumeErr(herr, false), nil, func(x ssa.Instruction) bool {
					r, isR := x.(*ssa.Return)
					if !isR {
						return false
					}
					rv := eng.RetVals(r)
					return !(eng.Same(rv[1], herr) && eng.IsNilConst(eng.Origin(rv[0])))
				})
				c.Check(hit == nil, "R-C09-1", m.Fn, hcall.Pos(), "error of "+eng.CallStr(&hcall.Call), "handed on unchanged with no value (the not-modified sentinel keeps its identity)", func() string {
					if hit == nil {
						return ""
					}
					return "another answer is possible: " + c.P.PathStr(path)
				}())
			}
		}
	}
	kvPairing(c, "R-C09-2")
	// Get (unconditional) also reads the active version
	for _, name := range []string{"Get"} {
		if gm := d.method(name); gm != nil {
			for _, s := range d.sites(gm.Fn) {
				if call, ok := s.In.(*ssa.Call); ok && s.Call != nil {
					cal := eng.Callee(&call.Call)
					okActive := readsActiveVersion(cal)
					c.Check(okActive, "R-C09-2", gm.Fn, call.Pos(), "Get: "+eng.CallStr(&call.Call), "returns the active version", "")
				}
			}
		}
	}

	errorWrapDiscipline(c, "R-C09-6")
	notFoundDiscipline(c, "R-C09-6")
	c09Server(c, d)
	c09Client(c)
	c09FileClient(c)
	// version 0 is never stored by the file-backed client (so V = 0 always yields the value): the loader's guards of R-C13-4
	include(c, "R-C09-5", func(sc *eng.Ctx) { c13Wire(sc) })
	// R-C09-7: what the conditional get compares with is the store's one record
	// of the active version: reads write nothing (no remembered answers), and a
	// failed activation is rolled back (C02's effect table, C04's rollback rule)
	includeOnly(c, "R-C09-7", func(sc *eng.Ctx) { runC02(sc, "quick") }, "R-C02-1")
	includeOnly(c, "R-C09-7", func(sc *eng.Ctx) { runC04(sc, "quick") }, "R-C04-3")
}

func c09Server(c *eng.Ctx, d *dbInfo) {
	p := c.P
	n := 0
	for _, f := range p.PkgFuncs("server") {
		if !passedToServeJSON(f) {
			continue
		}
		reqP, idP := handlerParams(f)
		if reqP == nil || !eng.IsNamed(reqP.Type(), "types/api", "GetRequest") {
			continue
		}
		reqField := func(v ssa.Value, name string) bool {
			fr, base, isF := eng.LoadedField(v)
			return isF && fr.Is("types/api", "GetRequest", name) && (eng.Origin(base) == ssa.Value(reqP) || isParam(base, reqP))
		}
		eng.Instrs(f, func(in ssa.Instruction) {
			call, ok := in.(*ssa.Call)
			if !ok {
				return
			}
			cal := eng.Callee(&call.Call)
			var m *dbMethod
			for _, mm := range d.methods {
				if mm.Fn == cal {
					m = mm
				}
			}
			if m == nil {
				return
			}
			n++
			// path-sensitive: `case V != 0 && flag: ... case V != 0:` tests V twice
			var vNonZero, vZero, flagT, flagF bool
			lits, _ := eng.MustLiterals(f, in, func(cond eng.Cond) (string, bool, bool) {
				if op, x, y, isCmp := cond.Cmp(); isCmp {
					if k, isK := eng.ConstInt(y); isK && k == 0 && reqField(x, "Version") && (op == token.NEQ || op == token.EQL) {
						return "version-nonzero", op == token.NEQ, true
					}
				}
				if v, truth, isB := cond.Bool(); isB && reqField(v, "UpdateIfChanged") {
					return "flag", truth, true
				}
				return "", false, false
			})
			if t, has := lits["version-nonzero"]; has {
				vNonZero, vZero = t, !t
			}
			if t, has := lits["flag"]; has {
				flagT, flagF = t, !t
			}
			a := call.Call.Args
			idOK := len(a) > 1 && eng.Origin(a[1]) == ssa.Value(idP)
			nameOK := len(a) > 2 && reqField(a[2], "Name")
			site := "dispatch to " + m.Name
			switch m.Name {
			case "GetConditional":
				c.Check(vNonZero && flagT && idOK && nameOK && len(a) > 3 && reqField(a[3], "Version"), "R-C09-3", f, in.Pos(), site, "under Version != 0 and UpdateIfChanged, with (identity, req.Name, req.Version)", "holding: "+eng.FactsString(in))
			case "GetVersion":
				c.Check(vNonZero && flagF && idOK && nameOK && len(a) > 3 && reqField(a[3], "Version"), "R-C09-3", f, in.Pos(), site, "under Version != 0 and not UpdateIfChanged, with (identity, req.Name, req.Version)", "holding: "+eng.FactsString(in))
			case "Get":
				c.Check(vZero && idOK && nameOK, "R-C09-3", f, in.Pos(), site, "under Version == 0 whatever the flag, with (identity, req.Name)", "holding: "+eng.FactsString(in))
			default:
				c.Bad("R-C09-3", f, in.Pos(), site, "the get endpoint dispatches only to Get, GetVersion, GetConditional", "")
			}
		})
	}
	if n != 3 {
		c.Check(false, "R-C09-3", nil, 0, "dispatch sites of the get endpoint", "three (Get, GetVersion, GetConditional)", itoa(n)+" found")
	}
}

func c09Client(c *eng.Ctx) {
	p := c.P
	f := p.Func(setecPkg, "Client.GetIfChanged")
	getF := p.Func(setecPkg, "Client.Get")
	if f == nil || getF == nil {
		c.Undecided("R-C09-4", nil, 0, "setec.Client.GetIfChanged / Get", "anchors do not resolve")
		return
	}
	var nameP, verP *ssa.Parameter
	for _, prm := range f.Params {
		if isStringType(prm.Type()) {
			nameP = prm
		}
		if eng.IsNamed(prm.Type(), "types/api", "SecretVersion") {
			verP = prm
		}
	}
	n := 0
	eng.Instrs(f, func(in ssa.Instruction) {
		call, ok := in.(*ssa.Call)
		if !ok {
			return
		}
		cal := eng.Callee(&call.Call)
		if cal == nil {
			return
		}
		zero, nonzero := false, false
		for _, cond := range eng.FactsAt(in) {
			if op, x, y, isCmp := cond.Cmp(); isCmp && eng.Origin(x) == ssa.Value(verP) {
				if k, isK := eng.ConstInt(y); isK && k == 0 {
					zero = zero || op == token.EQL
					nonzero = nonzero || op == token.NEQ
				}
			}
		}
		if cal == getF {
			n++
			c.Check(zero && eng.Origin(call.Call.Args[2]) == ssa.Value(nameP), "R-C09-4", f, in.Pos(), eng.CallStr(&call.Call), "plain Get for the same name on the oldVersion == 0 edge", "holding: "+eng.FactsString(in))
			return
		}
		if path, reqV, isReq := apiRequest(p, call); isReq {
			n++
			fields, _, okF := eng.LiteralFields(eng.Origin(reqV))
			okk := okF && nonzero && path == "/api/get"
			if okk {
				flag, isC := eng.Origin(fields["UpdateIfChanged"]).(*ssa.Const)
				okk = fields["Name"] != nil && eng.Origin(fields["Name"]) == ssa.Value(nameP) && fields["Version"] != nil && eng.Origin(fields["Version"]) == ssa.Value(verP) && isC && flag.Value != nil && flag.Value.String() == "true"
			}
			c.Check(okk, "R-C09-4", f, in.Pos(), eng.CallStr(&call.Call), "POST /api/get GetRequest{Name: name, Version: oldVersion, UpdateIfChanged: true} on the oldVersion != 0 edge", "holding: "+eng.FactsString(in))
		}
	})
	c.Check(n == 2, "R-C09-4", f, f.Pos(), "requests issued by Client.GetIfChanged", "two alternatives", itoa(n))
	// Client.Get / GetVersion request shapes
	for _, nm := range []string{"Client.Get", "Client.GetVersion"} {
		g := p.Func(setecPkg, nm)
		if g == nil {
			continue
		}
		eng.Instrs(g, func(in ssa.Instruction) {
			call, ok := in.(*ssa.Call)
			if !ok {
				return
			}
			_, reqV, isReq := apiRequest(p, call)
			if !isReq {
				return
			}
			fields, _, okF := eng.LiteralFields(eng.Origin(reqV))
			_, hasFlag := fields["UpdateIfChanged"]
			c.Check(okF && !hasFlag, "R-C09-4", g, in.Pos(), nm+": "+eng.CallStr(&call.Call), "unconditional reads do not set UpdateIfChanged", "")
		})
	}
}

func c09FileClient(c *eng.Ctx) {
	p := c.P
	f := p.Method(setecPkg, "FileClient", "GetIfChanged")
	if f == nil {
		c.Undecided("R-C09-5", nil, 0, "setec.(*FileClient).GetIfChanged", "anchor does not resolve")
		return
	}
	var nameP, verP *ssa.Parameter
	for _, prm := range f.Params {
		if isStringType(prm.Type()) {
			nameP = prm
		}
		if eng.IsNamed(prm.Type(), "types/api", "SecretVersion") {
			verP = prm
		}
	}
	var lk *ssa.Lookup
	eng.Instrs(f, func(in ssa.Instruction) {
		if l, ok := in.(*ssa.Lookup); ok && l.CommaOk {
			if fr, _, isF := eng.LoadedField(l.X); isF && fr.Is(setecPkg, "FileClient", "db") && eng.Origin(l.Index) == ssa.Value(nameP) {
				lk = l
			}
		}
	})
	// ... or the lookup is delegated to a getter of the same client that
	// answers (stored, nil) for a present name and (nil, ErrNotFound) otherwise
	var getCall *ssa.Call
	var getErr ssa.Value
	if lk == nil {
		eng.Instrs(f, func(in ssa.Instruction) {
			call, ok := in.(*ssa.Call)
			if !ok || getCall != nil {
				return
			}
			g := eng.Callee(&call.Call)
			if g == nil || g == f || g.Signature.Recv() == nil || !eng.IsNamed(g.Signature.Recv().Type(), setecPkg, "FileClient") || !fcGetter(g) {
				return
			}
			for _, a := range call.Call.Args {
				if eng.Origin(a) == ssa.Value(nameP) {
					getCall = call
				}
			}
		})
	}
	if lk == nil && getCall == nil {
		c.Bad("R-C09-5", f, f.Pos(), "lookup in FileClient.GetIfChanged", "a comma-ok lookup of the name", "not found")
		return
	}
	var stored ssa.Value
	if lk != nil {
		for _, r := range *lk.Referrers() {
			if ex, ok := r.(*ssa.Extract); ok && ex.Index == 0 {
				stored = ex
			}
		}
	} else {
		for _, r := range *getCall.Referrers() {
			if ex, ok := r.(*ssa.Extract); ok {
				if ex.Index == 0 {
					stored = ex
				} else {
					getErr = ex
				}
			}
		}
	}
	for _, r := range eng.Returns(f) {
		rv := eng.RetVals(r)
		facts := eng.FactsAt(r)
		present, absent, eq, neq := false, false, false, false
		for _, cond := range facts {
			if src, truth, isCO := cond.CommaOk(); isCO && lk != nil && src == ssa.Value(lk) {
				present = present || truth
				absent = absent || !truth
			}
			if v, isNil, isE := cond.ErrCheck(); isE && getErr != nil && eng.Origin(v) == getErr {
				present = present || isNil
				absent = absent || !isNil
			}
			if op, x, y, isCmp := cond.Cmp(); isCmp {
				for _, pr := range [][2]ssa.Value{{x, y}, {y, x}} {
					fr, base, isF := eng.LoadedField(pr[0])
					if isF && fr.Is("types/api", "SecretValue", "Version") && eng.Origin(base) == stored && eng.Origin(pr[1]) == ssa.Value(verP) {
						eq = eq || op == token.EQL
						neq = neq || op == token.NEQ
					}
				}
			}
		}
		switch {
		case eng.IsGlobalLoad(rv[1], "types/api", "ErrNotFound") || (getErr != nil && eng.Origin(rv[1]) == getErr):
			c.Check(absent, "R-C09-5", f, r.Pos(), eng.InstrStr(r), "ErrNotFound exactly for an absent name", "holding: "+factsStr(facts))
		case eng.IsGlobalLoad(rv[1], "types/api", "ErrValueNotChanged"):
			c.Check(present && eq, "R-C09-5", f, r.Pos(), eng.InstrStr(r), "ErrValueNotChanged exactly on stored.Version == oldVersion", "holding: "+factsStr(facts))
		case eng.IsNilConst(eng.Origin(rv[1])):
			c.Check(present && neq && eng.Origin(rv[0]) == stored, "R-C09-5", f, r.Pos(), eng.InstrStr(r), "otherwise the stored value", "holding: "+factsStr(facts))
		default:
			c.Bad("R-C09-5", f, r.Pos(), eng.InstrStr(r), "one of (value, nil), ErrValueNotChanged, ErrNotFound", "other result")
		}
	}
}

// apiRequest: call posts a request to the service: a call of the generic
// `do` (path and request value are its arguments), or of a helper of the
// client that calls `do` with a constant path and one of its own parameters
// as the request (then the request is the argument handed to the helper).
func apiRequest(p *eng.Prog, call *ssa.Call) (path string, req ssa.Value, ok bool) {
	do := anchor(p, setecPkg, "do")
	cal := eng.Callee(&call.Call)
	if cal == nil || do == nil {
		return "", nil, false
	}
	if cal == do || cal.Origin() == do {
		if len(call.Call.Args) < 4 {
			return "", nil, false
		}
		path, _ = eng.ConstString(call.Call.Args[2])
		return path, call.Call.Args[3], true
	}
	if !eng.IsHelper(call.Parent(), cal) {
		return "", nil, false
	}
	var inner *ssa.Call
	nDo := 0
	eng.Instrs(cal, func(in ssa.Instruction) {
		if ic, isC := in.(*ssa.Call); isC {
			if c2 := eng.Callee(&ic.Call); c2 != nil && (c2 == do || c2.Origin() == do) {
				inner = ic
				nDo++
			}
		}
	})
	if nDo != 1 || len(inner.Call.Args) < 4 {
		return "", nil, false
	}
	path, isC := eng.ConstString(inner.Call.Args[2])
	prm, isP := eng.Origin(inner.Call.Args[3]).(*ssa.Parameter)
	if !isC || !isP || prm.Parent() != cal {
		return "", nil, false
	}
	for i, q := range cal.Params {
		if q == prm && i < len(call.Call.Args) {
			return path, call.Call.Args[i], true
		}
	}
	return "", nil, false
}

// readsActiveVersion: cal (with the helpers it calls) looks bytes up in
// secret.Versions, and every such lookup is under secret.ActiveVersion (a
// helper taking the number as a parameter is judged by what cal hands it).
func readsActiveVersion(cal *ssa.Function) bool {
	if cal == nil {
		return false
	}
	n, bad := 0, 0
	eng.InstrsDeep(cal, func(_ *ssa.Function, in ssa.Instruction) {
		lk, ok := in.(*ssa.Lookup)
		if !ok {
			return
		}
		if fr, _, isF := eng.LoadedField(lk.X); !isF || !fr.Is("db", "secret", "Versions") {
			return
		}
		for _, idx := range eng.ResolveWithin(cal, lk.Index) {
			n++
			if fr2, _, isF2 := eng.LoadedField(idx); !isF2 || !fr2.Is("db", "secret", "ActiveVersion") {
				bad++
			}
		}
	})
	return n > 0 && bad == 0
}

// fcGetter: g is a getter of the file-backed client: it looks its name
// parameter up in FileClient.db (comma-ok) and answers (stored, nil) exactly
// for a present name and (nil, ErrNotFound) exactly for an absent one.
func fcGetter(g *ssa.Function) bool {
	var nameP *ssa.Parameter
	for _, prm := range g.Params {
		if isStringType(prm.Type()) {
			nameP = prm
		}
	}
	if nameP == nil || g.Blocks == nil || g.Signature.Results().Len() != 2 {
		return false
	}
	var lk *ssa.Lookup
	eng.Instrs(g, func(in ssa.Instruction) {
		if l, ok := in.(*ssa.Lookup); ok && l.CommaOk {
			if fr, _, isF := eng.LoadedField(l.X); isF && fr.Is(setecPkg, "FileClient", "db") && eng.Origin(l.Index) == ssa.Value(nameP) {
				lk = l
			}
		}
	})
	if lk == nil {
		return false
	}
	var stored ssa.Value
	for _, r := range *lk.Referrers() {
		if ex, ok := r.(*ssa.Extract); ok && ex.Index == 0 {
			stored = ex
		}
	}
	n := 0
	for _, r := range eng.Returns(g) {
		rv := eng.RetVals(r)
		present, absent := false, false
		for _, cond := range eng.FactsAt(r) {
			if src, truth, isCO := cond.CommaOk(); isCO && src == ssa.Value(lk) {
				present = present || truth
				absent = absent || !truth
			}
		}
		switch {
		case eng.IsGlobalLoad(rv[1], "types/api", "ErrNotFound") && absent && eng.IsNilConst(eng.Origin(rv[0])):
		case eng.IsNilConst(eng.Origin(rv[1])) && present && eng.Origin(rv[0]) == stored:
		default:
			return false
		}
		n++
	}
	return n >= 2
}
