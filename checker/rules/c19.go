package rules

import (
	"go/token"
	"go/types"

	"golang.org/x/tools/go/ssa"

	"setecvet/eng"
)

func init() {
	register(&Prop{
		ID: "C19",
		Explanation: "Decides structural necessary conditions of C19: (R-C19-1) after publication the only removal from the active set is the one in the apply phase of a poll, edge-dominated by 'the update is the nil marker' and by the no-handle edge; the nil marker is recorded only in the poll on a branch that depends on the snapshot's expired flag, and every value stored into that flag depends on the expiry predicate; " +
			"(R-C19-6) after construction whole entries are installed only by the lookup of a new name (polls update in place, so the Declared flag survives); (R-C19-2) the expiry predicate can answer other than false only under !Declared and expiryAge > 0, and then answers exactly now.Sub(lastAccess) > expiryAge with the store's clock, the entry's own last-access time and the configured age; (R-C19-3) every handle read stores timeNow().Unix() into the LastAccess of the entry it returns, under the lock, on every path; " +
			"(R-C19-4) lastAccess is persisted in the cache document and Declared is not; a zero stamp reads as the zero time; (R-C19-5) Declared is set only before publication, for names of the configured list or for entries stubbed from it; entries created by lookups leave it unset; (R-C19-8) nothing is ever deleted from the handle map or the watcher lists. (R-C19-7, extended) the cache is never written while nil stubs are in the set (C13's R-C13-1: such a cache is rejected as a whole at the next start, dropping every cached undeclared secret).",
		NotDecided:  "Clock arithmetic over histories and restarts; which polls happen when.",
		Trusted:     commonTrusted,
		Assumptions: []string{"time.Time.Sub and time.Unix behave as documented"},
		Run:         runC19,
	})
}

// expiryPredicates: functions in client/setec returning bool that read
// cachedSecret.Declared (the expiry predicate family).
func expiryPredicate(p *eng.Prog) *ssa.Function {
	for _, f := range p.PkgFuncs(setecPkg) {
		if f.Parent() != nil || f.Signature.Results().Len() != 1 {
			continue
		}
		if b, ok := f.Signature.Results().At(0).Type().Underlying().(*types.Basic); !ok || b.Kind() != types.Bool {
			continue
		}
		readsDeclared, readsAge := false, false
		for _, a := range eng.FieldAccesses(f) {
			if a.Field.Is(setecPkg, "cachedSecret", declaredField()) && !a.Write {
				readsDeclared = true
			}
			if a.Field.Is(setecPkg, "Store", storeField("expiryAge")) {
				readsAge = true
			}
		}
		if readsDeclared && readsAge {
			return f
		}
	}
	return nil
}

func runC19(c *eng.Ctx, tier string) {
	p := c.P
	// the expiry predicate: a boolean function of the entry, or (pred == nil)
	// an expression written out where the snapshot's expired flag is set
	pred := expiryPredicate(p)
	// R-C19-7: "dropped from the store and its cache only if ...": the cache
	// document is the whole active set (C13's rule), nothing is filtered out
	includeOnly(c, "R-C19-7", func(sc *eng.Ctx) { runC13(sc, "quick") }, "R-C13-1", "R-C13-2", "R-C13-6")
	l := moduleLocks(c)
	poll := anchor(p, setecPkg, "(*Store).poll")
	applyFns := applyFuncs(c)
	// the apply phase: the function looping over the update set (found from
	// the installing function, possibly a helper of it) and its helpers
	paramLoop := func(f *ssa.Function) *mapLoop {
		for _, ml := range mapLoops(f) {
			if _, isP := eng.Origin(ml.Range.X).(*ssa.Parameter); isP {
				mm := ml
				return &mm
			}
		}
		return nil
	}
	hasLoop := func(f *ssa.Function) bool { return paramLoop(f) != nil }
	applyRoots := map[*ssa.Function]bool{}
	for _, g := range applyFns {
		applyRoots[eng.HelperRoot(g, hasLoop)] = true
	}
	isApply := func(f *ssa.Function) bool {
		for _, g := range applyFns {
			if g == f {
				return true
			}
		}
		return applyRoots[eng.HelperRoot(f, func(x *ssa.Function) bool { return applyRoots[x] })]
	}
	lookupFn, _ := lookupRoutine(p)

	// R-C19-1 removals
	nDel := 0
	for _, a := range storeAccesses(p) {
		if a.Map == nil || a.What != "active.m" || !(a.Map.Kind == "delete" || a.Map.Kind == "clear") {
			continue
		}
		st := l.HeldBefore(a.In)
		if l.Holds(st, keyStore) && !l.HoldsReal(st, keyStore) {
			// judged by checkPrepubRemovals below
			continue
		}
		nDel++
		c.Check(isApply(a.Fn) && a.Map.Kind == "delete", "R-C19-1", a.Fn, a.In.Pos(), "removal "+eng.InstrStr(a.In)+" in "+eng.FName(a.Fn), "after publication secrets are dropped only one at a time in the apply phase of a poll", "")
		if !isApply(a.Fn) {
			continue
		}
		apply := eng.HelperRoot(a.Fn, hasLoop)
		c.Check(removalGuardedByHandle(a), "R-C19-1", a.Fn, a.In.Pos(), eng.InstrStr(a.In)+" [no handle]", "edge-dominated by the not-present edge of a lookup of the same name in the handle map, in the same critical section (a secret with a live handle or watcher is never dropped)", "holding: "+eng.FactsString(a.In))
		// dominated by "update is the nil marker" for the same name
		loop := paramLoop(apply)
		okNil := false
		for _, cond := range eng.FactsX(a.In) {
			if v, isNil, isN := cond.NilCheck(); isN && isNil && loop != nil && eng.OriginX(v) == loop.Val && eng.OriginX(a.Map.Key) == loop.Key {
				okNil = true
			}
		}
		c.Check(okNil, "R-C19-1", a.Fn, a.In.Pos(), eng.InstrStr(a.In)+" [marker]", "edge-dominated by 'the update recorded for this very name is the nil (expired) marker'", "holding: "+eng.FactsString(a.In))
	}
	checkPrepubRemovals(c, "R-C19-1")
	// R-C19-8: the registries that say "somebody holds a handle / a watcher for
	// this name" only grow: the handle map is the store's only record that a
	// handle was handed out (handles are shared per name and never returned),
	// so taking a name out of it lets a poll drop a secret a live handle reads
	nReg := 0
	for _, a := range storeAccesses(p) {
		if a.Map == nil || (a.What != "active.f" && a.What != "active.w") {
			continue
		}
		nReg++
		if a.Map.Kind == "delete" || a.Map.Kind == "clear" {
			c.Bad("R-C19-8", a.Fn, a.In.Pos(), eng.InstrStr(a.In)+" in "+eng.FName(a.Fn), "no entry is ever removed from the handle or watcher registries", "a name is unregistered although handles already given out keep working through the shared fetcher")
		}
	}
	if nReg == 0 {
		c.Undecided("R-C19-8", nil, 0, "accesses of Store.active.f / active.w", "none found")
	} else {
		c.Ok("R-C19-8", nil, 0, "handle and watcher registries", "never shrunk")
	}
	c.Check(nDel == 1, "R-C19-1", nil, 0, "number of post-publication removal sites", "exactly one", "found "+itoa(nDel))
	// R-C19-6 who may insert after publication: only the lookup routine (entries
	// installed by a poll are updated in place, so Declared and the access stamp survive)
	for _, a := range storeAccesses(p) {
		if a.Map == nil || a.What != "active.m" || a.Map.Kind != "update" {
			continue
		}
		st := l.HeldBefore(a.In)
		if l.Holds(st, keyStore) && !l.HoldsReal(st, keyStore) {
			continue
		}
		inLookup := lookupFn != nil && (eng.Outer(a.Fn) == lookupFn || eng.Outer(eng.HelperRoot(eng.Outer(a.Fn), func(x *ssa.Function) bool { return eng.Outer(x) == lookupFn })) == lookupFn)
		c.Check(inLookup, "R-C19-6", a.Fn, a.In.Pos(), "entry (re)placed after publication: "+eng.InstrStr(a.In), "after construction a whole entry is installed only by the lookup of a new name; polls update the value of the existing entry in place (replacing the entry would silently drop its Declared flag and access stamp)", "in "+eng.FName(a.Fn))
	}
	// the nil marker is recorded only in poll, on a branch depending on the expired flag
	var flagField *eng.FieldRef
	nMark := 0
	for _, f := range p.PkgFuncs(setecPkg) {
		eng.Instrs(f, func(in ssa.Instruction) {
			mu, ok := in.(*ssa.MapUpdate)
			if !ok {
				return
			}
			mt, _ := mu.Map.Type().Underlying().(*types.Map)
			if mt == nil || !eng.IsNamed(mt.Elem(), "types/api", "SecretValue") || !eng.IsNilConst(eng.Origin(mu.Value)) {
				return
			}
			if _, isParam := eng.Origin(mu.Map).(*ssa.Parameter); !isParam {
				return
			}
			nMark++
			if f != poll {
				c.Bad("R-C19-1", f, in.Pos(), eng.InstrStr(in), "the expired marker is recorded only by the poll", "recorded in "+eng.FName(f))
				return
			}
			// nearest condition: a field of the snapshot element
			facts := eng.FactsAt(in)
			okk := false
			for _, cond := range facts {
				if v, truth, isB := cond.Bool(); isB && truth {
					if fr, _, isF := eng.LoadedField(v); isF && eng.IsNamed(fr.Owner, setecPkg, "secretState") {
						okk = true
						ff := fr
						flagField = &ff
					}
				}
			}
			c.Check(okk, "R-C19-1", f, in.Pos(), eng.InstrStr(in), "recorded only where the snapshot's expired flag for that name is true", "holding: "+factsStr(facts))
		})
	}
	if nMark == 0 {
		c.Notes = append(c.Notes, "no expired marker is ever recorded: nothing expires")
	}
	// every store to that flag depends on the predicate's result
	var flagStores []*ssa.Store
	if flagField != nil {
		n := 0
		for _, f := range p.PkgFuncs(setecPkg) {
			eng.Instrs(f, func(in ssa.Instruction) {
				st, ok := in.(*ssa.Store)
				if !ok {
					return
				}
				fr, ok := eng.FieldOfAddr(st.Addr)
				if !ok || fr.Name != flagField.Name || !types.Identical(eng.Deref(fr.Owner), eng.Deref(flagField.Owner)) {
					return
				}
				n++
				if pred == nil {
					// judged below (R-C19-2) on the expression itself
					if k, isK := eng.Origin(st.Val).(*ssa.Const); !isK || k.Value == nil || k.Value.String() != "false" {
						flagStores = append(flagStores, st)
					}
					return
				}
				// value is false, or implies the predicate: a conjunction containing the predicate call
				okk := impliesCall(st.Val, pred)
				c.Check(okk, "R-C19-1", f, in.Pos(), eng.InstrStr(in), "the expired flag can be true only if the expiry predicate answered true for that entry (flag = [other conditions &&] predicate(entry))", "value "+eng.ValStr(st.Val))
			})
		}
		if n == 0 {
			c.Undecided("R-C19-1", nil, 0, "stores to the expired flag", "none found")
		}
	}

	// R-C19-2 the predicate
	type expAnswer struct {
		fn    *ssa.Function
		pos   token.Pos
		site  string
		facts []eng.Cond
		val   ssa.Value                 // the comparison answered (nil: look for it among facts)
		entry func(base ssa.Value) bool // base denotes the entry judged
	}
	var answers []expAnswer
	if pred != nil {
		var csP *ssa.Parameter
		for _, prm := range pred.Params {
			if eng.IsNamed(prm.Type(), setecPkg, "cachedSecret") {
				csP = prm
			}
		}
		for _, r := range eng.Returns(pred) {
			rv := eng.RetVals(r)
			if k, isC := eng.Origin(rv[0]).(*ssa.Const); isC && k.Value.String() == "false" {
				continue
			}
			answers = append(answers, expAnswer{pred, r.Pos(), eng.InstrStr(r), eng.FactsAt(r), rv[0], func(b ssa.Value) bool { return eng.Origin(b) == ssa.Value(csP) }})
		}
	} else {
		for _, st := range flagStores {
			facts := eng.TruthImplies(st.Val)
			// the entry: the one whose Declared flag the expression reads
			var ent ssa.Value
			for _, cond := range facts {
				if v, _, isB := cond.Bool(); isB {
					if fr, base, isF := eng.LoadedField(v); isF && fr.Is(setecPkg, "cachedSecret", declaredField()) {
						ent = eng.Origin(base)
					}
				}
			}
			answers = append(answers, expAnswer{st.Parent(), st.Pos(), "expired = " + eng.ValStr(st.Val), facts, nil, func(b ssa.Value) bool { return ent != nil && eng.Origin(b) == ent }})
		}
		if len(flagStores) == 0 {
			c.Undecided("R-C19-2", nil, 0, "expiry predicate", "neither a boolean function over cachedSecret.Declared and Store.expiryAge nor an expression stored into the snapshot's expired flag")
		}
	}
	for _, an := range answers {
		pred := an.fn
		site := an.site
		facts := an.facts
		notDeclared, agePos := false, false
		var cmpX, cmpY ssa.Value
		if b, isB := eng.Origin(an.val).(*ssa.BinOp); an.val != nil && isB && b.Op == token.GTR {
			cmpX, cmpY = b.X, b.Y
		}
		for _, cond := range facts {
			if v, truth, isB := cond.Bool(); isB && !truth {
				if fr, base, isF := eng.LoadedField(v); isF && fr.Is(setecPkg, "cachedSecret", declaredField()) && an.entry(base) {
					notDeclared = true
				}
			}
			if op, x, y, isCmp := cond.Cmp(); isCmp && op == token.GTR {
				if k, isK := eng.ConstInt(y); isK && k == 0 {
					if fr, _, isF := eng.LoadedField(x); isF && fr.Is(setecPkg, "Store", storeField("expiryAge")) {
						agePos = true
					}
				}
				if an.val == nil {
					if fr, _, isF := eng.LoadedField(y); isF && fr.Is(setecPkg, "Store", storeField("expiryAge")) {
						cmpX, cmpY = x, y
					}
				}
			}
		}
		c.Check(notDeclared, "R-C19-2", pred, an.pos, site+" [declared]", "a declared secret never expires: a non-false answer is edge-dominated by !entry.Declared", "holding: "+factsStr(facts))
		c.Check(agePos, "R-C19-2", pred, an.pos, site+" [age configured]", "with no expiry age nothing expires: a non-false answer is edge-dominated by expiryAge > 0", "holding: "+factsStr(facts))
		// the value: Sub(now, lastAccess(entry)) > expiryAge
		okVal := false
		detail := "value " + eng.ValStr(an.val)
		if cmpX != nil {
			if fr, _, isF := eng.LoadedField(cmpY); isF && fr.Is(setecPkg, "Store", storeField("expiryAge")) {
				// the age: now.Sub(last access), computed here or by a small helper of the entry
				age := cmpX
				mapv := func(v ssa.Value) ssa.Value { return eng.Origin(v) }
				if inner, hc := eng.ThroughHelper(age, func(g *ssa.Function) bool { return eng.IsHelper(pred, g) }); inner != nil {
					h := eng.Callee(&hc.Call)
					age = inner
					mapv = func(v ssa.Value) ssa.Value {
						o := eng.Origin(v)
						if prm, isP := o.(*ssa.Parameter); isP && prm.Parent() == h {
							for i, q := range h.Params {
								if q == prm && i < len(hc.Call.Args) {
									return eng.Origin(hc.Call.Args[i])
								}
							}
						}
						return o
					}
				}
				if sub, _ := eng.TupleCall(age); sub != nil && eng.CalleeIs(&sub.Call, "time", "Time.Sub") {
					isClock := func(v ssa.Value) bool {
						fr2, _, isF2 := eng.LoadedField(v)
						return isF2 && fr2.Is(setecPkg, "Store", storeField("timeNow"))
					}
					nowOK := p.DependsOn(sub.Call.Args[0], func(v ssa.Value) bool {
						if isClock(v) {
							return true
						}
						if m := mapv(v); m != eng.Origin(v) {
							return p.DependsOn(m, isClock)
						}
						return false
					})
					lastOK := false
					if la, _ := eng.TupleCall(sub.Call.Args[1]); la != nil {
						if cal := eng.Callee(&la.Call); cal != nil && p.CallGraph() != nil && readsLastAccess(cal) && len(la.Call.Args) == 1 && an.entry(mapv(la.Call.Args[0])) {
							lastOK = true
						}
					}
					if !lastOK {
						// (computed in place from the entry's own stamp)
						lastOK = p.DependsOn(sub.Call.Args[1], func(v ssa.Value) bool {
							fr3, base3, isF3 := eng.LoadedField(v)
							return isF3 && fr3.Is(setecPkg, "cachedSecret", "LastAccess") && an.entry(mapv(base3))
						})
					}
					okVal = nowOK && lastOK
					detail = "now-from-store-clock=" + boolStr(nowOK) + " last-access-of-entry=" + boolStr(lastOK)
				}
			}
		}
		c.Check(okVal, "R-C19-2", pred, an.pos, site+" [comparison]", "answers timeNow().Sub(entry's last access) > expiryAge (strictly longer than the age)", detail)
	}
	// zero stamp reads as zero time (so a cache without stamps is treated as very old, not as "now")
	if lat := anchor(p, setecPkg, "(*cachedSecret).lastAccessTime"); lat != nil {
		ok := false
		for _, r := range eng.Returns(lat) {
			rv := eng.RetVals(r)
			if call, _ := eng.TupleCall(eng.Origin(rv[0])); call != nil {
				if inner, _ := eng.TupleCall(call.Call.Args[0]); inner != nil && eng.CalleeIs(&inner.Call, "time", "Unix") {
					if fr, _, isF := eng.LoadedField(inner.Call.Args[0]); isF && fr.Is(setecPkg, "cachedSecret", "LastAccess") {
						ok = true
					}
				}
				if eng.CalleeIs(&call.Call, "time", "Unix") {
					if fr, _, isF := eng.LoadedField(call.Call.Args[0]); isF && fr.Is(setecPkg, "cachedSecret", "LastAccess") {
						ok = true
					}
				}
			}
		}
		c.Check(ok, "R-C19-2", lat, lat.Pos(), "last-access time of an entry", "time.Unix(entry.LastAccess, 0)", "")
	}

	// R-C19-3 reads stamp
	handleBoundToName(c, "R-C19-3")
	for _, f := range secretClosures(p) {
		var stamp *ssa.Store
		// (the stamping may be a small method of the entry called from here)
		var stampAt ssa.Instruction // where it happens in f itself
		seenFn := map[*ssa.Function]bool{}
		eng.InstrsDeep(f, func(g *ssa.Function, _ ssa.Instruction) {
			if seenFn[g] || (g != f && g.Parent() != nil) {
				return
			}
			seenFn[g] = true
			for _, a := range eng.FieldAccesses(g) {
				if a.Field.Is(setecPkg, "cachedSecret", "LastAccess") && a.Kind == "store" {
					if g == f {
						stamp, stampAt = a.In.(*ssa.Store), a.In
					} else if cs, _ := eng.UniqueCallSite(g).(*ssa.Call); cs != nil && cs.Parent() == f && stamp == nil {
						// on every path of the helper
						st := a.In.(*ssa.Store)
						if miss, _ := eng.Search(g, nil, nil, func(x ssa.Instruction) bool { return x == ssa.Instruction(st) }, eng.IsReturn); miss == nil {
							stamp, stampAt = st, cs
						}
					}
				}
			}
		})
		if stamp == nil {
			c.Bad("R-C19-3", f, f.Pos(), "handle body "+eng.FName(f), "each read refreshes the secret's last-access time", "no store to LastAccess")
			continue
		}
		// value: Unix() of the store's clock
		okVal := false
		if u, _ := eng.TupleCall(stamp.Val); u != nil && eng.CalleeIs(&u.Call, "time", "Time.Unix") {
			okVal = p.DependsOn(eng.OriginX(u.Call.Args[0]), func(v ssa.Value) bool {
				fr, _, isF := eng.LoadedField(v)
				return isF && fr.Is(setecPkg, "Store", storeField("timeNow"))
			})
		}
		c.Check(okVal, "R-C19-3", f, stamp.Pos(), eng.InstrStr(stamp), "stamps timeNow().Unix() (the store's clock)", "value "+eng.ValStr(stamp.Val))
		// same entry as the one returned
		entry := stamp.Addr.(*ssa.FieldAddr).X
		if stampAt != ssa.Instruction(stamp) {
			entry = eng.OriginX(entry)
		}
		for _, r := range eng.Returns(f) {
			rv := eng.RetVals(r)
			sameEntry := p.DependsOn(rv[0], func(v ssa.Value) bool { return v == entry })
			c.Check(sameEntry, "R-C19-3", f, r.Pos(), eng.InstrStr(r), "the value returned belongs to the entry that was stamped", "")
		}
		// on every path
		hit, path := eng.Search(f, nil, nil, func(x ssa.Instruction) bool { return x == stampAt }, eng.IsReturn)
		c.Check(hit == nil, "R-C19-3", f, stamp.Pos(), "stamp on every path of "+eng.FName(f), "every path through the handle stores the stamp", func() string {
			if hit == nil {
				return ""
			}
			return "return reachable without stamping: " + p.PathStr(path)
		}())
		st := l.HeldBefore(stamp)
		c.Check(l.HoldsReal(st, keyStore), "R-C19-3", f, stamp.Pos(), "stamp under the lock", "Store.active.Mutex held", l.StateStr(st))
	}
	if len(secretClosures(p)) == 0 {
		c.Undecided("R-C19-3", nil, 0, "handle bodies", "none found")
	}

	// R-C19-4 wire tags
	if cs := p.Named(setecPkg, "cachedSecret"); cs != nil {
		st := cs.Underlying().(*types.Struct)
		for i := 0; i < st.NumFields(); i++ {
			f := st.Field(i)
			shape := eng.JSONShape(cs)
			switch f.Name() {
			case "LastAccess":
				c.Check(contains(shape, `"lastAccess"`), "R-C19-4", nil, f.Pos(), "persistence of cachedSecret.LastAccess", "persisted under the key lastAccess (the rule holds across restarts)", shape)
			case declaredField():
				// (an unexported field is never encoded; an exported one needs json:"-")
				c.Check(!f.Exported() || (!contains(shape, "Declared") && !contains(shape, "declared")), "R-C19-4", nil, f.Pos(), "persistence of cachedSecret.Declared", "not persisted (declaration is a property of the running configuration)", shape)
			}
		}
	}

	// the stamp reaches the cache with the next write: the flush routine never skips the write
	for _, f := range p.PkgFuncs(setecPkg) {
		eng.Instrs(f, func(in ssa.Instruction) {
			call, ok := in.(*ssa.Call)
			if ok && call.Call.IsInvoke() && call.Call.Method.Name() == "Write" && eng.IsNamed(call.Call.Value.Type(), setecPkg, "Cache") {
				flushAlwaysWrites(c, "R-C19-4", f, call)
			}
		})
	}

	// R-C19-5 who declares
	nDecl := 0
	for _, f := range p.PkgFuncs(setecPkg) {
		for _, a := range eng.FieldAccesses(f) {
			if !a.Field.Is(setecPkg, "cachedSecret", declaredField()) || a.Kind != "store" {
				continue
			}
			st := a.In.(*ssa.Store)
			if k, isC := eng.Origin(st.Val).(*ssa.Const); isC && k.Value.String() == "false" {
				continue
			}
			// a constructor helper taking the flag as a parameter is judged at
			// each call site with the flag it is given there
			if prm, isP := eng.Origin(st.Val).(*ssa.Parameter); isP && prm.Parent() == f && freshBase(a.Base) && eng.IsHelper(f, f) {
				idx := -1
				for i, q := range f.Params {
					if q == prm {
						idx = i
					}
				}
				sites := eng.StaticCallSites(f)
				handled := idx >= 0 && len(sites) > 0
				for _, cs := range sites {
					if !handled || idx >= len(cs.Common().Args) {
						handled = false
						break
					}
					arg := cs.Common().Args[idx]
					if k, isC := eng.Origin(arg).(*ssa.Const); isC && k.Value != nil && k.Value.String() == "false" {
						continue
					}
					nDecl++
					g := cs.Parent()
					hs := l.HeldBefore(cs)
					prepub := l.Holds(hs, keyStore) && !l.HoldsReal(hs, keyStore)
					c.Check(prepub, "R-C19-5", g, cs.Pos(), eng.InstrStr(cs)+" [when]", "Declared is set only before the store is published (by the constructor)", "in "+eng.FName(g)+" with "+l.StateStr(hs))
					okName := false
					for _, m := range eng.MapOps(g) {
						if m.Kind == "update" && eng.Origin(m.Val) == cs.Value() {
							for _, cond := range eng.FactsAt(m.In) {
								if _, isNil, isN := cond.NilCheck(); isN && isNil {
									okName = true
								}
							}
						}
					}
					c.Check(okName, "R-C19-5", g, cs.Pos(), eng.InstrStr(cs)+" [which]", "only names of the configured list (or entries stubbed from it) are marked declared", "")
				}
				if handled {
					continue
				}
			}
			nDecl++
			hs := l.HeldBefore(a.In)
			prepub := l.Holds(hs, keyStore) && !l.HoldsReal(hs, keyStore)
			c.Check(prepub, "R-C19-5", f, a.In.Pos(), eng.InstrStr(a.In)+" [when]", "Declared is set only before the store is published (by the constructor)", "in "+eng.FName(f)+" with "+l.StateStr(hs))
			// for configured names: either inside a loop over secretNames()#0 with that element as key, or a literal inserted where the current entry is the nil stub
			okName := false
			if freshBase(a.Base) {
				// literal: find the MapUpdate inserting it and require fact "current entry == nil"
				al := baseAlloc(a.Base)
				for _, m := range eng.MapOps(f) {
					if m.Kind == "update" && eng.Origin(m.Val) == ssa.Value(al) {
						for _, cond := range eng.FactsAt(m.In) {
							if _, isNil, isN := cond.NilCheck(); isN && isNil {
								okName = true
							}
						}
					}
				}
			} else {
				base := eng.Origin(a.Base)
				if ex, isEx := base.(*ssa.Extract); isEx && ex.Index == 0 {
					base = ex.Tuple // v, ok := m[name]
				}
				if lk, isLk := base.(*ssa.Lookup); isLk {
					for _, rl := range eng.RangeLoops(f) {
						if rl.ElemOf(lk.Index) {
							// the list is result #0 of a method of the configuration
							// (handed down to a helper of the constructor as a parameter)
							if call, part := namesPartOf(rl.Slice); call != nil && part == "names" {
								if cal := eng.Callee(&call.Call); cal != nil && cal.Signature.Recv() != nil && eng.IsNamed(cal.Signature.Recv().Type(), setecPkg, "StoreConfig") {
									okName = true
								}
							}
						}
					}
				}
			}
			c.Check(okName, "R-C19-5", f, a.In.Pos(), eng.InstrStr(a.In)+" [which]", "only names of the configured list (or entries stubbed from it) are marked declared", "")
		}
	}
	if nDecl == 0 {
		c.Undecided("R-C19-5", nil, 0, "stores Declared = true", "none found")
	}
}

func contains(s, sub string) bool {
	for i := 0; i+len(sub) <= len(s); i++ {
		if s[i:i+len(sub)] == sub {
			return true
		}
	}
	return false
}

func baseAlloc(v ssa.Value) *ssa.Alloc {
	for {
		switch x := v.(type) {
		case *ssa.FieldAddr:
			v = x.X
			continue
		case *ssa.Alloc:
			return x
		}
		return nil
	}
}

func readsLastAccess(f *ssa.Function) bool {
	for _, a := range eng.FieldAccesses(f) {
		if a.Field.Is(setecPkg, "cachedSecret", "LastAccess") && !a.Write {
			return true
		}
	}
	return false
}

// impliesCall: boolean value v can be true only if a call of fn returned
// true: v is that call, or a conjunction (&& lowering) one of whose operands
// implies it, or the constant false.
func impliesCall(v ssa.Value, fn *ssa.Function) bool {
	v = eng.Origin(v)

	if k, ok := v.(*ssa.Const); ok {
		return k.Value != nil && k.Value.String() == "false"
	}
	if call, _ := eng.TupleCall(v); call != nil {
		return eng.Callee(&call.Call) == fn
	}
	if parts, ok := conjunctionOf(v); ok {
		for _, pt := range parts {
			if impliesCall(pt, fn) {
				return true
			}
		}
	}
	return false
}

// declaredField: the "declared" flag of cachedSecret by role: its only
// boolean field (falls back to the pinned name).
func declaredField() string {
	if curProg != nil {
		if n := structFieldByType(curProg, setecPkg, "cachedSecret", func(t types.Type) bool {
			b, ok := t.Underlying().(*types.Basic)
			return ok && b.Kind() == types.Bool
		}); n != "" {
			return n
		}
	}
	return "Declared"
}
