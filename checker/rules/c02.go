package rules

import (
	"go/token"
	"go/types"
	"sort"
	"strings"

	"golang.org/x/tools/go/ssa"

	"setecvet/eng"
)

func init() {
	register(&Prop{
		ID: "C02",
		Explanation: "Decides structural necessary conditions of C02 (not the model equivalence): (R-C02-1) who-may-write per public operation: the set of persistent locations each db.DB operation can write (through the module call graph, rollback writes excepted) is within the table derived from the documentation; " +
			"(R-C02-2) missing is never conflated with empty: every read of a version map is the comma-ok form and its value is used only under ok; (R-C02-3) version numbers are never reused: LatestVersion is only ever set to 1 in a literal inserted under a name proven absent, incremented by one, or decremented by one when undoing that increment; new versions are inserted under the just-incremented counter and that number is what a successful put returns; the dedupe short-cut returns the counter only under 'that version exists and its bytes equal the value'; " +
			"(R-C02-4) the active version exists and cannot be deleted: deletes are edge-dominated by version != ActiveVersion, activation by presence of that version; (R-C02-5) input guards: empty names, the reserved prefix and version 0 never reach a mutation; (R-C02-6) stored values are immutable strings copied in and out by conversion; (R-C02-7) every access to the secrets map uses the operation's own name; (R-C02-9) after the state-changing call of a mutating operation has succeeded no error return is reachable (a call that reports failure changed nothing). (R-C02-10) when the save fails every in-memory change of the call is undone (C04's R-C04-3).",
		NotDecided:  "Equivalence with the map model over arbitrary histories (values); wrong-but-well-formed logic that keeps all these shapes.",
		Trusted:     commonTrusted,
		Assumptions: []string{"calls outside the module do not mutate package db's private state"},
		Run:         runC02,
	})
}

// T-C02: persistent locations each public operation may write (forward
// writes; from the doc comments of DB.Put/Activate/DeleteVersion/Delete).
var tC02 = map[string][]string{
	"Put":           {"kv.secrets insert", "secret.Versions insert", "secret.LatestVersion store"},
	"Activate":      {"secret.ActiveVersion store"},
	"DeleteVersion": {"secret.Versions delete"},
	"Delete":        {"kv.secrets delete"},
}

func runC02(c *eng.Ctx, tier string) {
	d := loadDB(c)
	k := loadKV(c)
	if d == nil || k == nil {
		return
	}
	p := c.P
	g := p.CallGraph()

	// R-C02-1
	for _, m := range d.methods {
		allowed := map[string]bool{}
		for _, a := range tC02[m.Name] {
			allowed[a] = true
		}
		reach := g.Reach(m.Fn, nil)
		var fs []*ssa.Function
		for f := range reach {
			fs = append(fs, f)
		}
		sort.Slice(fs, func(i, j int) bool { return fs[i].Pos() < fs[j].Pos() })
		n := 0
		for _, f := range fs {
			for _, w := range k.forward(f) {
				n++
				eff := w.Loc + " " + w.Kind
				c.Check(allowed[eff], "R-C02-1", f, w.In.Pos(), "operation "+m.Name+" can perform: "+eff+" at "+eng.InstrStr(w.In),
					"allowed for "+m.Name+": {"+strings.Join(tC02[m.Name], ", ")+"}", "reached via "+strings.Join(g.PathTo(m.Fn, f), " -> "))
			}
		}
		if n == 0 {
			if len(tC02[m.Name]) > 0 {
				c.Bad("R-C02-1", m.Fn, m.Fn.Pos(), "effects of "+m.Name, "the operation performs its documented mutation", "no forward write reachable")
			} else {
				c.Ok("R-C02-1", m.Fn, m.Fn.Pos(), "effects of "+m.Name, "no persistent write")
			}
		}
	}
	c.Floor("R-C02-1", 9)

	// R-C02-2 comma-ok on version maps
	n2 := 0
	for _, f := range p.PkgFuncs("db") {
		eng.Instrs(f, func(in ssa.Instruction) {
			lk, ok := in.(*ssa.Lookup)
			if !ok {
				return
			}
			mt, ok := lk.X.Type().Underlying().(*types.Map)
			if !ok || !eng.IsNamed(mt.Key(), "types/api", "SecretVersion") || !isStringType(mt.Elem()) {
				return
			}
			n2++
			site := "read " + eng.ValStr(lk)
			if !lk.CommaOk {
				c.Bad("R-C02-2", f, in.Pos(), site, "reads of a version map use the comma-ok form: an absent version is not an empty value (empty values are legal)", "single-result read: a missing version reads as \"\"")
				return
			}
			var okv, val ssa.Value
			for _, r := range *lk.Referrers() {
				if ex, isEx := r.(*ssa.Extract); isEx {
					if ex.Index == 1 {
						okv = ex
					} else {
						val = ex
					}
				}
			}
			bad := ""
			if val != nil {
				for _, r := range *val.Referrers() {
					if _, dbg := r.(*ssa.DebugRef); dbg {
						continue
					}
					dom := false
					for _, cond := range eng.FactsAt(r) {
						if v, truth, isB := cond.Bool(); isB && truth && okv != nil && eng.Same(v, okv) {
							dom = true
						}
					}
					// a phi use is judged at the incoming edge
					if ph, isPhi := r.(*ssa.Phi); isPhi {
						dom = true
						for i, e := range ph.Edges {
							if e != val {
								continue
							}
							d2 := false
							for _, fct := range eng.BlockFacts(ph.Block().Preds[i]) {
								if v, truth, isB := fct.Cond().Bool(); isB && truth && okv != nil && eng.Same(v, okv) {
									d2 = true
								}
							}
							// the edge itself may be the ok-true edge out of the If
							pred := ph.Block().Preds[i]
							if ifi, isIf := pred.Instrs[len(pred.Instrs)-1].(*ssa.If); isIf && okv != nil && eng.Same(ifi.Cond, okv) && pred.Succs[0] == ph.Block() {
								d2 = true
							}
							if !d2 {
								dom = false
							}
						}
					}
					// spilling the value into a local cell (a variable captured by a
					// literal) is not a use: the reads of the cell are
					if st, isSt := r.(*ssa.Store); isSt && !dom && st.Val == ssa.Value(val) {
						if cell, isCell := st.Addr.(*ssa.Alloc); isCell && cell.Referrers() != nil {
							dom = true
							for _, cr := range *cell.Referrers() {
								switch cr.(type) {
								case *ssa.Store, *ssa.DebugRef:
									continue
								}
								okUse := false
								for _, cond := range eng.FactsAt(cr) {
									if v, truth, isB := cond.Bool(); isB && truth && okv != nil && eng.Same(v, okv) {
										okUse = true
									}
								}
								if !okUse {
									dom = false
								}
							}
						}
					}
					if !dom {
						bad = "value used at " + c.P.Pos(r.Pos()) + " (" + eng.InstrStr(r) + ") without ok being true there"
					}
				}
			}
			c.Check(bad == "", "R-C02-2", f, in.Pos(), site, "the looked-up value is used only where ok is known true", bad)
		})
	}
	if n2 < 3 {
		c.Undecided("R-C02-2", nil, 0, "reads of map[SecretVersion]byteString", "fewer than 3 found")
	}

	c02Numbers(c, d, k)
	c02Active(c, d, k)
	c02Guards(c, d, k)
	// R-C02-6: shares the checks of R-C14-3 on the value type
	if sec := p.Named("db", "secret"); sec != nil {
		st := sec.Underlying().(*types.Struct)
		for i := 0; i < st.NumFields(); i++ {
			if st.Field(i).Name() == "Versions" {
				mt, _ := st.Field(i).Type().Underlying().(*types.Map)
				c.Check(mt != nil && isStringType(mt.Elem()), "R-C02-6", nil, st.Field(i).Pos(), "element type of secret.Versions", "an immutable string-kinded type (bytes bound to a version never change)", "element type "+eng.TypeShort(st.Field(i).Type()))
			}
		}
	}
	for _, w := range k.writes {
		if w.Loc == "secret.Versions" && w.Kind == "insert" && w.Rollback == nil {
			cv, isConv := eng.Origin(w.Val).(*ssa.Convert)
			okk := isConv
			if isConv {
				_, fromSlice := cv.X.Type().Underlying().(*types.Slice)
				okk = fromSlice || isStringType(cv.X.Type())
			}
			c.Check(okk, "R-C02-6", w.Fn, w.In.Pos(), "stored value "+eng.ValStr(w.Val), "the stored value is a copy made by []byte->string conversion of the caller's bytes", "")
		}
	}
	secretsKeyIsOwnName(c, "R-C02-7")
	c.Floor("R-C02-7", 8)
	// R-C02-8: failed calls (unknown name / version) are reported as not-found, not as success
	notFoundDiscipline(c, "R-C02-8")
	c02NoFailureAfterCommit(c, d)
	// R-C02-10: "failed calls change nothing", the other half: when the save
	// fails every in-memory change of the call is undone (C04's rollback rule)
	includeOnly(c, "R-C02-10", func(sc *eng.Ctx) { runC04(sc, "quick") }, "R-C04-3")
}

// c02NoFailureAfterCommit: R-C02-9.  "Failed calls change nothing", seen from
// the operation: once the state-changing call of a mutating db.DB operation
// has succeeded (the change is made and saved), the operation cannot report
// an error any more -- whatever else can fail (the permission check, the audit
// record) comes before the change.
func c02NoFailureAfterCommit(c *eng.Ctx, d *dbInfo) {
	n := 0
	for _, m := range d.methods {
		if len(tC02[m.Name]) == 0 {
			continue
		}
		for _, s := range d.sites(m.Fn) {
			call, ok := s.In.(*ssa.Call)
			if !ok || s.Call == nil || !s.Write {
				continue
			}
			f := call.Parent()
			ei := errResultIndex(f)
			cerr := saveErr(call)
			if ei < 0 || cerr == nil {
				continue
			}
			n++
			hit, path := eng.Search(f, call, eng.AssumeErr(cerr, true), nil, func(x ssa.Instruction) bool {
				r, isR := x.(*ssa.Return)
				if !isR {
					return false
				}
				e := eng.RetVals(r)[ei]
				return !eng.IsNilConst(eng.Origin(e)) && !eng.Same(e, cerr)
			})
			c.Check(hit == nil, "R-C02-9", f, call.Pos(), "after a successful "+eng.CallStr(&call.Call)+" in "+m.Name, "the operation reports success (nothing that can fail is left to do once the change is made and saved)", func() string {
				if hit == nil {
					return ""
				}
				return "an error can still be returned at " + c.P.Pos(hit.Pos()) + ": the caller is told the call failed although the state changed: " + c.P.PathStr(path)
			}())
		}
	}
	if n < 4 {
		c.Undecided("R-C02-9", nil, 0, "state-changing calls of Put/Activate/DeleteVersion/Delete", "fewer than 4 found")
	}
}

// c02Numbers: R-C02-3.
func c02Numbers(c *eng.Ctx, d *dbInfo, k *kvAnalysis) {
	n := 0
	var incStores, rollbacks []kvWrite
	for _, w := range k.writes {
		if w.Loc != "secret.LatestVersion" {
			continue
		}
		n++
		site := eng.InstrStr(w.In)
		switch {
		case w.Construct:
			v, isC := eng.ConstInt(w.Val)
			c.Check(isC && v == 1, "R-C02-3", w.Fn, w.In.Pos(), site+" [new secret]", "a new secret starts its counter at 1", "value "+eng.ValStr(w.Val))
		case w.Rollback != nil:
			rollbacks = append(rollbacks, w)
		default:
			cv, op, ok := incOf(w.Val, w.Addr)
			c.Check(ok && cv == 1 && op == token.ADD, "R-C02-3", w.Fn, w.In.Pos(), site, "the counter only moves by +1 from its own previous value (never recomputed from the set of versions, which would reuse numbers after a delete)", "value "+eng.ValStr(w.Val))
			if ok {
				incStores = append(incStores, w)
			}
		}
	}
	for _, w := range rollbacks {
		cv, op, ok := incOf(w.Val, w.Addr)
		ok = ok && cv == 1 && op == token.SUB
		if !ok {
			// or: puts back the value the counter held before the increment
			for _, inc := range incStores {
				if inc.Fn == w.Fn {
					if comp, _ := k.compensates(w, inc); comp {
						ok = true
					}
				}
			}
		}
		c.Check(ok, "R-C02-3", w.Fn, w.In.Pos(), eng.InstrStr(w.In)+" [rollback]", "a failed put only takes the counter back by the one step it advanced (decrement by one, or the value read before the increment)", "value "+eng.ValStr(w.Val))
	}
	if n < 3 {
		c.Undecided("R-C02-3", nil, 0, "stores to secret.LatestVersion", "fewer than 3 found")
	}
	// new versions are inserted under the just-incremented counter
	for _, w := range k.writes {
		if w.Loc != "secret.Versions" || w.Kind != "insert" || w.Rollback != nil {
			continue
		}
		ok := false
		for _, inc := range incStores {
			if inc.Fn == w.Fn && eng.InstrDominates(inc.In, w.In) && c.P.MemSame(w.Key, inc.Val) {
				ok = true
			}
		}
		c.Check(ok, "R-C02-3", w.Fn, w.In.Pos(), eng.InstrStr(w.In), "a new version is stored under the counter value that was just incremented (fresh, strictly larger than every number ever used)", "key "+eng.ValStr(w.Key))
		// success return of that function carries the same number
		f := w.Fn
		for _, r := range eng.Returns(f) {
			rv := eng.RetVals(r)
			ei := errResultIndex(f)
			if ei < 0 || len(rv) != 2 || !eng.IsNilConst(eng.Origin(rv[ei])) {
				continue
			}
			// only returns reachable after the insert
			if hit, _ := eng.Search(f, w.In, nil, nil, func(x ssa.Instruction) bool { return x == ssa.Instruction(r) }); hit == nil {
				continue
			}
			same := c.P.MemSame(rv[0], w.Key)
			if ph, isPhi := eng.Origin(rv[0]).(*ssa.Phi); isPhi && !same {
				// a result variable assigned per branch: the values it can
				// hold when this insert has been executed
				same = true
				n := 0
				for i, e := range ph.Edges {
					pred := ph.Block().Preds[i]
					reach := pred == w.In.Block()
					if !reach {
						hit, _ := eng.Search(f, w.In, nil, nil, func(x ssa.Instruction) bool { return x.Block() == pred })
						reach = hit != nil
					}
					if !reach {
						continue
					}
					n++
					if !c.P.MemSame(e, w.Key) {
						same = false
					}
				}
				same = same && n > 0
			}
			c.Check(same, "R-C02-3", f, r.Pos(), eng.InstrStr(r), "a successful put returns exactly the number its value was stored under", "returns "+eng.ValStr(rv[0])+", stored under "+eng.ValStr(w.Key))
		}
	}
	// creation literal is consistent, and inserted under an absent name
	for _, w := range k.writes {
		if w.Loc != "kv.secrets" || w.Kind != "insert" || w.Rollback != nil {
			continue
		}
		// (a literal built in place, or by a constructor helper that returns it)
		fields, _, isLit := eng.LiteralThroughHelper(w.Val)
		if !isLit {
			c.Bad("R-C02-3", w.Fn, w.In.Pos(), eng.InstrStr(w.In), "a secret is created from a fresh literal", "value "+eng.ValStr(w.Val))
			continue
		}
		lv, ok1 := eng.ConstInt(fields["LatestVersion"])
		av, ok2 := eng.ConstInt(fields["ActiveVersion"])
		// keys of the Versions literal
		var keys []int64
		if mm, isMM := eng.Origin(fields["Versions"]).(*ssa.MakeMap); isMM {
			for _, r := range *mm.Referrers() {
				if mu, isMU := r.(*ssa.MapUpdate); isMU {
					if kk, isC := eng.ConstInt(mu.Key); isC {
						keys = append(keys, kk)
					}
				}
			}
		}
		okk := ok1 && ok2 && lv == 1 && av == 1 && len(keys) == 1 && keys[0] == 1
		c.Check(okk, "R-C02-3", w.Fn, w.In.Pos(), "new secret literal", "{Versions:{1: value}, ActiveVersion:1, LatestVersion:1}: the first put creates version 1 and makes it active", "LatestVersion="+eng.ValStr(fields["LatestVersion"])+" ActiveVersion="+eng.ValStr(fields["ActiveVersion"]))
		absent := false
		for _, cond := range eng.FactsX(w.In) {
			if v, isNil, isN := cond.NilCheck(); isN && isNil {
				if lk, isLk := eng.Origin(v).(*ssa.Lookup); isLk && sameMapSrcX(lk.X, w.Map) && eng.SameX(lk.Index, w.Key) {
					absent = true
				}
			}
			if src, truth, isCO := cond.CommaOk(); isCO && !truth {
				if lk, isLk := src.(*ssa.Lookup); isLk && sameMapSrcX(lk.X, w.Map) && eng.SameX(lk.Index, w.Key) {
					absent = true
				}
			}
		}
		c.Check(absent, "R-C02-3", w.Fn, w.In.Pos(), eng.InstrStr(w.In), "a secret is created only under a name proven absent on this path (an existing secret's versions and counter are never replaced)", "holding here: "+factsStr(eng.FactsX(w.In)))
	}
	// dedupe short-cut: success returns BEFORE any write
	for _, f := range k.mutators() {
		fw := k.forward(f)
		hasVersions := false
		for _, w := range fw {
			if w.Loc == "secret.LatestVersion" {
				hasVersions = true
			}
		}
		if !hasVersions {
			continue
		}
		var valueP *ssa.Parameter
		for _, prm := range f.Params {
			if sl, ok := prm.Type().Underlying().(*types.Slice); ok && types.Identical(sl.Elem(), types.Typ[types.Byte]) {
				valueP = prm
			}
		}
		for _, r := range eng.Returns(f) {
			rv := eng.RetVals(r)
			ei := errResultIndex(f)
			if ei < 0 || len(rv) != 2 || !eng.IsNilConst(eng.Origin(rv[ei])) {
				continue
			}
			after := false
			for _, w := range fw {
				if hit, _ := eng.Search(f, w.In, nil, nil, func(x ssa.Instruction) bool { return x == ssa.Instruction(r) }); hit != nil {
					after = true
				}
			}
			if after {
				continue
			}
			// an early success: must be "latest version exists and equals value", returning that number
			okExists, okEqual := false, false
			var key ssa.Value
			// (the test may sit in a small predicate of the secret: FactsX
			// adds what its answer implies, values compared through OriginX)
			convX := func(v ssa.Value) ssa.Value {
				for i := 0; i < 6; i++ {
					w := eng.OriginConv(eng.OriginX(v))
					if w == v {
						break
					}
					v = w
				}
				return v
			}
			isValueP := func(v ssa.Value) bool { return convX(v) == convX(valueP) }
			for _, cond := range eng.FactsX(r) {
				if src, truth, isCO := cond.CommaOk(); isCO && truth {
					if lk, isLk := src.(*ssa.Lookup); isLk {
						if fr, _, isF := eng.LoadedField(lk.X); isF && fr.Is("db", "secret", "Versions") {
							if fr2, _, isF2 := eng.LoadedField(lk.Index); isF2 && fr2.Is("db", "secret", "LatestVersion") {
								okExists = true
								key = lk.Index
							}
						}
					}
				}
				if op, x, y, isCmp := cond.Cmp(); isCmp && op == token.EQL && valueP != nil {
					for _, pr := range [][2]ssa.Value{{x, y}, {y, x}} {
						if isValueP(pr[1]) {
							if ex, isEx := eng.Origin(pr[0]).(*ssa.Extract); isEx && ex.Index == 0 {
								if _, isLk := ex.Tuple.(*ssa.Lookup); isLk {
									okEqual = true
								}
							}
						}
					}
				}
			}
			okRet := key != nil && c.P.MemSame(rv[0], key)
			if key != nil && !okRet {
				// the predicate read the counter in its own frame: same field of
				// the same secret, and no write precedes this return (checked above)
				fa, oa, isA := eng.LoadedField(rv[0])
				fb, ob, isB := eng.LoadedField(key)
				okRet = isA && isB && fa.Is("db", "secret", "LatestVersion") && fb.Is("db", "secret", "LatestVersion") && eng.SameX(oa, ob)
			}
			c.Check(okExists && okEqual && okRet, "R-C02-3", f, r.Pos(), "early success "+eng.InstrStr(r), "without storing, put may only return the most recently assigned number, and only where that version still exists and holds exactly the bytes put",
				"exists-check="+boolStr(okExists)+" bytes-equal-check="+boolStr(okEqual)+" returns-that-number="+boolStr(okRet)+"; holding: "+eng.FactsString(r))
		}
	}
}

func boolStr(b bool) string {
	if b {
		return "yes"
	}
	return "no"
}

// c02Active: R-C02-4.
func c02Active(c *eng.Ctx, d *dbInfo, k *kvAnalysis) {
	n := 0
	for _, w := range k.writes {
		if w.Rollback != nil || w.Construct {
			continue
		}
		switch {
		case w.Loc == "secret.Versions" && w.Kind == "delete":
			n++
			ok := false
			for _, cond := range eng.FactsAt(w.In) {
				op, x, y, isCmp := cond.Cmp()
				if !isCmp || op != token.NEQ {
					continue
				}
				for _, pr := range [][2]ssa.Value{{x, y}, {y, x}} {
					if fr, _, isF := eng.LoadedField(pr[1]); isF && fr.Is("db", "secret", "ActiveVersion") && eng.Same(pr[0], w.Key) {
						ok = true
					}
				}
			}
			c.Check(ok, "R-C02-4", w.Fn, w.In.Pos(), eng.InstrStr(w.In), "a version is deleted only where version != ActiveVersion holds (the active version cannot be deleted individually)", "holding here: "+eng.FactsString(w.In))
			// and only where it exists (a failed call changes nothing; also needed for the undo value)
		case w.Loc == "secret.Versions" && w.Kind == "clear":
			n++
			c.Bad("R-C02-4", w.Fn, w.In.Pos(), eng.InstrStr(w.In), "versions are removed one at a time, never the active one", "clear of the version map")
		case w.Loc == "secret.ActiveVersion" && w.Kind == "store":
			n++
			ok := false
			// (the lookup may be wrapped in a small predicate of the secret)
			for _, cond := range eng.FactsX(w.In) {
				src, truth, isCO := cond.CommaOk()
				if !isCO || !truth {
					continue
				}
				if lk, isLk := src.(*ssa.Lookup); isLk {
					if fr, base, isF := eng.LoadedField(lk.X); isF && fr.Is("db", "secret", "Versions") && eng.SameX(lk.Index, w.Val) && (base == w.Addr.X || eng.SameX(base, w.Addr.X)) {
						ok = true
					}
				}
			}
			c.Check(ok, "R-C02-4", w.Fn, w.In.Pos(), eng.InstrStr(w.In), "a version becomes active only on the present edge of a lookup of that very version in the same secret (the active version always exists)", "holding here: "+factsStr(eng.FactsX(w.In)))
		}
	}
	if n < 2 {
		c.Undecided("R-C02-4", nil, 0, "version deletes / activations", "fewer than 2 found")
	}
}

// c02Guards: R-C02-5.
func c02Guards(c *eng.Ctx, d *dbInfo, k *kvAnalysis) {
	for _, m := range d.methods {
		if _, isMut := tC02[m.Name]; !isMut || m.NameP == nil {
			continue
		}
		// (a guard helper shared by the operations is judged at its call in this one)
		eng.SetRoot(m.Fn)
		for _, s := range d.sites(m.Fn) {
			if !s.Write {
				continue
			}
			facts := factsDeep(s.In)
			site := m.Name + ": " + eng.InstrStr(s.In)
			if m.Name == "Put" || m.Name == "Activate" {
				ok := false
				for _, cond := range facts {
					if op, x, y, isCmp := cond.Cmp(); isCmp && op == token.NEQ {
						if str, isC := eng.ConstString(y); isC && str == "" && eng.Origin(x) == ssa.Value(m.NameP) {
							ok = true
						}
					}
				}
				c.Check(ok, "R-C02-5", s.Fn, s.In.Pos(), site+" [empty name]", "edge-dominated by name != \"\"", "holding here: "+factsStr(facts))
			}
			ok := false
			for _, cond := range facts {
				call, idx, truth, isCall := cond.BoolCall()
				if !isCall || truth {
					continue
				}
				isPrefixTest := (eng.CalleeIs(&call.Call, "strings", "HasPrefix") && idx == -1) || (eng.CalleeIs(&call.Call, "strings", "CutPrefix") && idx == 1)
				if !isPrefixTest || !(eng.Origin(call.Call.Args[0]) == ssa.Value(m.NameP) || eng.OriginX(call.Call.Args[0]) == eng.OriginX(m.NameP)) {
					continue
				}
				if pfx, isC := eng.ConstString(call.Call.Args[1]); isC && pfx == "_internal/" {
					ok = true
				}
			}
			c.Check(ok, "R-C02-5", s.Fn, s.In.Pos(), site+" [reserved prefix]", "edge-dominated by the negative edge of a \"_internal/\" prefix test on the same name (reserved names never reach the store)", "holding here: "+factsStr(facts))
		}
	}
	eng.SetRoot(nil)
	c.Floor("R-C02-5", 6)
	// version != 0 before activation / version deletion
	for _, w := range k.writes {
		if w.Rollback != nil || w.Construct {
			continue
		}
		var ver ssa.Value
		switch {
		case w.Loc == "secret.ActiveVersion" && w.Kind == "store":
			ver = w.Val
		case w.Loc == "secret.Versions" && w.Kind == "delete":
			ver = w.Key
		default:
			continue
		}
		ok := false
		for _, cond := range eng.FactsAt(w.In) {
			if op, x, y, isCmp := cond.Cmp(); isCmp && op == token.NEQ {
				if kk, isC := eng.ConstInt(y); isC && kk == 0 && eng.Same(x, ver) {
					ok = true
				}
			}
		}
		c.Check(ok, "R-C02-5", w.Fn, w.In.Pos(), eng.InstrStr(w.In)+" [version 0]", "edge-dominated by version != 0 (version 0 means 'default' and is never a stored version)", "holding here: "+eng.FactsString(w.In))
	}
}

// secretsKeyIsOwnName: every keyed access to kv.secrets uses the enclosing
// operation's own name parameter as key (shared by C02 and C01).
func secretsKeyIsOwnName(c *eng.Ctx, rule string) {
	p := c.P
	for _, f := range p.PkgFuncs("db") {
		var nameP *ssa.Parameter
		for _, prm := range eng.Outer(f).Params {
			if nameP == nil && types.Identical(prm.Type(), types.Typ[types.String]) {
				nameP = prm
			}
		}
		for _, m := range eng.MapOps(f) {
			if !m.SrcOK || !isKVRole(curProg, m.Src, "secrets") || m.Key == nil {
				continue
			}
			c.Check(nameP != nil && eng.Origin(m.Key) == ssa.Value(nameP), rule, f, m.In.Pos(), "secrets map "+m.Kind+" with key "+eng.ValStr(m.Key), "the key is the operation's own name parameter (operations on one name never touch another)", "key is "+eng.ValStr(m.Key))
		}
		// ... and a kv helper that keys the map with ITS name parameter is
		// handed the caller's own name
		eng.Instrs(f, func(in ssa.Instruction) {
			ci, ok := in.(ssa.CallInstruction)
			if !ok {
				return
			}
			h := eng.Callee(ci.Common())
			if h == nil || !eng.IsHelper(f, h) || !recvIs(h, "db", "kv") {
				return
			}
			var hName *ssa.Parameter
			for _, prm := range h.Params {
				if hName == nil && types.Identical(prm.Type(), types.Typ[types.String]) {
					hName = prm
				}
			}
			keys := false
			for _, m := range eng.MapOps(h) {
				if m.SrcOK && isKVRole(curProg, m.Src, "secrets") && m.Key != nil && hName != nil && eng.Origin(m.Key) == ssa.Value(hName) {
					keys = true
				}
			}
			if !keys || eng.Outer(f) == h {
				return
			}
			var arg ssa.Value
			for i, prm := range h.Params {
				if prm == hName && i < len(ci.Common().Args) {
					arg = ci.Common().Args[i]
				}
			}
			if recvIs(eng.Outer(f), "db", "kv") {
				c.Check(nameP != nil && arg != nil && eng.Origin(arg) == ssa.Value(nameP), rule, f, in.Pos(), eng.CallStr(ci.Common()), "the kv helper is handed the operation's own name parameter", "name argument is "+eng.ValStr(arg))
			}
		})
	}
}
