package rules

import (
	"fmt"
	"regexp/syntax"
	"strings"

	"golang.org/x/tools/go/ssa"

	"setecvet/eng"
)

// globHelper describes a module function that compiles one expression for a
// LIST of patterns: MustCompile(Sprintf(F, Join(alts, A))) with
// alts[i] = Join(QuoteMeta'd pieces of Split(pats[i], "*"), W).
type globHelper struct {
	fn            *ssa.Function
	compile       *ssa.Call
	format, alt   string
	wild, sep     string
	pats          *ssa.Parameter
	quotedOK      bool
	quotedDetail  string
	everyPattern  bool
	patternDetail string
}

func regexpCompileIn(f *ssa.Function) *ssa.Call {
	var out *ssa.Call
	eng.Instrs(f, func(in ssa.Instruction) {
		if call, ok := in.(*ssa.Call); ok {
			if cal := call.Call.StaticCallee(); cal != nil && cal.Pkg != nil && cal.Pkg.Pkg.Path() == "regexp" && (cal.Name() == "MustCompile" || cal.Name() == "Compile") {
				out = call
			}
		}
	})
	return out
}

// quotedPieces: `parts` is Split(src, sep) and a full-range loop overwrites
// every element with QuoteMeta(element) before `before` executes.
func quotedPieces(f *ssa.Function, parts ssa.Value, before ssa.Instruction) (src ssa.Value, sep string, ok bool, detail string) {
	spl, _ := eng.TupleCall(parts)
	if spl == nil || !eng.CalleeIs(&spl.Call, "strings", "Split") {
		return nil, "", false, "the joined slice is not the result of strings.Split: " + eng.ValStr(parts)
	}
	sep, _ = eng.ConstString(spl.Call.Args[1])
	src = spl.Call.Args[0]
	detail = "no full-range loop over the pieces stores regexp.QuoteMeta(piece) back"
	for _, l := range eng.RangeLoops(f) {
		if !(l.Slice == parts || eng.Same(l.Slice, parts)) {
			continue
		}
		var st *ssa.Store
		eng.Instrs(f, func(in ssa.Instruction) {
			s, isS := in.(*ssa.Store)
			if !isS || !l.InLoop(s.Block()) {
				return
			}
			ia, isIA := s.Addr.(*ssa.IndexAddr)
			if !isIA || ia.Index != l.Idx || !(ia.X == parts || eng.Same(ia.X, parts)) {
				return
			}
			if call, _ := eng.TupleCall(s.Val); call != nil && eng.CalleeIs(&call.Call, "regexp", "QuoteMeta") && l.ElemOf(call.Call.Args[0]) {
				st = s
			}
		})
		if st == nil {
			continue
		}
		hit, _ := eng.SearchBlock(f, l.Body, nil, func(in ssa.Instruction) bool { return in == ssa.Instruction(st) }, func(in ssa.Instruction) bool { return in.Block() == l.Header || eng.IsReturn(in) })
		if l.Body.Instrs[0] == ssa.Instruction(st) {
			hit = nil
		}
		if hit != nil {
			detail = "an iteration can skip the QuoteMeta store"
			continue
		}
		if !l.Done.Dominates(before.Block()) {
			detail = "the pieces are joined before the quoting loop has finished"
			continue
		}
		ok = true
	}
	// no other store into the pieces
	eng.Instrs(f, func(in ssa.Instruction) {
		if s, isS := in.(*ssa.Store); isS {
			if ia, isIA := s.Addr.(*ssa.IndexAddr); isIA && (ia.X == parts || eng.Same(ia.X, parts)) {
				if call, _ := eng.TupleCall(s.Val); call == nil || !eng.CalleeIs(&call.Call, "regexp", "QuoteMeta") {
					ok = false
					detail = "a piece is overwritten with something other than QuoteMeta"
				}
			}
		}
	})
	return
}

// analyzeGlobHelper recognises the multi-pattern compile helper.
func analyzeGlobHelper(f *ssa.Function) (*globHelper, string) {
	h := &globHelper{fn: f, compile: regexpCompileIn(f)}
	if h.compile == nil {
		return nil, "no regexp.Compile/MustCompile"
	}
	sp, _ := eng.TupleCall(h.compile.Call.Args[0])
	if sp == nil || !eng.CalleeIs(&sp.Call, "fmt", "Sprintf") {
		return nil, "compiled expression is not fmt.Sprintf(constant, ...)"
	}
	var okc bool
	if h.format, okc = eng.ConstString(sp.Call.Args[0]); !okc {
		return nil, "format is not a constant"
	}
	pa := eng.Path{Blocks: []*ssa.BasicBlock{sp.Block()}}
	elems, known := pa.SliceElems(sp.Call.Args[1])
	if !known || len(elems) != 1 {
		return nil, "format takes other than exactly one operand"
	}
	jn, _ := eng.TupleCall(elems[0])
	if jn == nil || !eng.CalleeIs(&jn.Call, "strings", "Join") {
		return nil, "format operand is not strings.Join(...)"
	}
	if h.alt, okc = eng.ConstString(jn.Call.Args[1]); !okc {
		return nil, "outer Join separator is not a constant"
	}
	alts := jn.Call.Args[0]
	// the pattern list parameter
	for _, prm := range f.Params {
		if sl, isSl := prm.Type().Underlying().(interface{ Elem() interface{} }); isSl {
			_ = sl
		}
		if strings.HasPrefix(eng.TypeShort(prm.Type()), "[]") && strings.HasSuffix(eng.TypeShort(prm.Type()), "Secret") {
			h.pats = prm
		}
	}
	if h.pats == nil {
		return nil, "helper has no []Secret parameter"
	}
	// alts[i] = Join(parts_i, W) in a full-range loop over pats
	h.patternDetail = "no full-range loop over the patterns fills the alternative list"
	for _, l := range eng.RangeLoops(f) {
		if eng.Origin(l.Slice) != ssa.Value(h.pats) {
			continue
		}
		eng.Instrs(f, func(in ssa.Instruction) {
			s, isS := in.(*ssa.Store)
			if !isS || !l.InLoop(s.Block()) {
				return
			}
			ia, isIA := s.Addr.(*ssa.IndexAddr)
			if !isIA || ia.Index != l.Idx || !(ia.X == alts || eng.Same(ia.X, alts)) {
				return
			}
			inner, _ := eng.TupleCall(s.Val)
			if inner == nil || !eng.CalleeIs(&inner.Call, "strings", "Join") {
				h.patternDetail = "an alternative is not strings.Join(quoted pieces, W)"
				return
			}
			h.wild, _ = eng.ConstString(inner.Call.Args[1])
			src, sep, okq, det := quotedPieces(f, inner.Call.Args[0], inner)
			h.sep, h.quotedOK, h.quotedDetail = sep, okq, det
			if src != nil && l.ElemOf(eng.OriginConv(src)) {
				// every iteration stores its alternative
				hit, _ := eng.SearchBlock(f, l.Body, nil, func(x ssa.Instruction) bool { return x == in }, func(x ssa.Instruction) bool { return x.Block() == l.Header || eng.IsReturn(x) })
				if hit == nil && l.Done.Dominates(jn.Block()) {
					h.everyPattern = true
				} else {
					h.patternDetail = "a pattern can be skipped"
				}
			} else {
				h.patternDetail = "the pieces are not split from the pattern of this iteration"
			}
		})
	}
	return h, ""
}

// describeAlt renders a syntax tree including alternations and groups.
func describeAlt(re *syntax.Regexp) string {
	switch re.Op {
	case syntax.OpAlternate:
		var parts []string
		for _, s := range re.Sub {
			parts = append(parts, describeAlt(s))
		}
		return "Alt(" + strings.Join(parts, " | ") + ")"
	case syntax.OpCapture:
		return describeAlt(re.Sub[0])
	case syntax.OpConcat:
		var parts []string
		for _, s := range re.Sub {
			parts = append(parts, describeAlt(s))
		}
		return strings.Join(parts, " ")
	}
	return strings.Join(describe(re), " ")
}

// checkGlobHelperTemplate: R-C07-2 for the multi-pattern form.
func checkGlobHelperTemplate(c *eng.Ctx, h *globHelper) {
	site := fmt.Sprintf("template F=%q W=%q A=%q in %s", h.format, h.wild, h.alt, eng.FName(h.fn))
	if strings.Count(h.format, "%s") != 1 || strings.Count(h.format, "%") != 1 {
		c.Bad("R-C07-2", h.fn, h.compile.Pos(), site, "a constant with exactly one %s", "")
		return
	}
	glob := func(n int) string {
		p := make([]string, n)
		for i := range p {
			p[i] = "Lx"
		}
		return strings.Join(p, h.wild)
	}
	wantGlob := func(n int) string {
		var w []string
		for i := 0; i < n; i++ {
			if i > 0 {
				w = append(w, "Star(AnyChar)")
			}
			w = append(w, "Lit(Lx)")
		}
		return strings.Join(w, " ")
	}
	for npat := 1; npat <= 3; npat++ {
		for npiece := 1; npiece <= 2; npiece++ {
			alts := make([]string, npat)
			wants := make([]string, npat)
			for i := range alts {
				alts[i] = glob(npiece)
				wants[i] = wantGlob(npiece)
			}
			expr := strings.Replace(h.format, "%s", strings.Join(alts, h.alt), 1)
			re, err := syntax.Parse(expr, syntax.Perl)
			if err != nil {
				c.Bad("R-C07-2", h.fn, h.compile.Pos(), site, "well-formed for any number of patterns and pieces", err.Error())
				return
			}
			got := describeAlt(re)
			want := "BeginText " + wants[0] + " EndText"
			if npat > 1 {
				want = "BeginText Alt(" + strings.Join(wants, " | ") + ") EndText"
			}
			// (identical alternatives may be factored by the parser: compare on distinct literals instead)
			if npat > 1 {
				for i := range alts {
					lit := fmt.Sprintf("%c%c", 'a'+i, 'P'+i) // no common prefix: the parser factors those
					alts[i] = strings.ReplaceAll(alts[i], "Lx", lit)
					wants[i] = strings.ReplaceAll(wants[i], "Lx", lit)
				}
				expr = strings.Replace(h.format, "%s", strings.Join(alts, h.alt), 1)
				re, _ = syntax.Parse(expr, syntax.Perl)
				got = describeAlt(re)
				want = "BeginText Alt(" + strings.Join(wants, " | ") + ") EndText"
			}
			if got != want {
				c.Bad("R-C07-2", h.fn, h.compile.Pos(), site, "every alternative is anchored at BOTH ends: "+want,
					fmt.Sprintf("with %d patterns %q parses to %s (the anchors bind to the first and last alternative only: the others match as prefixes/suffixes/substrings)", npat, expr, got))
				return
			}
		}
	}
	c.Ok("R-C07-2", h.fn, h.compile.Pos(), site, "BeginText Alt(glob | glob ...) EndText with each glob = L (AnyChar)* L")
}

// c07ViaHelper handles Match implemented as helper(pat).MatchString(val).
func c07ViaHelper(c *eng.Ctx, match *ssa.Function, matchCall *ssa.Call) (*globHelper, bool) {
	pat, val := match.Params[0], match.Params[1]
	hc, _ := eng.TupleCall(matchCall.Call.Args[0])
	if hc == nil {
		return nil, false
	}
	hf := eng.Callee(&hc.Call)
	if hf == nil || hf.Blocks == nil || eng.FuncPkg(hf) != c.P.TypesPkg("acl") {
		return nil, false
	}
	h, why := analyzeGlobHelper(hf)
	if h == nil {
		c.Undecided("R-C07-1", hf, hf.Pos(), "compile helper "+eng.FName(hf), "not a recognised compile helper: "+why)
		return nil, true
	}
	// Match passes exactly its own pattern
	pa := eng.Path{Blocks: []*ssa.BasicBlock{hc.Block()}}
	elems, known := pa.SliceElems(hc.Call.Args[0])
	c.Check(known && len(elems) == 1 && eng.Origin(elems[0]) == ssa.Value(pat), "R-C07-1", match, hc.Pos(), eng.CallStr(&hc.Call), "Match compiles exactly its own pattern", "")
	c.Check(eng.Origin(matchCall.Call.Args[1]) == ssa.Value(val), "R-C07-1", match, matchCall.Pos(), eng.CallStr(&matchCall.Call), "MatchString(compiled, name)", "")
	c.Check(h.sep == "*", "R-C07-1", h.fn, h.compile.Pos(), "split separator "+fmt.Sprintf("%q", h.sep), "the wildcard character '*'", "")
	c.Check(h.quotedOK, "R-C07-1", h.fn, h.compile.Pos(), "quoting of the literal pieces in "+eng.FName(h.fn), "every piece between wildcards passes through regexp.QuoteMeta", h.quotedDetail)
	c.Check(h.everyPattern, "R-C07-1", h.fn, h.compile.Pos(), "patterns compiled by "+eng.FName(h.fn), "every pattern of the list contributes its own alternative", h.patternDetail)
	checkGlobHelperTemplate(c, h)
	return h, true
}
