package rules

import (
	"go/types"
	"sync"

	"golang.org/x/tools/go/ssa"

	"setecvet/eng"
)

// Fields of db.kv are identified by what they are, not by what they are
// called, so that renaming an unexported field changes no verdict:
//
//	secrets    the map[string]*secret
//	path       the only string field (file name of the database)
//	gen        the only integer field (write generation)
//	dekRaw     the only []byte field (wrapped data key as stored)
//	kekCipher  the AEAD field initialised from a parameter (caller's key)
//	dekCipher  the other AEAD field (data key primitive)
//
// The canonical role names above are the ones rule texts use.
var (
	kvRoleMu    sync.Mutex
	kvRoleCache = map[*eng.Prog]map[string]string{}
)

func kvRoles(p *eng.Prog) map[string]string {
	kvRoleMu.Lock()
	defer kvRoleMu.Unlock()
	if r, ok := kvRoleCache[p]; ok {
		return r
	}
	roles := map[string]string{}
	kvRoleCache[p] = roles
	n := p.Named("db", "kv")
	if n == nil {
		return roles
	}
	st, ok := n.Underlying().(*types.Struct)
	if !ok {
		return roles
	}
	var aeads []string
	count := map[string]int{}
	set := func(role, name string) {
		count[role]++
		roles[role] = name
	}
	for i := 0; i < st.NumFields(); i++ {
		f := st.Field(i)
		switch t := f.Type().Underlying().(type) {
		case *types.Map:
			if pt, isP := t.Elem().(*types.Pointer); isP && eng.IsNamed(pt.Elem(), "db", "secret") {
				set("secrets", f.Name())
			}
		case *types.Basic:
			switch {
			case t.Info()&types.IsString != 0:
				set("path", f.Name())
			case t.Info()&types.IsInteger != 0:
				set("gen", f.Name())
			}
		case *types.Slice:
			if types.Identical(t.Elem(), types.Typ[types.Byte]) {
				set("dekRaw", f.Name())
			}
		case *types.Interface:
			if isAEAD(f.Type()) {
				aeads = append(aeads, f.Name())
			}
		}
	}
	for role, k := range count {
		if k != 1 {
			delete(roles, role) // ambiguous: rules depending on it report undecided
		}
	}
	// the AEAD initialised from a parameter is the caller's key
	fromParam := map[string]bool{}
	for _, f := range p.PkgFuncs("db") {
		for _, a := range eng.FieldAccesses(f) {
			if a.Kind != "store" || !eng.IsNamed(a.Field.Owner, "db", "kv") {
				continue
			}
			if st, ok := a.In.(*ssa.Store); ok {
				if aeadFromCaller(st.Val, 0) {
					fromParam[a.Field.Name] = true
				}
			}
		}
	}
	if len(aeads) == 1 && !fromParam[aeads[0]] {
		// only the data key's primitive is kept (the caller's key is used at
		// open/create and dropped)
		roles["dekCipher"] = aeads[0]
	}
	if len(aeads) == 2 {
		switch {
		case fromParam[aeads[0]] && !fromParam[aeads[1]]:
			roles["kekCipher"], roles["dekCipher"] = aeads[0], aeads[1]
		case fromParam[aeads[1]] && !fromParam[aeads[0]]:
			roles["kekCipher"], roles["dekCipher"] = aeads[1], aeads[0]
		}
	}
	return roles
}

// kvField returns the actual name of the kv field playing the role, or a
// name no field has.
func kvField(p *eng.Prog, role string) string {
	if n, ok := kvRoles(p)[role]; ok {
		return n
	}
	return "<no field in role " + role + ">"
}

// kvRoleOf maps an actual kv field name back to its canonical role name (or
// the name itself).
func kvRoleOf(p *eng.Prog, name string) string {
	for role, n := range kvRoles(p) {
		if n == name {
			return role
		}
	}
	return name
}

// isKVRole: fr is the kv field playing the role.
func isKVRole(p *eng.Prog, fr eng.FieldRef, role string) bool {
	return fr.Is("db", "kv", kvField(p, role))
}

func isAEAD(t types.Type) bool {
	return eng.IsNamed(t, "github.com/tink-crypto/tink-go/v2/tink", "AEAD")
}

// auditField returns the name of the audit.Writer field in a role: "w" the
// sink (the only interface-typed field), "enc" the *json.Encoder.
func auditField(p *eng.Prog, role string) string {
	n := p.Named("audit", "Writer")
	if n == nil {
		return "<none>"
	}
	st, ok := n.Underlying().(*types.Struct)
	if !ok {
		return "<none>"
	}
	found, cnt := "<none>", 0
	for i := 0; i < st.NumFields(); i++ {
		f := st.Field(i)
		switch role {
		case "w":
			if _, isI := f.Type().Underlying().(*types.Interface); isI {
				found = f.Name()
				cnt++
			}
		case "enc":
			if pt, isP := f.Type().(*types.Pointer); isP && eng.IsNamed(pt.Elem(), "encoding/json", "Encoder") {
				found = f.Name()
				cnt++
			}
		}
	}
	if cnt != 1 {
		return "<ambiguous " + role + ">"
	}
	return found
}

// dbTypeName returns the actual name of an unexported type of package db
// playing a role: "wrapped" is the struct marshalled into the file (the only
// struct with two []byte fields and an integer version), "persist" the struct
// holding the map of secrets that is encrypted into it.
func dbTypeName(p *eng.Prog, role string) string {
	tp := p.TypesPkg("db")
	if tp == nil {
		return role
	}
	found, n := role, 0
	for _, name := range tp.Scope().Names() {
		tn, ok := tp.Scope().Lookup(name).(*types.TypeName)
		if !ok || tn.Exported() {
			continue
		}
		st, ok := tn.Type().Underlying().(*types.Struct)
		if !ok {
			continue
		}
		bytesF, intF, secretsF := 0, 0, 0
		for i := 0; i < st.NumFields(); i++ {
			t := st.Field(i).Type()
			switch u := t.Underlying().(type) {
			case *types.Slice:
				if types.Identical(u.Elem(), types.Typ[types.Byte]) {
					bytesF++
				}
			case *types.Basic:
				if u.Info()&types.IsInteger != 0 {
					intF++
				}
			case *types.Map:
				if pt, isP := u.Elem().(*types.Pointer); isP && eng.IsNamed(pt.Elem(), "db", "secret") {
					secretsF++
				}
			}
		}
		match := false
		switch role {
		case "wrapped":
			match = st.NumFields() == 3 && bytesF == 2 && intF == 1
		case "persist":
			match = st.NumFields() == 1 && secretsF == 1
		}
		if match {
			found = name
			n++
		}
	}
	if n != 1 {
		return role
	}
	return found
}

// structFieldByType returns the name of the single field of the named struct
// type pkg.typ whose type satisfies pred ("" if none or several).
func structFieldByType(p *eng.Prog, pkg, typ string, pred func(types.Type) bool) string {
	n := p.Named(pkg, typ)
	if n == nil {
		return ""
	}
	st, ok := n.Underlying().(*types.Struct)
	if !ok {
		return ""
	}
	found, cnt := "", 0
	for i := 0; i < st.NumFields(); i++ {
		if pred(st.Field(i).Type()) {
			found = st.Field(i).Name()
			cnt++
		}
	}
	if cnt != 1 {
		return ""
	}
	return found
}

// watcherChanField: the channel field of setec.watcher ("ready" on the pinned tree).
func watcherChanField(p *eng.Prog) string {
	return structFieldByType(p, setecPkg, "watcher", func(t types.Type) bool {
		_, ok := t.Underlying().(*types.Chan)
		return ok
	})
}

// updaterField: fields of setec.Updater by role: "w" the watcher, "value" the
// built value (the field of the type parameter's type), "err" the error.
func updaterField(p *eng.Prog, role string) string {
	switch role {
	case "w":
		return structFieldByType(p, setecPkg, "Updater", func(t types.Type) bool {
			return eng.IsNamed(t, setecPkg, "watcher") || eng.IsNamed(t, setecPkg, "Watcher")
		})
	case "value":
		return structFieldByType(p, setecPkg, "Updater", func(t types.Type) bool {
			_, ok := t.(*types.TypeParam)
			return ok
		})
	case "err":
		return structFieldByType(p, setecPkg, "Updater", eng.IsErrorType)
	}
	return ""
}

// fieldInfoField: fields of setec.fieldInfo by role, so that renaming them
// changes nothing: "vtype" the reflect.Type, "value" the reflect.Value,
// "isJSON" the only bool, "unmarshal" the only func, "secretName" the string
// that parseFields does not fill from reflect.StructField.Name (that one is
// "fieldName").  Falls back to the pinned name.
func fieldInfoField(p *eng.Prog, role string) string {
	byType := func(pred func(types.Type) bool) string {
		if n := structFieldByType(p, setecPkg, "fieldInfo", pred); n != "" {
			return n
		}
		return role
	}
	switch role {
	case "vtype":
		return byType(func(t types.Type) bool { return eng.IsNamed(t, "reflect", "Type") })
	case "value":
		return byType(func(t types.Type) bool { return eng.IsNamed(t, "reflect", "Value") })
	case "isJSON":
		return byType(func(t types.Type) bool {
			b, ok := t.Underlying().(*types.Basic)
			return ok && b.Kind() == types.Bool
		})
	case "unmarshal":
		return byType(func(t types.Type) bool { _, ok := t.Underlying().(*types.Signature); return ok })
	case "secretName", "fieldName":
		// the string fields, told apart by what parseFields stores into them
		fromReflectName := map[string]bool{}
		var strs []string
		if n := p.Named(setecPkg, "fieldInfo"); n != nil {
			if st, ok := n.Underlying().(*types.Struct); ok {
				for i := 0; i < st.NumFields(); i++ {
					if isStringType(st.Field(i).Type()) {
						strs = append(strs, st.Field(i).Name())
					}
				}
			}
		}
		for _, f := range p.PkgFuncs(setecPkg) {
			for _, a := range eng.FieldAccesses(f) {
				if a.Kind != "store" || !eng.IsNamed(a.Field.Owner, setecPkg, "fieldInfo") {
					continue
				}
				if st, ok := a.In.(*ssa.Store); ok {
					if fr, _, isF := eng.LoadedField(st.Val); isF && fr.Name == "Name" && eng.IsNamed(fr.Owner, "reflect", "StructField") {
						fromReflectName[a.Field.Name] = true
					}
				}
			}
		}
		if len(strs) == 2 && len(fromReflectName) == 1 {
			for _, s := range strs {
				if fromReflectName[s] == (role == "fieldName") {
					return s
				}
			}
		}
		return role
	}
	return role
}

// storeField: the scalar fields of setec.Store by role (each has a type no
// other field of Store has): "expiryAge" the Duration, "allowLookup" the bool,
// "timeNow" the func() time.Time, "newTicker" the func(Duration) Ticker,
// "cache" the Cache, "client" the StoreClient.  Falls back to the pinned name.
func storeField(role string) string {
	p := curProg
	if p == nil {
		return role
	}
	by := func(pred func(types.Type) bool) string {
		if n := structFieldByType(p, setecPkg, "Store", pred); n != "" {
			return n
		}
		return role
	}
	sigOf := func(t types.Type) *types.Signature {
		s, _ := t.Underlying().(*types.Signature)
		return s
	}
	switch role {
	case "expiryAge":
		return by(func(t types.Type) bool { return eng.IsNamed(t, "time", "Duration") })
	case "allowLookup":
		return by(func(t types.Type) bool {
			b, ok := t.Underlying().(*types.Basic)
			return ok && b.Kind() == types.Bool
		})
	case "timeNow":
		return by(func(t types.Type) bool {
			s := sigOf(t)
			return s != nil && s.Params().Len() == 0 && s.Results().Len() == 1 && eng.IsNamed(s.Results().At(0).Type(), "time", "Time")
		})
	case "newTicker":
		return by(func(t types.Type) bool {
			s := sigOf(t)
			return s != nil && s.Params().Len() == 1 && eng.IsNamed(s.Params().At(0).Type(), "time", "Duration") && s.Results().Len() == 1
		})
	case "cache":
		return by(func(t types.Type) bool { return eng.IsNamed(t, setecPkg, "Cache") })
	case "client":
		return by(func(t types.Type) bool { return eng.IsNamed(t, setecPkg, "StoreClient") })
	}
	return role
}

// aeadFromCaller: v is the caller's key handed down unchanged: a parameter
// of the function, and -- when that function is an unexported constructor
// helper -- at every call site of it again such a value (a primitive built
// with aead.New and passed to the helper is not).
func aeadFromCaller(v ssa.Value, depth int) bool {
	prm, isP := eng.Origin(v).(*ssa.Parameter)
	if !isP || depth > 3 {
		return false
	}
	f := prm.Parent()
	if obj := f.Object(); obj == nil || obj.Exported() || f.Parent() != nil {
		return true
	}
	sites := eng.StaticCallSites(f)
	if len(sites) == 0 {
		return true
	}
	idx := -1
	for i, q := range f.Params {
		if q == prm {
			idx = i
		}
	}
	for _, cs := range sites {
		args := cs.Common().Args
		if idx < 0 || idx >= len(args) || len(args) != len(f.Params) {
			return false
		}
		if _, stillP := eng.Origin(args[idx]).(*ssa.Parameter); !stillP {
			return false
		}
		if !aeadFromCaller(args[idx], depth+1) {
			return false
		}
	}
	return true
}
