package rules

import (
	"go/types"
	"strings"

	"golang.org/x/tools/go/ssa"

	"setecvet/eng"
)

func init() {
	register(&Prop{
		ID: "C12",
		Explanation: "Decides structural clauses of C12: (R-C12-1) every access to Store.active.{m,f,w} (loads, stores, map operations, iteration steps) and to fields of cachedSecret holds Store.active.Mutex (must-held lock sets with inferred entry states for helpers; pre-publication code in NewStore/initializeActive/isActiveSetValid/loadCache up to the first point the *Store escapes is tabled), mutex operations are balanced -- the standard sufficient condition for absence of data races on that state; " +
			"(R-C12-2) while the mutex is really held no call can reach a service request, net/http, singleflight, a sleep or a blocking channel operation, so a handle only ever waits for critical sections that never wait for the service; " +
			"(R-C12-3) an installed api.SecretValue is never mutated (no field store outside its literal, no element store/copy/append into its Value); (R-C12-4) every removal from active.m after publication is edge-dominated by the not-present edge of a lookup of the same name in the handle map, and a handle is created only for a name present in active.m, and only non-nil entries with a fetched value are installed; " +
			"(R-C12-5) the handle body and Secret.Get/GetString contain no panic, unchecked assertion or indexing. (R-C12-9) from every explicit Lock/RLock in the client library each path to a return passes the matching Unlock (called or deferred): no function exits holding the store's mutex. (R-C12-10) the entry behind a handle is never removed: the only removal is guarded by the handle registry (C19's R-C19-1). (R-C12-11) an entry taken over from the start-up cache has a value (C13's validity gate, R-C13-6).",
		NotDecided:  "The order of values a reader observes (a statement about histories); race-detector executions.",
		Trusted:     commonTrusted,
		Assumptions: []string{"one Store guards its own maps (type-level lock identity; checked: no function handles two *Store values)", "Cache.Write is local persistence, not a service request (allowed under the lock)", "calls through logf/timeNow function values do not block on the service"},
		Run:         runC12,
	})
}

func runC12(c *eng.Ctx, tier string) {
	if tier == "thorough" {
		defer thoroughC12(c)
	}
	p := c.P
	if p.Named(setecPkg, "Store") == nil || p.Named(setecPkg, "cachedSecret") == nil {
		c.Undecided("anchor", nil, 0, "setec.Store / setec.cachedSecret", "type anchors do not resolve")
		return
	}
	// R-C12-7: "once a poll has completed every later call returns its value
	// or a newer one" rests on polls being serialised by the single-flight key
	// and on every differing answer being installed (C11's mechanism)
	includeOnly(c, "R-C12-7", func(sc *eng.Ctx) { runC11(sc, "quick") }, "R-C11-1", "R-C11-2", "R-C11-5", "R-C11-8")
	// R-C12-8: "exactly the bytes of some version the service served": nothing
	// outside the store holds an alias of them (C20's copy rule)
	includeOnly(c, "R-C12-8", func(sc *eng.Ctx) { runC20(sc, "quick") }, "R-C20-1")
	c12NoLockLeak(c)
	// R-C12-10: "a handle always yields a value": the entry behind a handle is
	// never removed (the only removal is guarded by the handle registry: C19's rule)
	includeOnly(c, "R-C12-10", func(sc *eng.Ctx) { runC19(sc, "quick") }, "R-C19-1")
	// R-C12-11: "or that the start-up cache supplied for it": an entry taken
	// over from the cache has a value (the validity gate: C13's rule), so a
	// handle never dereferences a value-less entry
	includeOnly(c, "R-C12-11", func(sc *eng.Ctx) { runC13(sc, "quick") }, "R-C13-6")
	l := moduleLocks(c)
	accs := storeAccesses(p)
	// R-C12-1
	for _, a := range accs {
		st := l.HeldBefore(a.In)
		kind := "read"
		if a.Write {
			kind = "write"
		}
		c.Check(l.Holds(st, keyStore), "R-C12-1", a.Fn, a.In.Pos(), kind+" ("+a.Kind+") of "+a.What+": "+eng.InstrStr(a.In), "Store.active.Mutex is held (or the Store is not yet published)",
			"held here: "+l.StateStr(st)+"; entry state of "+a.Fn.Name()+": "+l.StateStr(l.Entry(a.Fn)))
	}
	c.Floor("R-C12-1", 30)
	for _, pr := range l.Problems {
		if eng.FuncPkg(pr.Fn) == p.TypesPkg(setecPkg) {
			c.Bad("R-C12-1", pr.Fn, pr.In.Pos(), eng.InstrStr(pr.In), "mutex operations are balanced", pr.What)
		}
	}
	// aliasing assumption: no function with two distinct *Store values
	for _, f := range p.PkgFuncs(setecPkg) {
		bases := map[ssa.Value]bool{}
		eng.Instrs(f, func(in ssa.Instruction) {
			if fa, ok := in.(*ssa.FieldAddr); ok {
				if fr, _ := eng.FieldOfAddr(fa); eng.IsNamed(fr.Owner, setecPkg, "Store") && strings.HasPrefix(string(keyStore), "setec.Store."+fr.Name+".") {
					bases[eng.Origin(fa.X)] = true
				}
			}
		})
		if len(bases) > 1 {
			c.Undecided("R-C12-1", f, f.Pos(), "aliasing", "function handles more than one *Store; type-level lock identity is not sound here")
		}
	}

	// R-C12-2 nothing slow under the lock
	slow := slowFuncs(p)
	n2 := 0
	for _, f := range p.PkgFuncs(setecPkg) {
		eng.Instrs(f, func(in ssa.Instruction) {
			st := l.HeldBefore(in)
			if !l.HoldsReal(st, keyStore) {
				return
			}
			if why, ok := slowInstr(in); ok {
				n2++
				c.Bad("R-C12-2", f, in.Pos(), eng.InstrStr(in), "nothing that can wait for the service, the network, a timer or another goroutine runs while Store.active.Mutex is held", why)
				return
			}
			if ci, ok := in.(ssa.CallInstruction); ok {
				if _, _, isLock := eng.LockOp(ci.Common()); isLock {
					return
				}
				n2++
				if _, isDefer := in.(*ssa.Defer); isDefer {
					return
				}
				cal := eng.Callee(ci.Common())
				if cal != nil {
					cal = eng.Unwrap(cal)
					if l.HoldsReal(l.Entry(cal), keyStore) {
						// every caller holds the lock: the callee's own body is
						// checked instruction by instruction with that entry state
						c.Ok("R-C12-2", f, in.Pos(), "under lock: "+eng.InstrStr(in), "callee is analysed with the lock held at entry")
						return
					}
					if why, isSlow := slow[cal]; isSlow {
						c.Bad("R-C12-2", f, in.Pos(), eng.InstrStr(in), "no call made while Store.active.Mutex is held can reach a service request or blocking operation", why)
						return
					}
				}
				c.Ok("R-C12-2", f, in.Pos(), "under lock: "+eng.InstrStr(in), "cannot reach a service request or blocking operation")
			}
		})
	}
	c.Floor("R-C12-2", 8)
	// handle bodies reach nothing slow at all
	for _, f := range secretClosures(p) {
		why, isSlow := slow[f]
		c.Check(!isSlow, "R-C12-2", f, f.Pos(), "effects of handle body "+eng.FName(f), "a handle call makes no service request and no blocking operation", why)
	}

	storeBytesImmutable(c, "R-C12-3")
	handleBoundToName(c, "R-C12-3")

	// R-C12-4 removal guarded by the handle map; creation of handles; installs
	nDel := 0
	for _, a := range accs {
		if a.Map == nil || a.What != "active.m" {
			continue
		}
		st := l.HeldBefore(a.In)
		virtual := l.Holds(st, keyStore) && !l.HoldsReal(st, keyStore)
		switch a.Map.Kind {
		case "delete", "clear":
			if virtual {
				c.Ok("R-C12-4", a.Fn, a.In.Pos(), eng.InstrStr(a.In)+" (before publication)", "no handle can exist yet")
				continue
			}
			nDel++
			if a.Map.Kind == "clear" {
				c.Bad("R-C12-4", a.Fn, a.In.Pos(), eng.InstrStr(a.In), "after publication names are removed one at a time under a handle check", "clear() of the active set")
				continue
			}
			ok := removalGuardedByHandle(a)
			c.Check(ok, "R-C12-4", a.Fn, a.In.Pos(), eng.InstrStr(a.In), "edge-dominated by the not-present edge of a comma-ok lookup of the same name in Store.active.f, in the same critical section (a name with a handle is never removed)", "holding here: "+eng.FactsString(a.In))
		case "update":
			if virtual {
				continue
			}
			// installed entry is a fresh non-nil cachedSecret whose Secret was fetched successfully
			// (built in place, or by a constructor helper returning the literal)
			fields, mapv, isLit := eng.LiteralThroughHelper(a.Map.Val)
			if !isLit {
				c.Bad("R-C12-4", a.Fn, a.In.Pos(), eng.InstrStr(a.In), "an installed entry is a fresh non-nil *cachedSecret", "value "+eng.ValStr(a.Map.Val))
				continue
			}
			sv := fields["Secret"]
			if sv != nil {
				sv = mapv(sv)
			}
			okk := false
			if sv != nil {
				if call, idx := eng.TupleCall(sv); call != nil && idx == 0 && isStoreClientInvoke(&call.Call) {
					for _, cond := range eng.FactsAt(a.In) {
						if v, isNil, isE := cond.ErrCheck(); isE && isNil && eng.Same(v, saveErr(call)) {
							okk = true
						}
					}
				}
			}
			c.Check(okk, "R-C12-4", a.Fn, a.In.Pos(), eng.InstrStr(a.In), "the entry's Secret is the result of a service fetch whose error was nil on this path", "Secret = "+eng.ValStr(sv)+"; holding: "+eng.FactsString(a.In))
		}
	}
	if nDel == 0 {
		c.Notes = append(c.Notes, "no post-publication removal from Store.active.m exists")
	}
	// handle creation only for present names
	for _, a := range accs {
		if a.Map == nil || a.What != "active.f" || a.Map.Kind != "update" {
			continue
		}
		ok := false
		for _, cond := range eng.FactsAt(a.In) {
			src, truth, isCO := cond.CommaOk()
			if !isCO || !truth {
				continue
			}
			if lk, isLk := src.(*ssa.Lookup); isLk {
				if n, isAct := activeMapOf(lk.X); isAct && n == "m" && eng.Same(lk.Index, a.Map.Key) {
					ok = true
				}
			}
		}
		c.Check(ok, "R-C12-4", a.Fn, a.In.Pos(), eng.InstrStr(a.In), "a handle is created only on the present edge of a lookup of the same name in Store.active.m", "holding here: "+eng.FactsString(a.In))
	}
	// pointer replacement of cachedSecret.Secret: value must be non-nil (dominated by a nil test or fetched)
	for _, a := range accs {
		if a.What != "cachedSecret.Secret" || !a.Write || a.Kind != "store" {
			continue
		}
		st := a.In.(*ssa.Store)
		ok := false
		for _, cond := range eng.FactsX(a.In) {
			if v, isNil, isN := cond.NilCheck(); isN && !isNil && eng.SameX(v, st.Val) {
				ok = true
			}
		}
		c.Check(ok, "R-C12-4", a.Fn, a.In.Pos(), eng.InstrStr(a.In), "a replacement value is known non-nil on this path (handles dereference it unchecked)", "holding here: "+factsStr(eng.FactsX(a.In)))
	}

	// R-C12-5 no panic in the read path
	readPath := append([]*ssa.Function{}, secretClosures(p)...)
	for _, n := range []string{"Secret.Get", "Secret.GetString"} {
		if f := p.Func(setecPkg, n); f != nil {
			readPath = append(readPath, f)
		} else {
			c.Undecided("R-C12-5", nil, 0, "setec."+n, "anchor does not resolve")
		}
	}
	if len(secretClosures(p)) == 0 {
		c.Undecided("R-C12-5", nil, 0, "handle bodies", "no function literal of type Secret reading the store found")
	}
	for _, f := range readPath {
		bad := false
		eng.Instrs(f, func(in ssa.Instruction) {
			switch x := in.(type) {
			case *ssa.Panic:
				bad = true
				c.Bad("R-C12-5", f, in.Pos(), "panic", "the read path never panics", "explicit panic")
			case *ssa.TypeAssert:
				if !x.CommaOk {
					bad = true
					c.Bad("R-C12-5", f, in.Pos(), eng.InstrStr(in), "no unchecked type assertion on the read path", "single-result assertion")
				}
			case *ssa.IndexAddr, *ssa.Index:
				bad = true
				c.Bad("R-C12-5", f, in.Pos(), eng.InstrStr(in), "no indexing on the read path", "index expression")
			case *ssa.Slice:
				if x.Low != nil || x.High != nil {
					bad = true
					c.Bad("R-C12-5", f, in.Pos(), eng.InstrStr(in), "no slicing with bounds on the read path", "slice expression")
				}
			case *ssa.Call:
				// calling a possibly nil Secret: must be dominated by a nil test
				if _, isParam := eng.Origin(x.Call.Value).(*ssa.Parameter); isParam && !x.Call.IsInvoke() {
					okk := false
					for _, cond := range eng.FactsAt(in) {
						if v, isNil, isN := cond.NilCheck(); isN && !isNil && eng.Same(v, x.Call.Value) {
							okk = true
						}
					}
					if !okk {
						bad = true
						c.Bad("R-C12-5", f, in.Pos(), eng.InstrStr(in), "a nil Secret is tested before it is called", "no nil test dominates the call")
					}
				}
			}
		})
		if !bad {
			c.Ok("R-C12-5", f, f.Pos(), "read path "+eng.FName(f), "no panic, unchecked assertion or indexing")
		}
	}
}

// derivedFromSecretBytes: v is (a slice of) SecretValue.Value or the result
// of calling a Secret.
func derivedFromSecretBytes(v ssa.Value) bool {
	for i := 0; i < 8; i++ {
		v = eng.Origin(v)
		switch x := v.(type) {
		case *ssa.Slice:
			v = x.X
			continue
		case *ssa.Call:
			if x.Call.IsInvoke() {
				return false
			}
			if eng.IsNamed(x.Call.Value.Type(), setecPkg, "Secret") {
				return true
			}
			if eng.CalleeIs(&x.Call, setecPkg, "Secret.Get") {
				return true
			}
			return false
		}
		if fr, _, ok := eng.LoadedField(v); ok && fr.Is("types/api", "SecretValue", "Value") {
			return true
		}
		return false
	}
	return false
}

var _ = types.Identical

// storeBytesImmutable: an installed api.SecretValue is never mutated and no
// element store / copy / append / clear touches bytes derived from a
// SecretValue.Value or from invoking a Secret (shared by C12 and C18).
func storeBytesImmutable(c *eng.Ctx, rule string) {
	p := c.P
	n3 := 0
	for _, f := range p.PkgFuncs(setecPkg) {
		eng.Instrs(f, func(in ssa.Instruction) {
			switch x := in.(type) {
			case *ssa.Store:
				if fr, ok := eng.FieldOfAddr(x.Addr); ok && eng.IsNamed(fr.Owner, "types/api", "SecretValue") {
					fa := x.Addr.(*ssa.FieldAddr)
					n3++
					c.Check(freshBase(fa.X), rule, f, in.Pos(), "store to SecretValue."+fr.Name, "a SecretValue is only written inside the literal that creates it (values are replaced, never mutated)", "stores into an existing value "+eng.ValStr(fa.X))
				}
				if ia, ok := x.Addr.(*ssa.IndexAddr); ok && derivedFromSecretBytes(ia.X) {
					c.Bad(rule, f, in.Pos(), eng.InstrStr(in), "no element store into bytes owned by the store", "writes into "+eng.ValStr(ia.X))
				}
			case *ssa.Call:
				if args, ok := eng.BuiltinCall(in, "copy"); ok && derivedFromSecretBytes(args[0]) {
					c.Bad(rule, f, in.Pos(), eng.InstrStr(in), "no copy into bytes owned by the store", "destination "+eng.ValStr(args[0]))
				}
				if args, ok := eng.BuiltinCall(in, "clear"); ok && derivedFromSecretBytes(args[0]) {
					c.Bad(rule, f, in.Pos(), eng.InstrStr(in), "bytes owned by the store (also superseded ones: readers may still hold them) are never overwritten", "clear() of "+eng.ValStr(args[0]))
				}
				if args, ok := eng.BuiltinCall(in, "append"); ok && derivedFromSecretBytes(args[0]) {
					c.Bad(rule, f, in.Pos(), eng.InstrStr(in), "no append onto bytes owned by the store (may write into spare capacity)", "base "+eng.ValStr(args[0]))
				}
			}
		})
	}
	if n3 == 0 {
		c.Ok(rule, nil, 0, "stores to api.SecretValue fields in client/setec", "none outside literals")
	}

}

// c12NoLockLeak: R-C12-9.  "A handle never blocks (forever)": no function of
// the client library can return while still holding a mutex it locked itself.
// From every explicit Lock()/RLock() call each path to a return passes the
// matching Unlock (called, or deferred after the Lock).  A poller that exits
// with the store's mutex held would leave every handle blocked for good,
// Close included in the silence.
func c12NoLockLeak(c *eng.Ctx) {
	p := c.P
	n := 0
	for _, f := range p.PkgFuncs(setecPkg) {
		eng.Instrs(f, func(in ssa.Instruction) {
			call, ok := in.(*ssa.Call)
			if !ok {
				return
			}
			op, key, isL := eng.LockOp(&call.Call)
			if !isL || key == "" || (op != "Lock" && op != "RLock") {
				return
			}
			n++
			want := "Unlock"
			if op == "RLock" {
				want = "RUnlock"
			}
			released := func(x ssa.Instruction) bool {
				ci, isC := x.(ssa.CallInstruction)
				if !isC {
					return false
				}
				if _, isGo := x.(*ssa.Go); isGo {
					return false
				}
				o2, k2, ok2 := eng.LockOp(ci.Common())
				return ok2 && k2 == key && o2 == want
			}
			hit, path := eng.Search(f, call, nil, released, func(x ssa.Instruction) bool { return eng.IsReturn(x) })
			c.Check(hit == nil, "R-C12-9", f, call.Pos(), eng.CallStr(&call.Call)+" in "+eng.FName(f), "released on every way out (a deferred or explicit "+want+" lies on each path from here to a return)", func() string {
				if hit == nil {
					return ""
				}
				return "return at " + p.Pos(hit.Pos()) + " reached with the mutex still held: " + p.PathStr(path)
			}())
		})
	}
	if n < 5 {
		c.Undecided("R-C12-9", nil, 0, "explicit Lock calls in the client library", "fewer than 5 found")
	}
}
