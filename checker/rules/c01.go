package rules

import (
	"go/constant"
	"go/token"
	"go/types"
	"sort"
	"strings"

	"golang.org/x/tools/go/ssa"

	"setecvet/eng"
)

// T-C01: action each operation requires (docs/api.md "Requires:" lines and
// the doc comments of the acl.Action* constants).
var tC01 = map[string]string{
	"Info":           "info",     // api.md /api/info: Requires "info"
	"Get":            "get",      // api.md /api/get
	"GetConditional": "get",      // api.md /api/get with UpdateIfChanged
	"GetVersion":     "get",      // api.md /api/get with Version
	"Put":            "put",      // api.md /api/put
	"Activate":       "activate", // api.md /api/activate
	"DeleteVersion":  "delete",   // api.md /api/delete-version
	"Delete":         "delete",   // api.md /api/delete
	"List":           "info",     // api.md /api/list: "info" per returned secret
}

// operations that do not involve secrets at all (no Caller, no secret state)
var tC01NoSecrets = map[string]bool{"Path": true, "WriteGen": true}

// actionConsts: policy-file vocabulary (docs/server.md).
var actionConsts = map[string]string{
	"ActionGet": "get", "ActionInfo": "info", "ActionPut": "put", "ActionActivate": "activate", "ActionDelete": "delete",
}

func init() {
	register(&Prop{
		ID: "C01",
		Explanation: "Decides the structural clause of C01: in every exported db.DB operation, every construct that reads or mutates the secrets state " +
			"(calls reaching kv.secrets / secret fields, or direct accesses) is edge-dominated by a SUCCESSFUL permission check for the documented action, " +
			"made for the operation's own Caller parameter and for the same name value that is then accessed (R-C01-1); checkAndLog can return nil only on paths where " +
			"Rules.Allow(action, secret) on its own parameters returned true, and its denial carries ErrAccessDenied (R-C01-2); List appends only entries read under a per-name " +
			"Allow(info,name) and SecretInfo cannot carry value bytes (R-C01-4); read-only operations reach no write of persistent state (R-C01-5); the matching semantics the grants rely on are those decided for C07 (R-C01-8, same rules) and every access to the secrets map inside the store uses the very name that was checked as key (R-C01-9); the server hands the WhoIs identity " +
			"through unchanged to every db.DB call and builds no Caller of its own (R-C01-6).  Because no state access precedes the decision, refusal cannot depend on existence (R-C01-3). (R-C01-11) the name validation of the mutating operations lies behind the permission gate (C02's R-C02-5 re-run under this id).",
		NotDecided:  "What Rules.Allow answers on concrete strings (C07); behaviour over concrete databases and rule sets.",
		Trusted:     append([]string{"multierr.New / errors.Join return nil iff every element is nil", "package-level sentinel errors are non-nil"}, commonTrusted...),
		Assumptions: []string{"no reflection/unsafe access to db state (checked: none in package db)"},
		Run:         runC01,
	})
}

func runC01(c *eng.Ctx, tier string) {
	defer eng.SetRoot(nil)
	d := loadDB(c)
	if d == nil {
		return
	}
	p := c.P
	// constants
	for name, want := range actionConsts {
		obj := p.TypesPkg("acl").Scope().Lookup(name)
		cst, ok := obj.(*types.Const)
		if !ok {
			c.Undecided("R-C01-0", nil, 0, "acl."+name, "constant does not resolve")
			continue
		}
		got := constant.StringVal(cst.Val())
		c.Check(got == want, "R-C01-0", nil, cst.Pos(), "const acl."+name, "value "+want+" (policy vocabulary)", "value is "+got)
	}

	// R-C01-1 guarded access
	for _, m := range d.methods {
		eng.SetRoot(m.Fn) // helpers shared by several operations are resolved at their call site in this one
		sites := d.sites(m.Fn)
		action, inTable := tC01[m.Name]
		if !inTable {
			if tC01NoSecrets[m.Name] || len(sites) == 0 {
				c.Check(len(sites) == 0, "R-C01-1", m.Fn, m.Fn.Pos(), "operation "+m.Name+" touches no secrets state", "no access to kv.secrets/secret", "operation reaches the secrets state")
				continue
			}
			for _, s := range sites {
				c.Bad("R-C01-1", s.Fn, s.In.Pos(), eng.InstrStr(s.In), "an exported db.DB operation that touches secrets must appear in the action table (docs/api.md) and check it", "operation "+m.Name+" is not a documented operation")
			}
			continue
		}
		if m.Caller == nil {
			c.Bad("R-C01-1", m.Fn, m.Fn.Pos(), "signature of "+m.Name, "operation takes a db.Caller", "no Caller parameter")
			continue
		}
		for _, s := range sites {
			siteStr := eng.InstrStr(s.In)
			// name accessed by the site
			var nameVal ssa.Value
			if s.Call != nil {
				for _, a := range s.Call.Args {
					if types.Identical(a.Type(), types.Typ[types.String]) {
						nameVal = a
						break
					}
				}
			}
			if m.Name == "List" {
				if nameVal == nil {
					// kv.list(): returns names only; the per-name filter is R-C01-4
					if s.Call != nil && returnsOnlyStrings(s.Call) {
						c.Ok("R-C01-1", s.Fn, s.In.Pos(), siteStr, "List: name listing needs no per-name check (results filtered, R-C01-4)")
						continue
					}
					// (the name listing written out in List itself: only the keys of the map leave it)
					if s.Call == nil && onlyKeysLeave(s.In) {
						c.Ok("R-C01-1", s.Fn, s.In.Pos(), siteStr, "List: only the names (keys) of the secrets map are read (results filtered, R-C01-4)")
						continue
					}
					c.Bad("R-C01-1", s.Fn, s.In.Pos(), siteStr, "List may only list names unfiltered; every per-secret read needs Allow(info,name)", "state access without a name")
					continue
				}
			} else {
				if nameVal == nil {
					nameVal = m.NameP
				} else if !isParam(nameVal, m.NameP) && !eng.Same(nameVal, m.NameP) {
					c.Bad("R-C01-1", s.Fn, s.In.Pos(), siteStr, "state is accessed under the operation's name parameter", "accesses a different name: "+eng.ValStr(nameVal))
					continue
				}
				nameVal = m.NameP
			}
			ok := m.Name == "List" && d.filteredByCheck(nameVal, m.Caller, action)
			var near []string
			for _, cond := range factsDeep(s.In) {
				matched, why := d.successfulCheck(cond, m.Caller, action, nameVal)
				if matched {
					ok = true
					break
				}
				if why != "" {
					near = append(near, why)
				}
			}
			want := "edge-dominated by checkAndLog(" + m.Caller.Name() + "," + action + "," + eng.ValStr(nameVal) + ",_)==nil or " + m.Caller.Name() + ".Permissions.Allow(" + action + "," + eng.ValStr(nameVal) + ")==true"
			detail := "holding here: " + factsStr(factsDeep(s.In))
			if len(near) > 0 {
				detail = strings.Join(near, "; ") + " | " + detail
			}
			c.Check(ok, "R-C01-1", s.Fn, s.In.Pos(), siteStr, want, detail)
		}
	}
	c.Floor("R-C01-1", 10)

	// R-C01-2 checkAndLog summary
	c01CheckAndLog(c, d)

	// R-C01-4 List filter + SecretInfo carries no bytes
	c01List(c, d)

	// R-C01-5 read-only operations write nothing
	g := p.CallGraph()
	for _, m := range d.methods {
		eng.SetRoot(m.Fn) // helpers shared by several operations are resolved at their call site in this one
		switch m.Name {
		case "List", "Info", "Get", "GetConditional", "GetVersion", "Path", "WriteGen":
		default:
			continue
		}
		hits := g.FindReachable(m.Fn, nil, func(in ssa.Instruction) bool { return isPersistentWrite(in) })
		if len(hits) == 0 {
			c.Ok("R-C01-5", m.Fn, m.Fn.Pos(), "effects of "+m.Name, "read-only operation reaches no write of kv/secret state, no save, no file write")
		}
		for _, h := range hits {
			c.Bad("R-C01-5", h.Fn, h.In.Pos(), eng.InstrStr(h.In), "read-only operation "+m.Name+" reaches no write of persistent state",
				"reachable via "+strings.Join(g.PathTo(m.Fn, h.Fn), " -> "))
		}
	}
	c.Floor("R-C01-5", 7)

	// R-C01-6 identity pass-through
	c01Identity(c, d)

	// R-C01-8: "a pattern matching that exact secret name": the matching rules of C07
	include(c, "R-C01-8", c07Core)
	// R-C01-9: the name that was checked is the name that is accessed, down to the map key
	include(c, "R-C01-9", func(sc *eng.Ctx) { secretsKeyIsOwnName(sc, "R-C02-7") })
	// R-C01-10: "one of the caller's rules": the rules of every request come from
	// that request's own WhoIs answer (C08's identity rule): nothing remembered
	// from an earlier request, whose grants may have been withdrawn since
	// R-C01-11: name validation of the mutating operations stays where it is,
	// behind the gate (an unauthorized caller is refused as such whatever the
	// name looks like): C02's guard rule
	includeOnly(c, "R-C01-11", func(sc *eng.Ctx) { runC02(sc, "quick") }, "R-C02-5")
	include(c, "R-C01-10", func(sc *eng.Ctx) {
		if gi := anchor(sc.P, "server", "(*Server).getIdentity"); gi != nil {
			c08Identity(sc, gi)
		} else {
			sc.Undecided("R-C08-3", nil, 0, "(*server.Server).getIdentity", "anchor does not resolve")
		}
	})
}

func returnsOnlyStrings(cc *ssa.CallCommon) bool {
	res := cc.Signature().Results()
	for i := 0; i < res.Len(); i++ {
		t := res.At(i).Type()
		if sl, ok := t.Underlying().(*types.Slice); ok && types.Identical(sl.Elem(), types.Typ[types.String]) {
			continue
		}
		if eng.IsErrorType(t) {
			continue
		}
		return false
	}
	return true
}

// isPersistentWrite: a mutation of kv/secret state, or a file-mutating call.
func isPersistentWrite(in ssa.Instruction) bool {
	switch x := in.(type) {
	case *ssa.Store:
		if fr, ok := eng.FieldOfAddr(x.Addr); ok {
			if eng.IsNamed(fr.Owner, "db", "kv") || eng.IsNamed(fr.Owner, "db", "secret") {
				return true
			}
		}
	case *ssa.MapUpdate:
		if fr, _, ok := eng.LoadedField(x.Map); ok && isSecretsField(fr) {
			return true
		}
	case *ssa.Call:
		if args, ok := eng.BuiltinCall(in, "delete"); ok {
			if fr, _, ok := eng.LoadedField(args[0]); ok && isSecretsField(fr) {
				return true
			}
		}
		if args, ok := eng.BuiltinCall(in, "clear"); ok {
			if fr, _, ok := eng.LoadedField(args[0]); ok && isSecretsField(fr) {
				return true
			}
		}
		if isFileMutatingCall(&x.Call) {
			return true
		}
	}
	return false
}

// fileMutators: functions of os / atomicfile that create, write, rename,
// truncate or remove files.
var fileMutators = map[string]map[string]bool{
	"os": {"WriteFile": true, "Create": true, "OpenFile": true, "Rename": true, "Remove": true, "RemoveAll": true, "Truncate": true,
		"Mkdir": true, "MkdirAll": true, "CreateTemp": true, "MkdirTemp": true, "Chmod": true, "Chown": true, "Link": true, "Symlink": true, "OpenRoot": true},
	"io/ioutil":                {"WriteFile": true, "TempFile": true, "TempDir": true},
	"tailscale.com/atomicfile": {"WriteFile": true},
	"syscall":                  {"Open": true, "Rename": true, "Unlink": true, "Truncate": true, "Write": true},
}

func isFileMutatingCall(cc *ssa.CallCommon) bool {
	f := cc.StaticCallee()
	if f == nil || f.Pkg == nil {
		return false
	}
	if m, ok := fileMutators[f.Pkg.Pkg.Path()]; ok && f.Signature.Recv() == nil {
		return m[f.Name()]
	}
	return false
}

func c01CheckAndLog(c *eng.Ctx, d *dbInfo) {
	if len(d.checkers) == 0 {
		c.Notes = append(c.Notes, "no permission-checking helper (Caller, Action, string) error found in package db; only direct Allow checks are accepted by R-C01-1")
		return
	}
	var fns []*ssa.Function
	for f := range d.checkers {
		fns = append(fns, f)
	}
	sort.Slice(fns, func(i, j int) bool { return fns[i].Pos() < fns[j].Pos() })
	for _, fn := range fns {
		c01Checker(c, d, fn, d.checkers[fn])
	}
}

// c01Checker verifies the summary "returns nil only if Allow(own caller,
// own action, own name) was true" for one helper.  A nil edge of another
// helper called with the own parameters counts like a true Allow edge.
func c01Checker(c *eng.Ctx, d *dbInfo, fn *ssa.Function, sig checkerSig) {
	callerP, actionP, secretP := fn.Params[sig.Caller], fn.Params[sig.Action], fn.Params[sig.Name]
	paths, ok := eng.EnumPaths(fn, 1, 512)
	if !ok {
		c.Undecided("R-C01-2", fn, fn.Pos(), "paths", "too many paths to enumerate")
		return
	}
	n := 0
	for _, pa := range paths {
		ret, isRet := pa.Last().(*ssa.Return)
		if !isRet || ret.Block() == fn.Recover {
			continue
		}
		rv := eng.RetVals(ret)
		if len(rv) != 1 {
			continue
		}
		n++
		nilness := pa.IsNil(rv[0])
		// was Allow(own params) true on this path?
		allowTrue, allowFalse := false, false
		for _, cond := range pa.Conds() {
			if v, isNil, ok := cond.ErrCheck(); ok {
				if call, _ := eng.TupleCall(v); call != nil {
					if s2, isChk := d.checkers[eng.Callee(&call.Call)]; isChk {
						a := call.Call.Args
						if isParam(eng.Origin(a[s2.Caller]), callerP) && eng.Origin(a[s2.Action]) == actionP && eng.Origin(a[s2.Name]) == secretP {
							if isNil {
								allowTrue = true
							}
						}
					}
				}
			}
			call, _, truth, ok := cond.BoolCall()
			if !ok {
				continue
			}
			holder, av, nv, ok := allowCall(&call.Call)
			if !ok {
				continue
			}
			if holder != nil && isParam(holder, callerP) && eng.Origin(av) == actionP && eng.Origin(nv) == secretP {
				if truth {
					allowTrue = true
				} else {
					allowFalse = true
				}
			}
		}
		// a direct tail call of another helper with the own parameters
		if call, _ := eng.TupleCall(pa.Resolve(rv[0])); call != nil {
			if s2, isChk := d.checkers[eng.Callee(&call.Call)]; isChk {
				a := call.Call.Args
				if isParam(eng.Origin(a[s2.Caller]), callerP) && eng.Origin(a[s2.Action]) == actionP && eng.Origin(a[s2.Name]) == secretP {
					c.Ok("R-C01-2", fn, ret.Pos(), "return "+eng.ValStr(pa.Resolve(rv[0])), "delegates to another checked helper with its own parameters")
					continue
				}
			}
		}
		site := "return on path " + c.P.PathStr(pa.Blocks)
		switch {
		case nilness == eng.No:
			// error return: on the denied path it must carry ErrAccessDenied
			if allowFalse {
				carries := false
				for _, e := range errorLeaves(pa, rv[0]) {
					if eng.IsGlobalLoad(e, "db", "ErrAccessDenied") {
						carries = true
					}
				}
				c.Check(carries, "R-C01-2", fn, ret.Pos(), site, "the denied path returns an error built from db.ErrAccessDenied (needed for the 403 mapping)", "returned error does not include ErrAccessDenied: "+eng.ValStr(pa.Resolve(rv[0])))
			} else {
				c.Ok("R-C01-2", fn, ret.Pos(), site, "non-nil return")
			}
		case allowTrue:
			c.Ok("R-C01-2", fn, ret.Pos(), site, "may return nil only where Allow(action, secret) on own parameters was true")
		default:
			c.Bad("R-C01-2", fn, ret.Pos(), site, fn.Name()+" may return nil only on paths where caller.Permissions.Allow(action, secret) (its own parameters, in that order) returned true",
				"return value "+eng.ValStr(pa.Resolve(rv[0]))+" may be nil (nil-ness: "+nilness.String()+") on a path without a true Allow edge; path conditions: "+factsStr(pa.Conds()))
		}
	}
	if n == 0 {
		c.Undecided("R-C01-2", fn, fn.Pos(), "returns", "no return path found")
	}
}

// errorLeaves lists the error values combined into v on the path (elements
// of multierr.New/errors.Join, %w operands of fmt.Errorf, or v itself).
func errorLeaves(pa eng.Path, v ssa.Value) []ssa.Value {
	v = pa.Resolve(v)
	if call, ok := v.(*ssa.Call); ok {
		cc := &call.Call
		if (eng.CalleeIs(cc, "tailscale.com/util/multierr", "New") || eng.CalleeIs(cc, "errors", "Join")) && len(cc.Args) == 1 {
			elems, _ := pa.SliceElems(cc.Args[0])
			var out []ssa.Value
			for _, e := range elems {
				out = append(out, errorLeaves(pa, e)...)
			}
			return out
		}
		if eng.CalleeIs(cc, "fmt", "Errorf") && len(cc.Args) == 2 {
			elems, _ := pa.SliceElems(cc.Args[1])
			var out []ssa.Value
			for _, e := range elems {
				e = pa.Resolve(e)
				if eng.IsErrorType(e.Type()) || e.Type().String() == "error" {
					out = append(out, errorLeaves(pa, e)...)
				} else if mi, ok := e.(*ssa.MakeInterface); ok && eng.IsErrorType(mi.X.Type()) {
					out = append(out, errorLeaves(pa, mi.X)...)
				}
			}
			return append(out, v)
		}
	}
	return []ssa.Value{v}
}

func c01List(c *eng.Ctx, d *dbInfo) {
	m := d.method("List")
	if m == nil {
		c.Undecided("R-C01-4", nil, 0, "db.(*DB).List", "anchor does not resolve")
		return
	}
	// every append to a []*api.SecretInfo that can reach a return
	n := 0
	eng.SetRoot(m.Fn)
	defer eng.SetRoot(nil)
	// (the result may be built by a helper method List hands the permissions to)
	eng.InstrsDeep(m.Fn, func(f *ssa.Function, in ssa.Instruction) {
		if eng.FuncPkg(f) != eng.FuncPkg(m.Fn) || (f != m.Fn && eng.Outer(f) != m.Fn && !recvIs(eng.Outer(f), "db", "DB")) {
			return
		}
		args, ok := eng.BuiltinCall(in, "append")
		if !ok || len(args) != 2 {
			return
		}
		sl, ok := args[0].Type().Underlying().(*types.Slice)
		if !ok || !eng.IsNamed(sl.Elem(), "types/api", "SecretInfo") {
			return
		}
		n++
		pa := eng.Path{Blocks: []*ssa.BasicBlock{in.Block()}}
		elems, known := pa.SliceElems(args[1])
		if !known || len(elems) == 0 {
			c.Bad("R-C01-4", f, in.Pos(), eng.InstrStr(in), "appended elements are individually identifiable state reads", "cannot enumerate appended elements")
			return
		}
		for _, e := range elems {
			call, _ := eng.TupleCall(e)
			if call == nil {
				c.Bad("R-C01-4", f, in.Pos(), "append "+eng.ValStr(e), "element is the result of a per-name state read", "element is not a call result")
				continue
			}
			var nameVal ssa.Value
			for _, a := range call.Call.Args {
				if types.Identical(a.Type(), types.Typ[types.String]) {
					nameVal = a
					break
				}
			}
			ok := false
			if nameVal != nil {
				for _, cond := range factsDeep(in) {
					if matched, _ := d.successfulCheck(cond, m.Caller, "info", nameVal); matched {
						ok = true
					}
				}
				// or the name comes out of a list already filtered by that check
				if !ok && d.filteredByCheck(nameVal, m.Caller, "info") {
					ok = true
				}
			}
			c.Check(ok, "R-C01-4", f, in.Pos(), "append "+eng.ValStr(e), "entry appended to List's result is edge-dominated by caller.Permissions.Allow(info, <same name>)==true", "holding here: "+factsStr(factsDeep(in)))
		}
	})
	if n == 0 {
		c.Undecided("R-C01-4", m.Fn, m.Fn.Pos(), "List result construction", "no append to []*api.SecretInfo found")
	}
	// SecretInfo cannot carry bytes
	si := c.P.Named("types/api", "SecretInfo")
	if si == nil {
		c.Undecided("R-C01-4", nil, 0, "api.SecretInfo", "anchor does not resolve")
		return
	}
	st := si.Underlying().(*types.Struct)
	for i := 0; i < st.NumFields(); i++ {
		f := st.Field(i)
		ok := true
		why := ""
		switch {
		case f.Name() == "Name" && types.Identical(f.Type(), types.Typ[types.String]):
		case canCarryBytes(f.Type(), 0):
			ok = false
			why = "field type " + eng.TypeShort(f.Type()) + " can carry secret bytes"
		}
		c.Check(ok, "R-C01-4", nil, f.Pos(), "field api.SecretInfo."+f.Name()+" "+eng.TypeShort(f.Type()), "metadata type has no field able to hold secret bytes (only the name and version numbers)", why)
	}
}

func canCarryBytes(t types.Type, depth int) bool {
	if depth > 6 {
		return true
	}
	switch u := t.Underlying().(type) {
	case *types.Basic:
		return u.Kind() == types.String || u.Kind() == types.UnsafePointer
	case *types.Slice:
		if b, ok := u.Elem().Underlying().(*types.Basic); ok && (b.Kind() == types.Byte || b.Kind() == types.Uint8) {
			return true
		}
		return canCarryBytes(u.Elem(), depth+1)
	case *types.Array:
		return canCarryBytes(u.Elem(), depth+1)
	case *types.Pointer:
		return canCarryBytes(u.Elem(), depth+1)
	case *types.Map:
		return canCarryBytes(u.Key(), depth+1) || canCarryBytes(u.Elem(), depth+1)
	case *types.Struct:
		for i := 0; i < u.NumFields(); i++ {
			if canCarryBytes(u.Field(i).Type(), depth+1) {
				return true
			}
		}
		return false
	case *types.Interface:
		return true
	}
	return false
}

// c01Identity: R-C01-6.
func c01Identity(c *eng.Ctx, d *dbInfo) {
	p := c.P
	getIdentity := anchor(p, "server", "(*Server).getIdentity")
	if getIdentity == nil {
		c.Undecided("R-C01-6", nil, 0, "server.(*Server).getIdentity", "anchor does not resolve")
		return
	}
	isDBMethodWithCaller := func(cc *ssa.CallCommon) (*dbMethod, ssa.Value) {
		cal := eng.Callee(cc)
		for _, m := range d.methods {
			if m.Fn == cal && m.Caller != nil {
				for i, prm := range m.Fn.Params {
					if prm == m.Caller && i < len(cc.Args) {
						return m, cc.Args[i]
					}
				}
			}
		}
		return nil, nil
	}
	n := 0
	for _, pkg := range []string{"server", "cmd/setec"} {
		for _, f := range p.PkgFuncs(pkg) {
			eng.Instrs(f, func(in ssa.Instruction) {
				ci, ok := in.(ssa.CallInstruction)
				if !ok {
					return
				}
				m, arg := isDBMethodWithCaller(ci.Common())
				if m == nil {
					return
				}
				n++
				o := eng.Origin(arg)
				okk := false
				how := ""
				// (i) the db.Caller parameter of a literal passed to serveJSON
				if prm, isP := o.(*ssa.Parameter); isP && eng.IsNamed(prm.Type(), "db", "Caller") && passedToServeJSON(f) {
					okk, how = true, "closure parameter filled by serveJSON"
				}
				// (ii) result 0 of s.getIdentity(r)
				if _, isID := identitySource(getIdentity, o, 0); isID {
					okk, how = true, "result of getIdentity"
				}
				c.Check(okk, "R-C01-6", f, in.Pos(), eng.InstrStr(in), "Caller passed to db."+m.Name+" is the identity obtained from getIdentity, unchanged", "Caller argument is "+eng.ValStr(arg)+" "+how)
			})
		}
	}
	c.Floor("R-C01-6", 9)
	// serveJSON passes getIdentity's result to fn
	for _, f := range p.AllFuncs() {
		if f.Name() != "serveJSON" && (f.Origin() == nil || f.Origin().Name() != "serveJSON") {
			continue
		}
		if eng.FuncPkg(f) != p.TypesPkg("server") {
			continue
		}
		if len(f.Params) < 4 {
			continue
		}
		fnP := f.Params[3]
		eng.Instrs(f, func(in ssa.Instruction) {
			call, ok := in.(*ssa.Call)
			if !ok || eng.Origin(call.Call.Value) != fnP {
				return
			}
			okk := false
			var idArg ssa.Value
			for _, a := range call.Call.Args {
				if eng.IsNamed(a.Type(), "db", "Caller") {
					idArg = a
				}
			}
			if len(call.Call.Args) == 2 && idArg != nil {
				if rq, isID := identitySource(getIdentity, idArg, 0); isID && eng.Origin(rq) == ssa.Value(f.Params[2]) {
					okk = true
				}
			}
			c.Check(okk, "R-C01-6", f, in.Pos(), "serveJSON: fn(req, id)", "id is result 0 of s.getIdentity(r) for serveJSON's own request r", "id argument is "+eng.ValStr(idArg))
		})
	}
	// no db.Caller built outside getIdentity in server/cmd: every store to a
	// field of db.Caller / its Permissions happens in getIdentity
	for _, pkg := range []string{"server", "cmd/setec"} {
		for _, f := range p.PkgFuncs(pkg) {
			for _, a := range eng.FieldAccesses(f) {
				if !a.Write || !(eng.IsNamed(a.Field.Owner, "db", "Caller") || eng.IsNamed(a.Field.Owner, "audit", "Principal")) {
					continue
				}
				// (getIdentity itself, or a helper called from it alone)
				inIdentity := f == getIdentity || eng.HelperRoot(f, func(x *ssa.Function) bool { return x == getIdentity }) == getIdentity
				c.Check(inIdentity, "R-C01-6", f, a.In.Pos(), "write of "+eng.TypeShort(a.Field.Owner)+"."+a.Field.Name, "identities are built only in getIdentity", "written in "+eng.FName(f))
			}
		}
	}
	// Permissions come only from UnmarshalCapJSON[acl.Rule](who.CapMap, ACLCap|https://ACLCap)
	eng.Instrs(getIdentity, func(in ssa.Instruction) {
		st, ok := in.(*ssa.Store)
		if !ok {
			return
		}
		fr, ok := eng.FieldOfAddr(st.Addr)
		if !ok || !fr.Is("db", "Caller", "Permissions") {
			return
		}
		detail := "stored value " + eng.ValStr(st.Val)
		// the candidates: the value itself, or what a helper of getIdentity
		// returns there (each alternative of a merged value separately)
		cands := []ssa.Value{st.Val}
		if inner, _ := eng.ThroughHelper(st.Val, func(g *ssa.Function) bool { return eng.IsHelper(getIdentity, g) }); inner != nil {
			cands = []ssa.Value{inner}
		}
		if leaves, phis := eng.PhiLeaves(eng.Origin(cands[0])); len(phis) > 0 {
			cands = nil
			for _, lf := range leaves {
				cands = append(cands, lf.Val)
			}
		}
		okk := len(cands) > 0
		for _, cv := range cands {
			call, idx := eng.TupleCall(cv)
			one := false
			if call != nil && idx == 0 {
				cal := eng.Callee(&call.Call)
				if cal != nil && cal.Origin() != nil && eng.FuncIs(cal.Origin(), "tailscale.com/tailcfg", "UnmarshalCapJSON") && len(call.Call.Args) == 2 {
					capName, isC := eng.ConstString(call.Call.Args[1])
					isCap := func(s string) bool {
						return s == "tailscale.com/cap/secrets" || s == "https://tailscale.com/cap/secrets"
					}
					if !isC {
						// an element of a read-only table of names
						if elems, _, isT := eng.GlobalElems(p, call.Call.Args[1]); isT {
							isC, capName = true, "tailscale.com/cap/secrets"
							for _, e := range elems {
								if s, isS := eng.ConstString(e); !isS || !isCap(s) {
									isC, capName = isS, s
								}
							}
						}
					}
					fr2, _, isF := eng.LoadedField(call.Call.Args[0])
					if isC && isCap(capName) && isF && fr2.Name == "CapMap" {
						one = true
					} else {
						detail = "capability " + capName + " from " + eng.ValStr(call.Call.Args[0])
					}
				}
			}
			if !one {
				okk = false
			}
		}
		c.Check(okk, "R-C01-6", getIdentity, in.Pos(), eng.InstrStr(in), "Permissions = UnmarshalCapJSON[acl.Rule](who.CapMap, \"tailscale.com/cap/secrets\" | \"https://\"+same)", detail)
	})
}

// passedToServeJSON: the function literal f is an argument of a call to
// server.serveJSON in its parent.
func passedToServeJSON(f *ssa.Function) bool {
	par := f.Parent()
	if par == nil {
		return methodHandedToServeJSON(f)
	}
	found := false
	eng.Instrs(par, func(in ssa.Instruction) {
		call, ok := in.(*ssa.Call)
		if !ok {
			return
		}
		cal := eng.Callee(&call.Call)
		if cal == nil {
			return
		}
		o := cal
		if cal.Origin() != nil {
			o = cal.Origin()
		}
		// (a handler constructor: its result serves every request through
		// serveJSON with the function it was given)
		if _, idx, isHF := handlerFactory(cal); isHF && idx < len(call.Call.Args) {
			if mc, ok := eng.Origin(call.Call.Args[idx]).(*ssa.MakeClosure); ok && mc.Fn == f {
				found = true
			}
		}
		if !eng.FuncIs(o, "server", "serveJSON") {
			return
		}
		for _, a := range call.Call.Args {
			if mc, ok := eng.Origin(a).(*ssa.MakeClosure); ok && mc.Fn == f {
				found = true
			}
			// ... or wrapped by an adapter that only forwards (req, id) to it
			if ac, _ := eng.TupleCall(a); ac != nil && ac.Parent() == par {
				if idx, isAd := forwardingAdapter(par, eng.Callee(&ac.Call)); isAd && idx < len(ac.Call.Args) {
					if mc, ok := eng.Origin(ac.Call.Args[idx]).(*ssa.MakeClosure); ok && mc.Fn == f {
						found = true
					}
				}
			}
		}
	})
	return found
}

// forwardingAdapter: h (a helper of caller's package) does nothing but return
// a function literal that calls h's function-typed parameter #idx with the
// literal's own parameters, in order and unchanged, exactly once, and calls
// nothing else: what the wrapped function receives is what the literal was
// given.
func forwardingAdapter(caller, h *ssa.Function) (idx int, ok bool) {
	if h == nil || !eng.IsHelper(caller, h) || len(h.Blocks) != 1 || len(h.AnonFuncs) != 1 {
		return 0, false
	}
	lit := h.AnonFuncs[0]
	var mc *ssa.MakeClosure
	bad := false
	eng.Instrs(h, func(in ssa.Instruction) {
		switch x := in.(type) {
		case *ssa.MakeClosure:
			if x.Fn == lit {
				mc = x
			}
		case *ssa.Return:
			if len(x.Results) != 1 || mc == nil || eng.Origin(x.Results[0]) != ssa.Value(mc) {
				bad = true
			}
		case *ssa.DebugRef, *ssa.Alloc:
		case *ssa.Store:
			// the captured parameter's cell
			if _, isAl := x.Addr.(*ssa.Alloc); !isAl {
				bad = true
			} else if _, isP := x.Val.(*ssa.Parameter); !isP {
				bad = true
			}
		default:
			bad = true
		}
	})
	if bad || mc == nil || len(mc.Bindings) != 1 {
		return 0, false
	}
	bound := mc.Bindings[0]
	if al, isAl := bound.(*ssa.Alloc); isAl {
		if sts := eng.CellStores(al); len(sts) == 1 {
			bound = sts[0].Val
		}
	}
	idx = -1
	for i, q := range h.Params {
		if ssa.Value(q) == bound {
			idx = i
		}
	}
	if idx < 0 || len(lit.FreeVars) != 1 {
		return 0, false
	}
	calls := 0
	eng.Instrs(lit, func(in ssa.Instruction) {
		switch x := in.(type) {
		case ssa.CallInstruction:
			cc := x.Common()
			calls++
			fv := cc.Value
			if u, isU := fv.(*ssa.UnOp); isU && u.Op == token.MUL {
				fv = u.X // the captured variable is read through its cell
			}
			if fv != ssa.Value(lit.FreeVars[0]) || len(cc.Args) != len(lit.Params) {
				bad = true
				return
			}
			for i, a := range cc.Args {
				if a != ssa.Value(lit.Params[i]) {
					bad = true
				}
			}
		case *ssa.Store, *ssa.MapUpdate, *ssa.Send, *ssa.Go, *ssa.Defer:
			bad = true
		}
	})
	return idx, !bad && calls == 1
}

// methodHandedToServeJSON: f is a declared method whose only use in the
// module is as a method value handed to serveJSON as the handler function
// (the same role a function literal plays there).
func methodHandedToServeJSON(f *ssa.Function) bool {
	if curProg == nil || f.Signature.Recv() == nil {
		return false
	}
	p := curProg
	sj := anchor(p, "server", "serveJSON")
	if sj == nil {
		return false
	}
	handed := false
	for _, g := range p.PkgFuncs("server") {
		eng.Instrs(g, func(in ssa.Instruction) {
			call, ok := in.(*ssa.Call)
			if !ok {
				return
			}
			cal := eng.Callee(&call.Call)
			if cal == nil || (cal != sj && cal.Origin() != sj) {
				return
			}
			for _, a := range call.Call.Args {
				if mc, ok := eng.Origin(a).(*ssa.MakeClosure); ok {
					if fn, isF := mc.Fn.(*ssa.Function); isF && eng.Unwrap(fn) == f && fn != f {
						handed = true
					}
				}
			}
		})
	}
	if !handed {
		return false
	}
	for _, e := range p.CallGraph().CallersOf(f) {
		if e.Kind == "static" {
			return false // also called directly: then it is not only a handler
		}
	}
	return true
}

// handlerParams returns the request and identity parameters of a serveJSON
// handler (a literal, or a method with its receiver first).
func handlerParams(f *ssa.Function) (req, id *ssa.Parameter) {
	ps := f.Params
	if f.Signature.Recv() != nil && len(ps) > 0 {
		ps = ps[1:]
	}
	if len(ps) < 2 {
		return nil, nil
	}
	// (by type: the identity is the db.Caller, the request is the other one)
	for i, q := range ps[:2] {
		if eng.IsNamed(q.Type(), "db", "Caller") {
			return ps[1-i], q
		}
	}
	return ps[0], ps[1]
}

// identitySource: v is the db.Caller produced by getIdentity -- result 0 of
// s.getIdentity(rq) itself, or of a helper that hands that result on
// unchanged (its other returns yield the zero Caller, which grants nothing).
// rq is the request the identity was taken from, in v's frame.
func identitySource(getIdentity *ssa.Function, v ssa.Value, depth int) (rq ssa.Value, ok bool) {
	call, idx := eng.TupleCall(v)
	if call == nil || idx != 0 || depth > 3 {
		return nil, false
	}
	cal := eng.Callee(&call.Call)
	if cal == getIdentity {
		rq := identityRequest(call)
		return rq, rq != nil
	}
	if !eng.IsHelper(call.Parent(), cal) || call.Call.IsInvoke() || len(call.Call.Args) != len(cal.Params) {
		return nil, false
	}
	n := 0
	for _, r := range eng.Returns(cal) {
		rv := eng.RetVals(r)
		if len(rv) == 0 {
			return nil, false
		}
		if k, isK := eng.Origin(rv[0]).(*ssa.Const); isK && k.Value == nil {
			continue // the zero Caller
		}
		inner, isID := identitySource(getIdentity, rv[0], depth+1)
		if !isID {
			return nil, false
		}
		prm, isP := eng.Origin(inner).(*ssa.Parameter)
		if !isP || prm.Parent() != cal {
			return nil, false
		}
		for i, q := range cal.Params {
			if q == prm {
				if n > 0 && rq != call.Call.Args[i] {
					return nil, false
				}
				rq = call.Call.Args[i]
				n++
			}
		}
	}
	return rq, n > 0
}

// identityRequest: the *http.Request a call of getIdentity concerns -- its
// request argument, or the request whose RemoteAddr (and Context) it is handed.
func identityRequest(call *ssa.Call) ssa.Value {
	isReq := func(t types.Type) bool { return eng.IsNamed(t, "net/http", "Request") }
	var rq ssa.Value
	set := func(v ssa.Value) bool {
		if rq != nil && eng.OriginX(rq) != eng.OriginX(v) {
			return false
		}
		rq = v
		return true
	}
	for _, a := range call.Call.Args {
		switch {
		case isReq(a.Type()):
			if !set(a) {
				return nil
			}
		case isStringType(a.Type()):
			fr, base, isF := eng.LoadedField(a)
			if !isF || fr.Name != "RemoteAddr" || !isReq(base.Type()) || !set(base) {
				return nil
			}
		case eng.IsNamed(a.Type(), "context", "Context"):
			cc, _ := eng.TupleCall(a)
			if cc == nil || !eng.CalleeIs(&cc.Call, "net/http", "*Request.Context") || !set(cc.Call.Args[0]) {
				return nil
			}
		}
	}
	return rq
}

// isRequestAddr: inside getIdentity, v is the RemoteAddr of the request being
// served: r.RemoteAddr of its request parameter, or its address parameter
// (every caller hands it some request's own RemoteAddr: identityRequest).
func isRequestAddr(getIdentity *ssa.Function, v ssa.Value) bool {
	if fr, base, ok := eng.LoadedField(v); ok && fr.Name == "RemoteAddr" {
		for _, prm := range getIdentity.Params {
			if eng.IsNamed(prm.Type(), "net/http", "Request") && eng.OriginX(base) == eng.OriginX(prm) {
				return true
			}
		}
		return false
	}
	prm, isP := eng.OriginX(v).(*ssa.Parameter)
	if !isP || prm.Parent() != getIdentity || !isStringType(prm.Type()) {
		return false
	}
	sites := eng.StaticCallSites(getIdentity)
	for _, cs := range sites {
		call, isCall := cs.(*ssa.Call)
		if !isCall || identityRequest(call) == nil {
			return false
		}
	}
	return len(sites) > 0
}

// handlerFactory: h does nothing but return a function literal (w, r) whose
// body is a single serveJSON call serving its own w and r with h's
// function-typed parameter #idx as the handler function.  A literal handed
// to h at #idx is handed to serveJSON for every request the result serves.
func handlerFactory(h *ssa.Function) (lit *ssa.Function, idx int, ok bool) {
	if h == nil || h.Blocks == nil || len(h.AnonFuncs) != 1 {
		return nil, 0, false
	}
	lit = h.AnonFuncs[0]
	bad := false
	eng.Instrs(h, func(in ssa.Instruction) {
		switch x := in.(type) {
		case *ssa.Return:
			if len(x.Results) != 1 {
				bad = true
				return
			}
			v := eng.Origin(x.Results[0])
			if ct, isCT := v.(*ssa.ChangeType); isCT {
				v = eng.Origin(ct.X)
			}
			if mc, isMC := v.(*ssa.MakeClosure); !isMC || mc.Fn != ssa.Value(lit) || len(x.Results) != 1 {
				bad = true
			}
		case ssa.CallInstruction:
			bad = true
		}
	})
	if bad || len(lit.Params) != 2 {
		return nil, 0, false
	}
	var sjc ssa.CallInstruction
	n := 0
	eng.Instrs(lit, func(in ssa.Instruction) {
		if ci, isC := in.(ssa.CallInstruction); isC {
			n++
			sjc = ci
		}
	})
	if n != 1 {
		return nil, 0, false
	}
	if _, isCall := sjc.(*ssa.Call); !isCall {
		return nil, 0, false
	}
	cal := eng.Callee(sjc.Common())
	if cal == nil {
		return nil, 0, false
	}
	o := cal
	if cal.Origin() != nil {
		o = cal.Origin()
	}
	a := sjc.Common().Args
	if !eng.FuncIs(o, "server", "serveJSON") || len(a) != 4 || eng.Origin(a[1]) != ssa.Value(lit.Params[0]) || eng.Origin(a[2]) != ssa.Value(lit.Params[1]) {
		return nil, 0, false
	}
	prm, isP := eng.Origin(a[3]).(*ssa.Parameter)
	if !isP || prm.Parent() != h {
		return nil, 0, false
	}
	for i, q := range h.Params {
		if q == prm {
			return lit, i, true
		}
	}
	return nil, 0, false
}

// onlyKeysLeave: in reads a map (a load, or the address it is loaded from)
// and every use of the loaded map hands out its keys only: maps.Keys, len, or
// a range loop whose value variable is unused.
func onlyKeysLeave(in ssa.Instruction) bool {
	var loads []ssa.Value
	switch x := in.(type) {
	case *ssa.UnOp:
		loads = append(loads, x)
	case *ssa.FieldAddr:
		for _, r := range *x.Referrers() {
			if u, ok := r.(*ssa.UnOp); ok && u.Op == token.MUL {
				loads = append(loads, u)
			} else if _, isDbg := r.(*ssa.DebugRef); !isDbg {
				return false
			}
		}
	default:
		return false
	}
	if len(loads) == 0 {
		return false
	}
	for _, v := range loads {
		if _, isMap := v.Type().Underlying().(*types.Map); !isMap || v.Referrers() == nil {
			return false
		}
		for _, r := range *v.Referrers() {
			switch u := r.(type) {
			case *ssa.DebugRef:
			case *ssa.Call:
				if args, isLen := eng.BuiltinCall(u, "len"); isLen && len(args) == 1 {
					continue
				}
				cal := u.Call.StaticCallee()
				if cal == nil {
					return false
				}
				o := cal
				if cal.Origin() != nil {
					o = cal.Origin()
				}
				if o.Pkg == nil || o.Pkg.Pkg.Path() != "maps" || o.Name() != "Keys" {
					return false
				}
			case *ssa.Range:
				for _, nx := range *u.Referrers() {
					n, isNext := nx.(*ssa.Next)
					if !isNext {
						return false
					}
					for _, ex := range *n.Referrers() {
						if e, isEx := ex.(*ssa.Extract); isEx && e.Index == 2 && e.Referrers() != nil {
							for _, rr := range *e.Referrers() {
								if _, isDbg := rr.(*ssa.DebugRef); !isDbg {
									return false
								}
							}
						}
					}
				}
			default:
				return false
			}
		}
	}
	return true
}
