package rules

import (
	"golang.org/x/tools/go/ssa"

	"setecvet/eng"
)

// errReply is an HTTP error answer at the place that decides its text and
// status: an http.Error / WriteHeader call, or -- when the text or status are
// parameters of a module helper wrapping such a call -- the helper's call
// site, with the arguments substituted.
type errReply struct {
	Fn   *ssa.Function
	In   ssa.Instruction
	Text ssa.Value // nil for a bare WriteHeader
	Code ssa.Value
	Via  string // "" or the helper chain
}

func errReplies(p *eng.Prog, pkg string) []errReply {
	g := p.CallGraph()
	var out []errReply
	seen := map[ssa.Instruction]bool{}
	var expand func(r errReply, depth int)
	expand = func(r errReply, depth int) {
		paramIdx := func(v ssa.Value) int {
			if v == nil {
				return -1
			}
			prm, ok := eng.Origin(v).(*ssa.Parameter)
			if !ok || prm.Parent() != r.Fn {
				return -1
			}
			for i, q := range r.Fn.Params {
				if q == prm {
					return i
				}
			}
			return -1
		}
		ti, ci := paramIdx(r.Text), paramIdx(r.Code)
		if (ti < 0 && ci < 0) || depth > 3 || r.Fn.Parent() != nil {
			if !seen[r.In] {
				seen[r.In] = true
				out = append(out, r)
			}
			return
		}
		n := 0
		for _, e := range g.CallersOf(r.Fn) {
			ci2, ok := e.Site.(ssa.CallInstruction)
			if !ok || e.Kind != "static" || len(ci2.Common().Args) != len(r.Fn.Params) {
				continue
			}
			n++
			nr := errReply{Fn: e.Caller, In: e.Site, Text: r.Text, Code: r.Code, Via: r.Fn.Name() + " " + r.Via}
			if ti >= 0 {
				nr.Text = ci2.Common().Args[ti]
			}
			if ci >= 0 {
				nr.Code = ci2.Common().Args[ci]
			}
			expand(nr, depth+1)
		}
		if n == 0 && !seen[r.In] {
			seen[r.In] = true
			out = append(out, r)
		}
	}
	for _, f := range p.PkgFuncs(pkg) {
		eng.Instrs(f, func(in ssa.Instruction) {
			call, ok := in.(*ssa.Call)
			if !ok {
				return
			}
			switch {
			case eng.CalleeIs(&call.Call, "net/http", "Error"):
				expand(errReply{Fn: f, In: in, Text: call.Call.Args[1], Code: call.Call.Args[2]}, 0)
			case call.Call.IsInvoke() && call.Call.Method.Name() == "WriteHeader":
				expand(errReply{Fn: f, In: in, Code: call.Call.Args[0]}, 0)
			}
		})
	}
	return out
}

// errReplyIn returns the error answer issued by instruction in, if any.
func errReplyIn(rs []errReply, in ssa.Instruction) (errReply, bool) {
	for _, r := range rs {
		if r.In == in {
			return r, true
		}
	}
	return errReply{}, false
}
